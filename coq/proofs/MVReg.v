(** MVReg, parts B-D: the refinement lemmas (state = causally maximal writes of
    the knowledge set, up to permutation, under ANY delivery order), the
    instantiation of the replicated-system framework, [hist_ok → mvwfH], and
    the property-level corollaries about [mvread]. *)
From Crdt Require Import model.MVReg spec.System spec.OrswotSpec spec.Specs spec.MVRegSystem
  proofs.VClock proofs.OrswotLayer proofs.MVRegHb.
From Coq Require Import ZifyBool ZifyN.
Local Open Scope N_scope.

(** * stdlib [List.filter] / [forallb] through [∈] *)
Lemma elem_of_lfilter {A} (f : A → bool) l x : x ∈ List.filter f l ↔ x ∈ l ∧ f x = true.
Proof. rewrite !elem_of_list_In. apply filter_In. Qed.
Lemma forallb_elem {A} (f : A → bool) l : forallb f l = true ↔ ∀ x, x ∈ l → f x = true.
Proof. rewrite forallb_forall. by setoid_rewrite elem_of_list_In. Qed.
Lemma forallb_false_elem {A} (f : A → bool) l : forallb f l = false → ∃ x, x ∈ l ∧ f x = false.
Proof.
  induction l as [|a l IH]; simpl; [done|]. destruct (f a) eqn:E; simpl.
  - intros (x & Hin & Hx)%IH. exists x. split; [by right|done].
  - intros _. exists a. split; [by left|done].
Qed.
Lemma forallb_ext_elem {A} (f : A → bool) l l' : (∀ x, x ∈ l ↔ x ∈ l') → forallb f l = forallb f l'.
Proof.
  intros Hl. apply eq_true_iff_eq. rewrite !forallb_elem. by setoid_rewrite Hl.
Qed.
Lemma NoDup_lfilter {A} (f : A → bool) l : NoDup l → NoDup (List.filter f l).
Proof.
  induction 1 as [|x l Hx Hl IH]; simpl; [constructor|].
  destruct (f x); [|done]. constructor; [|done]. rewrite elem_of_lfilter. by intros [? _].
Qed.
Lemma lfilter_Permutation {A} (f : A → bool) l l' : l ≡ₚ l' → List.filter f l ≡ₚ List.filter f l'.
Proof.
  induction 1 as [|x l l' Hp IH|x y l|l l' l'' _ IH1 _ IH2]; simpl.
  - done.
  - destruct (f x); [by constructor|done].
  - destruct (f x), (f y); try done. apply perm_swap.
  - by etrans.
Qed.
Lemma lfilter_ext_elem {A} (f g : A → bool) l : (∀ x, x ∈ l → f x = g x) → List.filter f l = List.filter g l.
Proof. intros Hx. apply filter_ext_in. intros a Ha%elem_of_list_In. by apply Hx. Qed.

(** * [mvapply] and [mvmerge] respect permutation (unconditionally) *)
Lemma mvapply_proper s s' o : s ≡ₚ s' → mvapply s o ≡ₚ mvapply s' o.
Proof.
  intros Hp. destruct o as [c v]. unfold mvapply. destruct (vis_empty c); [done|].
  set (f := λ p : gmap N N * N, match vcmp p.1 c with None | Some Gt => true | _ => false end).
  assert (List.filter f s ≡ₚ List.filter f s') as Hk by (by apply lfilter_Permutation).
  rewrite (forallb_ext_elem _ (List.filter f s) (List.filter f s')) by (intros x; by rewrite Hk).
  destruct (forallb _ _); [by apply Permutation_app_tail|done].
Qed.
Lemma mvmerge_proper s1 s1' s2 s2' : s1 ≡ₚ s1' → s2 ≡ₚ s2' → mvmerge s1 s2 ≡ₚ mvmerge s1' s2'.
Proof.
  intros H1 H2. unfold mvmerge.
  set (F := λ (o : list (gmap N N * N)) (p : gmap N N * N), forallb (λ q : gmap N N * N, negb (vlt p.1 q.1)) o).
  set (G := λ (t : list (gmap N N * N)) (p : gmap N N * N),
              forallb (λ q : gmap N N * N, negb (vlt p.1 q.1)) t
              && forallb (λ q : gmap N N * N, negb (bool_decide (p.1 = q.1))) t).
  change (List.filter (F s2) s1 ++ List.filter (G (List.filter (F s2) s1)) s2
          ≡ₚ List.filter (F s2') s1' ++ List.filter (G (List.filter (F s2') s1')) s2').
  assert (List.filter (F s2) s1 ≡ₚ List.filter (F s2') s1') as Hs1.
  { rewrite (lfilter_ext_elem (F s2) (F s2') s1).
    - by apply lfilter_Permutation.
    - intros x _. unfold F. apply forallb_ext_elem. intros y. by rewrite H2. }
  apply Permutation_app; [done|].
  rewrite (lfilter_ext_elem (G (List.filter (F s2) s1)) (G (List.filter (F s2') s1')) s2).
  - by apply lfilter_Permutation.
  - intros x _. unfold G. f_equal; apply forallb_ext_elem; intros y; by rewrite Hs1.
Qed.

(** * the strict order on well-formed clocks *)
Lemma vlt_irrefl a : vlt a a = false.
Proof. unfold vlt. assert (vcmp a a = Some Eq) as -> by (by apply vcmp_Eq). done. Qed.
Lemma vlt_vleq_trans a b c :
  vwf a → vwf b → vwf c → vlt a b = true → vleq b c → vlt a c = true.
Proof.
  intros Ha Hb Hc [H1 Hne]%vlt_spec H2; [|done..]. apply vlt_spec; [done..|].
  split; [by eapply vleq_trans|]. intros ->. apply Hne. by apply vleq_antisym.
Qed.
Lemma vleq_vlt_trans a b c :
  vwf a → vwf b → vwf c → vleq a b → vlt b c = true → vlt a c = true.
Proof.
  intros Ha Hb Hc H1 [H2 Hne]%vlt_spec; [|done..]. apply vlt_spec; [done..|].
  split; [by eapply vleq_trans|]. intros ->. apply Hne. by apply vleq_antisym.
Qed.
Lemma vlt_false_of_not_le a b : vwf a → vwf b → ¬ vleq a b → vlt a b = false.
Proof. intros Ha Hb Hn. apply not_true_iff_false. intros [? _]%vlt_spec; done. Qed.

(** the "retain" test of [apply] is [¬ (p ≤ c)] *)
Lemma retain_spec (a c : gmap N N) :
  vwf a → vwf c →
  (match vcmp a c with None | Some Gt => true | _ => false end) = true ↔ ¬ vleq a c.
Proof.
  intros Ha Hc. rewrite <- vle_spec by done. unfold vle. destruct (vcmp a c) as [[]|]; split; congruence.
Qed.

(** * causally maximal elements of a "good" list of writes *)
Lemma elem_of_mv_maximal W p :
  p ∈ mv_maximal W ↔ p ∈ W ∧ vis_empty p.1 = false ∧ ∀ q, q ∈ W → vlt p.1 q.1 = false.
Proof.
  unfold mv_maximal. rewrite elem_of_lfilter, andb_true_iff, negb_true_iff, forallb_elem.
  setoid_rewrite negb_true_iff. tauto.
Qed.
Lemma mv_maximal_sub W p : p ∈ mv_maximal W → p ∈ W.
Proof. rewrite elem_of_mv_maximal. tauto. Qed.

Record good (W : list (gmap N N * N)) : Prop := {
  good_nodup : NoDup W;
  good_wf p : p ∈ W → vwf p.1;
  good_ne p : p ∈ W → vis_empty p.1 = false;
  good_inj p q : p ∈ W → q ∈ W → p.1 = q.1 → p = q;
  good_up p : p ∈ W → ∃ q, q ∈ mv_maximal W ∧ vleq p.1 q.1 }.

Lemma NoDup_mv_maximal W : NoDup W → NoDup (mv_maximal W).
Proof. apply NoDup_lfilter. Qed.

(** ** apply *)
Lemma mv_apply_maximal W W' c v :
  good W → good W' → (∀ p, p ∈ W' ↔ p ∈ W ∨ p = (c, v)) →
  mvapply (mv_maximal W) (MVPut c v) ≡ₚ mv_maximal W'.
Proof.
  intros GW GW' HW'.
  assert ((c, v) ∈ W') as Hcv by (apply HW'; by right).
  assert (vwf c) as Hc by apply (good_wf _ GW' _ Hcv).
  assert (∀ p, p ∈ W → p ∈ W') as Hsub by (intros p ?; apply HW'; by left).
  assert (∀ p, p ∈ W' → vwf p.1) as Hwf' by apply (good_wf _ GW').
  assert (∀ p, p ∈ W → vwf p.1) as Hwf by apply (good_wf _ GW).
  pose proof (good_ne _ GW' _ Hcv) as Hcne. cbn [fst] in Hcne.
  unfold mvapply. rewrite Hcne.
  set (f := λ p : gmap N N * N, match vcmp p.1 c with None | Some Gt => true | _ => false end).
  set (kept := List.filter f (mv_maximal W)).
  assert (∀ x, x ∈ kept ↔ x ∈ mv_maximal W ∧ ¬ vleq x.1 c) as Hkept.
  { intros x. unfold kept. rewrite elem_of_lfilter. split.
    - intros [Hx Hf]. split; [done|]. apply retain_spec; [|done..]. by apply Hwf, mv_maximal_sub.
    - intros [Hx Hf]. split; [done|]. apply retain_spec; [|done..]. by apply Hwf, mv_maximal_sub. }
  (* F1 *)
  assert (∀ x, x ∈ kept → x ∈ mv_maximal W') as F1.
  { intros x [Hx Hn]%Hkept. apply elem_of_mv_maximal in Hx as (HxW & Hne & Hmax).
    apply elem_of_mv_maximal. split; [by apply Hsub|]. split; [done|].
    intros q [Hq| ->]%HW'; [by apply Hmax|]. apply vlt_false_of_not_le; [by apply Hwf|done|done]. }
  (* F2 *)
  assert (∀ x, x ∈ mv_maximal W' → x ∈ kept ∨ x = (c, v)) as F2.
  { intros x (HxW' & Hne & Hmax)%elem_of_mv_maximal.
    destruct (vle x.1 c) eqn:Hle.
    - right. apply vle_spec in Hle; [|by apply Hwf'|done].
      apply (good_inj _ GW'); [done..|]. cbn [fst].
      destruct (decide (x.1 = c)) as [|Hne']; [done|].
      assert (vlt x.1 c = true) as Hlt by (apply vlt_spec; [by apply Hwf'|done|done]).
      pose proof (Hmax _ Hcv) as Hm. cbn [fst] in Hm. congruence.
    - assert (¬ vleq x.1 c) as Hn.
      { intros Hx. apply vle_spec in Hx; [congruence|by apply Hwf'|done]. }
      apply HW' in HxW' as [HxW| ->]; [|destruct Hn; apply vleq_refl].
      left. apply Hkept. split; [|done]. apply elem_of_mv_maximal. split; [done|]. split; [done|].
      intros q Hq. by apply Hmax, Hsub. }
  destruct (forallb (λ p : gmap N N * N, negb (vgt p.1 c)) kept) eqn:EB.
  - (* nothing kept dominates the op: it is maximal *)
    assert (∀ p, p ∈ kept → vgt p.1 c = false) as HB.
    { intros p Hp. apply negb_true_iff. revert p Hp. by apply forallb_elem. }
    assert ((c, v) ∈ mv_maximal W') as F3.
    { apply elem_of_mv_maximal. split; [done|]. split; [by apply (good_ne _ GW')|]. cbn [fst].
      intros q Hq. apply not_true_iff_false. intros Hlt.
      apply HW' in Hq as [Hq| ->]; [|by rewrite vlt_irrefl in Hlt].
      destruct (good_up _ GW _ Hq) as (q' & Hq' & Hle).
      pose proof (mv_maximal_sub _ _ Hq') as Hq'W.
      assert (vlt c q'.1 = true) as Hlt' by (eapply vlt_vleq_trans; [| | |exact Hlt|exact Hle]; auto).
      apply vlt_spec in Hlt' as [Hle' Hne']; [|by auto..].
      assert (q' ∈ kept) as Hk.
      { apply Hkept. split; [done|]. intros Hx. apply Hne'. apply vleq_antisym; auto. }
      specialize (HB _ Hk). apply not_true_iff_false in HB. apply HB.
      apply vgt_spec; [by auto..|]. split; [done|]. congruence. }
    apply NoDup_Permutation.
    + apply NoDup_app. split; [apply NoDup_lfilter, NoDup_mv_maximal, (good_nodup _ GW)|].
      split; [|apply NoDup_singleton].
      intros x [_ Hn]%Hkept ->%elem_of_list_singleton. apply Hn, vleq_refl.
    + apply NoDup_mv_maximal, (good_nodup _ GW').
    + intros x. rewrite elem_of_app, elem_of_list_singleton. split.
      * intros [Hx| ->]; [by apply F1|done].
      * apply F2.
  - (* some kept element dominates the op: it is not maximal *)
    apply forallb_false_elem in EB as (p & Hp & Hgt). apply negb_false_iff in Hgt.
    apply NoDup_Permutation.
    + apply NoDup_lfilter, NoDup_mv_maximal, (good_nodup _ GW).
    + apply NoDup_mv_maximal, (good_nodup _ GW').
    + intros x. split; [apply F1|]. intros Hx. destruct (F2 _ Hx) as [?| ->]; [done|].
      exfalso. apply elem_of_mv_maximal in Hx as (_ & _ & Hmax).
      pose proof (F1 _ Hp) as Hp'%mv_maximal_sub.
      specialize (Hmax _ Hp'). cbn [fst] in Hmax. apply not_true_iff_false in Hmax. apply Hmax.
      apply vgt_spec in Hgt as [Hle Hne]; [|by auto..]. apply vlt_spec; [by auto..|]. split; [done|congruence].
Qed.

(** ** merge *)
Lemma mv_merge_maximal W1 W2 W12 :
  good W1 → good W2 → good W12 → (∀ p, p ∈ W12 ↔ p ∈ W1 ∨ p ∈ W2) →
  mvmerge (mv_maximal W1) (mv_maximal W2) ≡ₚ mv_maximal W12.
Proof.
  intros G1 G2 G12 HW.
  assert (∀ p, p ∈ W1 → p ∈ W12) as Hsub1 by (intros p ?; apply HW; by left).
  assert (∀ p, p ∈ W2 → p ∈ W12) as Hsub2 by (intros p ?; apply HW; by right).
  assert (∀ p, p ∈ W12 → vwf p.1) as Hwf by apply (good_wf _ G12).
  unfold mvmerge.
  set (s1 := List.filter (λ p : gmap N N * N,
                forallb (λ q : gmap N N * N, negb (vlt p.1 q.1)) (mv_maximal W2)) (mv_maximal W1)).
  assert (∀ x, x ∈ s1 ↔ x ∈ W1 ∧ x ∈ mv_maximal W12) as S1.
  { intros x. unfold s1. rewrite elem_of_lfilter, forallb_elem. setoid_rewrite negb_true_iff. split.
    - intros [(HxW & Hne & Hmax)%elem_of_mv_maximal Hmax2]. split; [done|].
      apply elem_of_mv_maximal. split; [by apply Hsub1|]. split; [done|].
      intros q [Hq|Hq]%HW; [by apply Hmax|].
      apply not_true_iff_false. intros Hlt.
      destruct (good_up _ G2 _ Hq) as (q' & Hq' & Hle).
      pose proof (mv_maximal_sub _ _ Hq') as Hq'W.
      assert (vlt x.1 q'.1 = true) as Hlt' by (eapply vlt_vleq_trans; [| | |exact Hlt|exact Hle]; auto).
      by rewrite (Hmax2 _ Hq') in Hlt'.
    - intros [HxW (_ & Hne & Hmax)%elem_of_mv_maximal]. split.
      + apply elem_of_mv_maximal. split; [done|]. split; [done|]. intros q Hq. by apply Hmax, Hsub1.
      + intros q Hq%mv_maximal_sub. by apply Hmax, Hsub2. }
  set (t := List.filter (λ p : gmap N N * N,
               forallb (λ q : gmap N N * N, negb (vlt p.1 q.1)) s1
               && forallb (λ q : gmap N N * N, negb (bool_decide (p.1 = q.1))) s1) (mv_maximal W2)).
  assert (∀ x, x ∈ t ↔ x ∈ mv_maximal W12 ∧ x ∉ W1) as T.
  { intros x. unfold t. rewrite elem_of_lfilter, andb_true_iff, !forallb_elem. split.
    - intros [(HxW & Hne & Hmax)%elem_of_mv_maximal [Hlt1 Hne1]].
      assert (x ∈ mv_maximal W12) as Hx12.
      { apply elem_of_mv_maximal. split; [by apply Hsub2|]. split; [done|].
        intros q [Hq|Hq]%HW; [|by apply Hmax].
        apply not_true_iff_false. intros Hlt.
        destruct (good_up _ G1 _ Hq) as (q' & Hq' & Hle).
        pose proof (mv_maximal_sub _ _ Hq') as Hq'W.
        assert (vlt x.1 q'.1 = true) as Hlt' by (eapply vlt_vleq_trans; [| | |exact Hlt|exact Hle]; auto).
        assert (q' ∈ s1) as Hq's.
        { apply S1. split; [done|]. apply elem_of_mv_maximal. split; [by apply Hsub1|].
          split; [by apply (good_ne _ G1)|].
          intros r [Hr|Hr]%HW.
          - apply elem_of_mv_maximal in Hq' as (_ & _ & Hm). by apply Hm.
          - apply not_true_iff_false. intros Hlt2.
            assert (vlt x.1 r.1 = true) as Hlt3.
            { apply vlt_spec in Hlt2 as [Hle2 _]; [|by auto..].
              eapply vlt_vleq_trans; [| | |exact Hlt'|exact Hle2]; auto. }
            by rewrite (Hmax _ Hr) in Hlt3. }
        specialize (Hlt1 _ Hq's). apply negb_true_iff in Hlt1. congruence. }
      split; [done|]. intros HxW1.
      assert (x ∈ s1) as Hxs by (by apply S1).
      specialize (Hne1 _ Hxs). apply negb_true_iff, bool_decide_eq_false in Hne1. done.
    - intros [Hx12 HxW1]. pose proof Hx12 as (HxW & Hne & Hmax)%elem_of_mv_maximal.
      apply HW in HxW as [?|HxW]; [done|]. split.
      + apply elem_of_mv_maximal. split; [done|]. split; [done|]. intros q Hq. by apply Hmax, Hsub2.
      + split.
        * intros q [Hq _]%S1. apply negb_true_iff. by apply Hmax, Hsub1.
        * intros q [Hq _]%S1. apply negb_true_iff, bool_decide_eq_false. intros E.
          apply HxW1. rewrite (good_inj _ G12 x q); [done|by apply Hsub2|by apply Hsub1|done]. }
  apply NoDup_Permutation.
  - apply NoDup_app. split; [apply NoDup_lfilter, NoDup_mv_maximal, (good_nodup _ G1)|].
    split; [|apply NoDup_lfilter, NoDup_mv_maximal, (good_nodup _ G2)].
    intros x [Hx _]%S1 [_ Hn]%T. done.
  - apply NoDup_mv_maximal, (good_nodup _ G12).
  - intros x. rewrite elem_of_app, S1, T. split; [tauto|]. intros Hx.
    destruct (decide (x ∈ W1)); tauto.
Qed.

(** * the writes of a knowledge set form a good list *)
Definition mvop_pair (o : mvop) : gmap N N * N := match o with MVPut c v => (c, v) end.
Lemma mvop_pair_clock o : (mvop_pair o).1 = mvop_clock o.
Proof. by destruct o. Qed.

Lemma elem_of_mv_writes H K p :
  p ∈ mv_writes (known_ops H K) ↔ ∃ i r, H !! i = Some r ∧ i ∈ K ∧ p = mvop_pair (op_val r).
Proof.
  unfold mv_writes. rewrite elem_of_remove_dups, elem_of_list_fmap. split.
  - intros (o & -> & (i & r & Hl & Hi & <-)%elem_of_known_ops). by exists i, r.
  - intros (i & r & Hl & Hi & ->). exists (op_val r). split; [done|]. apply elem_of_known_ops. by exists i, r.
Qed.

Section spec.
  Context (H : list (oprec mvop)) (HH : mvwfH H).

  Lemma pair_clock i r : H !! i = Some r → (mvop_pair (op_val r)).1 = hclock H i.
  Proof. intros Hl. by rewrite mvop_pair_clock, (hclock_Some _ _ _ Hl). Qed.

  Lemma writes_up K n i r :
    (length H - i ≤ n)%nat → H !! i = Some r → i ∈ K →
    ∃ q, q ∈ mv_maximal (mv_writes (known_ops H K)) ∧ vleq (hclock H i) q.1.
  Proof.
    revert i r. induction n as [|n IH]; intros i r Hn Hl Hi.
    { apply lookup_lt_Some in Hl. lia. }
    set (W := mv_writes (known_ops H K)).
    assert (mvop_pair (op_val r) ∈ W) as HpW by (apply elem_of_mv_writes; by exists i, r).
    destruct (forallb (λ q : gmap N N * N, negb (vlt (hclock H i) q.1)) W) eqn:EB.
    - exists (mvop_pair (op_val r)). rewrite (pair_clock _ _ Hl). split; [|apply vleq_refl].
      apply elem_of_mv_maximal. split; [done|]. rewrite (pair_clock _ _ Hl).
      split; [by eapply hclock_not_empty|].
      intros q Hq. apply negb_true_iff. revert q Hq. by apply forallb_elem.
    - apply forallb_false_elem in EB as (q & Hq & Hlt). apply negb_false_iff in Hlt.
      apply elem_of_mv_writes in Hq as (j & rj & Hlj & Hj & ->). rewrite (pair_clock _ _ Hlj) in Hlt.
      apply clock_hb_lt in Hlt; [|done|by exists rj|by exists r].
      pose proof (mvhb_lt _ HH _ _ Hlt) as Hij. pose proof (lookup_lt_Some _ _ _ Hlj).
      destruct (IH j rj) as (q' & Hq' & Hle); [lia|done|done|].
      exists q'. split; [done|]. eapply vleq_trans; [by apply mvhb_le|done].
  Qed.

  Lemma writes_good K : good (mv_writes (known_ops H K)).
  Proof.
    split.
    - apply NoDup_remove_dups.
    - intros p (i & r & Hl & Hi & ->)%elem_of_mv_writes. rewrite (pair_clock _ _ Hl). by apply hclock_wf.
    - intros p (i & r & Hl & Hi & ->)%elem_of_mv_writes. rewrite (pair_clock _ _ Hl). by eapply hclock_not_empty.
    - intros p q (i & r & Hl & Hi & ->)%elem_of_mv_writes (j & rj & Hlj & Hj & ->)%elem_of_mv_writes.
      rewrite (pair_clock _ _ Hl), (pair_clock _ _ Hlj). intros E%hclock_inj; [|done|by exists r|by exists rj].
      subst j. congruence.
    - intros p (i & r & Hl & Hi & ->)%elem_of_mv_writes. rewrite (pair_clock _ _ Hl).
      by eapply (writes_up K (length H - i)).
  Qed.

  (** membership in the specification, in terms of happened-before *)
  Lemma elem_of_mvspec K p :
    p ∈ mvspec H K ↔
    ∃ i r, H !! i = Some r ∧ i ∈ K ∧ p = mvop_pair (op_val r) ∧ ∀ j, j ∈ K → ¬ mvhb H i j.
  Proof.
    unfold mvspec. rewrite elem_of_mv_maximal. split.
    - intros ((i & r & Hl & Hi & ->)%elem_of_mv_writes & _ & Hmax). exists i, r. split_and!; [done..|].
      intros j Hj Hhb. destruct (mvhb_Some_r _ _ _ Hhb) as [rj Hlj].
      assert (mvop_pair (op_val rj) ∈ mv_writes (known_ops H K)) as Hq by (apply elem_of_mv_writes; by exists j, rj).
      specialize (Hmax _ Hq). rewrite (pair_clock _ _ Hl), (pair_clock _ _ Hlj) in Hmax.
      apply not_true_iff_false in Hmax. apply Hmax. apply clock_hb_lt; [done|by exists rj|by exists r|done].
    - intros (i & r & Hl & Hi & -> & Hmax). split; [apply elem_of_mv_writes; by exists i, r|].
      rewrite (pair_clock _ _ Hl). split; [by eapply hclock_not_empty|].
      intros q (j & rj & Hlj & Hj & ->)%elem_of_mv_writes. rewrite (pair_clock _ _ Hlj).
      apply not_true_iff_false. intros Hlt%clock_hb_lt; [|done|by exists rj|by exists r]. by apply (Hmax j).
  Qed.
  Lemma NoDup_mvspec K : NoDup (mvspec H K).
  Proof. apply NoDup_mv_maximal, NoDup_remove_dups. Qed.

  (** L1 and L2, for any delivery order *)
  Lemma mv_L1 K i r :
    mvvalid H K → H !! i = Some r → mvapply (mvspec H K) (op_val r) ≡ₚ mvspec H (K ∪ {[i]}).
  Proof.
    intros _ Hl. destruct (op_val r) as [c v] eqn:Eo.
    apply mv_apply_maximal; [apply writes_good..|].
    intros p. rewrite !elem_of_mv_writes. split.
    - intros (j & rj & Hlj & [Hj| ->%elem_of_singleton]%elem_of_union & ->).
      + left. by exists j, rj.
      + right. rewrite Hl in Hlj. injection Hlj as <-. by rewrite Eo.
    - intros [(j & rj & Hlj & Hj & ->)| ->].
      + exists j, rj. split; [done|]. split; [set_solver|done].
      + exists i, r. split; [done|]. split; [set_solver|]. by rewrite Eo.
  Qed.
  Lemma mv_L2 K1 K2 :
    mvvalid H K1 → mvvalid H K2 → mvmerge (mvspec H K1) (mvspec H K2) ≡ₚ mvspec H (K1 ∪ K2).
  Proof.
    intros _ _. apply mv_merge_maximal; [apply writes_good..|].
    intros p. rewrite !elem_of_mv_writes. split.
    - intros (j & rj & Hlj & [Hj|Hj]%elem_of_union & ->); [left|right]; by exists j, rj.
    - intros [(j & rj & Hlj & Hj & ->)|(j & rj & Hlj & Hj & ->)]; exists j, rj; (split; [done|]); (split; [set_solver|done]).
  Qed.
End spec.

(** * the framework instance *)
Notation mvreach := (reach (St := list (gmap N N * N)) [] mvapply mvmerge adm_any True).
Notation mvhist_ok := (hist_ok (St := list (gmap N N * N)) [] mvapply mvmerge mvgen adm_any True).

Lemma mv_spec_init H : [] ≡ₚ mvspec H ∅.
Proof. unfold mvspec. by rewrite known_ops_empty. Qed.
Lemma mvvalid_empty H : mvvalid H ∅.
Proof. intros i Hi. set_solver. Qed.
Lemma mvvalid_step H K i : mvwfH H → mvvalid H K → adm_any H K i → mvvalid H (K ∪ {[i]}).
Proof. intros _ HK Ha j [Hj| ->%elem_of_singleton]%elem_of_union; [by apply HK|done]. Qed.
Lemma mvvalid_union H K1 K2 : mvvalid H K1 → mvvalid H K2 → mvvalid H (K1 ∪ K2).
Proof. intros H1 H2 j [Hj|Hj]%elem_of_union; [by apply H1|by apply H2]. Qed.
Lemma mv_L1' H K i o :
  mvwfH H → mvvalid H K → adm_any H K i → H !! i = Some o →
  mvapply (mvspec H K) (op_val o) ≡ₚ mvspec H (K ∪ {[i]}).
Proof. intros HH HK _ Hl. by apply mv_L1. Qed.
Lemma mv_L2' H K1 K2 :
  True → mvwfH H → mvvalid H K1 → mvvalid H K2 →
  mvmerge (mvspec H K1) (mvspec H K2) ≡ₚ mvspec H (K1 ∪ K2).
Proof. intros _ HH H1 H2. by apply mv_L2. Qed.

(** every reachable state is (a permutation of) the causally maximal writes it has learned *)
Theorem mv_reach_spec H s K : mvwfH H → mvreach H s K → s ≡ₚ mvspec H K ∧ mvvalid H K.
Proof.
  apply (reach_spec (≡ₚ) [] mvapply mvmerge adm_any True mvspec mvwfH mvvalid
           mvapply_proper mvmerge_proper mv_spec_init mvvalid_empty mvvalid_step mvvalid_union mv_L1' mv_L2').
Qed.
Corollary mv_converge H s1 s2 K : mvwfH H → mvreach H s1 K → mvreach H s2 K → s1 ≡ₚ s2.
Proof.
  apply (converge (≡ₚ) [] mvapply mvmerge adm_any True mvspec mvwfH mvvalid
           mvapply_proper mvmerge_proper mv_spec_init mvvalid_empty mvvalid_step mvvalid_union mv_L1' mv_L2').
Qed.
Corollary mv_merge_is_union H s1 K1 s2 K2 s K :
  mvwfH H → mvreach H s1 K1 → mvreach H s2 K2 → mvreach H s K → K = K1 ∪ K2 → mvmerge s1 s2 ≡ₚ s.
Proof.
  intros HH. apply (merge_is_union (≡ₚ) [] mvapply mvmerge adm_any True mvspec mvwfH mvvalid
           mvapply_proper mvmerge_proper mv_spec_init mvvalid_empty mvvalid_step mvvalid_union mv_L1' mv_L2'); done.
Qed.
Corollary mv_merge_comm H s1 K1 s2 K2 :
  mvwfH H → mvreach H s1 K1 → mvreach H s2 K2 → mvmerge s1 s2 ≡ₚ mvmerge s2 s1.
Proof.
  intros HH. apply (merge_comm (≡ₚ) [] mvapply mvmerge adm_any True mvspec mvwfH mvvalid
           mvapply_proper mvmerge_proper mv_spec_init mvvalid_empty mvvalid_step mvvalid_union mv_L1' mv_L2'); done.
Qed.
Corollary mv_merge_assoc H s1 K1 s2 K2 s3 K3 :
  mvwfH H → mvreach H s1 K1 → mvreach H s2 K2 → mvreach H s3 K3 →
  mvmerge (mvmerge s1 s2) s3 ≡ₚ mvmerge s1 (mvmerge s2 s3).
Proof.
  intros HH. apply (merge_assoc (≡ₚ) [] mvapply mvmerge adm_any True mvspec mvwfH mvvalid
           mvapply_proper mvmerge_proper mv_spec_init mvvalid_empty mvvalid_step mvvalid_union mv_L1' mv_L2'); done.
Qed.
Corollary mv_merge_idem H s K : mvwfH H → mvreach H s K → mvmerge s s ≡ₚ s.
Proof.
  intros HH. apply (merge_idem (≡ₚ) [] mvapply mvmerge adm_any True mvspec mvwfH mvvalid
           mvapply_proper mvmerge_proper mv_spec_init mvvalid_empty mvvalid_step mvvalid_union mv_L1' mv_L2'); done.
Qed.
Corollary mv_dup_apply H s K i o :
  mvwfH H → mvreach H s K → H !! i = Some o → i ∈ K → mvapply s (op_val o) ≡ₚ s.
Proof.
  intros HH Hr Hl Hi.
  apply (dup_apply (≡ₚ) [] mvapply mvmerge mvgen adm_any True mvspec mvwfH mvvalid
           mvapply_proper mvmerge_proper mv_spec_init mvvalid_empty mvvalid_step mvvalid_union mv_L1' mv_L2'
           H s K i o); [done..|by exists o|done].
Qed.
Corollary mv_stale_merge H s1 K1 s2 K2 :
  mvwfH H → mvreach H s1 K1 → mvreach H s2 K2 → K2 ⊆ K1 → mvmerge s1 s2 ≡ₚ s1.
Proof.
  intros HH. apply (stale_merge (≡ₚ) [] mvapply mvmerge mvgen adm_any True mvspec mvwfH mvvalid
           mvapply_proper mvmerge_proper mv_spec_init mvvalid_empty mvvalid_step mvvalid_union mv_L1' mv_L2'); done.
Qed.

(** * the clock of a reachable state is the join of everything it has learned *)
Lemma mvclock_join s : mvclock s = foldl vmerge ∅ (fst <$> s).
Proof. unfold mvclock. by rewrite foldl_fmap. Qed.
Lemma mvclock_wf s : (∀ p, p ∈ s → vwf p.1) → vwf (mvclock s).
Proof.
  intros Hs. rewrite mvclock_join. apply vjoin_wf; [apply vwf_empty|].
  intros c (p & -> & Hp)%elem_of_list_fmap. by apply Hs.
Qed.
Lemma mvclock_ub s p : p ∈ s → vleq p.1 (mvclock s).
Proof. intros Hp. rewrite mvclock_join. apply vjoin_ub. by apply elem_of_list_fmap_1. Qed.
Lemma mvclock_least s U : (∀ p, p ∈ s → vleq p.1 U) → vleq (mvclock s) U.
Proof.
  intros Hs. rewrite mvclock_join. apply vjoin_least; [apply vleq_empty|].
  intros c (p & -> & Hp)%elem_of_list_fmap. by apply Hs.
Qed.

Lemma mv_reach_elem H s K p :
  mvwfH H → mvreach H s K →
  p ∈ s ↔ ∃ i r, H !! i = Some r ∧ i ∈ K ∧ p = mvop_pair (op_val r) ∧ ∀ j, j ∈ K → ¬ mvhb H i j.
Proof.
  intros HH Hr. destruct (mv_reach_spec _ _ _ HH Hr) as [Hp _]. rewrite Hp. by apply elem_of_mvspec.
Qed.
Lemma mv_reach_NoDup H s K : mvwfH H → mvreach H s K → NoDup s.
Proof.
  intros HH Hr. destruct (mv_reach_spec _ _ _ HH Hr) as [Hp _]. rewrite Hp. apply NoDup_mvspec.
Qed.
Lemma mv_reach_wf H s K p : mvwfH H → mvreach H s K → p ∈ s → vwf p.1.
Proof.
  intros HH Hr (i & r & Hl & _ & -> & _)%(mv_reach_elem _ _ _ _ HH Hr).
  rewrite (pair_clock _ _ _ Hl). by apply hclock_wf.
Qed.

Theorem mv_reach_clock H s K : mvwfH H → mvreach H s K → mvclock s = deps_clock H K.
Proof.
  intros HH Hr. destruct (mv_reach_spec _ _ _ HH Hr) as [Hp HK].
  apply vleq_antisym.
  - apply mvclock_wf. intros p Hp'. by eapply mv_reach_wf.
  - by apply deps_clock_wf'.
  - apply mvclock_least. intros p (i & r & Hl & Hi & -> & _)%(mv_reach_elem _ _ _ _ HH Hr).
    rewrite (pair_clock _ _ _ Hl). by apply deps_clock_ub.
  - apply deps_clock_least. intros j Hj. destruct (HK j Hj) as [rj Hlj].
    destruct (good_up _ (writes_good H HH K) (mvop_pair (op_val rj))) as (q & Hq & Hle).
    { apply elem_of_mv_writes. by exists j, rj. }
    rewrite (pair_clock _ _ _ Hlj) in Hle. eapply vleq_trans; [exact Hle|].
    apply mvclock_ub. rewrite Hp. exact Hq.
Qed.
(** the read context of a replica is the join of the clocks of the ops it has learned *)
Corollary mv_read_ctx_clock H s K :
  mvwfH H → mvreach H s K →
  add_clock (mvread s) = deps_clock H K ∧ rm_clock (mvread s) = deps_clock H K ∧
  add_clock (mvread_ctx s) = deps_clock H K.
Proof. intros HH Hr. cbn. by rewrite (mv_reach_clock _ _ _ HH Hr). Qed.

(** * part C: histories generated through the API are well-formed *)
Lemma omap_imap_none {A B} (f : nat * A → option B) (l : list A) (m : nat) :
  (∀ n x, f (m + n, x)%nat = None) → omap f (imap (λ n, pair (m + n)%nat) l) = [].
Proof.
  revert m. induction l as [|x l IH]; intros m Hf; [done|].
  cbn [imap omap list_omap]. rewrite Hf.
  rewrite (imap_ext _ (λ n, pair (S m + n)%nat) l).
  - apply IH. intros n y. replace (S m + n)%nat with (m + S n)%nat by lia. apply Hf.
  - intros n y _. cbn. f_equal. lia.
Qed.
Lemma known_ops_app {Op} (H H' : list (oprec Op)) K :
  (∀ i, i ∈ K → (i < length H)%nat) → known_ops (H ++ H') K = known_ops H K.
Proof.
  intros HK. unfold known_ops. rewrite imap_app, omap_app.
  rewrite (omap_imap_none _ H' (length H)); [by rewrite app_nil_r|].
  intros n x. cbn. rewrite bool_decide_eq_false_2; [done|]. intros Hin%HK. lia.
Qed.
Lemma deps_clock_app H H' K :
  (∀ i, i ∈ K → (i < length H)%nat) → deps_clock (H ++ H') K = deps_clock H K.
Proof. intros HK. unfold deps_clock. by rewrite known_ops_app. Qed.

Lemma mvgen_clock s a v o :
  mvgen s a (CWrite v) = Some o → o = MVPut (vapply (mvclock s) (vinc (mvclock s) a)) v.
Proof. by intros [= <-]. Qed.

(** one generation step preserves well-formedness *)
Lemma mvwfH_snoc H s K a cmd o :
  mvwfH H → mvreach H s K → own_known H a K → mvgen s a cmd = Some o →
  mvwfH (H ++ [OpRec a o K]).
Proof.
  intros HH Hr Hown Hgen. destruct (mv_reach_spec _ _ _ HH Hr) as [_ HK].
  assert (∀ j, j ∈ K → (j < length H)%nat) as HKlt.
  { intros j [rj Hj%lookup_lt_Some]%HK. done. }
  intros i r Hl. apply lookup_app_Some in Hl as [Hl|[Hge Hl]].
  - destruct (HH i r Hl) as (H1 & H2 & H3). pose proof (lookup_lt_Some _ _ _ Hl) as Hi.
    split; [done|]. split.
    + intros j r' Hj Hl'. rewrite lookup_app_l in Hl' by lia. by apply H2.
    + cbn zeta in *. rewrite deps_clock_app; [done|]. intros j Hj%H1. lia.
  - apply list_lookup_singleton_Some in Hl as [Hi <-]. cbn [op_deps op_author op_val].
    split; [intros j Hj%HKlt; lia|]. split.
    + intros j r' Hj Hl' Ha. rewrite lookup_app_l in Hl' by lia. by eapply Hown.
    + cbn zeta. rewrite (deps_clock_app _ _ _ HKlt), <- (mv_reach_clock _ _ _ HH Hr).
      destruct cmd as [v]. by rewrite (mvgen_clock _ _ _ _ Hgen).
Qed.

Theorem mv_hist_ok_wf H : mvhist_ok H → mvwfH H.
Proof.
  induction 1 as [|H s K a cmd o _ IH Hr Hown Hgen].
  - intros i r Hl. by rewrite lookup_nil in Hl.
  - by eapply mvwfH_snoc.
Qed.

(** * part D: what a read returns *)
Definition hpair (H : list (oprec mvop)) (j : nat) : gmap N N * N :=
  match H !! j with Some r => mvop_pair (op_val r) | None => (∅, 0) end.
Definition mvop_value (o : mvop) : N := match o with MVPut _ v => v end.
(** the value written by op [j] *)
Definition hvalue (H : list (oprec mvop)) (j : nat) : N :=
  match H !! j with Some r => mvop_value (op_val r) | None => 0 end.

Lemma hpair_Some H j r : H !! j = Some r → hpair H j = mvop_pair (op_val r).
Proof. unfold hpair. by intros ->. Qed.
Lemma hpair_fst H j : (hpair H j).1 = hclock H j.
Proof. unfold hpair, hclock. destruct (H !! j) as [r|]; [apply mvop_pair_clock|done]. Qed.
Lemma hpair_snd H j : (hpair H j).2 = hvalue H j.
Proof. unfold hpair, hvalue. destruct (H !! j) as [r|]; [by destruct (op_val r)|done]. Qed.

(** a learned write is in the state iff no learned write has observed it *)
Lemma mv_reach_elem_idx H s K j :
  mvwfH H → mvreach H s K → j ∈ K → hpair H j ∈ s ↔ ∀ i, i ∈ K → ¬ mvhb H j i.
Proof.
  intros HH Hr Hj. destruct (mv_reach_spec _ _ _ HH Hr) as [_ HK]. destruct (HK j Hj) as [rj Hlj].
  rewrite (mv_reach_elem _ _ _ _ HH Hr), (hpair_Some _ _ _ Hlj). split.
  - intros (i & r & Hl & Hi & E & Hmax).
    assert (hclock H j = hclock H i) as Ec.
    { by rewrite <- (pair_clock _ _ _ Hlj), <- (pair_clock _ _ _ Hl), E. }
    apply hclock_inj in Ec; [|done|by exists rj|by exists r]. by subst i.
  - intros Hmax. by exists j, rj.
Qed.
(** a superseded write never reappears, wherever and in whatever order ops and
    states are delivered ... *)
Corollary mv_superseded_gone H s K j i :
  mvwfH H → mvreach H s K → i ∈ K → mvhb H j i → hpair H j ∉ s.
Proof.
  intros HH Hr Hi Hhb Hin. destruct (mvhb_Some_l _ HH _ _ Hhb) as [rj Hlj].
  apply (mv_reach_elem _ _ _ _ HH Hr) in Hin as (j' & r' & Hl' & Hj' & E & Hmax).
  rewrite (hpair_Some _ _ _ Hlj) in E.
  assert (hclock H j = hclock H j') as Ec.
  { by rewrite <- (pair_clock _ _ _ Hlj), <- (pair_clock _ _ _ Hl'), E. }
  apply hclock_inj in Ec; [|done|by exists rj|by exists r']. subst j'. by apply (Hmax i).
Qed.
(** ... and concurrent (unobserved) writes are all kept *)
Corollary mv_unobserved_kept H s K j :
  mvwfH H → mvreach H s K → j ∈ K → (∀ i, i ∈ K → ¬ mvhb H j i) → hpair H j ∈ s.
Proof. intros HH Hr Hj. by apply mv_reach_elem_idx. Qed.

(** the read returns exactly the values of the learned writes that no learned
    write has observed: one entry per such write (also for equal values) *)
Theorem mv_read_spec H s K :
  mvwfH H → mvreach H s K →
  ∃ l : list nat,
    NoDup l ∧ (∀ j, j ∈ l ↔ j ∈ K ∧ ∀ i, i ∈ K → ¬ mvhb H j i) ∧
    s ≡ₚ hpair H <$> l ∧
    rval (mvread s) ≡ₚ hvalue H <$> l.
Proof.
  intros HH Hr. destruct (mv_reach_spec _ _ _ HH Hr) as [Hp HK].
  set (l := List.filter (λ j, bool_decide (hpair H j ∈ s)) (elements K)).
  assert (∀ j, j ∈ l ↔ j ∈ K ∧ ∀ i, i ∈ K → ¬ mvhb H j i) as Hl.
  { intros j. unfold l. rewrite elem_of_lfilter, bool_decide_eq_true, elem_of_elements. split.
    - intros [Hj Hin]. split; [done|]. by apply (mv_reach_elem_idx _ _ _ _ HH Hr Hj).
    - intros [Hj Hmax]. split; [done|]. by apply (mv_reach_elem_idx _ _ _ _ HH Hr Hj). }
  assert (s ≡ₚ hpair H <$> l) as Hs.
  { apply NoDup_Permutation.
    - by eapply mv_reach_NoDup.
    - apply NoDup_fmap_2_strong; [|apply NoDup_lfilter, NoDup_elements].
      intros i j [Hi _]%Hl [Hj _]%Hl E. apply (f_equal fst) in E. rewrite !hpair_fst in E.
      apply (hclock_inj _ HH); [by apply HK..|done].
    - intros p. rewrite elem_of_list_fmap. split.
      + intros Hin. pose proof Hin as (i & r & Hli & Hi & -> & Hmax)%(mv_reach_elem _ _ _ _ HH Hr).
        exists i. split; [by rewrite (hpair_Some _ _ _ Hli)|]. by apply Hl.
      + intros (j & -> & [Hj Hmax]%Hl). by apply (mv_reach_elem_idx _ _ _ _ HH Hr Hj). }
  exists l. split; [apply NoDup_lfilter, NoDup_elements|]. split; [done|]. split; [done|].
  cbn [mvread rval]. rewrite Hs, <- list_fmap_compose.
  rewrite (list_fmap_ext (snd ∘ hpair H) (hvalue H) l); [done|].
  intros _ j _. apply hpair_snd.
Qed.

(** a write made with the context of a read of [s] replaces everything in [s] *)
Lemma lfilter_none {A} (f : A → bool) l : (∀ x, x ∈ l → f x = false) → List.filter f l = [].
Proof.
  induction l as [|a l IH]; intros Hf; [done|]. simpl. rewrite (Hf a) by left.
  apply IH. intros x Hx. apply Hf. by right.
Qed.
Lemma mvgen_clock_lt s a v o p :
  (∀ q, q ∈ s → vwf q.1) → mvgen s a (CWrite v) = Some o → p ∈ s →
  vlt p.1 (mvop_clock o) = true ∧ vcmp p.1 (mvop_clock o) = Some Lt.
Proof.
  intros Hwf ->%mvgen_clock Hp. cbn [mvop_clock].
  pose proof (mvclock_wf _ Hwf) as Hc.
  assert (vcmp p.1 (vapply (mvclock s) (vinc (mvclock s) a)) = Some Lt) as E.
  { apply vcmp_Lt; [by apply Hwf|by apply vapply_wf|]. split.
    - intros E. pose proof (mvclock_ub _ _ Hp a) as Hle. rewrite E, vapply_vinc_get, decide_True in Hle by done. lia.
    - eapply vleq_trans; [by apply mvclock_ub|]. intros x. apply vapply_mono. }
  split; [|done]. unfold vlt. by rewrite E.
Qed.
Theorem mv_write_after_read s a v o :
  (∀ q, q ∈ s → vwf q.1) → mvgen s a (CWrite v) = Some o →
  mvapply s o = [(mvop_clock o, v)] ∧ rval (mvread (mvapply s o)) = [v].
Proof.
  intros Hwf Hgen.
  assert (mvapply s o = [(mvop_clock o, v)]) as E; [|by rewrite E].
  pose proof (λ p, mvgen_clock_lt s a v o p Hwf Hgen) as Hlt.
  pose proof (mvgen_clock _ _ _ _ Hgen) as ->. cbn [mvop_clock] in *.
  unfold mvapply.
  assert (vis_empty (vapply (mvclock s) (vinc (mvclock s) a)) = false) as ->.
  { apply not_true_iff_false. rewrite vis_empty_spec. intros E.
    assert (vget (vapply (mvclock s) (vinc (mvclock s) a)) a = 0) as E' by (by rewrite E, vget_empty).
    rewrite vapply_vinc_get, decide_True in E' by done. lia. }
  rewrite lfilter_none; [done|]. intros p Hp. destruct (Hlt p Hp) as [_ ->]. done.
Qed.
Corollary mv_write_after_read_reach H s K a v o :
  mvwfH H → mvreach H s K → mvgen s a (CWrite v) = Some o →
  mvapply s o = [(mvop_clock o, v)] ∧ rval (mvread (mvapply s o)) = [v] ∧
  ∀ j, j ∈ K → vlt (hclock H j) (mvop_clock o) = true.
Proof.
  intros HH Hr Hgen.
  assert (∀ q, q ∈ s → vwf q.1) as Hwf by (intros q Hq; by eapply mv_reach_wf).
  destruct (mv_write_after_read _ _ _ _ Hwf Hgen) as [E1 E2]. split; [done|]. split; [done|].
  intros j Hj. pose proof (mvgen_clock _ _ _ _ Hgen) as ->. cbn [mvop_clock].
  pose proof (mvclock_wf _ Hwf) as Hc.
  apply vlt_spec; [by apply hclock_wf|by apply vapply_wf|].
  assert (vleq (hclock H j) (mvclock s)) as Hle.
  { rewrite (mv_reach_clock _ _ _ HH Hr). by apply deps_clock_ub. }
  split.
  - eapply vleq_trans; [exact Hle|]. intros x. apply vapply_mono.
  - intros E. specialize (Hle a). rewrite E, vapply_vinc_get, decide_True in Hle by done. lia.
Qed.

(** In the history extended with the generated write (index [length H]):
    the write has observed exactly [K] and what the ops of [K] had observed; *)
Lemma mv_gen_hb H a o K j :
  let H' := H ++ [OpRec a o K] in
  mvhb H' j (length H) ↔ j ∈ K ∨ ∃ k, k ∈ K ∧ mvhb H' j k.
Proof.
  intros H'.
  assert (H' !! length H = Some (OpRec a o K)) as Hn.
  { unfold H'. rewrite lookup_app_r by lia. by rewrite Nat.sub_diag. }
  split.
  - remember (length H) as n eqn:En. intros Hhb. revert En Hn.
    induction Hhb as [i j r Hl Hj|i j k Hkj _ _ IH2]; intros -> Hn.
    + rewrite Hn in Hl. injection Hl as <-. by left.
    + destruct (IH2 eq_refl Hn) as [Hj|(k' & Hk' & Hhb')]; right.
      * by exists j.
      * exists k'. split; [done|]. by eapply mvhb_trans.
  - intros [Hj|(k & Hk & Hhb)].
    + by eapply mvhb_dep.
    + eapply mvhb_trans; [exact Hhb|]. by eapply mvhb_dep.
Qed.
(** wherever it has been applied, none of the writes it observed is visible,
    and it is itself visible until a later write observes it. *)
Theorem mv_gen_supersedes H s K a v o :
  mvwfH H → mvreach H s K → own_known H a K → mvgen s a (CWrite v) = Some o →
  let H' := H ++ [OpRec a o K] in
  mvwfH H' ∧
  ∀ s' K', mvreach H' s' K' → length H ∈ K' →
    (∀ j, j ∈ K → hpair H' j ∉ s') ∧
    ((mvop_clock o, v) ∈ s' ↔ ∀ i, i ∈ K' → ¬ mvhb H' (length H) i).
Proof.
  intros HH Hr Hown Hgen H'.
  assert (mvwfH H') as HH' by (by eapply mvwfH_snoc).
  split; [done|]. intros s' K' Hr' Hn. split.
  - intros j Hj. eapply (mv_superseded_gone H' s' K' j (length H)); [done..|].
    apply mv_gen_hb. by left.
  - rewrite <- (mv_reach_elem_idx H' s' K' (length H) HH' Hr' Hn).
    unfold hpair, H'. rewrite lookup_app_r by lia. rewrite Nat.sub_diag. cbn.
    by rewrite (mvgen_clock _ _ _ _ Hgen).
Qed.

(** * non-vacuity: two concurrent writes through the API, then a write that has
    read both *)
Example mv_example :
  let o1 := MVPut {[1 := 1]} 7 in
  let o2 := MVPut {[2 := 1]} 8 in
  let s := mvapply (mvapply [] o2) o1 in
  let o3 := MVPut (vapply (mvclock s) (vinc (mvclock s) 1)) 9 in
  let H := [OpRec 1 o1 ∅; OpRec 2 o2 ∅; OpRec 1 o3 ({[1%nat]} ∪ {[0%nat]})] in
  mvhist_ok H ∧ mvwfH H ∧ mvop_clock o3 = {[1 := 2; 2 := 1]} ∧
  mvreach H s ({[1%nat]} ∪ {[0%nat]}) ∧ rval (mvread s) = [8; 7] ∧
  rval (mvread (mvapply s o3)) = [9] ∧ rval (mvread (mvapply (mvapply [] o3) o1)) = [9].
Proof.
  intros o1 o2 s o3 H.
  assert (mvreach [OpRec 1 o1 ∅; OpRec 2 o2 ∅] s ({[1%nat]} ∪ {[0%nat]})) as Hr.
  { rewrite <- (left_id_L ∅ (∪) {[1%nat]}).
    apply (reach_apply _ _ _ _ _ _ (mvapply [] o2) _ 0%nat (OpRec 1 o1 ∅)); [|done|by eexists].
    apply (reach_apply _ _ _ _ _ _ [] _ 1%nat (OpRec 2 o2 ∅)); [constructor|done|by eexists]. }
  assert (mvhist_ok H) as Hok.
  { apply (hist_snoc _ _ _ _ _ _ [OpRec 1 o1 ∅; OpRec 2 o2 ∅] s _ 1 (CWrite 9) o3).
    - apply (hist_snoc _ _ _ _ _ _ [OpRec 1 o1 ∅] [] ∅ 2 (CWrite 8) o2).
      + apply (hist_snoc _ _ _ _ _ _ [] [] ∅ 1 (CWrite 7) o1); [constructor|constructor| |by vm_compute].
        intros j o Hl. by rewrite lookup_nil in Hl.
      + constructor.
      + intros [|[|j]] o [= <-]; done.
      + by vm_compute.
    - exact Hr.
    - intros [|[|j]] o [= <-]; cbn; [set_solver|done].
    - done. }
  split; [done|]. split; [by apply mv_hist_ok_wf|]. split; [apply (bool_decide_unpack _); by vm_compute|]. split.
  - by apply (reach_mono [] mvapply mvmerge adm_any True (λ H H' K i, adm_any_mono H H' K i)
               [OpRec 1 o1 ∅; OpRec 2 o2 ∅] [OpRec 1 o3 ({[1%nat]} ∪ {[0%nat]})]).
  - split_and!; by vm_compute.
Qed.
