(** Machine-checked witnesses of the known findings T1, T2, T3 (DESIGN §6,
    KNOWN_FINDINGS.json) on the faithful model of [src/map.rs].

    Every history is built with the model's own API functions exactly as
    an application would use the crate: read, derive a context, build the
    op with [mupdate]/[mrm], apply it at the origin, deliver it (or merge
    a state) elsewhere.  All statements are closed terms decided by
    [vm_compute]; each states the ops it uses in explicit form, so that
    the history can be read off the statement. *)
From Crdt Require Import model.Map.
Local Open Scope N_scope.

(** Decidable equality of ops (only used to decide the closed statements). *)
Local Instance mvop_eq_dec : EqDecision mvop.
Proof. solve_decision. Defined.
Local Instance oop_eq_dec : EqDecision oop.
Proof. solve_decision. Defined.
Local Instance mop_eq_dec {Op : Type} `{EqDecision Op} : EqDecision (mop Op).
Proof. solve_decision. Defined.

(** * Application-level helpers *)

(** ** Map<_, MVReg> *)
Definition mv_apply := mapply mvreg_valops.
Definition mv_merge := mmerge mvreg_valops.
(** [m.update(k, m.read_ctx().derive_add_ctx(a), |r, ctx| r.write(v, ctx))] *)
Definition upd_mv (s : cmap mvreg) (a k v : N) : mop mvop :=
  mupdate mvreg_valops s k (derive_add_ctx (mread_ctx s) a) (λ _ ctx, mvwrite v ctx).
(** [m.rm(k, m.get(&k).derive_rm_ctx())] *)
Definition rm_key {V} (O : Type) (s : cmap V) (k : N) : mop O :=
  mrm k (derive_rm_ctx (mget s k)).
(** [m.rm(k, m.read_ctx().derive_rm_ctx())] *)
Definition rm_key_all {V} (O : Type) (s : cmap V) (k : N) : mop O :=
  mrm k (derive_rm_ctx (mread_ctx s)).
(** [m.get(&k).val.map(|r| r.read().val)]: the values under key [k]. *)
Definition read_mv (s : cmap mvreg) (k : N) : option (list N) :=
  (λ r : list (gmap N N * N), rval (mvread r)) <$> rval (mget s k).

(** ** Map<_, Orswot> *)
Definition or_apply := mapply orswot_valops.
Definition or_merge := mmerge orswot_valops.
(** [m.update(k, ctx, |set, ctx| set.add(x, ctx))] *)
Definition upd_or_add (s : cmap orswot) (a k x : N) : mop oop :=
  mupdate orswot_valops s k (derive_add_ctx (mread_ctx s) a) (λ _ ctx, oadd x ctx).
(** [m.update(k, ctx, |set, _| set.rm(x, set.contains(&x).derive_rm_ctx()))] *)
Definition upd_or_rm (s : cmap orswot) (a k x : N) : mop oop :=
  mupdate orswot_valops s k (derive_add_ctx (mread_ctx s) a)
          (λ set _, orm x (derive_rm_ctx (ocontains set x))).
(** the members of the set under key [k] *)
Definition read_or (s : cmap orswot) (k : N) : option (list N) :=
  (λ o : orswot, elements (rval (oread o))) <$> rval (mget s k).
Definition contains_or (s : cmap orswot) (k x : N) : bool :=
  match rval (mget s k) with Some o => rval (ocontains o x) | None => false end.

Local Ltac compute_witness := cbv zeta; apply (bool_decide_unpack _); by vm_compute.

(** * T1 [map-mvreg-context] *)

(** Refutes C02 (merge is associative), C03 (merging states = delivering
    the ops), C20, C05 for Map<_, MVReg>.  Two keys, two actors, no remove
    at all.  Actor 3 writes 7 at key 1 (dot 3.1); actor 2, having seen
    it, writes 1 at key 0 (dot 2.1) and then 0 at key 0 (dot 2.2).
    Replicas [a], [b], [c] hold the prefixes of length 2, 1 and 3 of that
    history.  [(a+b)+c] reads [[0]] under key 0 (as does the replica
    [c], which has applied every op), [a+(b+c)] reads [[1; 0]]: the
    overwritten value 1 is back. *)
Theorem map_T1_assoc_refuted :
  let s0 : cmap mvreg := mnew in
  let op1 := upd_mv s0 3 1 7 in
  let s1 := mv_apply s0 op1 in
  let op2 := upd_mv s1 2 0 1 in
  let s2 := mv_apply s1 op2 in
  let op3 := upd_mv s2 2 0 0 in
  let s3 := mv_apply s2 op3 in
  let a := s2 in let b := s1 in let c := s3 in
  op1 = MUp (Dot 3 1) 1 (MVPut {[ 3 := 1 ]} 7) ∧
  op2 = MUp (Dot 2 1) 0 (MVPut {[ 3 := 1; 2 := 1 ]} 1) ∧
  op3 = MUp (Dot 2 2) 0 (MVPut {[ 3 := 1; 2 := 2 ]} 0) ∧
  read_mv c 0 = Some [0] ∧
  read_mv (mv_merge (mv_merge a b) c) 0 = Some [0] ∧
  read_mv (mv_merge a (mv_merge b c)) 0 = Some [1; 0] ∧
  mv_merge (mv_merge a b) c ≠ mv_merge a (mv_merge b c).
Proof. compute_witness. Qed.

(** Refutes C01 (concurrent ops commute / every causal delivery order
    gives the same state), C03, C05, C09 for Map<_, MVReg>.  Actor 3 writes
    7 at key 1 (dot 3.1); actor 2, having seen it, writes 1 at key 0
    (dot 2.1, the nested [Put] carries the whole-map clock {3:1, 2:1});
    actor 1, having seen nothing, writes 5 at key 0 (dot 1.1); actor 2
    removes key 0 with the context of its own read of key 0 ({2:1}).
    [opC] is concurrent with the three other ops, so [A B C D] and
    [A B D C] are both causal delivery orders.  In the first the removed
    value 1 survives the removal (its clock {3:1,2:1} is only stripped to
    {3:1}); in the second, and when the state holding [A B D] is merged
    with the state holding [C], it does not. *)
Theorem map_T1_order_refuted :
  let s0 : cmap mvreg := mnew in
  let opA := upd_mv s0 3 1 7 in
  let r2 := mv_apply s0 opA in
  let opB := upd_mv r2 2 0 1 in
  let r2' := mv_apply r2 opB in
  let opC := upd_mv s0 1 0 5 in
  let opD : mop mvop := rm_key mvop r2' 0 in
  let deliver := foldl mv_apply s0 in
  let x := deliver [opA; opB; opC; opD] in
  let y := deliver [opA; opB; opD; opC] in
  let z := mv_merge (deliver [opA; opB; opD]) (deliver [opC]) in
  opA = MUp (Dot 3 1) 1 (MVPut {[ 3 := 1 ]} 7) ∧
  opB = MUp (Dot 2 1) 0 (MVPut {[ 3 := 1; 2 := 1 ]} 1) ∧
  opC = MUp (Dot 1 1) 0 (MVPut {[ 1 := 1 ]} 5) ∧
  opD = MRm {[ 2 := 1 ]} {[ 0 ]} ∧
  read_mv x 0 = Some [1; 5] ∧
  read_mv y 0 = Some [5] ∧
  read_mv z 0 = Some [5] ∧
  x ≠ y ∧ x ≠ z.
Proof. compute_witness. Qed.

(** * T2 [map-entry-compression] *)

(** Refutes C09 (removed data never resurrects), C05, C03, C08 for
    Map<_, Orswot>.  Actor 2 adds member 8 to the set at key 0 (dot 2.1)
    and then member 9 (dot 2.2): the entry clock of key 0 is now {2:2},
    the dot 2.1 is no longer visible in it.  A peer that got only 2.1
    removes key 0 with the context {2:1} of its read and reads "no key 0".
    Merging the two states (either way round) brings member 8 back at the
    peer, although the only op that ever added it was observed by the
    remove; delivering the ops instead gives {9} at both replicas. *)
Theorem map_T2_resurrection_refuted :
  let s0 : cmap orswot := mnew in
  let op1 := upd_or_add s0 2 0 8 in
  let a1 := or_apply s0 op1 in
  let op2 := upd_or_add a1 2 0 9 in
  let a2 := or_apply a1 op2 in
  let p1 := or_apply s0 op1 in
  let op3 : mop oop := rm_key oop p1 0 in
  let p2 := or_apply p1 op3 in
  op1 = MUp (Dot 2 1) 0 (OAdd (Dot 2 1) [8]) ∧
  op2 = MUp (Dot 2 2) 0 (OAdd (Dot 2 2) [9]) ∧
  op3 = MRm {[ 2 := 1 ]} {[ 0 ]} ∧
  read_or p1 0 = Some [8] ∧
  read_or p2 0 = None ∧
  contains_or (or_merge p2 a2) 0 8 = true ∧
  contains_or (or_merge a2 p2) 0 8 = true ∧
  read_or (or_apply p2 op2) 0 = Some [9] ∧
  read_or (or_apply a2 op3) 0 = Some [9] ∧
  or_merge p2 a2 ≠ or_apply p2 op2.
Proof. compute_witness. Qed.

(** Remark: in the other reading of the one-line history of DESIGN §6
    (the origin itself applies 2.1, the remove and the later update, and
    then merges a stale peer holding only 2.1) the model does NOT
    resurrect the member, for either leaf type: the nested value created
    by the later update has itself seen a dot of actor 2 that dominates
    2.1.  The defect needs the update and the remove to be concurrent. *)
Example map_T2_sequential_reading_ok :
  let s0 : cmap orswot := mnew in
  let op1 := upd_or_add s0 2 0 8 in
  let a1 := or_apply s0 op1 in
  let peer := a1 in
  let op2 : mop oop := rm_key oop a1 0 in
  let a2 := or_apply a1 op2 in
  let op3 := upd_or_add a2 2 1 4 in
  let a3 := or_apply a2 op3 in
  let op4 := upd_or_add a3 2 0 9 in
  let a4 := or_apply a3 op4 in
  read_or (or_merge a4 peer) 0 = Some [9] ∧ read_or (or_merge peer a4) 0 = Some [9].
Proof. compute_witness. Qed.

(** * T3 [map-nested-remove-update] *)

(** Refutes C20 ([==] of converged replicas), C02/C01 on [==] (and C05
    through the residue) for Map<_, Orswot>.  The script found by the test
    harness: op 0 by actor 0: add member 2 to key 0 (dot 0.1); op 1 by
    actor 0: add member 0 to key 1 (dot 0.2); op 2 by actor 1, who saw
    op 0: update key 0 with the nested remove of member 2 (dot 1.1, nested
    context {0:1}); op 3 by actor 0 after ops 0 and 1: remove key 0 with
    the map's read context {0:2}.  Ops 2 and 3 are concurrent.  Replica 0
    applies 0 1 3 2, the canonical order is 0 1 2 3.  The reads agree (key
    0 holds the empty set on both), the states do not: in the order
    0 1 3 2 the nested remove arrives at a fresh nested set and stays
    there as a pending remove for ever; in the order 0 1 2 3 it is
    executed.  The same happens when op 3 uses the context {0:1} of
    [get(key 0)]. *)
Theorem map_T3_residue_refuted :
  let s0 : cmap orswot := mnew in
  let op0 := upd_or_add s0 0 0 2 in
  let r0 := or_apply s0 op0 in
  let op1 := upd_or_add r0 0 1 0 in
  let r0' := or_apply r0 op1 in
  let r1 := or_apply s0 op0 in
  let op2 := upd_or_rm r1 1 0 2 in
  let op3 : mop oop := rm_key_all oop r0' 0 in
  let op3' : mop oop := rm_key oop r0' 0 in
  let deliver := foldl or_apply s0 in
  let x := deliver [op0; op1; op3; op2] in
  let y := deliver [op0; op1; op2; op3] in
  let x' := deliver [op0; op1; op3'; op2] in
  let y' := deliver [op0; op1; op2; op3'] in
  op0 = MUp (Dot 0 1) 0 (OAdd (Dot 0 1) [2]) ∧
  op1 = MUp (Dot 0 2) 1 (OAdd (Dot 0 2) [0]) ∧
  op2 = MUp (Dot 1 1) 0 (ORm {[ 0 := 1 ]} [2]) ∧
  op3 = MRm {[ 0 := 2 ]} {[ 0 ]} ∧
  op3' = MRm {[ 0 := 1 ]} {[ 0 ]} ∧
  Forall (λ k, read_or x k = read_or y k) [0; 1; 2] ∧
  read_or x 0 = Some [] ∧
  (eval <$> mentries x !! 0) = Some (Orswot ∅ ∅ {[ {[ 0 := 1 ]} := {[ 2 ]} ]}) ∧
  (eval <$> mentries y !! 0) = Some (Orswot ∅ ∅ ∅) ∧
  x ≠ y ∧ x' ≠ y' ∧ x = x' ∧ y = y'.
Proof. compute_witness. Qed.

(** T3 under per-actor (non-causal) delivery changes READS: B's update of key 0 carries a
    nested remove of member 1 (it had seen A's add); C receives B's update before A's (per-actor
    order allows it) and removes key 0 with the context [get] gives it, {B:1}.  A replica that
    receives B's update, C's remove and then A's add drops the entry together with the parked
    nested remove, so the add survives; causal delivery of the same three ops leaves the set
    empty.  Refutes C08 ("per-actor delivery order suffices") and the value half of C05 for
    Map<_, Orswot>. *)
Theorem map_T3_per_actor_refuted :
  let s0 : cmap orswot := mnew in
  let opA := upd_or_add s0 0 0 1 in
  let b := or_apply s0 opA in
  let opB := upd_or_rm b 1 0 1 in
  let c := or_apply s0 opB in
  let opC : mop oop := rm_key oop c 0 in
  let deliver := foldl or_apply s0 in
  let causal := deliver [opA; opB; opC] in
  let overtaking := deliver [opB; opC; opA] in
  opA = MUp (Dot 0 1) 0 (OAdd (Dot 0 1) [1]) ∧
  opB = MUp (Dot 1 1) 0 (ORm {[ 0 := 1 ]} [1]) ∧
  opC = MRm {[ 1 := 1 ]} {[ 0 ]} ∧
  read_or causal 0 = Some [] ∧
  read_or overtaking 0 = Some [1] ∧
  mclock causal = mclock overtaking.
Proof. compute_witness. Qed.

Print Assumptions map_T1_assoc_refuted.
Print Assumptions map_T3_per_actor_refuted.
Print Assumptions map_T1_order_refuted.
Print Assumptions map_T2_resurrection_refuted.
Print Assumptions map_T3_residue_refuted.
