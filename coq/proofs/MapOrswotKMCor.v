(** Closed restatements of the two examples of proofs/MapOrswotKM.v (stated there with section-local
    abbreviations). *)
From stdpp Require Import gmap.
From Crdt Require Import model.Orswot model.Map spec.System spec.OrswotSpec spec.OrswotSystem
  spec.MapSpec spec.MapSystem spec.MapOrswotSpec spec.MapOrswotKM proofs.MapOrswotKM.
Local Open Scope N_scope.

(** actors 1 and 2 update key 7 once each, actor 3 removes key 7 having seen only actor 1's update; actor 1 also
    updates key 8 twice (no remove names key 8).  The remove is PARKED at a fresh replica P, travels inside the
    merged state M = Q + P to a holder R of all updates; R + M = M + R = the state reached by op delivery = the
    specification: member 20 (actor 2) survives, member 10 (actor 1) is gone, nothing stays parked *)
Lemma mapor_km_example_closed :
  ∃ (H : list (oprec (mop oop))) (sP sM sR sC : cmap orswot) (KP KM KR KC : gset nat),
    mohist_ok_km H ∧ km_once H ∧ length H = 5%nat ∧
    moreach_km H sP KP ∧ mdeferred sP = {[ ({[1 := 1]} : gmap N N) := ({[7]} : gset N) ]} ∧
    moreach_km H sM KM ∧ mdeferred sM = {[ ({[1 := 1]} : gmap N N) := ({[7]} : gset N) ]} ∧
    mo_state_entries sM 7 = {[20 := {[2 := 1]}]} ∧
    moreach_km H sR KR ∧ mo_state_entries sR 7 = {[10 := {[1 := 1]}; 20 := {[2 := 1]}]} ∧
    moreach_km H sC KC ∧ KC = KR ∪ KM ∧
    mmerge orswot_valops sR sM = sC ∧ mmerge orswot_valops sM sR = sC ∧
    mmerge orswot_valops sR sM = mapor_spec_km H KC ∧
    mapor_km_ok H KC (mmerge orswot_valops sM sR) = true ∧ mapor_km_ok H KM sM = true ∧
    mo_state_entries sC 7 = {[20 := {[2 := 1]}]} ∧
    mo_state_entries sC 8 = {[30 := {[1 := 2]}; 31 := {[1 := 3]}]} ∧
    mdeferred sC = ∅.
Proof.
  pose proof mapor_km_example as P. cbv zeta in P.
  destruct P as (P1 & P2 & P3 & P4 & P5 & P6 & P7 & P8 & P9 & P10 & P11 & P12 & P13 & P14 & P15 & P16 & P17 & P18 & P19 & P20).
  lazymatch type of P3 with reach _ _ _ _ _ ?H ?sP ?KP =>
    lazymatch type of P5 with reach _ _ _ _ _ _ ?sM ?KM =>
      lazymatch type of P8 with reach _ _ _ _ _ _ ?sR ?KR =>
        lazymatch type of P10 with reach _ _ _ _ _ _ ?sC ?KC =>
          exists H, sP, sM, sR, sC, KP, KM, KR, KC end end end end.
  split_and!; try assumption. reflexivity.
Qed.
Print Assumptions mapor_km_example_closed.

(** [km_once] is needed: actor 2 adds 8 then 9 under key 0, actor 3 removes key 0 having seen only the first add;
    merging the two replicas (either order) resurrects member 8 - known finding T2 *)
Lemma km_once_needed_closed :
  ∃ (H : list (oprec (mop oop))) (sA sB sD : cmap orswot) (KA KB : gset nat),
    mohist_ok_km H ∧ ¬ km_once H ∧
    moreach_km H sA KA ∧ moreach_km H sB KB ∧ moreach_km H (mmerge orswot_valops sB sA) (KB ∪ KA) ∧
    moreach_km H sD (KB ∪ KA) ∧
    mmerge orswot_valops sB sA ≠ sD ∧ mmerge orswot_valops sA sB ≠ sD ∧
    mo_entries (known_ops H (KB ∪ KA)) 0 = {[9 := {[2 := 2]}]} ∧
    mo_state_entries sD 0 = {[9 := {[2 := 2]}]} ∧
    mo_state_entries (mmerge orswot_valops sB sA) 0 = {[8 := {[2 := 1]}; 9 := {[2 := 2]}]} ∧
    mapor_km_ok H (KB ∪ KA) sD = true ∧ mapor_km_ok H (KB ∪ KA) (mmerge orswot_valops sB sA) = false.
Proof.
  pose proof km_once_needed as P. cbv zeta in P.
  destruct P as (P1 & P2 & P3 & P4 & P5 & P6 & P7 & P8 & P9 & P10 & P11 & P12 & P13 & P14).
  rewrite P7 in P6.
  lazymatch type of P3 with reach _ _ _ _ _ ?H ?sA ?KA =>
    lazymatch type of P4 with reach _ _ _ _ _ _ ?sB ?KB =>
      lazymatch type of P6 with reach _ _ _ _ _ _ ?sD _ =>
        exists H, sA, sB, sD, KA, KB end end end.
  split_and!; assumption.
Qed.
Print Assumptions km_once_needed_closed.
