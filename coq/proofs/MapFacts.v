(** Facts about the model of [src/map.rs] that hold universally (for every
    nested value type, every state satisfying the structural invariant,
    reachable or not).  The convergence properties themselves are refuted
    in proofs/MapRefuted.v. *)
From Crdt Require Import model.Map proofs.VClock proofs.Reset proofs.OrswotL2a.
From Coq Require Import ZifyBool ZifyN.
Local Open Scope N_scope.

Section map_facts.
  Context {V O E : Type} (vo : valops V O E).
  Implicit Types (s o : cmap V) (c : gmap N N) (ks : gset N) (d : dot) (k : N).

  (** * 1. The dedup gate *)
  Theorem mapply_dedup s d k op :
    dcounter d <= vget (mclock s) (dactor d) → mapply vo s (MUp d k op) = s.
  Proof. intros H. cbn [mapply]. by rewrite (proj2 (N.leb_le _ _) H). Qed.

  Lemma mapply_up_fresh s d k op :
    vget (mclock s) (dactor d) < dcounter d →
    mapply vo s (MUp d k op) =
      mapply_deferred vo
        (CMap (vapply (mclock s) d)
              (<[k := MEntry (vapply (eclock (default (MEntry ∅ (v_default vo)) (mentries s !! k))) d)
                             (v_apply vo (eval (default (MEntry ∅ (v_default vo)) (mentries s !! k))) op)]>
                 (mentries s))
              (mdeferred s)).
  Proof. intros H. cbn [mapply]. by rewrite (proj2 (N.leb_gt _ _) H). Qed.

  (** * Characterisation of [mapply_rm] *)
  Lemma mapply_rm_clock s ks c : mclock (mapply_rm vo s ks c) = mclock s.
  Proof. unfold mapply_rm. by destruct (vcmp (mclock s) c) as [[]|]. Qed.
  Lemma mapply_rm_entries s ks c :
    mentries (mapply_rm vo s ks c) = mrm_entries vo (mentries s) ks c.
  Proof. unfold mapply_rm. by destruct (vcmp (mclock s) c) as [[]|]. Qed.
  (** the remove is filed as pending unless the map clock covers its context *)
  Lemma mapply_rm_deferred s ks c :
    mdeferred (mapply_rm vo s ks c) =
      if vge (mclock s) c then mdeferred s
      else <[c := default ∅ (mdeferred s !! c) ∪ ks]> (mdeferred s).
  Proof. unfold mapply_rm, vge. by destruct (vcmp (mclock s) c) as [[]|]. Qed.

  Lemma mrm_entries_lookup es ks c k :
    mrm_entries vo es ks c !! k =
      es !! k ≫= λ e, if bool_decide (k ∈ ks)
                      then if vis_empty (vreset (eclock e) c) then None
                           else Some (MEntry (vreset (eclock e) c) (v_reset vo (eval e) c))
                      else Some e.
  Proof. unfold mrm_entries. by rewrite map_lookup_imap. Qed.
  Lemma mrm_entries_lookup_notin es ks c k : k ∉ ks → mrm_entries vo es ks c !! k = es !! k.
  Proof.
    intros H. rewrite mrm_entries_lookup. destruct (es !! k); [|done]. cbn.
    by rewrite bool_decide_eq_false_2.
  Qed.

  (** * Folding [mapply_rm] over a pending table; [mapply_deferred] *)
  Definition mfold s (D : gmap (gmap N N) (gset N)) : cmap V :=
    map_fold (λ c ks acc, mapply_rm vo acc ks c) s D.

  Lemma mfold_clock s D : mclock (mfold s D) = mclock s.
  Proof.
    unfold mfold. apply (map_fold_ind (λ r _, mclock r = mclock s)); [done|].
    intros c ks D' r _ IH. by rewrite mapply_rm_clock.
  Qed.

  (** every predicate on entry tables that [mrm_entries] preserves *)
  Lemma mfold_entries_ind (P : gmap N (mentry V) → Prop) s D :
    (∀ es ks c, P es → P (mrm_entries vo es ks c)) →
    P (mentries s) → P (mentries (mfold s D)).
  Proof.
    intros HP Hs. unfold mfold. apply (map_fold_ind (λ r _, P (mentries r))); [done|].
    intros c ks D' r _ IH. rewrite mapply_rm_entries. by apply HP.
  Qed.

  Lemma mfold_deferred s D c :
    mdeferred (mfold s D) !! c =
      match D !! c with
      | Some ks => if vge (mclock s) c then mdeferred s !! c
                   else Some (default ∅ (mdeferred s !! c) ∪ ks)
      | None => mdeferred s !! c
      end.
  Proof.
    unfold mfold. revert c.
    apply (map_fold_ind (λ r D, mclock r = mclock s ∧ ∀ c, mdeferred r !! c =
      match D !! c with
      | Some ks => if vge (mclock s) c then mdeferred s !! c
                   else Some (default ∅ (mdeferred s !! c) ∪ ks)
      | None => mdeferred s !! c
      end)).
    - split; [done|]. intros c. by rewrite lookup_empty.
    - intros c ks D' r Hc [IHc IH]. split; [by rewrite mapply_rm_clock|]. intros c'.
      rewrite mapply_rm_deferred, IHc. destruct (decide (c' = c)) as [->|Hne].
      + rewrite lookup_insert. destruct (vge (mclock s) c) eqn:Eg.
        * by rewrite IH, Hc.
        * by rewrite lookup_insert, IH, Hc.
      + rewrite lookup_insert_ne by done. destruct (vge (mclock s) c) eqn:Eg; [apply IH|].
        rewrite lookup_insert_ne by done. apply IH.
  Qed.

  Lemma mapply_deferred_mfold s :
    mapply_deferred vo s = mfold (CMap (mclock s) (mentries s) ∅) (mdeferred s).
  Proof. done. Qed.
  Lemma mapply_deferred_clock s : mclock (mapply_deferred vo s) = mclock s.
  Proof. by rewrite mapply_deferred_mfold, mfold_clock. Qed.
  (** exactly the pending removes the clock does not cover stay pending *)
  Lemma mapply_deferred_deferred s c :
    mdeferred (mapply_deferred vo s) !! c =
      match mdeferred s !! c with
      | Some ks => if vge (mclock s) c then None else Some ks
      | None => None
      end.
  Proof.
    rewrite mapply_deferred_mfold, mfold_deferred. cbn [mclock mdeferred].
    rewrite lookup_empty. destruct (mdeferred s !! c) as [ks|]; [|done].
    destruct (vge (mclock s) c); [done|]. cbn. by rewrite (left_id_L ∅ (∪)).
  Qed.
  Lemma mapply_deferred_empty s :
    mdeferred s = ∅ → mapply_deferred vo s = s.
  Proof. destruct s as [cl es df]. cbn. intros ->. unfold mapply_deferred. cbn. by rewrite map_fold_empty. Qed.

  (** * 4. Clocks *)
  Theorem mapply_clock s op :
    mclock (mapply vo s op) =
      match op with
      | MRm _ _ => mclock s
      | MUp d _ _ => vapply (mclock s) d
      end.
  Proof.
    destruct op as [c ks|d k op]; cbn [mapply]; [apply mapply_rm_clock|].
    destruct (dcounter d <=? vget (mclock s) (dactor d)) eqn:Eg.
    - unfold vapply. destruct (vget (mclock s) (dactor d) <? dcounter d) eqn:E2; [lia|done].
    - by rewrite mapply_deferred_clock.
  Qed.
  Theorem mapply_clock_mono s op : vleq (mclock s) (mclock (mapply vo s op)).
  Proof.
    rewrite mapply_clock. destruct op; [apply vleq_refl|]. intros x. apply vapply_mono.
  Qed.
  Theorem mapply_rm_clock_eq s c ks : mclock (mapply vo s (MRm c ks)) = mclock s.
  Proof. apply mapply_rm_clock. Qed.
  Theorem mmerge_clock s o : mclock (mmerge vo s o) = vmerge (mclock s) (mclock o).
  Proof.
    unfold mmerge. rewrite mapply_deferred_clock. cbn [mclock].
    by rewrite (mfold_clock (CMap _ _ _)).
  Qed.
  Theorem mreset_clock s c : mclock (mreset vo s c) = vreset (mclock s) c.
  Proof. done. Qed.

  (** * 2. The structural invariant *)
  (** An entry clock is well-formed, non-empty and below the bound [clk]. *)
  Definition mewf (clk : gmap N N) (e : mentry V) : Prop :=
    vwf (eclock e) ∧ eclock e ≠ ∅ ∧ vleq (eclock e) clk.
  Definition mesinv (clk : gmap N N) (es : gmap N (mentry V)) : Prop :=
    ∀ k e, es !! k = Some e → mewf clk e.

  (** [minv]: the invariant of the states built by [mnew], [mapply], [mmerge]:
      pending removes are exactly those the clock does not cover yet. *)
  Definition minv s : Prop :=
    vwf (mclock s) ∧
    mesinv (mclock s) (mentries s) ∧
    (∀ c ks, mdeferred s !! c = Some ks → vwf c ∧ c ≠ ∅ ∧ ¬ vleq c (mclock s)).
  (** [minv_weak]: what also survives [mreset] (which may shrink the clock
      and a pending context to comparable clocks, see
      [mreset_breaks_minv]). *)
  Definition minv_weak s : Prop :=
    vwf (mclock s) ∧
    mesinv (mclock s) (mentries s) ∧
    (∀ c ks, mdeferred s !! c = Some ks → vwf c ∧ c ≠ ∅).

  Lemma minv_weaken s : minv s → minv_weak s.
  Proof.
    intros (H1 & H2 & H3). split_and!; [done..|]. intros c ks H.
    destruct (H3 c ks H) as (? & ? & _). done.
  Qed.

  Lemma not_vleq_ne_empty c clk : ¬ vleq c clk → c ≠ ∅.
  Proof. intros H ->. apply H. intros x. rewrite vget_empty. lia. Qed.
  Lemma vge_false_spec clk c : vwf clk → vwf c → (vge clk c = false ↔ ¬ vleq c clk).
  Proof.
    intros H1 H2. rewrite <- (vge_spec clk c H1 H2). by destruct (vge clk c).
  Qed.

  Lemma mesinv_mono clk clk' es : vleq clk clk' → mesinv clk es → mesinv clk' es.
  Proof.
    intros Hle H k e Hk. destruct (H k e Hk) as (? & ? & ?).
    split_and!; [done..|]. by eapply vleq_trans.
  Qed.
  Lemma mrm_entries_inv clk es ks c : mesinv clk es → mesinv clk (mrm_entries vo es ks c).
  Proof.
    intros H k e'. rewrite mrm_entries_lookup.
    destruct (es !! k) as [e|] eqn:Ek; cbn [mbind option_bind]; [|done].
    destruct (H k e Ek) as (Hw & Hne & Hle).
    destruct (bool_decide (k ∈ ks)); [|by intros [= <-]].
    destruct (vis_empty (vreset (eclock e) c)) eqn:Ee; [done|]. intros [= <-]. unfold mewf. cbn [eclock].
    split_and!.
    - by apply vreset_wf.
    - intros He. apply vis_empty_spec in He. congruence.
    - eapply vleq_trans; [apply vreset_leq|done].
  Qed.
  Lemma mfold_entries_inv clk s D : mesinv clk (mentries s) → mesinv clk (mentries (mfold s D)).
  Proof. apply (mfold_entries_ind (mesinv clk)). intros. by apply mrm_entries_inv. Qed.
  Lemma mapply_deferred_entries_inv clk s :
    mesinv clk (mentries s) → mesinv clk (mentries (mapply_deferred vo s)).
  Proof. rewrite mapply_deferred_mfold. apply (mfold_entries_inv clk (CMap _ _ _)). Qed.

  Theorem minv_new : minv mnew.
  Proof.
    split_and!; [apply vwf_empty| |]; intros ??; cbn; by rewrite lookup_empty.
  Qed.

  (** ** [mapply] *)
  Lemma mapply_rm_inv s ks c : vwf c → minv s → minv (mapply_rm vo s ks c).
  Proof.
    intros Hc (H1 & H2 & H3). unfold minv.
    rewrite mapply_rm_clock, mapply_rm_entries, mapply_rm_deferred. split_and!; [done|by apply mrm_entries_inv|].
    destruct (vge (mclock s) c) eqn:Eg; [done|]. intros c' ks'.
    destruct (decide (c' = c)) as [->|Hne].
    - intros _. apply vge_false_spec in Eg; [|done..].
      split_and!; [done| |done]. by eapply not_vleq_ne_empty.
    - rewrite lookup_insert_ne by done. apply H3.
  Qed.
  Lemma mapply_rm_inv_weak s ks c : vwf c → minv_weak s → minv_weak (mapply_rm vo s ks c).
  Proof.
    intros Hc (H1 & H2 & H3). unfold minv_weak.
    rewrite mapply_rm_clock, mapply_rm_entries, mapply_rm_deferred. split_and!; [done|by apply mrm_entries_inv|].
    destruct (vge (mclock s) c) eqn:Eg; [done|]. intros c' ks'.
    destruct (decide (c' = c)) as [->|Hne].
    - intros _. apply vge_false_spec in Eg; [|done..].
      split; [done|]. by eapply not_vleq_ne_empty.
    - rewrite lookup_insert_ne by done. apply H3.
  Qed.

  Lemma mapply_up_entries_inv s d k op :
    vget (mclock s) (dactor d) < dcounter d →
    mesinv (mclock s) (mentries s) →
    mesinv (vapply (mclock s) d)
      (<[k := MEntry (vapply (eclock (default (MEntry ∅ (v_default vo)) (mentries s !! k))) d)
                     (v_apply vo (eval (default (MEntry ∅ (v_default vo)) (mentries s !! k))) op)]>
         (mentries s)).
  Proof.
    intros Hd H2 k' e'. destruct (decide (k' = k)) as [->|Hne].
    - rewrite lookup_insert. intros [= <-]. unfold mewf. cbn [eclock].
      set (e := default _ _).
      assert (vwf (eclock e) ∧ vleq (eclock e) (mclock s)) as [Hw Hle].
      { subst e. destruct (mentries s !! k) as [e|] eqn:Ek; cbn [default eclock].
        - destruct (H2 k e Ek) as (? & ? & ?). done.
        - split; [apply vwf_empty|]. intros x. rewrite vget_empty. lia. }
      split_and!.
      + by apply vapply_wf.
      + intros He. assert (vget (vapply (eclock e) d) (dactor d) = 0) as H0 by (by rewrite He, vget_empty).
        rewrite vapply_get, decide_True in H0 by done. lia.
      + intros x. rewrite !vapply_get. specialize (Hle x). destruct (decide _); lia.
    - rewrite lookup_insert_ne by done. intros Hk. destruct (H2 k' e' Hk) as (? & ? & Hle).
      split_and!; [done..|]. intros x. specialize (Hle x). pose proof (vapply_mono (mclock s) d x). lia.
  Qed.

  (** the only requirement on an op: a remove context stores no zero
      counter (contexts derived from reads of [minv] states never do) *)
  Definition mop_wf (op : mop O) : Prop :=
    match op with MRm c _ => vwf c | MUp _ _ _ => True end.

  Theorem mapply_inv s op : mop_wf op → minv s → minv (mapply vo s op).
  Proof.
    intros Hop Hs. destruct op as [c ks|d k op]; [by apply mapply_rm_inv|].
    destruct (decide (dcounter d <= vget (mclock s) (dactor d))) as [Hg|Hg].
    { by rewrite mapply_dedup. }
    rewrite mapply_up_fresh by lia. destruct Hs as (H1 & H2 & H3).
    unfold minv. rewrite mapply_deferred_clock. cbn [mclock]. split_and!.
    - by apply vapply_wf.
    - apply mapply_deferred_entries_inv. cbn [mentries]. apply mapply_up_entries_inv; [lia|done].
    - intros c ks. rewrite mapply_deferred_deferred. cbn [mclock mdeferred].
      destruct (mdeferred s !! c) as [ks'|] eqn:Ec; [|done].
      destruct (H3 c ks' Ec) as (Hw & Hne & _).
      destruct (vge (vapply (mclock s) d) c) eqn:Eg; [done|]. intros _.
      apply vge_false_spec in Eg; [done|by apply vapply_wf|done].
  Qed.
  Theorem mapply_inv_weak s op : mop_wf op → minv_weak s → minv_weak (mapply vo s op).
  Proof.
    intros Hop Hs. destruct op as [c ks|d k op]; [by apply mapply_rm_inv_weak|].
    destruct (decide (dcounter d <= vget (mclock s) (dactor d))) as [Hg|Hg].
    { by rewrite mapply_dedup. }
    rewrite mapply_up_fresh by lia. destruct Hs as (H1 & H2 & H3).
    unfold minv_weak. rewrite mapply_deferred_clock. cbn [mclock]. split_and!.
    - by apply vapply_wf.
    - apply mapply_deferred_entries_inv. cbn [mentries]. apply mapply_up_entries_inv; [lia|done].
    - intros c ks. rewrite mapply_deferred_deferred. cbn [mclock mdeferred].
      destruct (mdeferred s !! c) as [ks'|] eqn:Ec; [|done].
      destruct (vge (vapply (mclock s) d) c); [done|]. intros _. by eapply H3.
  Qed.

  (** ** [mmerge] *)
  Lemma mmerge_entries_lookup sc oc (e1 e2 : gmap N (mentry V)) k :
    merge (mmerge_entry vo sc oc) e1 e2 !! k = mmerge_entry vo sc oc (e1 !! k) (e2 !! k).
  Proof. rewrite lookup_merge. by destruct (e1 !! k), (e2 !! k). Qed.

  Lemma vreset_not_empty' a clk : vwf a → vwf clk → vge clk a = false → vreset a clk ≠ ∅.
  Proof.
    intros Ha Hc Hg He. apply vge_false_spec in Hg; [|done..]. apply Hg.
    by apply vreset_covered_inv.
  Qed.

  (** the per-key step of [merge] yields a well-formed, non-empty entry
      clock below the merged map clock *)
  Lemma mmerge_entry_inv sc oc x1 x2 e :
    vwf sc → vwf oc →
    (∀ e1, x1 = Some e1 → mewf sc e1) → (∀ e2, x2 = Some e2 → mewf oc e2) →
    mmerge_entry vo sc oc x1 x2 = Some e → mewf (vmerge sc oc) e.
  Proof.
    intros Hsc Hoc H1 H2. unfold mmerge_entry, mewf.
    destruct x1 as [our|], x2 as [their|].
    - destruct (H1 _ eq_refl) as (Hw1 & _ & Hl1), (H2 _ eq_refl) as (Hw2 & _ & Hl2).
      unfold vclone_without. set (common := vmerge _ _).
      destruct (vis_empty common) eqn:Ee; [done|]. intros [= <-]. cbn [eclock]. split_and!.
      + unfold common. repeat apply vmerge_wf; try apply vreset_wf; try done. by apply vintersection_wf.
      + intros He. apply vis_empty_spec in He. congruence.
      + intros x. unfold common. rewrite !vmerge_get, vintersection_get, !vreset_get.
        specialize (Hl1 x). specialize (Hl2 x).
        destruct (vget (eclock their) x =? vget (eclock our) x),
                 (vget (eclock their) x <=? vget sc x), (vget (eclock our) x <=? vget oc x); lia.
    - destruct (H1 _ eq_refl) as (Hw1 & _ & Hl1).
      destruct (vge oc (eclock our)) eqn:Eg; [done|]. intros [= <-]. cbn [eclock]. split_and!.
      + by apply vreset_wf.
      + by apply vreset_not_empty'.
      + eapply vleq_trans; [apply vreset_leq|]. eapply vleq_trans; [done|apply vmerge_ub_l].
    - destruct (H2 _ eq_refl) as (Hw2 & _ & Hl2).
      destruct (vge sc (eclock their)) eqn:Eg; [done|]. intros [= <-]. cbn [eclock]. split_and!.
      + by apply vreset_wf.
      + by apply vreset_not_empty'.
      + eapply vleq_trans; [apply vreset_leq|]. eapply vleq_trans; [done|apply vmerge_ub_r].
    - done.
  Qed.

  Lemma mmerge_entries_inv sc oc e1 e2 :
    vwf sc → vwf oc → mesinv sc e1 → mesinv oc e2 →
    mesinv (vmerge sc oc) (merge (mmerge_entry vo sc oc) e1 e2).
  Proof.
    intros Hsc Hoc H1 H2 k e. rewrite mmerge_entries_lookup.
    apply mmerge_entry_inv; [done..| |]; intros e' He'; [by apply (H1 k)|by apply (H2 k)].
  Qed.

  (** the pending table of a merge: the union of both tables, minus what
      the merged clock covers (a context of [o] that [s]'s clock covers is
      executed, not filed) *)
  Lemma mmerge_deferred s o c :
    mdeferred (mmerge vo s o) !! c =
      if vge (vmerge (mclock s) (mclock o)) c then None else
      match mdeferred o !! c with
      | Some ks => if vge (mclock s) c then mdeferred s !! c
                   else Some (default ∅ (mdeferred s !! c) ∪ ks)
      | None => mdeferred s !! c
      end.
  Proof.
    unfold mmerge. rewrite mapply_deferred_deferred. cbn [mclock mdeferred].
    set (s0 := CMap (mclock s) _ (mdeferred s)).
    change (map_fold _ s0 (mdeferred o)) with (mfold s0 (mdeferred o)).
    rewrite (mfold_clock s0), (mfold_deferred s0). subst s0. cbn [mclock mdeferred].
    destruct (vge (vmerge (mclock s) (mclock o)) c), (mdeferred o !! c), (vge (mclock s) c),
      (mdeferred s !! c); done.
  Qed.

  Lemma mmerge_entries_minv s o :
    vwf (mclock s) → vwf (mclock o) →
    mesinv (mclock s) (mentries s) → mesinv (mclock o) (mentries o) →
    mesinv (vmerge (mclock s) (mclock o)) (mentries (mmerge vo s o)).
  Proof.
    intros. unfold mmerge. apply mapply_deferred_entries_inv. cbn [mentries].
    apply (mfold_entries_inv _ (CMap _ _ _)). cbn [mentries]. by apply mmerge_entries_inv.
  Qed.

  Theorem mmerge_inv s o : minv s → minv o → minv (mmerge vo s o).
  Proof.
    intros (Hs1 & Hs2 & Hs3) (Ho1 & Ho2 & Ho3). unfold minv. rewrite mmerge_clock. split_and!.
    - by apply vmerge_wf.
    - by apply mmerge_entries_minv.
    - intros c ks. rewrite mmerge_deferred.
      destruct (vge (vmerge (mclock s) (mclock o)) c) eqn:Eg; [done|]. intros Hc.
      assert (vwf c) as Hw.
      { destruct (mdeferred o !! c) as [ks'|] eqn:Eo; [by destruct (Ho3 c ks' Eo)|].
        by destruct (Hs3 c ks Hc). }
      apply vge_false_spec in Eg; [|by apply vmerge_wf|done].
      split_and!; [done| |done]. by eapply not_vleq_ne_empty.
  Qed.
  Theorem mmerge_inv_weak s o : minv_weak s → minv_weak o → minv_weak (mmerge vo s o).
  Proof.
    intros (Hs1 & Hs2 & Hs3) (Ho1 & Ho2 & Ho3). unfold minv_weak. rewrite mmerge_clock. split_and!.
    - by apply vmerge_wf.
    - by apply mmerge_entries_minv.
    - intros c ks. rewrite mmerge_deferred.
      destruct (vge (vmerge (mclock s) (mclock o)) c) eqn:Eg; [done|]. intros Hc.
      destruct (mdeferred o !! c) as [ks'|] eqn:Eo; [by destruct (Ho3 c ks' Eo)|].
      by destruct (Hs3 c ks Hc).
  Qed.

  (** ** every state built from [new] by [apply] and [merge] *)
  Inductive mreach : cmap V → Prop :=
  | mreach_new : mreach mnew
  | mreach_apply s op : mreach s → mop_wf op → mreach (mapply vo s op)
  | mreach_merge s o : mreach s → mreach o → mreach (mmerge vo s o).
  Theorem mreach_minv s : mreach s → minv s.
  Proof.
    induction 1; [apply minv_new|by apply mapply_inv|by apply mmerge_inv].
  Qed.
  (** ops built by the API from such states are [mop_wf] *)
  Lemma mrm_wf s k : minv_weak s → mop_wf (mrm k (derive_rm_ctx (mget s k)) : mop O).
  Proof.
    intros (H1 & H2 & _). cbn. destruct (mentries s !! k) as [e|] eqn:Ek; cbn; [|apply vwf_empty].
    by destruct (H2 k e Ek).
  Qed.
  Lemma mrm_all_wf s k : minv_weak s → mop_wf (mrm k (derive_rm_ctx (mread_ctx s)) : mop O).
  Proof. by intros (H1 & _). Qed.

  (** ** [mreset] *)
  Theorem mreset_inv_weak s c : minv_weak s → minv_weak (mreset vo s c).
  Proof.
    intros (H1 & H2 & H3). unfold minv_weak. cbn [mreset mclock mentries mdeferred]. split_and!.
    - by apply vreset_wf.
    - intros k e'. rewrite map_lookup_imap.
      destruct (mentries s !! k) as [e|] eqn:Ek; cbn [mbind option_bind]; [|done].
      destruct (H2 k e Ek) as (Hw & Hne & Hle).
      destruct (vis_empty (vreset (eclock e) c)) eqn:Ee; [done|]. intros [= <-].
      unfold mewf. cbn [eclock]. split_and!.
      + by apply vreset_wf.
      + intros He. apply vis_empty_spec in He. congruence.
      + by apply vreset_mono.
    - apply dreset_wf. intros k ks Hk. by destruct (H3 k ks Hk).
  Qed.
  Corollary mreset_inv s c : minv s → minv_weak (mreset vo s c).
  Proof. intros. by apply mreset_inv_weak, minv_weaken. Qed.

  (** * 3. Read contexts (C07 for Map) *)
  (** Every read carries the map clock as its add context; whole-map reads
      carry it as remove context too. *)
  Theorem mread_add_clocks s k :
    add_clock (mget s k) = mclock s ∧ add_clock (mread_ctx s) = mclock s ∧
    add_clock (mlen s) = mclock s ∧ add_clock (mis_empty s) = mclock s ∧
    rm_clock (mread_ctx s) = mclock s ∧ rm_clock (mlen s) = mclock s ∧
    rm_clock (mis_empty s) = mclock s.
  Proof. done. Qed.

  Theorem mget_spec s k :
    rm_clock (mget s k) = match mentries s !! k with Some e => eclock e | None => ∅ end ∧
    rval (mget s k) = eval <$> mentries s !! k.
  Proof. cbn. by destruct (mentries s !! k). Qed.

  (** the remove context of [get] is the entry clock: empty exactly when
      the key is absent, and covered by the add context *)
  Theorem mget_ctx s k : minv_weak s →
    (rm_clock (mget s k) = ∅ ↔ rval (mget s k) = None) ∧
    vwf (rm_clock (mget s k)) ∧
    vleq (rm_clock (mget s k)) (add_clock (mget s k)).
  Proof.
    intros (H1 & H2 & _). cbn. destruct (mentries s !! k) as [e|] eqn:Ek; cbn.
    - destruct (H2 k e Ek) as (Hw & Hne & Hle). split_and!; [|done..]. split; [done|]. done.
    - split_and!; [done|apply vwf_empty|apply vleq_empty_min].
  Qed.

  Theorem miter_spec s (r : readctx (N * V)) :
    r ∈ miter s ↔ ∃ k e, mentries s !! k = Some e ∧ r = ReadCtx (mclock s) (eclock e) (k, eval e).
  Proof.
    unfold miter. rewrite elem_of_list_fmap. split.
    - intros ([k e] & -> & Hin). apply elem_of_map_to_list in Hin. by exists k, e.
    - intros (k & e & Hk & ->). exists (k, e). split; [done|]. by apply elem_of_map_to_list.
  Qed.
  (** every element of [iter] carries the contexts of [get] on its key *)
  Theorem miter_ctx s (r : readctx (N * V)) : minv_weak s → r ∈ miter s →
    add_clock r = add_clock (mget s (rval r).1) ∧
    rm_clock r = rm_clock (mget s (rval r).1) ∧
    rval (mget s (rval r).1) = Some (rval r).2 ∧
    add_clock r = mclock s ∧ rm_clock r ≠ ∅ ∧ vleq (rm_clock r) (add_clock r).
  Proof.
    intros (H1 & H2 & _) (k & e & Hk & ->)%miter_spec. cbn. rewrite Hk. cbn.
    destruct (H2 k e Hk) as (Hw & Hne & Hle). done.
  Qed.
  Theorem miter_keys s : NoDup ((λ r : readctx (N * V), (rval r).1) <$> miter s) ∧
    ∀ k, k ∈ (λ r : readctx (N * V), (rval r).1) <$> miter s ↔ is_Some (rval (mget s k)).
  Proof.
    assert ((λ r : readctx (N * V), (rval r).1) <$> miter s = (map_to_list (mentries s)).*1) as ->.
    { unfold miter. rewrite <- list_fmap_compose. by apply list_fmap_ext. }
    split; [apply NoDup_fst_map_to_list|]. intros k. cbn. rewrite fmap_is_Some.
    rewrite elem_of_list_fmap. split.
    - intros ([k' e] & -> & Hin). apply elem_of_map_to_list in Hin. by exists e.
    - intros [e He]. exists (k, e). split; [done|]. by apply elem_of_map_to_list.
  Qed.

  Theorem mlen_spec s :
    rval (mlen s) = N.of_nat (size (mentries s)) ∧
    rval (mlen s) = N.of_nat (length (miter s)).
  Proof. split; [done|]. cbn. f_equal. unfold miter. by rewrite fmap_length. Qed.
  Theorem mis_empty_spec s :
    (rval (mis_empty s) = true ↔ ∀ k, rval (mget s k) = None) ∧
    (rval (mis_empty s) = true ↔ rval (mlen s) = 0) ∧
    (rval (mis_empty s) = true ↔ miter s = []).
  Proof.
    cbn. rewrite bool_decide_eq_true. split_and!.
    - split.
      + intros -> k. by rewrite lookup_empty.
      + intros H. apply map_empty. intros k. specialize (H k). by destruct (mentries s !! k).
    - rewrite <- map_size_empty_iff. lia.
    - unfold miter. rewrite <- map_to_list_empty_iff. split; [by intros ->|apply fmap_nil_inv].
  Qed.

  (** ** Freshness of derived add contexts *)
  Theorem derive_add_ctx_fresh s a :
    let ctx := derive_add_ctx (mread_ctx s) a in
    let d := ac_dot ctx in
    dactor d = a ∧ dcounter d = vget (mclock s) a + 1 ∧
    ac_clock ctx = vapply (mclock s) d ∧
    (∀ x, vget (ac_clock ctx) x = if decide (x = a) then vget (mclock s) a + 1 else vget (mclock s) x).
  Proof.
    cbn. split_and!; [done..|]. intros x. rewrite vapply_get. cbn.
    destruct (decide (x = a)) as [->|]; [lia|done].
  Qed.
  (** an update built from it passes the gate; afterwards the map clock is
      the context's clock and records the dot *)
  Theorem mupdate_fresh_applies s a k f :
    let ctx := derive_add_ctx (mread_ctx s) a in
    let d := ac_dot ctx in
    let op := mupdate vo s k ctx f in
    let s' := mapply vo s op in
    (dcounter d <=? vget (mclock s) (dactor d)) = false ∧
    (∃ nop, op = MUp d k nop ∧
       s' = mapply_deferred vo
              (CMap (vapply (mclock s) d)
                 (<[k := MEntry (vapply (eclock (default (MEntry ∅ (v_default vo)) (mentries s !! k))) d)
                                (v_apply vo (eval (default (MEntry ∅ (v_default vo)) (mentries s !! k))) nop)]>
                    (mentries s))
                 (mdeferred s))) ∧
    mclock s' = ac_clock ctx ∧
    vget (mclock s') a = dcounter d ∧
    (∀ x, x ≠ a → vget (mclock s') x = vget (mclock s) x).
  Proof.
    cbn zeta. destruct (derive_add_ctx_fresh s a) as (Ha & Hc & Hcl & Hg).
    set (ctx := derive_add_ctx (mread_ctx s) a) in *. set (d := ac_dot ctx) in *.
    assert (vget (mclock s) (dactor d) < dcounter d) as Hlt by (rewrite Ha, Hc; lia).
    split; [lia|]. split.
    - eexists. split; [reflexivity|]. by apply mapply_up_fresh.
    - unfold mupdate. rewrite mapply_clock. fold d. rewrite <- Hcl. split; [done|].
      split; [rewrite Hg, decide_True by done; lia|]. intros x Hx. by rewrite Hg, decide_False.
  Qed.

  (** * 5. Neutral and idempotent merges *)
  (** What holds without any assumption on the nested type beyond the two
      laws in [val_ok]: on a state with well-formed clocks, NO pending
      remove and values satisfying [val_ok], merging with the empty map
      (either way round) and merging with itself return the state
      itself.  With a pending remove the statement is false under [minv]
      alone (see [mmerge_new_needs_no_pending] below: [merge] re-executes
      pending removes on the entries). *)
  Definition val_ok (v : V) : Prop := v_reset vo v ∅ = v ∧ v_merge vo v v = v.
  Definition mvals (P : V → Prop) s : Prop := ∀ k e, mentries s !! k = Some e → P (eval e).
  Definition mquiet (P : V → Prop) s : Prop := minv_weak s ∧ mdeferred s = ∅ ∧ mvals P s.

  Lemma vge_empty_false a : vwf a → a ≠ ∅ → vge ∅ a = false.
  Proof.
    intros Hw Hne. apply vge_false_spec; [apply vwf_empty|done|].
    intros Hle. by apply Hne, vleq_empty_inv.
  Qed.

  Theorem mmerge_new_r s :
    minv_weak s → mdeferred s = ∅ → mvals (λ v, v_reset vo v ∅ = v) s →
    mmerge vo s mnew = s.
  Proof.
    intros (H1 & H2 & _) Hd Hv. destruct s as [cl es df]. cbn [mclock mentries mdeferred] in *. subst df.
    unfold mmerge. cbn [mclock mentries mdeferred mnew].
    rewrite map_fold_empty. cbn [mclock mentries mdeferred]. rewrite vmerge_empty_r.
    rewrite mapply_deferred_empty by done. f_equal.
    apply map_eq. intros k. rewrite mmerge_entries_lookup, lookup_empty.
    destruct (es !! k) as [e|] eqn:Ek; [|done]. cbn [mmerge_entry].
    destruct (H2 k e Ek) as (Hw & Hne & _).
    rewrite vge_empty_false by done.
    rewrite vreset_empty_r, vreset_empty_left. specialize (Hv k e Ek). cbn in Hv. rewrite Hv.
    by destruct e.
  Qed.
  Theorem mmerge_new_l s :
    minv_weak s → mdeferred s = ∅ → mvals (λ v, v_reset vo v ∅ = v) s →
    mmerge vo mnew s = s.
  Proof.
    intros (H1 & H2 & _) Hd Hv. destruct s as [cl es df]. cbn [mclock mentries mdeferred] in *. subst df.
    unfold mmerge. cbn [mclock mentries mdeferred mnew].
    rewrite map_fold_empty. cbn [mclock mentries mdeferred]. rewrite vmerge_empty_l by done.
    rewrite mapply_deferred_empty by done. f_equal.
    apply map_eq. intros k. rewrite mmerge_entries_lookup, lookup_empty.
    destruct (es !! k) as [e|] eqn:Ek; [|done]. cbn [mmerge_entry].
    destruct (H2 k e Ek) as (Hw & Hne & _).
    rewrite vge_empty_false by done.
    rewrite vreset_empty_r, vreset_empty_left. specialize (Hv k e Ek). cbn in Hv. rewrite Hv.
    by destruct e.
  Qed.

  Lemma vintersection_self a : vwf a → vintersection a a = a.
  Proof.
    intros Ha. apply vwf_ext; [by apply vintersection_wf|done|].
    intros x. rewrite vintersection_get. by rewrite N.eqb_refl.
  Qed.

  Theorem mmerge_self s : mquiet val_ok s → mmerge vo s s = s.
  Proof.
    intros ((H1 & H2 & _) & Hd & Hv). destruct s as [cl es df]. cbn [mclock mentries mdeferred] in *. subst df.
    unfold mmerge. cbn [mclock mentries mdeferred].
    rewrite map_fold_empty. cbn [mclock mentries mdeferred]. rewrite vmerge_idem.
    rewrite mapply_deferred_empty by done. f_equal.
    apply map_eq. intros k. rewrite mmerge_entries_lookup.
    destruct (es !! k) as [e|] eqn:Ek; [|done]. cbn [mmerge_entry].
    destruct (H2 k e Ek) as (Hw & Hne & Hle). destruct (Hv k e Ek) as [Hr Hm].
    unfold vclone_without. rewrite (vreset_covered _ _ Hw Hle), vintersection_self, !vmerge_empty_r by done.
    assert (vis_empty (eclock e) = false) as ->.
    { destruct (vis_empty (eclock e)) eqn:Ee; [|done]. by apply vis_empty_spec in Ee. }
    rewrite vmerge_idem, vreset_self, Hm, Hr. by destruct e.
  Qed.

  Theorem mreset_empty_quiet s : mquiet (λ v, v_reset vo v ∅ = v) s → mreset vo s ∅ = s.
  Proof.
    intros ((H1 & H2 & _) & Hd & Hv). destruct s as [cl es df]. cbn [mclock mentries mdeferred] in *. subst df.
    unfold mreset. cbn [mclock mentries mdeferred]. rewrite vreset_empty_r. f_equal.
    apply map_eq. intros k. rewrite map_lookup_imap.
    destruct (es !! k) as [e|] eqn:Ek; [|done]. cbn [mbind option_bind].
    destruct (H2 k e Ek) as (Hw & Hne & Hle). rewrite vreset_empty_r.
    assert (vis_empty (eclock e) = false) as ->.
    { destruct (vis_empty (eclock e)) eqn:Ee; [|done]. by apply vis_empty_spec in Ee. }
    specialize (Hv k e Ek). cbn in Hv. rewrite Hv. by destruct e.
  Qed.

  (** all neutral/idempotent merge facts at once *)
  Theorem mmerge_quiet s : mquiet val_ok s →
    mmerge vo s mnew = s ∧ mmerge vo mnew s = s ∧ mmerge vo s s = s ∧ mreset vo s ∅ = s.
  Proof.
    intros Hq. pose proof Hq as (Hi & Hd & Hv).
    assert (mvals (λ v, v_reset vo v ∅ = v) s) as Hv'.
    { intros k e Hk. by destruct (Hv k e Hk). }
    split_and!; [by apply mmerge_new_r|by apply mmerge_new_l|by apply mmerge_self|].
    by apply mreset_empty_quiet.
  Qed.

  (** ** The same with pending removes: they must be no-ops on the entries *)
  (** [merge] re-executes every pending remove of both sides on the
      entries.  In a state where that changes nothing ([msettled]: true
      after [apply_deferred] when the nested [reset_remove] is idempotent)
      and where every pending context is still uncovered ([minv]), the
      three merges return the state itself. *)
  Definition msettled s : Prop :=
    ∀ c ks, mdeferred s !! c = Some ks → mrm_entries vo (mentries s) ks c = mentries s.

  (** sufficient: the named entries share no dot with the context and the
      nested [reset_remove] under it changes nothing *)
  Lemma mrm_entries_noop es ks c :
    (∀ k e, k ∈ ks → es !! k = Some e →
       vreset (eclock e) c = eclock e ∧ eclock e ≠ ∅ ∧ v_reset vo (eval e) c = eval e) →
    mrm_entries vo es ks c = es.
  Proof.
    intros H. apply map_eq. intros k. rewrite mrm_entries_lookup.
    destruct (es !! k) as [e|] eqn:Ek; [|done]. cbn [mbind option_bind].
    case_bool_decide as Hin; [|done]. destruct (H k e Hin Ek) as (-> & Hne & ->).
    destruct (vis_empty (eclock e)) eqn:Ee; [by apply vis_empty_spec in Ee|]. by destruct e.
  Qed.

  Lemma cmap_eq3 s o :
    mclock s = mclock o → mentries s = mentries o → mdeferred s = mdeferred o → s = o.
  Proof. destruct s, o. cbn. by intros -> -> ->. Qed.

  Lemma mfold_entries_ind' (P : gmap N (mentry V) → Prop) s D :
    (∀ c ks es, D !! c = Some ks → P es → P (mrm_entries vo es ks c)) →
    P (mentries s) → P (mentries (mfold s D)).
  Proof.
    intros HP Hs. revert HP. unfold mfold.
    apply (map_fold_ind (λ r D, (∀ c ks es, D !! c = Some ks → P es → P (mrm_entries vo es ks c)) →
                                P (mentries r))); [done|].
    intros c ks D' r Hc IH HP. rewrite mapply_rm_entries. apply (HP c ks).
    - by rewrite lookup_insert.
    - apply IH. intros c' ks' es' Hc'. apply HP. rewrite lookup_insert_ne; [done|]. congruence.
  Qed.
  Lemma mfold_entries_settled cl es T D :
    (∀ c ks, D !! c = Some ks → mrm_entries vo es ks c = es) →
    mentries (mfold (CMap cl es T) D) = es.
  Proof.
    intros H. apply (mfold_entries_ind' (λ es', es' = es)); [|done].
    intros c ks es' Hc ->. by apply (H c ks).
  Qed.

  Lemma mapply_deferred_settled s : minv s → msettled s → mapply_deferred vo s = s.
  Proof.
    intros (H1 & H2 & H3) Hs. apply cmap_eq3.
    - apply mapply_deferred_clock.
    - rewrite mapply_deferred_mfold. by apply mfold_entries_settled.
    - apply map_eq. intros c. rewrite mapply_deferred_deferred.
      destruct (mdeferred s !! c) as [ks|] eqn:Ec; [|done].
      destruct (H3 c ks Ec) as (Hw & _ & Hn). apply (vge_false_spec _ _ H1 Hw) in Hn. by rewrite Hn.
  Qed.

  Lemma mmerge_unfold s o :
    mmerge vo s o =
      let s1 := mfold (CMap (mclock s) (merge (mmerge_entry vo (mclock s) (mclock o)) (mentries s) (mentries o))
                            (mdeferred s)) (mdeferred o) in
      mapply_deferred vo (CMap (vmerge (mclock s) (mclock o)) (mentries s1) (mdeferred s1)).
  Proof. unfold mmerge. cbn zeta. by rewrite (mfold_clock (CMap _ _ _)). Qed.

  Lemma mmerge_entries_new_r cl es :
    mesinv cl es → (∀ k e, es !! k = Some e → v_reset vo (eval e) ∅ = eval e) →
    merge (mmerge_entry vo cl ∅) es ∅ = es.
  Proof.
    intros H2 Hv. apply map_eq. intros k. rewrite mmerge_entries_lookup, lookup_empty.
    destruct (es !! k) as [e|] eqn:Ek; [|done]. cbn [mmerge_entry].
    destruct (H2 k e Ek) as (Hw & Hne & _).
    rewrite vge_empty_false by done.
    rewrite vreset_empty_r, vreset_empty_left, (Hv k e Ek). by destruct e.
  Qed.
  Lemma mmerge_entries_new_l cl es :
    mesinv cl es → (∀ k e, es !! k = Some e → v_reset vo (eval e) ∅ = eval e) →
    merge (mmerge_entry vo ∅ cl) ∅ es = es.
  Proof.
    intros H2 Hv. apply map_eq. intros k. rewrite mmerge_entries_lookup, lookup_empty.
    destruct (es !! k) as [e|] eqn:Ek; [|done]. cbn [mmerge_entry].
    destruct (H2 k e Ek) as (Hw & Hne & _).
    rewrite vge_empty_false by done.
    rewrite vreset_empty_r, vreset_empty_left, (Hv k e Ek). by destruct e.
  Qed.
  Lemma mmerge_entries_self cl es :
    mesinv cl es → (∀ k e, es !! k = Some e → val_ok (eval e)) →
    merge (mmerge_entry vo cl cl) es es = es.
  Proof.
    intros H2 Hv. apply map_eq. intros k. rewrite mmerge_entries_lookup.
    destruct (es !! k) as [e|] eqn:Ek; [|done]. cbn [mmerge_entry].
    destruct (H2 k e Ek) as (Hw & Hne & Hle). destruct (Hv k e Ek) as [Hr Hm].
    unfold vclone_without. rewrite (vreset_covered _ _ Hw Hle), vintersection_self, !vmerge_empty_r by done.
    assert (vis_empty (eclock e) = false) as ->.
    { destruct (vis_empty (eclock e)) eqn:Ee; [|done]. by apply vis_empty_spec in Ee. }
    rewrite vmerge_idem, vreset_self, Hm, Hr. by destruct e.
  Qed.

  Theorem mmerge_new_r_settled s :
    minv s → msettled s → mvals (λ v, v_reset vo v ∅ = v) s → mmerge vo s mnew = s.
  Proof.
    intros Hi Hs Hv. pose proof Hi as (H1 & H2 & H3). rewrite mmerge_unfold. cbn [mnew mclock mentries mdeferred].
    unfold mfold. rewrite map_fold_empty. cbn [mentries mdeferred].
    rewrite mmerge_entries_new_r, vmerge_empty_r by done.
    destruct s as [cl es df]. by apply mapply_deferred_settled.
  Qed.
  Theorem mmerge_new_l_settled s :
    minv s → msettled s → mvals (λ v, v_reset vo v ∅ = v) s → mmerge vo mnew s = s.
  Proof.
    intros Hi Hs Hv. pose proof Hi as (H1 & H2 & H3). rewrite mmerge_unfold. cbn [mnew mclock mentries mdeferred].
    rewrite mmerge_entries_new_l, vmerge_empty_l by done. cbn zeta.
    rewrite mfold_entries_settled by done.
    assert (mdeferred (mfold (CMap ∅ (mentries s) ∅) (mdeferred s)) = mdeferred s) as ->.
    { apply map_eq. intros c. rewrite mfold_deferred. cbn [mclock mdeferred]. rewrite lookup_empty.
      destruct (mdeferred s !! c) as [ks|] eqn:Ec; [|done].
      destruct (H3 c ks Ec) as (Hw & Hne & _). rewrite vge_empty_false by done.
      cbn. by rewrite (left_id_L ∅ (∪)). }
    destruct s as [cl es df]. by apply mapply_deferred_settled.
  Qed.
  Theorem mmerge_self_settled s :
    minv s → msettled s → mvals val_ok s → mmerge vo s s = s.
  Proof.
    intros Hi Hs Hv. pose proof Hi as (H1 & H2 & H3). rewrite mmerge_unfold.
    rewrite mmerge_entries_self, vmerge_idem by done. cbn zeta.
    rewrite mfold_entries_settled by done.
    assert (mdeferred (mfold (CMap (mclock s) (mentries s) (mdeferred s)) (mdeferred s)) = mdeferred s) as ->.
    { apply map_eq. intros c. rewrite mfold_deferred. cbn [mclock mdeferred].
      destruct (mdeferred s !! c) as [ks|] eqn:Ec; [|done].
      destruct (vge (mclock s) c); [done|]. cbn. by rewrite (idemp_L (∪)). }
    destruct s as [cl es df]. by apply mapply_deferred_settled.
  Qed.

  (** ** A boolean form of the invariants (to evaluate on concrete states) *)
  Definition minvb s : bool :=
    vwfb (mclock s)
    && bool_decide (map_Forall (λ _ e,
         vwfb (eclock e) = true ∧ eclock e ≠ ∅ ∧ vdominates (mclock s) (eclock e) = true) (mentries s))
    && bool_decide (map_Forall (λ (c : gmap N N) (_ : gset N),
         vwfb c = true ∧ c ≠ ∅ ∧ vdominates (mclock s) c = false) (mdeferred s)).
  Lemma minvb_spec s : minvb s = true ↔ minv s.
  Proof.
    unfold minvb, minv. rewrite !andb_true_iff, !bool_decide_eq_true, vwfb_spec.
    split.
    - intros [[Hc He] Hd]. split_and!; [done|..].
      + intros k e H. destruct (He k e H) as (H1 & H2 & H3).
        split_and!; [by apply vwfb_spec|done|by apply vdom_true].
      + intros c ks H. destruct (Hd c ks H) as (H1 & H2 & H3).
        split_and!; [by apply vwfb_spec|done|by apply vdom_false].
    - intros (Hc & He & Hd). split_and!; [done|..].
      + intros k e H. destruct (He k e H) as (H1 & H2 & H3).
        split_and!; [by apply vwfb_spec|done|by apply vdominates_spec].
      + intros c ks H. destruct (Hd c ks H) as (H1 & H2 & H3).
        split_and!; [by apply vwfb_spec|done|].
        destruct (vdominates (mclock s) c) eqn:Ed; [|done]. by apply vdom_true in Ed.
  Qed.
End map_facts.

Global Arguments minv {_} _.
Global Arguments minv_weak {_} _.

(** * The "not covered" part of [minv] does not survive [reset_remove] *)
(** A pending remove under {1:2, 2:1} on a map with clock {1:1, 2:1} (the
    remove overtook the update 1.2).  [reset_remove {1:2}] shrinks both
    to {2:1}: the pending context is now covered by the clock although it
    is still filed.  (It is executed and dropped by the next [apply] of
    an update or [merge].) *)
Example mreset_breaks_minv :
  let s : cmap mvreg := CMap {[ 1 := 1; 2 := 1 ]} ∅ {[ {[ 1 := 2; 2 := 1 ]} := {[ 7 ]} ]} in
  let c : gmap N N := {[ 1 := 2 ]} in
  minv s ∧
  mreset mvreg_valops s c = CMap {[ 2 := 1 ]} ∅ {[ {[ 2 := 1 ]} := {[ 7 ]} ]} ∧
  ¬ minv (mreset mvreg_valops s c) ∧
  minv_weak (mreset mvreg_valops s c).
Proof.
  cbv zeta. set (s := CMap _ _ _). set (c := {[ 1 := 2 ]}).
  assert (minv s) as Hs by (apply minvb_spec; by vm_compute).
  split_and!; [done| | |by apply mreset_inv].
  - apply (bool_decide_unpack _). by vm_compute.
  - rewrite <- minvb_spec. by vm_compute.
Qed.

(** * [merge] with the empty map is not neutral in the presence of a
    pending remove, under [minv] alone *)
(** [merge] re-executes the pending removes of both sides on the entries.
    In the (unreachable, but [minv]) state below a pending remove under
    {1:5} names key 0 whose entry {1:1} it covers: merging with the empty
    map executes it. *)
Example mmerge_new_needs_no_pending :
  let s : cmap mvreg :=
    CMap {[ 1 := 1 ]} {[ 0 := MEntry {[ 1 := 1 ]} [({[ 1 := 1 ]}, 5)] ]} {[ {[ 1 := 5 ]} := {[ 0 ]} ]} in
  minv s ∧
  mmerge mvreg_valops s mnew ≠ s ∧ mmerge mvreg_valops mnew s ≠ s ∧ mmerge mvreg_valops s s ≠ s ∧
  rval (mget (mmerge mvreg_valops s mnew) 0) = None.
Proof.
  cbv zeta. split; [apply minvb_spec; by vm_compute|].
  apply (bool_decide_unpack _). by vm_compute.
Qed.

(** * Instances of section 5 *)
Lemma mquiet_mono {V} (P Q : V → Prop) (s : cmap V) :
  (∀ v, P v → Q v) → mquiet P s → mquiet Q s.
Proof. intros HPQ (Hi & Hd & Hv). split_and!; [done..|]. intros k e Hk. by apply HPQ, (Hv k e). Qed.

(** Nesting: quiet maps of good values are good values. *)
Lemma map_val_ok {V O E} (vo : valops V O E) (P : V → Prop) :
  (∀ v, P v → val_ok vo v) → ∀ s, mquiet P s → val_ok (map_valops vo) s.
Proof.
  intros HP s Hq. apply (mquiet_mono _ _ _ HP) in Hq.
  destruct (mmerge_quiet vo s Hq) as (_ & _ & Hm & Hr). by split.
Qed.

(** ** MVReg: non-empty clocks, no value strictly dominated by another *)
Definition mv_ok (s : mvreg) : Prop :=
  Forall (λ p, p.1 ≠ ∅) s ∧ ∀ p q, p ∈ s → q ∈ s → vlt p.1 q.1 = false.

Lemma list_filter_all {A} (f : A → bool) l : (∀ x, x ∈ l → f x = true) → List.filter f l = l.
Proof.
  induction l as [|x l IH]; intros H; [done|]. cbn [List.filter].
  rewrite (H x) by left. f_equal. apply IH. intros y Hy. apply H. by right.
Qed.
Lemma list_filter_none {A} (f : A → bool) l : (∀ x, x ∈ l → f x = false) → List.filter f l = [].
Proof.
  induction l as [|x l IH]; intros H; [done|]. cbn [List.filter].
  rewrite (H x) by left. apply IH. intros y Hy. apply H. by right.
Qed.

Lemma mvmerge_self s : (∀ p q, p ∈ s → q ∈ s → vlt p.1 q.1 = false) → mvmerge s s = s.
Proof.
  intros H. unfold mvmerge. rewrite (list_filter_all _ s).
  - rewrite list_filter_none; [by rewrite app_nil_r|].
    intros p Hp. apply andb_false_iff. right.
    destruct (forallb _ s) eqn:Ef; [|done].
    rewrite forallb_forall in Ef. specialize (Ef p (proj1 (elem_of_list_In _ _) Hp)).
    by rewrite bool_decide_eq_true_2 in Ef.
  - intros p Hp. apply forallb_forall. intros q Hq%elem_of_list_In. by rewrite H.
Qed.
Lemma mvreg_val_ok s : mv_ok s → val_ok mvreg_valops s.
Proof. intros [H1 H2]. split; cbn; [by apply mvreset_empty|by apply mvmerge_self]. Qed.

(** ** Orswot: well-formed, no pending remove *)
Definition or_ok (s : orswot) : Prop := orswot_wf s ∧ odeferred s = ∅.

Lemma omerge_self s : or_ok s → omerge s s = s.
Proof.
  intros [(Hc & He & _) Hd].
  assert (ewf (oentries s)) as Hew.
  { intros m k Hk. destruct (He m k Hk) as (? & ? & _). by split. }
  assert (oclock (omerge s s) = oclock s) as H1 by (by rewrite omerge_clock, vmerge_idem).
  assert (odeferred (omerge s s) = odeferred s) as H3.
  { apply map_eq. intros c. rewrite omerge_deferred, Hd, lookup_empty. by destruct (vle _ _). }
  assert (oentries (omerge s s) = oentries s) as H2.
  { apply ewf_ext; [by apply omerge_wf|done|]. intros m a.
    destruct (omerge_eget s s m a Hc Hc Hew Hew) as [[-> _]|[_ (c & ms & [Hl|Hl] & _)]].
    - assert (eget (oentries s) m a <= vget (oclock s) a) as Hle.
      { unfold eget. destruct (oentries s !! m) as [k|] eqn:Ek; cbn [oclk].
        - destruct (He m k Ek) as (_ & _ & Hle). apply Hle.
        - rewrite vget_empty. lia. }
      unfold gmerge. rewrite N.eqb_refl.
      destruct (eget (oentries s) m a <=? vget (oclock s) a) eqn:E; lia.
    - by rewrite Hd, lookup_empty in Hl.
    - by rewrite Hd, lookup_empty in Hl. }
  destruct (omerge s s), s. cbn in *. by subst.
Qed.
Lemma orswot_val_ok s : or_ok s → val_ok orswot_valops s.
Proof.
  intros Hs. pose proof Hs as [(Hc & He & _) Hd]. split; cbn; [|by apply omerge_self].
  apply oreset_empty.
  - intros m k Hk. by destruct (He m k Hk) as (_ & ? & _).
  - intros k ms. by rewrite Hd, lookup_empty.
Qed.

(** ** Map<_, MVReg>, Map<_, Orswot>, Map<_, Map<_, MVReg>> *)
Theorem mapmv_merge_quiet (s : cmap mvreg) : mquiet mv_ok s →
  mmerge mvreg_valops s mnew = s ∧ mmerge mvreg_valops mnew s = s ∧
  mmerge mvreg_valops s s = s ∧ mreset mvreg_valops s ∅ = s.
Proof. intros Hq. apply mmerge_quiet. revert Hq. apply mquiet_mono, mvreg_val_ok. Qed.
Theorem mapor_merge_quiet (s : cmap orswot) : mquiet or_ok s →
  mmerge orswot_valops s mnew = s ∧ mmerge orswot_valops mnew s = s ∧
  mmerge orswot_valops s s = s ∧ mreset orswot_valops s ∅ = s.
Proof. intros Hq. apply mmerge_quiet. revert Hq. apply mquiet_mono, orswot_val_ok. Qed.
Theorem mapmm_merge_quiet (s : cmap (cmap mvreg)) : mquiet (mquiet mv_ok) s →
  let vo := map_valops mvreg_valops in
  mmerge vo s mnew = s ∧ mmerge vo mnew s = s ∧ mmerge vo s s = s ∧ mreset vo s ∅ = s.
Proof.
  intros Hq vo. apply mmerge_quiet. revert Hq. apply mquiet_mono.
  apply map_val_ok, mvreg_val_ok.
Qed.

(** * Non-vacuity of the side conditions *)
(** A reachable Map<_, MVReg> state WITH a pending remove that is
    [minv] and [msettled]: a remove of key 0 under {1:5} arrives first,
    then actor 2 writes 9 at key 0. *)
Example msettled_nonvacuous :
  let s0 : cmap mvreg := mnew in
  let s1 := mapply mvreg_valops s0 (MRm {[ 1 := 5 ]} {[ 0 ]}) in
  let op := mupdate mvreg_valops s1 0 (derive_add_ctx (mread_ctx s1) 2) (λ _ ctx, mvwrite 9 ctx) in
  let s := mapply mvreg_valops s1 op in
  mreach mvreg_valops s ∧ minv s ∧ msettled mvreg_valops s ∧ mvals mv_ok s ∧
  mdeferred s = {[ {[ 1 := 5 ]} := {[ 0 ]} ]} ∧
  mmerge mvreg_valops s mnew = s ∧ mmerge mvreg_valops mnew s = s ∧ mmerge mvreg_valops s s = s.
Proof.
  cbv zeta.
  set (s := mapply mvreg_valops (mapply mvreg_valops mnew _) _).
  assert (mreach mvreg_valops s) as Hr.
  { apply mreach_apply; [apply mreach_apply; [apply mreach_new|]|done].
    cbn. intros a n. rewrite lookup_singleton_Some. by intros [_ <-]. }
  assert (s = CMap {[ 2 := 1 ]} {[ 0 := MEntry {[ 2 := 1 ]} [({[ 2 := 1 ]}, 9)] ]}
                   {[ {[ 1 := 5 ]} := {[ 0 ]} ]}) as Hs
    by (apply (bool_decide_unpack _); by vm_compute).
  assert (minv s) as Hi by (by apply mreach_minv in Hr).
  assert (msettled mvreg_valops s) as Hse.
  { rewrite Hs. intros c ks. cbn [mdeferred mentries]. rewrite lookup_singleton_Some. intros [<- <-].
    apply (bool_decide_unpack _). by vm_compute. }
  assert (mvals mv_ok s) as Hv.
  { rewrite Hs. intros k e. cbn [mentries]. rewrite lookup_singleton_Some. intros [<- <-]. cbn. split.
    - repeat constructor. cbn. apply (bool_decide_unpack _). by vm_compute.
    - intros p q ->%elem_of_list_singleton ->%elem_of_list_singleton. by vm_compute. }
  assert (mvals (val_ok mvreg_valops) s) as Hv'.
  { intros k e Hk. by apply mvreg_val_ok, (Hv k e). }
  split_and!; [done..|by rewrite Hs| | |].
  - apply mmerge_new_r_settled; [done..|]. intros k e Hk. by destruct (Hv' k e Hk).
  - apply mmerge_new_l_settled; [done..|]. intros k e Hk. by destruct (Hv' k e Hk).
  - by apply mmerge_self_settled.
Qed.

Print Assumptions mapply_dedup.
Print Assumptions mreach_minv.
Print Assumptions mapply_inv_weak.
Print Assumptions mmerge_inv_weak.
Print Assumptions mreset_inv_weak.
Print Assumptions mmerge_deferred.
Print Assumptions mget_ctx.
Print Assumptions miter_ctx.
Print Assumptions miter_keys.
Print Assumptions mis_empty_spec.
Print Assumptions mupdate_fresh_applies.
Print Assumptions mapply_clock_mono.
Print Assumptions mmerge_clock.
Print Assumptions mmerge_quiet.
Print Assumptions mmerge_new_r_settled.
Print Assumptions mmerge_new_l_settled.
Print Assumptions mmerge_self_settled.
Print Assumptions mreset_breaks_minv.
Print Assumptions mmerge_new_needs_no_pending.
Print Assumptions mapmv_merge_quiet.
Print Assumptions mapor_merge_quiet.
Print Assumptions mapmm_merge_quiet.
Print Assumptions msettled_nonvacuous.
