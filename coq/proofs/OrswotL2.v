(** The local refinement lemma L2 for the Orswot: merging the specification
    states of two valid knowledge sets gives the specification state of their
    union (clock, entries and pending-remove table, Leibniz equality).

    Model-side characterisation of [omerge] in proofs/OrswotL2a.v; this file holds
    the history facts ([l2_seen]), the per-member/per-actor case analysis
    ([core_l2], [l2_pointwise]) and the theorem [orswot_L2]. *)
From Crdt Require Import model.Orswot spec.System spec.OrswotSpec spec.OrswotSystem
  proofs.VClock proofs.OrswotLayer proofs.OrswotL2a.
From Coq Require Import ZifyBool ZifyN.
Local Open Scope N_scope.

(** * facts about well-formed histories and valid knowledge sets *)
Lemma l2_count_lt (H : list (oprec oop)) a i j rj :
  (j < i)%nat → H !! j = Some rj → is_add_by a rj = true →
  (length (List.filter (is_add_by a) (take j H)) < length (List.filter (is_add_by a) (take i H)))%nat.
Proof.
  intros Hlt Hj Ha.
  assert (take i H !! j = Some rj) as Hj' by (by rewrite lookup_take).
  apply take_drop_middle in Hj'. rewrite take_take, Nat.min_l in Hj' by lia.
  rewrite <- Hj', List.filter_app, app_length. cbn [List.filter]. rewrite Ha. cbn [length]. lia.
Qed.

Lemma l2_add_wf H i r d ms : owfH H → H !! i = Some r → op_val r = OAdd d ms →
  dactor d = op_author r ∧
  dcounter d = N.of_nat (length (List.filter (is_add_by (op_author r)) (take i H))) + 1.
Proof. intros HH Hi Ho. specialize (HH i r Hi). by rewrite Ho in HH. Qed.

Lemma l2_rm_wf H K c ms : owfH H → ORm c ms ∈ known_ops H K → vwf c.
Proof.
  intros HH (i & r & Hi & _ & Ho)%elem_of_known_ops. specialize (HH i r Hi). by rewrite Ho in HH.
Qed.

(** (F1) an add dot of the history below the clock of a valid knowledge set
    belongs to an op of that set *)
Lemma l2_seen H K i r a n ms : owfH H → ovalid H K → H !! i = Some r →
  op_val r = OAdd (Dot a n) ms → n <= vget (ospec_clock (known_ops H K)) a → i ∈ K.
Proof.
  intros HH [HK1 HK2] Hi Ho Hn.
  destruct (l2_add_wf _ _ _ _ _ HH Hi Ho) as [Ha Hc]. cbn [dactor dcounter] in Ha, Hc.
  rewrite ospec_clock_get in Hn.
  destruct (max_ctr_witness (fst <$> adds_of (known_ops H K)) a) as [H0|(d & Hin & Hda & Hdc)]; [lia|].
  apply elem_of_list_fmap in Hin as ([d' ms'] & -> & Hin). cbn [fst] in *.
  apply elem_of_adds_of, elem_of_known_ops in Hin as (j & rj & Hj & HjK & Hoj).
  destruct (l2_add_wf _ _ _ _ _ HH Hj Hoj) as [Haj Hcj].
  destruct (lt_eq_lt_dec i j) as [[Hlt| ->]|Hlt]; [|done|].
  - eapply (HK2 j i rj r); try done. congruence.
  - exfalso. assert (is_add_by a rj = true) as Hb.
    { unfold is_add_by. rewrite Hoj. apply bool_decide_eq_true. congruence. }
    pose proof (l2_count_lt H a i j rj Hlt Hj Hb) as Hl.
    rewrite <- Ha in Hc. rewrite <- Haj, Hda in Hcj. lia.
Qed.

(** [m] is named by the add of the history carrying the dot [(a,n)] *)
Definition memb (H : list (oprec oop)) (m a n : N) : Prop :=
  ∃ i r ms, H !! i = Some r ∧ op_val r = OAdd (Dot a n) ms ∧ m ∈ ms.

Lemma l2_memb_pos H m a n : owfH H → memb H m a n → 0 < n.
Proof.
  intros HH (i & r & ms & Hi & Ho & _).
  destruct (l2_add_wf _ _ _ _ _ HH Hi Ho) as [_ Hc]. cbn [dcounter] in Hc. lia.
Qed.

Lemma l2_add_known H K m a n : owfH H → ovalid H K →
  (∃ ms, OAdd (Dot a n) ms ∈ known_ops H K ∧ m ∈ ms) ↔
  memb H m a n ∧ n <= vget (ospec_clock (known_ops H K)) a.
Proof.
  intros HH HK. split.
  - intros (ms & Hin & Hm). split.
    + apply elem_of_known_ops in Hin as (i & r & Hi & _ & Ho). by exists i, r, ms.
    + rewrite ospec_clock_get. apply (max_ctr_ge _ _ (Dot a n)); [|done].
      apply (elem_of_list_fmap_1 fst _ (Dot a n, ms)). by apply elem_of_adds_of.
  - intros [(i & r & ms & Hi & Ho & Hm) Hn]. exists ms. split; [|done].
    apply elem_of_known_ops. exists i, r. split; [done|]. split; [|done].
    by eapply l2_seen.
Qed.

(** * coverage *)
Definition cov (os : list oop) (m a n : N) : Prop := covered (rms_of os) m (Dot a n) = true.

Lemma cov_spec os m a n : cov os m a n ↔ ∃ c ms, ORm c ms ∈ os ∧ m ∈ ms ∧ n <= vget c a.
Proof. unfold cov. by rewrite covered_spec. Qed.
Lemma cov_down os m a n n' : n' <= n → cov os m a n → cov os m a n'.
Proof.
  rewrite !cov_spec. intros Hle (c & ms & ? & ? & ?). exists c, ms. split; [done|]. split; [done|lia].
Qed.
Lemma cov_app os1 os2 m a n : cov (os1 ++ os2) m a n ↔ cov os1 m a n ∨ cov os2 m a n.
Proof.
  rewrite !cov_spec. setoid_rewrite elem_of_app. split.
  - intros (c & ms & [?|?] & ? & ?); [left|right]; by exists c, ms.
  - intros [(c & ms & ? & ? & ?)|(c & ms & ? & ? & ?)]; exists c, ms; tauto.
Qed.

Lemma l2_deferred_Some os c ms :
  ospec_deferred os !! c = Some ms ↔
  (∃ ms', ORm c ms' ∈ os) ∧ vle c (ospec_clock os) = false ∧ ms = rm_members os c.
Proof.
  rewrite ospec_deferred_lookup. destruct (decide (c ∈ (fst <$> rms_of os))) as [Hin|Hin].
  - apply elem_of_rm_clocks in Hin. destruct (vle c (ospec_clock os)); split.
    + done.
    + intros (_ & ? & _). done.
    + intros [= <-]. done.
    + intros (_ & _ & ->). done.
  - split; [done|]. intros (Hex & _). destruct Hin. by apply elem_of_rm_clocks.
Qed.

Lemma l2_tcov_cov os m a n : tcov (ospec_deferred os) m a n → cov os m a n.
Proof.
  intros (c & ms & Hl & Hin & Hle). apply l2_deferred_Some in Hl as (_ & _ & ->).
  apply elem_of_rm_members in Hin as (ms' & ? & ?). apply cov_spec. by exists c, ms'.
Qed.

Lemma l2_cov_split H K m a n : owfH H → cov (known_ops H K) m a n →
  n <= vget (ospec_clock (known_ops H K)) a ∨ tcov (ospec_deferred (known_ops H K)) m a n.
Proof.
  intros HH (c & ms & Hin & Hm & Hle)%cov_spec.
  destruct (vle c (ospec_clock (known_ops H K))) eqn:E.
  - left. apply vle_spec in E; [|by eapply l2_rm_wf|apply ospec_clock_wf]. specialize (E a). lia.
  - right. exists c, (rm_members (known_ops H K) c). split.
    + apply l2_deferred_Some. split; [by exists ms|done].
    + split; [|done]. apply elem_of_rm_members. by exists ms.
Qed.

(** * maxima *)
Definition ismax (P : N → Prop) (x : N) : Prop := (x = 0 ∨ P x) ∧ ∀ n, P n → n <= x.

Lemma max_ctr_ismax ds a (P : N → Prop) : (∀ n, Dot a n ∈ ds ↔ P n) → ismax P (max_ctr ds a).
Proof.
  intros HP. split.
  - destruct (max_ctr_witness ds a) as [?|(d & Hin & Ha & Hc)]; [by left|right].
    apply HP. destruct d as [a' n']. cbn in Ha, Hc. by subst.
  - intros n Hn. apply HP in Hn. by apply (max_ctr_ge _ _ (Dot a n)).
Qed.

(** * the per-member, per-actor case analysis (side 1's clock is the smaller one) *)
Section core.
  Variables (mb cov1 cov2 p1 p2 : N → Prop) (c1 c2 x1 x2 x : N).
  Hypothesis Hc : c1 <= c2.
  Hypothesis dc1 : ∀ n n', n' <= n → cov1 n → cov1 n'.
  Hypothesis dc2 : ∀ n n', n' <= n → cov2 n → cov2 n'.
  Hypothesis np1 : ∀ n, cov1 n → n <= c1 ∨ p1 n.
  Hypothesis np2 : ∀ n, cov2 n → n <= c2 ∨ p2 n.
  Hypothesis pc1 : ∀ n, p1 n → cov1 n.
  Hypothesis pc2 : ∀ n, p2 n → cov2 n.
  Hypothesis H1 : ismax (λ n, 0 < n ∧ n <= c1 ∧ mb n ∧ ¬ cov1 n) x1.
  Hypothesis H2 : ismax (λ n, 0 < n ∧ n <= c2 ∧ mb n ∧ ¬ cov2 n) x2.
  Hypothesis Hx : ismax (λ n, 0 < n ∧ n <= c2 ∧ mb n ∧ ¬ cov1 n ∧ ¬ cov2 n) x.

  Lemma core_l2 :
    let v := if x1 =? x2 then x1 else if x2 <=? c1 then 0 else x2 in
    (v = 0 → x = 0) ∧
    (0 < v → ¬ p1 v → ¬ p2 v → x = v) ∧
    (0 < v → p1 v ∨ p2 v → x = 0).
  Proof.
    destruct H1 as [H1a H1b], H2 as [H2a H2b], Hx as [Hxa Hxb].
    assert (x <= x2) as Hxx2.
    { destruct Hxa as [->|(? & ? & ? & ? & ?)]; [lia|]. by apply H2b. }
    intros v. subst v. destruct (x1 =? x2) eqn:E12.
    - assert (x1 = x2) as -> by lia. clear E12.
      split; [intros ->; lia|]. split.
      + intros Hpos _ _. apply N.le_antisymm; [done|].
        destruct H1a as [?|(? & ? & ? & ?)]; [lia|]. destruct H2a as [?|(? & ? & ? & ?)]; [lia|].
        apply Hxb. repeat split; try done; lia.
      + intros Hpos [Hp|Hp]; exfalso.
        * destruct H1a as [?|(? & ? & ? & Hn)]; [lia|]. by apply Hn, pc1.
        * destruct H2a as [?|(? & ? & ? & Hn)]; [lia|]. by apply Hn, pc2.
    - assert (x1 ≠ x2) as Hne by lia. clear E12. destruct (x2 <=? c1) eqn:E2.
      + assert (x2 <= c1) as Hx2c by lia. clear E2.
        split; [|split; intros; lia]. intros _.
        destruct Hxa as [?|(Hp & Hle & Hm & Hn1 & Hn2)]; [done|]. exfalso.
        assert (x <= x1) as Hxx1 by (apply H1b; repeat split; try done; lia).
        destruct H1a as [?|(? & ? & ? & Hn1')]; [lia|]. destruct H2a as [?|(? & ? & ? & Hn2')]; [lia|].
        assert (x2 <= x1).
        { apply H1b. repeat split; try done. intros Hcv. by apply Hn1, (dc1 x2). }
        assert (x1 <= x2).
        { apply H2b. repeat split; try done; [lia|]. intros Hcv. by apply Hn2, (dc2 x1). }
        lia.
      + assert (c1 < x2) as Hx2c by lia. clear E2.
        destruct H2a as [?|(Hp2 & Hle2 & Hm2 & Hn2)]; [lia|].
        split; [intros; lia|]. split.
        * intros _ Hnp1 _. apply N.le_antisymm; [done|]. apply Hxb. repeat split; try done.
          intros Hcv. destruct (np1 _ Hcv); [lia|done].
        * intros _ [Hp|Hp]; [|exfalso; by apply Hn2, pc2].
          destruct Hxa as [?|(? & ? & ? & Hn1 & _)]; [done|]. exfalso.
          apply Hn1, (dc1 x2); [done|]. by apply pc1.
  Qed.
End core.

(** * live dots of one side and of the union *)
Lemma l2_live_side H K m a n : owfH H → ovalid H K →
  Dot a n ∈ live_dots (known_ops H K) m ↔
  0 < n ∧ n <= vget (ospec_clock (known_ops H K)) a ∧ memb H m a n ∧ ¬ cov (known_ops H K) m a n.
Proof.
  intros HH HK. rewrite elem_of_live_dots, (l2_add_known H K m a n HH HK). unfold cov. split.
  - intros [[Hm Hn] Hc]. pose proof (l2_memb_pos _ _ _ _ HH Hm). rewrite Hc. done.
  - intros (_ & Hn & Hm & Hc). split; [done|]. by destruct (covered _ m (Dot a n)).
Qed.

Lemma l2_live_union H K1 K2 m a n : owfH H → ovalid H K1 → ovalid H K2 →
  Dot a n ∈ live_dots (known_ops H K1 ++ known_ops H K2) m ↔
  0 < n ∧ n <= N.max (vget (ospec_clock (known_ops H K1)) a) (vget (ospec_clock (known_ops H K2)) a)
  ∧ memb H m a n ∧ ¬ cov (known_ops H K1) m a n ∧ ¬ cov (known_ops H K2) m a n.
Proof.
  intros HH HK1 HK2. rewrite elem_of_live_dots.
  assert ((∃ ms, OAdd (Dot a n) ms ∈ known_ops H K1 ++ known_ops H K2 ∧ m ∈ ms) ↔
          memb H m a n ∧ n <= N.max (vget (ospec_clock (known_ops H K1)) a) (vget (ospec_clock (known_ops H K2)) a)) as ->.
  { pose proof (l2_add_known H K1 m a n HH HK1) as E1. pose proof (l2_add_known H K2 m a n HH HK2) as E2.
    split.
    - intros (ms & [Hin|Hin]%elem_of_app & Hm).
      + destruct (proj1 E1) as [? ?]; [by exists ms|]. split; [done|lia].
      + destruct (proj1 E2) as [? ?]; [by exists ms|]. split; [done|lia].
    - intros [Hm Hn].
      destruct (N.max_spec (vget (ospec_clock (known_ops H K1)) a) (vget (ospec_clock (known_ops H K2)) a)) as [[_ Hmx]|[_ Hmx]];
        rewrite Hmx in Hn.
      + destruct (proj2 E2) as (ms & ? & ?); [done|]. exists ms. rewrite elem_of_app. tauto.
      + destruct (proj2 E1) as (ms & ? & ?); [done|]. exists ms. rewrite elem_of_app. tauto. }
  pose proof (cov_app (known_ops H K1) (known_ops H K2) m a n) as Hca. unfold cov in *. split.
  - intros [[Hm Hn] Hc]. pose proof (l2_memb_pos _ _ _ _ HH Hm).
    assert (¬ (covered (rms_of (known_ops H K1)) m (Dot a n) = true ∨ covered (rms_of (known_ops H K2)) m (Dot a n) = true)) as Hnn.
    { intros Hx. apply Hca in Hx. congruence. }
    repeat split; try done; intros ?; apply Hnn; tauto.
  - intros (_ & Hn & Hm & Hc1 & Hc2). split; [done|].
    destruct (covered (rms_of (known_ops H K1 ++ known_ops H K2)) m (Dot a n)); [|done].
    destruct Hca as [[?|?] _]; done.
Qed.

Lemma ismax_iff (P Q : N → Prop) x : (∀ n, P n ↔ Q n) → ismax P x → ismax Q x.
Proof.
  intros HPQ [Ha Hb]. split.
  - destruct Ha as [?|?]; [by left|right; by apply HPQ].
  - intros n Hn. by apply Hb, HPQ.
Qed.

Lemma ismax_le (P : N → Prop) c x : (∀ n, P n → n <= c) → ismax P x → x <= c.
Proof. intros HP [[->|Hx] _]; [lia|by apply HP]. Qed.

(** * the pointwise statement *)
Lemma l2_pointwise H K1 K2 m a : owfH H → ovalid H K1 → ovalid H K2 →
  let os1 := known_ops H K1 in
  let os2 := known_ops H K2 in
  let x := max_ctr (live_dots (os1 ++ os2) m) a in
  let v := gmerge (max_ctr (live_dots os1 m) a) (max_ctr (live_dots os2 m) a)
                  (vget (ospec_clock os1) a) (vget (ospec_clock os2) a) in
  (v = 0 → x = 0) ∧
  (0 < v → ¬ tcov (ospec_deferred os1) m a v → ¬ tcov (ospec_deferred os2) m a v → x = v) ∧
  (0 < v → tcov (ospec_deferred os1) m a v ∨ tcov (ospec_deferred os2) m a v → x = 0).
Proof.
  intros HH HK1 HK2 os1 os2 x v.
  set (c1 := vget (ospec_clock os1) a) in *. set (c2 := vget (ospec_clock os2) a) in *.
  set (x1 := max_ctr (live_dots os1 m) a) in *. set (x2 := max_ctr (live_dots os2 m) a) in *.
  pose proof (max_ctr_ismax (live_dots os1 m) a _ (λ n, l2_live_side H K1 m a n HH HK1)) as M1.
  pose proof (max_ctr_ismax (live_dots os2 m) a _ (λ n, l2_live_side H K2 m a n HH HK2)) as M2.
  pose proof (max_ctr_ismax (live_dots (os1 ++ os2) m) a _ (λ n, l2_live_union H K1 K2 m a n HH HK1 HK2)) as M.
  fold os1 os2 c1 c2 x1 x2 x in M1, M2, M.
  assert (x1 <= c1) as Hx1 by (eapply ismax_le; [|exact M1]; cbn; intros; tauto).
  assert (x2 <= c2) as Hx2 by (eapply ismax_le; [|exact M2]; cbn; intros; tauto).
  destruct (N.le_ge_cases c1 c2) as [Hc|Hc].
  - assert (v = if x1 =? x2 then x1 else if x2 <=? c1 then 0 else x2) as ->.
    { unfold v, gmerge. destruct (x1 =? x2) eqn:?, (x2 =? x1) eqn:?, (x2 <=? c1) eqn:?, (x1 <=? c2) eqn:?; lia. }
    apply (core_l2 (memb H m a) (cov os1 m a) (cov os2 m a)
                   (tcov (ospec_deferred os1) m a) (tcov (ospec_deferred os2) m a) c1 c2 x1 x2 x); try done.
    + intros n n'. apply cov_down.
    + intros n n'. apply cov_down.
    + intros n. by apply l2_cov_split.
    + intros n. by apply l2_cov_split.
    + intros n. apply l2_tcov_cov.
    + intros n. apply l2_tcov_cov.
    + eapply ismax_iff; [|exact M]. intros n. cbn. rewrite N.max_r by done. done.
  - assert (v = if x2 =? x1 then x2 else if x1 <=? c2 then 0 else x1) as ->.
    { unfold v, gmerge. destruct (x1 =? x2) eqn:?, (x2 =? x1) eqn:?, (x2 <=? c1) eqn:?, (x1 <=? c2) eqn:?; lia. }
    destruct (core_l2 (memb H m a) (cov os2 m a) (cov os1 m a)
                   (tcov (ospec_deferred os2) m a) (tcov (ospec_deferred os1) m a) c2 c1 x2 x1 x) as (R1 & R2 & R3); try done.
    + intros n n'. apply cov_down.
    + intros n n'. apply cov_down.
    + intros n. by apply l2_cov_split.
    + intros n. by apply l2_cov_split.
    + intros n. apply l2_tcov_cov.
    + intros n. apply l2_tcov_cov.
    + eapply ismax_iff; [|exact M]. intros n. cbn. rewrite N.max_l by done. tauto.
    + split; [done|]. split; [intros; by apply R2|]. intros ? [?|?]; apply R3; tauto.
Qed.

(** * the components of the specification over [os1 ++ os2] *)
Lemma l2_adds_of_app os1 os2 : adds_of (os1 ++ os2) = adds_of os1 ++ adds_of os2.
Proof. unfold adds_of. by rewrite omap_app. Qed.

Lemma l2_clock_app os1 os2 : ospec_clock (os1 ++ os2) = vmerge (ospec_clock os1) (ospec_clock os2).
Proof.
  apply vwf_ext; [apply ospec_clock_wf|apply vmerge_wf; apply ospec_clock_wf|]. intros a.
  by rewrite vmerge_get, !ospec_clock_get, l2_adds_of_app, fmap_app, max_ctr_app.
Qed.

Lemma l2_rm_members_app os1 os2 c : rm_members (os1 ++ os2) c = rm_members os1 c ∪ rm_members os2 c.
Proof.
  apply set_eq. intros m. rewrite elem_of_union, !elem_of_rm_members. setoid_rewrite elem_of_app. split.
  - intros (ms & [?|?] & ?); [left|right]; by exists ms.
  - intros [(ms & ? & ?)|(ms & ? & ?)]; exists ms; tauto.
Qed.

Lemma l2_rm_members_none os c : (¬ ∃ ms, ORm c ms ∈ os) → rm_members os c = ∅.
Proof.
  intros Hn. apply set_eq. intros m. rewrite elem_of_rm_members. split; [|set_solver].
  intros (ms & ? & _). destruct Hn. by exists ms.
Qed.

Lemma l2_eget_spec os m a : eget (ospec_entries os) m a = max_ctr (live_dots os m) a.
Proof.
  unfold eget. rewrite ospec_entries_lookup. cbn zeta. rewrite <- ospec_entry_get.
  destruct (vis_empty (ospec_entry os m)) eqn:E; cbn [oclk]; [|done].
  apply vis_empty_spec in E. by rewrite E.
Qed.
Lemma l2_ewf_spec os : ewf (ospec_entries os).
Proof.
  intros m c. rewrite ospec_entries_lookup. cbn zeta.
  destruct (vis_empty (ospec_entry os m)) eqn:E; [done|]. intros [= <-]. split; [apply ospec_entry_wf|].
  intros He. apply vis_empty_spec in He. congruence.
Qed.

Lemma orswot_eq s1 s2 : oclock s1 = oclock s2 → oentries s1 = oentries s2 →
  odeferred s1 = odeferred s2 → s1 = s2.
Proof. destruct s1, s2. cbn. congruence. Qed.

(** * the pending table of the merge *)
Lemma classic_rm (os : list oop) c : (∃ ms, ORm c ms ∈ os) ∨ ¬ (∃ ms, ORm c ms ∈ os).
Proof.
  destruct (decide (c ∈ (fst <$> rms_of os))) as [Hin|Hin]; [left|right]; by rewrite <- elem_of_rm_clocks.
Qed.

Lemma l2_deferred H K1 K2 : owfH H →
  let os1 := known_ops H K1 in
  let os2 := known_ops H K2 in
  odeferred (omerge (ospec_of os1) (ospec_of os2)) = ospec_deferred (os1 ++ os2).
Proof.
  intros HH os1 os2. apply map_eq. intros c.
  rewrite omerge_deferred. cbn [oclock odeferred ospec_of]. rewrite <- l2_clock_app.
  rewrite (ospec_deferred_lookup (os1 ++ os2)).
  assert ((∃ ms, ORm c ms ∈ os1 ++ os2) ↔ (∃ ms, ORm c ms ∈ os1) ∨ (∃ ms, ORm c ms ∈ os2)) as Hex.
  { setoid_rewrite elem_of_app. split; [intros (ms & [?|?]); [left|right]; by exists ms|].
    intros [[ms ?]|[ms ?]]; exists ms; tauto. }
  destruct (vle c (ospec_clock (os1 ++ os2))) eqn:E; [by destruct (decide _)|].
  (* a remove context of side [j] that is pending in the union is pending on side [j] *)
  assert (∀ K, (∃ ms, ORm c ms ∈ known_ops H K) → vleq (ospec_clock (known_ops H K)) (ospec_clock (os1 ++ os2)) →
               ospec_deferred (known_ops H K) !! c = Some (rm_members (known_ops H K) c)) as Hpend.
  { intros K [ms Hin] Hle. apply l2_deferred_Some. split; [by exists ms|]. split; [|done].
    destruct (vle c (ospec_clock (known_ops H K))) eqn:E'; [|done].
    assert (vwf c) as Hw by (by eapply l2_rm_wf).
    apply vle_spec in E'; [|done|apply ospec_clock_wf].
    assert (vle c (ospec_clock (os1 ++ os2)) = true); [|congruence].
    apply vle_spec; [done|apply ospec_clock_wf|]. by eapply vleq_trans. }
  assert (∀ K, (¬ ∃ ms, ORm c ms ∈ known_ops H K) → ospec_deferred (known_ops H K) !! c = None) as Hnone.
  { intros K Hn. destruct (ospec_deferred (known_ops H K) !! c) eqn:E'; [|done].
    apply l2_deferred_Some in E' as (? & _). done. }
  assert (vleq (ospec_clock os1) (ospec_clock (os1 ++ os2))) as Hle1 by (rewrite l2_clock_app; apply vmerge_ub_l).
  assert (vleq (ospec_clock os2) (ospec_clock (os1 ++ os2))) as Hle2 by (rewrite l2_clock_app; apply vmerge_ub_r).
  rewrite l2_rm_members_app.
  pose proof (Hpend K1) as Hp1. pose proof (Hpend K2) as Hp2.
  pose proof (Hnone K1) as Hn1. pose proof (Hnone K2) as Hn2.
  fold os1 in Hp1, Hn1. fold os2 in Hp2, Hn2. clear Hpend Hnone.
  destruct (decide (c ∈ (fst <$> rms_of (os1 ++ os2)))) as [Hin|Hin].
  - apply elem_of_rm_clocks, Hex in Hin.
    destruct (classic_rm os1 c) as [Hr1|Hr1], (classic_rm os2 c) as [Hr2|Hr2].
    + rewrite (Hp2 Hr2 Hle2), (Hp1 Hr1 Hle1).
      assert (vle c (ospec_clock os1) = false) as ->; [|done].
      pose proof (Hp1 Hr1 Hle1) as Hp. by apply l2_deferred_Some in Hp as (_ & ? & _).
    + rewrite (Hn2 Hr2), (Hp1 Hr1 Hle1). f_equal.
      rewrite (l2_rm_members_none os2 c Hr2). set_solver.
    + rewrite (Hp2 Hr2 Hle2), (Hn1 Hr1).
      assert (vle c (ospec_clock os1) = false) as ->.
      { destruct Hr2 as [ms Hr2]. assert (vwf c) as Hw by (by eapply l2_rm_wf).
        destruct (vle c (ospec_clock os1)) eqn:E'; [|done].
        apply vle_spec in E'; [|done|apply ospec_clock_wf].
        assert (vle c (ospec_clock (os1 ++ os2)) = true); [|congruence].
        apply vle_spec; [done|apply ospec_clock_wf|]. by eapply vleq_trans. }
      cbn [dunion]. f_equal. rewrite (l2_rm_members_none os1 c Hr1). set_solver.
    + tauto.
  - assert (¬ ∃ ms, ORm c ms ∈ os1) as Hr1.
    { intros Hx. apply Hin, elem_of_rm_clocks, Hex. by left. }
    assert (¬ ∃ ms, ORm c ms ∈ os2) as Hr2.
    { intros Hx. apply Hin, elem_of_rm_clocks, Hex. by right. }
    by rewrite (Hn2 Hr2), (Hn1 Hr1).
Qed.

(** * L2 *)
Theorem orswot_L2 H K1 K2 :
  owfH H → ovalid H K1 → ovalid H K2 →
  omerge (ospec H K1) (ospec H K2) = ospec H (K1 ∪ K2).
Proof.
  intros HH HK1 HK2. unfold ospec.
  rewrite (ospec_of_ext (known_ops H (K1 ∪ K2)) (known_ops H K1 ++ known_ops H K2))
    by (intros o; rewrite elem_of_app; apply known_ops_union_elem).
  set (os1 := known_ops H K1). set (os2 := known_ops H K2).
  apply orswot_eq.
  - rewrite omerge_clock. cbn [oclock ospec_of]. by rewrite l2_clock_app.
  - cbn [oentries ospec_of].
    assert (ewf (oentries (omerge (ospec_of os1) (ospec_of os2)))) as Hw.
    { apply omerge_wf; cbn [oclock oentries ospec_of]; try apply ospec_clock_wf; apply l2_ewf_spec. }
    apply ewf_ext; [done|apply l2_ewf_spec|]. intros m a.
    rewrite l2_eget_spec.
    pose proof (omerge_eget (ospec_of os1) (ospec_of os2) m a) as Hm.
    cbn [oclock oentries odeferred ospec_of] in Hm. rewrite !l2_eget_spec in Hm.
    specialize (Hm (ospec_clock_wf _) (ospec_clock_wf _) (l2_ewf_spec _) (l2_ewf_spec _)). cbn zeta in Hm.
    destruct (l2_pointwise H K1 K2 m a HH HK1 HK2) as (R1 & R2 & R3). fold os1 os2 in R1, R2, R3.
    set (v := gmerge _ _ _ _) in *.
    destruct Hm as [[E Hfree]|[E Hcov]]; rewrite E.
    + destruct (N.eq_0_gt_0_cases v) as [Hv|Hv]; [rewrite Hv; symmetry; by apply R1|].
      symmetry. apply R2; [done|..].
      * intros (c & ms & Hl & Hin & Hle). specialize (Hfree c ms (or_introl Hl) Hin). lia.
      * intros (c & ms & Hl & Hin & Hle). specialize (Hfree c ms (or_intror Hl) Hin). lia.
    + destruct (N.eq_0_gt_0_cases v) as [Hv|Hv]; [symmetry; by apply R1|].
      symmetry. apply R3; [done|]. destruct Hcov as (c & ms & [Hl|Hl] & Hin & Hle); [left|right]; by exists c, ms.
  - apply l2_deferred. done.
Qed.

(** the special case without pending removes (a corollary, kept for reference) *)
Corollary orswot_L2_nodeferred H K1 K2 :
  owfH H → ovalid H K1 → ovalid H K2 →
  odeferred (ospec H K1) = ∅ → odeferred (ospec H K2) = ∅ →
  omerge (ospec H K1) (ospec H K2) = ospec H (K1 ∪ K2).
Proof. intros. by apply orswot_L2. Qed.

Print Assumptions orswot_L2.
