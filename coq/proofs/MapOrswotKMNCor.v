(** [Map<K, Orswot<M>>] outside the classes of the findings T2 and T3 (proofs/MapOrswotKMN.v):
      - Part 4: the two earlier theorems as special cases: a history without key removes
        ([mohist_ok_nk]) and a history without nested removes satisfying [km_once] ([mohist_ok_km])
        are histories of the fragment, and [mapor_spec_kmn] is [mapor_spec_nk] resp. [mapor_spec_km]
        there, for EVERY knowledge set; the member sentence of C05 in the fragment
        ([mapor_member_iff_kmn]);
      - Part 5: a closed non-vacuity example that combines both mechanisms (a key remove parked at
        map level travelling in a merge; a nested remove parked inside the nested set), and closed
        witnesses that neither [km_once] (finding T2) nor [kmn_addonly] (finding T3) can be dropped. *)
From stdpp Require Import gmap.
From Crdt Require Import model.Orswot model.Map spec.System spec.OrswotSpec spec.OrswotSystem
  spec.MapSpec spec.MapSystem spec.MapOrswotSpec spec.MapOrswotKM spec.MapOrswotKMN proofs.VClock proofs.Reset
  proofs.OrswotLayer proofs.OrswotL1 proofs.OrswotL2a proofs.OrswotL2 proofs.OrswotSystem proofs.MapFacts proofs.MapKeys
  proofs.MapOrswot proofs.MapOrswotPA proofs.MapOrswotEq proofs.OrswotSparseL2 proofs.MapOrswotNK proofs.MapOrswotKMa
  proofs.MapOrswotKM proofs.MapOrswotKMCor proofs.MapOrswotKMNa proofs.MapOrswotKMNb proofs.MapOrswotKMNc
  proofs.MapOrswotKMN.
From Coq Require Import ZifyBool ZifyN ZifyNat.
Local Open Scope N_scope.

Local Notation vo := orswot_valops.

(** * Part 4: special cases *)
Lemma ospec_deferred_no_rm (os : list oop) : (∀ c ms, ORm c ms ∉ os) → ospec_deferred os = ∅.
Proof.
  intros Hn. apply map_eq. intros c. rewrite lookup_empty.
  destruct (ospec_deferred os !! c) eqn:E; [|done].
  apply ospec_deferred_Some in E as (_ & _ & ms' & Hin). by apply Hn in Hin.
Qed.

Lemma kmn_unnamed_all (os : list (mop oop)) k : (∀ c ks, MRm c ks ∉ os) → kmn_named os k = false.
Proof.
  intros Hn. destruct (kmn_named os k) eqn:E; [|done].
  apply kmn_named_spec in E as (c & ks & Hin & _). by apply Hn in Hin.
Qed.

(** ** no key removes *)
Lemma mogen_nk_mogen s a cmd o : mogen_nk s a cmd = Some o → mogen s a cmd = Some o.
Proof. unfold mogen_nk. by destruct (mo_nokrm cmd). Qed.
Lemma mohist_nk_kmn H : mohist_ok_nk H → mohist_ok_kmn H.
Proof.
  induction 1 as [|H s K a cmd o Hok IH Hr Hown Hgen]; [constructor|].
  apply (hist_snoc _ _ _ _ _ _ H s K a cmd o); [done|done|done|by apply mogen_nk_mogen].
Qed.

Theorem mapor_kmn_nk H : mohist_ok_nk H →
  mohist_ok_kmn H ∧ km_once H ∧ kmn_addonly H ∧ ∀ K, mapor_spec_kmn H K = mapor_spec_nk H K.
Proof.
  intros Hok. destruct (mohist_nk_wf H Hok) as [HH (Hs & Hpos & _)].
  assert (∀ c ks, MRm c ks ∉ hops H) as Hnr by (intros c ks Hin; by apply Hs in Hin).
  split_and!.
  - by apply mohist_nk_kmn.
  - intros i j ri rj di dj k oi oj _ _ _ _ (l & rl & c & ks & Hl & Hv & _). exfalso.
    apply (Hnr c ks), elem_of_hops. by exists l, rl.
  - intros i r d k c ms _ _. by apply kmn_unnamed_all.
  - intros K. unfold mapor_spec_kmn, mapor_spec_nk, mapor_spec_kmn_of, mapor_spec_nk_of.
    set (os := known_ops H K).
    assert (∀ o, o ∈ os → o ∈ hops H) as Hsub by (intros o; apply known_hops).
    assert (∀ c ks, MRm c ks ∉ os) as Hnr' by (intros c ks Hin; by apply Hsub, Hnr in Hin).
    apply cmap_eq3; cbn [mclock mentries mdeferred]; [done| |].
    + apply map_eq. intros k. rewrite !fn_map_lookup. cbn beta.
      assert (kmn_named (op_val <$> H) k = false) as -> by (by apply kmn_unnamed_all).
      assert (k ∈ mspec_keys os ↔ k ∈ (list_to_set (mkeys_mentioned os) : gset N)) as Hiff.
      { unfold mspec_keys. rewrite !elem_of_list_to_set, elem_of_list_In, filter_In, <- elem_of_list_In.
        split; [tauto|]. intros Hin. split; [done|].
        apply elem_of_mkeys_mentioned in Hin as (d & o & Ho).
        apply negb_true_iff, vis_empty_false, (vne_get _ (dactor d)).
        unfold mspec_entry_clock. rewrite dots_clock_get.
        assert (d ∈ mlive_dots os k) as Hd.
        { apply elem_of_mlive_dots. split; [by exists o|]. intros (c & ks & Hin & _). by apply Hnr' in Hin. }
        pose proof (max_ctr_ge _ _ _ Hd eq_refl). pose proof (Hpos d k o (Hsub _ Ho)). lia. }
      destruct (decide (k ∈ mspec_keys os)) as [H1|H1], (decide (k ∈ list_to_set (mkeys_mentioned os))) as [H2|H2];
        try done; tauto.
    + apply ospec_deferred_no_rm. intros c ms (x & Hx & Hin)%elem_of_list_fmap.
      destruct x as [c' ks|]; [|done]. by apply Hnr' in Hin.
Qed.

(** ** no nested removes, [km_once] *)
Lemma mogen_ao_mogen s a cmd o : mogen_ao s a cmd = Some o → mogen s a cmd = Some o.
Proof. unfold mogen_ao. by destruct (mo_addonly cmd). Qed.
Lemma mohist_km_kmn H : mohist_ok_km H → mohist_ok_kmn H.
Proof.
  induction 1 as [|H s K a cmd o Hok IH Hr Hown Hgen]; [constructor|].
  apply (hist_snoc _ _ _ _ _ _ H s K a cmd o); [done|done|done|by apply mogen_ao_mogen].
Qed.

Theorem mapor_kmn_km H : mohist_ok_km H →
  mohist_ok_kmn H ∧ kmn_addonly H ∧ ∀ K, mapor_spec_kmn H K = mapor_spec_km H K.
Proof.
  intros Hok.
  assert (∀ o, o ∈ hops H → op_ao o) as Hs.
  { intros o (i & r & Hi & <-)%elem_of_hops. by apply (mohist_km_shape H Hok i r). }
  split_and!.
  - by apply mohist_km_kmn.
  - intros i r d k c ms Hi Ho. assert (op_ao (op_val r)) as Hx by (by apply (mohist_km_shape H Hok i r)).
    by rewrite Ho in Hx.
  - intros K. unfold mapor_spec_kmn, mapor_spec_km, mapor_spec_kmn_of, mapor_spec_km_of.
    set (os := known_ops H K).
    assert (∀ o, o ∈ os → o ∈ hops H) as Hsub by (intros o; apply known_hops).
    apply cmap_eq3; cbn [mclock mentries mdeferred]; [done| |done].
    apply map_eq. intros k. rewrite !fn_map_lookup. cbn beta. destruct (decide _); [|done]. f_equal. f_equal.
    destruct (kmn_named (op_val <$> H) k) eqn:Hn; [done|].
    assert (∀ c ks, MRm c ks ∈ os → k ∉ ks) as Hnr.
    { intros c ks Hin Hk. assert (kmn_named (op_val <$> H) k = true); [|congruence].
      apply kmn_named_spec. exists c, ks. split; [by apply Hsub|done]. }
    unfold ospec_of. f_equal.
    + apply dots_clock_ext. intros d. rewrite elem_of_add_dots, elem_of_mlive_dots. split.
      * intros (ms & [d0 Ho]%elem_of_mo_proj). pose proof (Hs _ (Hsub _ Ho)) as Hx. cbn in Hx. subst d0.
        split; [by eexists|]. intros (c & ks & Hin & Hk & _). by apply (Hnr c ks).
      * intros [[o Ho] _]. pose proof (Hs _ (Hsub _ Ho)) as Hx. destruct o as [d' ms|c ms]; [|done]. cbn in Hx. subst d'.
        exists ms. apply elem_of_mo_proj. by exists d.
    + symmetry. by apply uk_mo_entries.
    + apply ospec_deferred_no_rm. intros c ms [d Ho]%elem_of_mo_proj. by apply Hsub, Hs in Ho.
Qed.
Print Assumptions mapor_kmn_nk.
Print Assumptions mapor_kmn_km.

(** the earlier refinement theorems follow from [mapor_refine_kmn] *)
Corollary mapor_refine_nk_from_kmn H s K : mohist_ok_nk H → moreach_nk H s K → s = mapor_spec_nk H K.
Proof.
  intros Hok Hr. destruct (mapor_kmn_nk H Hok) as (Hk & Hkm & Hao & <-). by apply mapor_refine_kmn.
Qed.
Corollary mapor_refine_km_from_kmn H s K : mohist_ok_km H → km_once H → moreach_km H s K → s = mapor_spec_km H K.
Proof.
  intros Hok Hkm Hr. destruct (mapor_kmn_km H Hok) as (Hk & Hao & <-). by apply mapor_refine_kmn.
Qed.
Print Assumptions mapor_refine_nk_from_kmn.
Print Assumptions mapor_refine_km_from_kmn.

(** * the member sentence (C05) in the fragment: [m] is in the set under [k] iff some known add of
    [m] under [k] is covered neither by a known key remove naming [k] (pending or not) nor by a
    known nested remove under [k] naming [m] (parked or not) *)
Theorem mapor_member_iff_kmn H s K k m : mohist_ok_kmn H → km_once H → kmn_addonly H → moreach_kmn H s K →
  m ∈ dom (mo_state_entries s k) ↔
    ∃ d ms, MUp d k (OAdd d ms) ∈ known_ops H K ∧ m ∈ ms ∧
      ¬ (∃ c ks, MRm c ks ∈ known_ops H K ∧ k ∈ ks ∧ dcounter d <= vget c (dactor d)) ∧
      ¬ (∃ d1 c ms', MUp d1 k (ORm c ms') ∈ known_ops H K ∧ m ∈ ms' ∧ dcounter d <= vget c (dactor d)).
Proof.
  intros Hok Hkm Hao Hr. pose proof (mohist_kmn_maphist H Hok) as Hmap.
  pose proof (mohist_kmn_wf (op_val <$> H) H Hok (kmn_cond_hist H Hkm Hao)) as Hwf.
  rewrite (mapor_values_refine_kmn H Hok Hkm Hao s K k Hr), elem_of_dom, mo_entries_lookup.
  set (os := known_ops H K). split.
  - intros Hs. destruct (mo_live_dots os k m) as [|d l] eqn:El.
    { unfold mo_entry in Hs. rewrite El, dots_clock_nil in Hs. by destruct Hs. }
    assert (d ∈ mo_live_dots os k m) as Hd by (rewrite El; by left).
    apply elem_of_mo_live_dots in Hd as [(d0 & ms & Hin & Hm) Hc]. apply mo_covered_false in Hc.
    pose proof (mo_shape_known _ H Hwf K d0 k d ms Hin) as Heq. subst d0.
    exists d, ms. split_and!; [done|done|tauto|tauto].
  - intros (d & ms & Hin & Hm & Hn1 & Hn2).
    assert (d ∈ mo_live_dots os k m) as Hd.
    { apply elem_of_mo_live_dots. split; [by exists d, ms|]. apply mo_covered_false. tauto. }
    pose proof (hops_pos H Hmap d k _ (known_hops H K _ Hin)) as Hpos.
    assert (mo_entry os k m ≠ ∅) as Hne.
    { apply (vne_get _ (dactor d)). rewrite mo_entry_get.
      pose proof (max_ctr_ge _ _ _ Hd eq_refl). lia. }
    apply vis_empty_false in Hne. rewrite Hne. by eexists.
Qed.
Print Assumptions mapor_member_iff_kmn.

(** * Part 5: non-vacuity.  Three actors, two keys.
    Key 7 (named by a key remove): actors 1 and 2 add once each (members 10, 20; ops 0, 1); actor 3,
    having seen only actor 1's update, removes key 7 (op 2, context {1:1}).
    Key 8 (no remove names it): actor 1 adds member 30 (op 3, dot 1.2); actor 2, having seen it,
    removes member 30 with the nested context {1:2} (op 4, dot 2.2).
    Replica P is fresh and receives the key remove first: PARKED at map level.  Replica Q holds actor
    2's update of key 7 and then receives op 4, which overtakes the add it observed: the nested
    remove is PARKED INSIDE the nested set under key 8.  M = Q + P carries both parked removes.
    Replica R holds ops 0, 1, 3.  R + M = M + R = the state C that op delivery reaches = the
    specification: member 20 survives under key 7, member 10 is gone, the set under key 8 is empty,
    nothing is parked any more. *)
Local Ltac km_adm :=
  eexists; split; [done|]; intros [|[|[|[|[|j]]]]] r' Hlt Hj Ha; cbn in Hj, Ha; simplify_eq; try lia; set_solver.
Local Ltac km_own :=
  intros [|[|[|[|[|j]]]]] r Hj Ha; cbn in Hj, Ha; simplify_eq; set_solver.

Section example.
  Let o0 : mop oop := MUp (Dot 1 1) 7 (OAdd (Dot 1 1) [10]).
  Let o1 : mop oop := MUp (Dot 2 1) 7 (OAdd (Dot 2 1) [20]).
  Let o2 : mop oop := MRm {[1 := 1]} {[7]}.
  Let o3 : mop oop := MUp (Dot 1 2) 8 (OAdd (Dot 1 2) [30]).
  Let o4 : mop oop := MUp (Dot 2 2) 8 (ORm {[1 := 2]} [30]).
  Let r0 := OpRec 1 o0 ∅.
  Let r1 := OpRec 2 o1 ∅.
  Let r2 := OpRec 3 o2 (∅ ∪ {[0%nat]}).
  Let r3 := OpRec 1 o3 (∅ ∪ {[0%nat]}).
  Let r4 := OpRec 2 o4 (∅ ∪ {[0%nat]} ∪ {[1%nat]} ∪ {[3%nat]}).
  Let H : list (oprec (mop oop)) := [r0; r1; r2; r3; r4].
  Let sP := mapply vo mnew o2.
  Let KP : gset nat := ∅ ∪ {[2%nat]}.
  Let sQ := mapply vo (mapply vo mnew o1) o4.
  Let KQ : gset nat := ∅ ∪ {[1%nat]} ∪ {[4%nat]}.
  Let sM := mmerge vo sQ sP.
  Let sR := mapply vo (mapply vo (mapply vo mnew o0) o1) o3.
  Let KR : gset nat := ∅ ∪ {[0%nat]} ∪ {[1%nat]} ∪ {[3%nat]}.
  Let sC := mapply vo (mapply vo sR o4) o2.
  Let KC : gset nat := KR ∪ {[4%nat]} ∪ {[2%nat]}.

  Example mapor_kmn_example :
    mohist_ok_kmn H ∧ km_once H ∧ kmn_addonly H ∧
    kmn_named (op_val <$> H) 7 = true ∧ kmn_named (op_val <$> H) 8 = false ∧
    moreach_kmn H sP KP ∧ mdeferred sP = {[ ({[1 := 1]} : gmap N N) := ({[7]} : gset N) ]} ∧
    moreach_kmn H sQ KQ ∧
    odeferred <$> (eval <$> mentries sQ !! 8) = Some {[ ({[1 := 2]} : gmap N N) := ({[30]} : gset N) ]} ∧
    moreach_kmn H sM (KQ ∪ KP) ∧ mdeferred sM = {[ ({[1 := 1]} : gmap N N) := ({[7]} : gset N) ]} ∧
    odeferred <$> (eval <$> mentries sM !! 8) = Some {[ ({[1 := 2]} : gmap N N) := ({[30]} : gset N) ]} ∧
    mo_state_entries sM 7 = {[20 := {[2 := 1]}]} ∧
    moreach_kmn H sR KR ∧ mo_state_entries sR 7 = {[10 := {[1 := 1]}; 20 := {[2 := 1]}]} ∧
    mo_state_entries sR 8 = {[30 := {[1 := 2]}]} ∧
    moreach_kmn H sC KC ∧ KC = KR ∪ (KQ ∪ KP) ∧
    mmerge vo sR sM = sC ∧ mmerge vo sM sR = sC ∧
    mmerge vo sR sM = mapor_spec_kmn H KC ∧
    mapor_kmn_ok H KC (mmerge vo sM sR) = true ∧ mapor_kmn_ok H (KQ ∪ KP) sM = true ∧
    mapor_kmn_ok H KQ sQ = true ∧
    mo_state_entries sC 7 = {[20 := {[2 := 1]}]} ∧
    mo_state_entries sC 8 = ∅ ∧
    mdeferred sC = ∅ ∧
    sC = CMap {[1 := 2; 2 := 2]}
              {[7 := MEntry {[2 := 1]} (Orswot {[2 := 1]} {[20 := {[2 := 1]}]} ∅);
                8 := MEntry {[1 := 2; 2 := 2]} (Orswot {[1 := 2]} ∅ ∅)]} ∅.
  Proof.
    assert (moreach_kmn H (mapply vo mnew o0) (∅ ∪ {[0%nat]})) as R0.
    { apply (reach_apply _ _ _ _ _ _ mnew ∅ 0%nat r0); [constructor|done|km_adm]. }
    assert (moreach_kmn H (mapply vo (mapply vo mnew o0) o1) (∅ ∪ {[0%nat]} ∪ {[1%nat]})) as R01.
    { apply (reach_apply _ _ _ _ _ _ _ _ 1%nat r1); [exact R0|done|km_adm]. }
    assert (moreach_kmn H sR KR) as HR.
    { apply (reach_apply _ _ _ _ _ _ _ _ 3%nat r3); [exact R01|done|km_adm]. }
    assert (mohist_ok_kmn H) as Hok.
    { change H with ((((([] ++ [r0]) ++ [r1]) ++ [r2]) ++ [r3]) ++ [r4]).
      apply (hist_snoc _ _ _ _ _ _ _ sR _ 2 (MORm 8 [30] None)).
      - apply (hist_snoc _ _ _ _ _ _ _ (mapply vo mnew o0) _ 1 (MOAdd 8 [30])).
        + apply (hist_snoc _ _ _ _ _ _ _ (mapply vo mnew o0) _ 3 (MOKeyRm {[7]} (Some 7))).
          * apply (hist_snoc _ _ _ _ _ _ _ mnew _ 2 (MOAdd 7 [20])).
            -- apply (hist_snoc _ _ _ _ _ _ _ mnew _ 1 (MOAdd 7 [10])); [constructor|constructor|km_own|by vm_compute].
            -- constructor.
            -- km_own.
            -- by vm_compute.
          * apply (reach_apply _ _ _ _ _ _ mnew ∅ 0%nat r0); [constructor|done|km_adm].
          * km_own.
          * by vm_compute.
        + apply (reach_apply _ _ _ _ _ _ mnew ∅ 0%nat r0); [constructor|done|km_adm].
        + km_own.
        + by vm_compute.
      - apply (reach_apply _ _ _ _ _ _ _ _ 3%nat r3); [|done|km_adm].
        apply (reach_apply _ _ _ _ _ _ _ _ 1%nat r1); [|done|km_adm].
        apply (reach_apply _ _ _ _ _ _ mnew ∅ 0%nat r0); [constructor|done|km_adm].
      - km_own.
      - by vm_compute. }
    assert (km_once H) as Hkm.
    { intros i j ri rj di dj k oi oj Hi Hj Hvi Hvj (l & rl & c & ks & Hl & Hvl & Hk) Ha.
      assert (k = 7) as ->.
      { destruct l as [|[|[|[|[|l]]]]]; cbn in Hl; simplify_eq; cbn in Hvl; simplify_eq. by apply elem_of_singleton in Hk. }
      destruct i as [|[|[|[|[|i]]]]], j as [|[|[|[|[|j]]]]]; cbn in Hi, Hj; simplify_eq; cbn in Hvi, Hvj; simplify_eq;
        try done. }
    assert (kmn_addonly H) as Hao.
    { intros i r d k c ms Hi Hv.
      destruct i as [|[|[|[|[|i]]]]]; cbn in Hi; simplify_eq; cbn in Hv; simplify_eq. by vm_compute. }
    assert (moreach_kmn H sP KP) as HP.
    { apply (reach_apply _ _ _ _ _ _ mnew ∅ 2%nat r2); [constructor|done|km_adm]. }
    assert (moreach_kmn H sQ KQ) as HQ.
    { apply (reach_apply _ _ _ _ _ _ _ _ 4%nat r4); [|done|km_adm].
      apply (reach_apply _ _ _ _ _ _ mnew ∅ 1%nat r1); [constructor|done|km_adm]. }
    assert (moreach_kmn H sM (KQ ∪ KP)) as HM by (by apply reach_merge).
    assert (moreach_kmn H sC KC) as HC.
    { apply (reach_apply _ _ _ _ _ _ _ _ 2%nat r2); [|done|km_adm].
      apply (reach_apply _ _ _ _ _ _ _ _ 4%nat r4); [exact HR|done|km_adm]. }
    assert (KC = KR ∪ (KQ ∪ KP)) as HK by (apply (bool_decide_unpack _); by vm_compute).
    split_and!.
    - exact Hok.
    - exact Hkm.
    - exact Hao.
    - by vm_compute.
    - by vm_compute.
    - exact HP.
    - apply (bool_decide_unpack _). by vm_compute.
    - exact HQ.
    - apply (bool_decide_unpack _). by vm_compute.
    - exact HM.
    - apply (bool_decide_unpack _). by vm_compute.
    - apply (bool_decide_unpack _). by vm_compute.
    - apply (bool_decide_unpack _). by vm_compute.
    - exact HR.
    - apply (bool_decide_unpack _). by vm_compute.
    - apply (bool_decide_unpack _). by vm_compute.
    - exact HC.
    - exact HK.
    - exact (mapor_merge_is_union_kmn H Hok Hkm Hao sR KR sM (KQ ∪ KP) sC KC HR HM HC HK).
    - apply (mapor_merge_is_union_kmn H Hok Hkm Hao sM (KQ ∪ KP) sR KR sC KC HM HR HC).
      apply (bool_decide_unpack _). by vm_compute.
    - rewrite HK. by apply (mapor_merge_spec_kmn H Hok Hkm Hao).
    - apply (mapor_kmn_ok_reach H Hok Hkm Hao). rewrite HK, (comm_L (∪) KR). by apply reach_merge.
    - by apply (mapor_kmn_ok_reach H Hok Hkm Hao).
    - by apply (mapor_kmn_ok_reach H Hok Hkm Hao).
    - apply (bool_decide_unpack _). by vm_compute.
    - apply (bool_decide_unpack _). by vm_compute.
    - apply (bool_decide_unpack _). by vm_compute.
    - apply (bool_decide_unpack _). by vm_compute.
  Qed.
End example.
Print Assumptions mapor_kmn_example.

(** the same in closed form *)
Lemma mapor_kmn_example_closed :
  ∃ (H : list (oprec (mop oop))) (sP sQ sM sR sC : cmap orswot) (KP KQ KM KR KC : gset nat),
    mohist_ok_kmn H ∧ km_once H ∧ kmn_addonly H ∧ length H = 5%nat ∧
    kmn_named (op_val <$> H) 7 = true ∧ kmn_named (op_val <$> H) 8 = false ∧
    moreach_kmn H sP KP ∧ mdeferred sP = {[ ({[1 := 1]} : gmap N N) := ({[7]} : gset N) ]} ∧
    moreach_kmn H sQ KQ ∧
    odeferred <$> (eval <$> mentries sQ !! 8) = Some {[ ({[1 := 2]} : gmap N N) := ({[30]} : gset N) ]} ∧
    moreach_kmn H sM KM ∧ mdeferred sM = {[ ({[1 := 1]} : gmap N N) := ({[7]} : gset N) ]} ∧
    odeferred <$> (eval <$> mentries sM !! 8) = Some {[ ({[1 := 2]} : gmap N N) := ({[30]} : gset N) ]} ∧
    mo_state_entries sM 7 = {[20 := {[2 := 1]}]} ∧
    moreach_kmn H sR KR ∧ mo_state_entries sR 7 = {[10 := {[1 := 1]}; 20 := {[2 := 1]}]} ∧
    mo_state_entries sR 8 = {[30 := {[1 := 2]}]} ∧
    moreach_kmn H sC KC ∧ KC = KR ∪ KM ∧
    mmerge orswot_valops sR sM = sC ∧ mmerge orswot_valops sM sR = sC ∧
    mmerge orswot_valops sR sM = mapor_spec_kmn H KC ∧
    mapor_kmn_ok H KC (mmerge orswot_valops sM sR) = true ∧ mapor_kmn_ok H KM sM = true ∧
    mapor_kmn_ok H KQ sQ = true ∧
    mo_state_entries sC 7 = {[20 := {[2 := 1]}]} ∧
    mo_state_entries sC 8 = ∅ ∧
    mdeferred sC = ∅.
Proof.
  pose proof mapor_kmn_example as P. cbv zeta in P.
  destruct P as (P1 & P2 & P3 & P4 & P5 & P6 & P7 & P8 & P9 & P10 & P11 & P12 & P13 & P14 & P15 & P16 & P17 & P18
                 & P19 & P20 & P21 & P22 & P23 & P24 & P25 & P26 & P27 & P28).
  lazymatch type of P6 with reach _ _ _ _ _ ?H ?sP ?KP =>
    lazymatch type of P8 with reach _ _ _ _ _ _ ?sQ ?KQ =>
      lazymatch type of P10 with reach _ _ _ _ _ _ ?sM ?KM =>
        lazymatch type of P14 with reach _ _ _ _ _ _ ?sR ?KR =>
          lazymatch type of P17 with reach _ _ _ _ _ _ ?sC ?KC =>
            exists H, sP, sQ, sM, sR, sC, KP, KQ, KM, KR, KC end end end end end.
  split_and!; try assumption. reflexivity.
Qed.
Print Assumptions mapor_kmn_example_closed.

(** ** [km_once] is needed (finding T2): the witness of proofs/MapOrswotKMCor.v is a history of the
    fragment of this file too (it has no nested remove at all) *)
Lemma kmn_km_once_needed_closed :
  ∃ (H : list (oprec (mop oop))) (sA sB sD : cmap orswot) (KA KB : gset nat),
    mohist_ok_kmn H ∧ kmn_addonly H ∧ ¬ km_once H ∧
    moreach_kmn H sA KA ∧ moreach_kmn H sB KB ∧ moreach_kmn H (mmerge orswot_valops sB sA) (KB ∪ KA) ∧
    moreach_kmn H sD (KB ∪ KA) ∧
    mmerge orswot_valops sB sA ≠ sD ∧ mmerge orswot_valops sA sB ≠ sD ∧
    mo_state_entries sD 0 = {[9 := {[2 := 2]}]} ∧
    mo_state_entries (mmerge orswot_valops sB sA) 0 = {[8 := {[2 := 1]}; 9 := {[2 := 2]}]}.
Proof.
  destruct km_once_needed_closed as (H & sA & sB & sD & KA & KB & P1 & P2 & P3 & P4 & P5 & P6 & P7 & P8 & P9 & P10 & P11 & _).
  destruct (mapor_kmn_km H P1) as (Q1 & Q2 & _).
  exists H, sA, sB, sD, KA, KB. split_and!; assumption.
Qed.
Print Assumptions kmn_km_once_needed_closed.

(** ** [kmn_addonly] is needed (finding T3): actor 0 adds member 1 under key 0; actor 1, having seen
    it, removes member 1 under key 0 (an update carrying a nested remove); actor 2, having seen only
    actor 1's update, removes key 0 with the context of [get(0)].  Each actor updates key 0 at most
    once ([km_once] holds), key 0 is named by a remove and has an update carrying a nested remove.
    The replica that receives the ops in issue order ends with an empty set under key 0; the replica
    that receives actor 1's update, the key remove and only then the add keeps member 1: the key
    remove dropped the entry together with the parked nested remove.  Equal knowledge, different
    states, different reads. *)
Local Ltac t3_adm :=
  eexists; split; [done|]; intros [|[|[|j]]] r' Hlt Hj Ha; cbn in Hj, Ha; simplify_eq; try lia; set_solver.
Local Ltac t3_own :=
  intros [|[|[|j]]] r Hj Ha; cbn in Hj, Ha; simplify_eq; set_solver.

Section needed.
  Let pA : mop oop := MUp (Dot 0 1) 0 (OAdd (Dot 0 1) [1]).
  Let pB : mop oop := MUp (Dot 1 1) 0 (ORm {[0 := 1]} [1]).
  Let pC : mop oop := MRm {[1 := 1]} {[0]}.
  Let r0 := OpRec 0 pA ∅.
  Let r1 := OpRec 1 pB (∅ ∪ {[0%nat]}).
  Let r2 := OpRec 2 pC (∅ ∪ {[1%nat]}).
  Let H : list (oprec (mop oop)) := [r0; r1; r2].
  Let sX := mapply vo (mapply vo (mapply vo mnew pA) pB) pC.
  Let KX : gset nat := ∅ ∪ {[0%nat]} ∪ {[1%nat]} ∪ {[2%nat]}.
  Let sY := mapply vo (mapply vo (mapply vo mnew pB) pC) pA.
  Let KY : gset nat := ∅ ∪ {[1%nat]} ∪ {[2%nat]} ∪ {[0%nat]}.

  Example kmn_addonly_needed :
    mohist_ok_kmn H ∧ km_once H ∧ ¬ kmn_addonly H ∧
    moreach_kmn H sX KX ∧ moreach_kmn H sY KY ∧ KX = KY ∧
    sX ≠ sY ∧
    mo_state_entries sX 0 = ∅ ∧ mo_state_entries sY 0 = {[1 := {[0 := 1]}]} ∧
    mo_entries (known_ops H KX) 0 = ∅ ∧
    mapor_kmn_ok H KX sX = true ∧ mapor_kmn_ok H KY sY = false.
  Proof.
    assert (moreach_kmn H (mapply vo mnew pA) (∅ ∪ {[0%nat]})) as R0.
    { apply (reach_apply _ _ _ _ _ _ mnew ∅ 0%nat r0); [constructor|done|t3_adm]. }
    assert (moreach_kmn H (mapply vo mnew pB) (∅ ∪ {[1%nat]})) as R1.
    { apply (reach_apply _ _ _ _ _ _ mnew ∅ 1%nat r1); [constructor|done|t3_adm]. }
    assert (mohist_ok_kmn H) as Hok.
    { change H with ((([] ++ [r0]) ++ [r1]) ++ [r2]).
      apply (hist_snoc _ _ _ _ _ _ _ (mapply vo mnew pB) _ 2 (MOKeyRm {[0]} (Some 0))).
      - apply (hist_snoc _ _ _ _ _ _ _ (mapply vo mnew pA) _ 1 (MORm 0 [1] None)).
        + apply (hist_snoc _ _ _ _ _ _ _ mnew _ 0 (MOAdd 0 [1])); [constructor|constructor|t3_own|by vm_compute].
        + apply (reach_apply _ _ _ _ _ _ mnew ∅ 0%nat r0); [constructor|done|t3_adm].
        + t3_own.
        + by vm_compute.
      - apply (reach_apply _ _ _ _ _ _ mnew ∅ 1%nat r1); [constructor|done|t3_adm].
      - t3_own.
      - by vm_compute. }
    split_and!.
    - exact Hok.
    - intros i j ri rj di dj k oi oj Hi Hj Hvi Hvj _ Ha.
      destruct i as [|[|[|i]]], j as [|[|[|j]]]; cbn in Hi, Hj; simplify_eq; cbn in Hvi, Hvj; simplify_eq; try done.
    - intros Hao. specialize (Hao 1%nat r1 (Dot 1 1) 0 {[0 := 1]} [1] eq_refl eq_refl). by vm_compute in Hao.
    - apply (reach_apply _ _ _ _ _ _ _ _ 2%nat r2); [|done|t3_adm].
      apply (reach_apply _ _ _ _ _ _ _ _ 1%nat r1); [exact R0|done|t3_adm].
    - apply (reach_apply _ _ _ _ _ _ _ _ 0%nat r0); [|done|t3_adm].
      apply (reach_apply _ _ _ _ _ _ _ _ 2%nat r2); [exact R1|done|t3_adm].
    - apply (bool_decide_unpack _). by vm_compute.
    - apply (bool_decide_unpack _). by vm_compute.
    - apply (bool_decide_unpack _). by vm_compute.
    - apply (bool_decide_unpack _). by vm_compute.
    - apply (bool_decide_unpack _). by vm_compute.
    - by vm_compute.
    - by vm_compute.
  Qed.
End needed.
Print Assumptions kmn_addonly_needed.

Lemma kmn_addonly_needed_closed :
  ∃ (H : list (oprec (mop oop))) (sX sY : cmap orswot) (K : gset nat),
    mohist_ok_kmn H ∧ km_once H ∧ ¬ kmn_addonly H ∧
    moreach_kmn H sX K ∧ moreach_kmn H sY K ∧ sX ≠ sY ∧
    mo_state_entries sX 0 = ∅ ∧ mo_state_entries sY 0 = {[1 := {[0 := 1]}]}.
Proof.
  pose proof kmn_addonly_needed as P. cbv zeta in P.
  destruct P as (P1 & P2 & P3 & P4 & P5 & P6 & P7 & P8 & P9 & _).
  rewrite <- P6 in P5.
  lazymatch type of P4 with reach _ _ _ _ _ ?H ?sX ?K =>
    lazymatch type of P5 with reach _ _ _ _ _ _ ?sY _ =>
      exists H, sX, sY, K end end.
  split_and!; assumption.
Qed.
Print Assumptions kmn_addonly_needed_closed.
