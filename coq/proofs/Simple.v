(** C11: counters, Max/Min/LWW registers and GSet as semilattice instances of
    the replicated-system framework, and their exact aggregates. *)
From stdpp Require Import gmap.
From Crdt Require Import model.VClock model.Simple spec.System spec.OrswotSpec spec.Specs
  proofs.VClock proofs.OrswotLayer proofs.Semilattice.
From Coq Require Import ZifyBool ZifyN.
Local Open Scope N_scope.

(** * VClock / GCounter *)
Lemma vfrom_dot_get d x : vget (vfrom_dot d) x = if decide (x = dactor d) then dcounter d else 0.
Proof.
  unfold vfrom_dot. rewrite vapply_get, vget_empty. destruct (decide _); lia.
Qed.
Lemma vfrom_dot_wf d : vwf (vfrom_dot d).
Proof. apply vapply_wf, vwf_empty. Qed.
Lemma vapply_as_merge c d : vwf c → vapply c d = vmerge c (vfrom_dot d).
Proof.
  intros Hc. apply vwf_ext; [by apply vapply_wf|apply vmerge_wf; [done|apply vfrom_dot_wf]|].
  intros x. rewrite vapply_get, vmerge_get, vfrom_dot_get. destruct (decide _); lia.
Qed.

Definition gc_joins := joins vmerge vfrom_dot (∅ : vclock).

Lemma gc_joins_get os a : vget (gc_joins os) a = max_ctr os a.
Proof.
  induction os as [|d os IH]; [by rewrite vget_empty|].
  unfold gc_joins, joins in *. cbn [foldr]. rewrite vmerge_get, IH, vfrom_dot_get, max_ctr_cons.
  destruct (decide (a = dactor d)), (decide (dactor d = a)); subst; try done; lia.
Qed.
Lemma gc_joins_wf os : vwf (gc_joins os).
Proof. unfold gc_joins. apply (joins_wf vwf); [apply vwf_empty|apply vfrom_dot_wf|apply vmerge_wf]. Qed.
Lemma gc_joins_dots_clock os : gc_joins os = dots_clock os.
Proof.
  apply vwf_ext; [apply gc_joins_wf|apply dots_clock_wf|]. intros a.
  by rewrite gc_joins_get, dots_clock_get.
Qed.

(** every reachable GCounter / VClock state, under any delivery order,
    duplication and merge pattern, holds per actor the greatest counter learned *)
Theorem gc_reach_spec (H : list (oprec dot)) s K :
  reach (∅ : vclock) vapply vmerge adm_any True H s K → s = gcspec H K.
Proof.
  intros Hr. unfold gcspec. rewrite <- gc_joins_dots_clock.
  apply (sl_reach_spec vwf vmerge vfrom_dot ∅ vwf_empty vfrom_dot_wf vmerge_wf vmerge_comm vmerge_assoc
           (λ x _, vmerge_idem x) vapply vmerge vapply_as_merge (λ _ _ _ _, eq_refl) H s K Hr).
Qed.
Lemma gcspec_get (H : list (oprec dot)) K a : vget (gcspec H K) a = max_ctr (known_ops H K) a.
Proof. apply dots_clock_get. Qed.

(** [read] is the sum of the per-actor counters and is monotone *)
Lemma gc_read_insert c a n : c !! a = None → gc_read (<[a := n]> c) = n + gc_read c.
Proof.
  intros Hn. unfold gc_read. rewrite map_fold_insert_L; [done| |done].
  intros. lia.
Qed.
Lemma gc_read_mono c c' : (∀ x, vget c x <= vget c' x) → gc_read c <= gc_read c'.
Proof.
  revert c'. induction c as [|a n c Hn IH] using map_ind; intros c' Hle.
  - unfold gc_read at 1. rewrite map_fold_empty. lia.
  - rewrite gc_read_insert by done.
    assert (gc_read c' = vget c' a + gc_read (delete a c')) as ->.
    { destruct (c' !! a) as [m|] eqn:E.
      - rewrite <- (insert_delete c' a m E) at 1. rewrite gc_read_insert by apply lookup_delete.
        by rewrite (vget_Some _ _ _ E).
      - rewrite (vget_None _ _ E), delete_notin by done. lia. }
    specialize (IH (delete a c')).
    assert (gc_read c <= gc_read (delete a c')) as Hle'.
    { apply IH. intros x. destruct (decide (x = a)) as [->|Hne].
      - rewrite (vget_None _ _ Hn). lia.
      - rewrite vget_delete_ne by done. specialize (Hle x). by rewrite vget_insert_ne in Hle. }
    specialize (Hle a). rewrite vget_insert in Hle. lia.
Qed.

(** an increment made at the author's own replica continues its running
    total: the new dot is the old total plus the step (1 for [inc]) *)
Lemma gc_inc_many_total c a n : gc_inc_many c a n = Dot a (n + vget c a).
Proof. done. Qed.
Lemma gc_inc_total c a : gc_inc c a = Dot a (vget c a + 1).
Proof. done. Qed.
Lemma gc_apply_read c d : vwf c → vget c (dactor d) <= dcounter d →
  gc_read (vapply c d) = gc_read c + (dcounter d - vget c (dactor d)).
Proof.
  intros Hc Hle. unfold vapply. destruct (vget c (dactor d) <? dcounter d) eqn:E.
  - destruct (c !! dactor d) as [m|] eqn:El.
    + rewrite <- (insert_delete c (dactor d) m El) at 2.
      rewrite <- (insert_delete_insert c), !gc_read_insert by apply lookup_delete.
      rewrite (vget_Some _ _ _ El) in *. lia.
    + rewrite gc_read_insert by done. rewrite (vget_None _ _ El) in *. lia.
  - assert (dcounter d = vget c (dactor d)) as -> by lia. lia.
Qed.

(** * PNCounter *)
Definition pn_wf (p : pncounter) : Prop := vwf (pn_p p) ∧ vwf (pn_n p).
Definition pn_embed (o : pnop) : pncounter :=
  match pn_dir o with DPos => PN (vfrom_dot (pn_dot o)) ∅ | DNeg => PN ∅ (vfrom_dot (pn_dot o)) end.

Lemma pn_ext p q : pn_p p = pn_p q → pn_n p = pn_n q → p = q.
Proof. destruct p, q. simpl. by intros -> ->. Qed.

Theorem pn_reach_spec (H : list (oprec pnop)) s K :
  reach pn_new pn_apply pn_merge adm_any True H s K →
  s = joins pn_merge pn_embed pn_new (known_ops H K).
Proof.
  intros Hr.
  refine (sl_reach_spec pn_wf pn_merge pn_embed pn_new _ _ _ _ _ _ pn_apply pn_merge _ _ H s K Hr).
  - split; apply vwf_empty.
  - intros o. unfold pn_embed. destruct (pn_dir o); split; simpl; (apply vwf_empty || apply vfrom_dot_wf).
  - intros x y [? ?] [? ?]. split; simpl; by apply vmerge_wf.
  - intros x y [? ?] [? ?]. apply pn_ext; simpl; by apply vmerge_comm.
  - intros x y z [? ?] [? ?] [? ?]. apply pn_ext; simpl; by apply vmerge_assoc.
  - intros x _. apply pn_ext; simpl; apply vmerge_idem.
  - intros s' o [? ?]. unfold pn_apply, pn_embed, pn_merge, gc_apply, gc_merge.
    destruct (pn_dir o); apply pn_ext; simpl; rewrite ?vmerge_empty_r; try done; by apply vapply_as_merge.
  - done.
Qed.

Lemma pn_joins_parts os :
  pn_p (joins pn_merge pn_embed pn_new os) =
    dots_clock (omap (λ o, match pn_dir o with DPos => Some (pn_dot o) | DNeg => None end) os) ∧
  pn_n (joins pn_merge pn_embed pn_new os) =
    dots_clock (omap (λ o, match pn_dir o with DNeg => Some (pn_dot o) | DPos => None end) os).
Proof.
  induction os as [|o os [IH1 IH2]]; [split; simpl; by rewrite dots_clock_nil|].
  cbn [joins foldr]. unfold pn_merge at 1 3, gc_merge. cbn [pn_p pn_n].
  fold (joins pn_merge pn_embed pn_new os). rewrite IH1, IH2.
  unfold pn_embed. cbn [omap list_omap]. destruct (pn_dir o); cbn [pn_p pn_n]; rewrite ?vmerge_empty_r; split; try done.
  - rewrite <- !gc_joins_dots_clock. unfold gc_joins. cbn [joins foldr]. done.
  - rewrite <- !gc_joins_dots_clock. unfold gc_joins. cbn [joins foldr]. done.
Qed.
Theorem pn_reach_pnspec (H : list (oprec pnop)) s K :
  reach pn_new pn_apply pn_merge adm_any True H s K → s = pnspec H K.
Proof.
  intros Hr. rewrite (pn_reach_spec H s K Hr). unfold pnspec.
  destruct (pn_joins_parts (known_ops H K)) as [H1 H2]. by apply pn_ext.
Qed.
Lemma pn_read_spec p : pn_read p = (Z.of_N (gc_read (pn_p p)) - Z.of_N (gc_read (pn_n p)))%Z.
Proof. done. Qed.

(** * GSet *)
Theorem gs_reach_spec (H : list (oprec N)) s K :
  reach (∅ : gset N) gs_apply gs_merge adm_any True H s K → s = gsspec H K.
Proof.
  intros Hr.
  rewrite (sl_reach_spec (λ _ : gset N, True) (∪) singleton ∅ I (λ _, I) (λ _ _ _ _, I)
             (λ x y _ _, comm_L (∪) x y) (λ x y z _ _ _, eq_sym (assoc_L (∪) x y z)) (λ x _, idemp_L (∪) x)
             gs_apply gs_merge (λ s o _, comm_L (∪) {[o]} s) (λ _ _ _ _, eq_refl) H s K Hr).
  unfold sl_spec, gsspec. generalize (known_ops H K). intros os.
  induction os as [|o os IH]; simpl; [set_solver|]. rewrite IH. set_solver.
Qed.
Lemma gsspec_elem (H : list (oprec N)) K x : x ∈ gsspec H K ↔ x ∈ known_ops H K.
Proof. unfold gsspec. by rewrite elem_of_list_to_set. Qed.

(** * MaxReg / MinReg *)
Lemma max_update_max s v : max_update s v = N.max s v.
Proof. unfold max_update. destruct (s <? v) eqn:E; lia. Qed.
Lemma min_update_min s v : min_update s v = N.min s v.
Proof. unfold min_update. destruct (v <? s) eqn:E; lia. Qed.

Lemma foldl_max_foldr init os : foldl N.max init os = foldr (λ o acc, N.max acc o) init os.
Proof.
  revert init. induction os as [|o os IH]; intros init; cbn [foldl foldr]; [done|].
  rewrite (IH (N.max init o)). clear IH. revert init.
  induction os as [|o' os IH]; intros init; cbn [foldr]; [done|]. rewrite IH. lia.
Qed.
Lemma foldl_min_foldr init os : foldl N.min init os = foldr (λ o acc, N.min acc o) init os.
Proof.
  revert init. induction os as [|o os IH]; intros init; cbn [foldl foldr]; [done|].
  rewrite (IH (N.min init o)). clear IH. revert init.
  induction os as [|o' os IH]; intros init; cbn [foldr]; [done|]. rewrite IH. lia.
Qed.

Theorem max_reach_spec init (H : list (oprec N)) s K :
  reach init max_update max_update adm_any True H s K → s = maxspec init H K.
Proof.
  intros Hr.
  rewrite (sl_reach_spec (λ _ : N, True) N.max id init I (λ _, I) (λ _ _ _ _, I)
             (λ x y _ _, N.max_comm x y) (λ x y z _ _ _, eq_sym (N.max_assoc x y z)) (λ x _, N.max_id x)
             max_update max_update (λ s o _, max_update_max s o) (λ s t _ _, max_update_max s t) H s K Hr).
  unfold sl_spec, maxspec, joins. by rewrite foldl_max_foldr.
Qed.
Theorem min_reach_spec init (H : list (oprec N)) s K :
  reach init min_update min_update adm_any True H s K → s = minspec init H K.
Proof.
  intros Hr.
  rewrite (sl_reach_spec (λ _ : N, True) N.min id init I (λ _, I) (λ _ _ _ _, I)
             (λ x y _ _, N.min_comm x y) (λ x y z _ _ _, eq_sym (N.min_assoc x y z)) (λ x _, N.min_id x)
             min_update min_update (λ s o _, min_update_min s o) (λ s t _ _, min_update_min s t) H s K Hr).
  unfold sl_spec, minspec, joins. by rewrite foldl_min_foldr.
Qed.
(** the aggregate is the greatest (smallest) value ever applied, initial value included *)
Lemma maxspec_char init (H : list (oprec N)) K :
  let m := maxspec init H K in
  init <= m ∧ (∀ v, v ∈ known_ops H K → v <= m) ∧ (m = init ∨ m ∈ known_ops H K).
Proof.
  unfold maxspec. generalize (known_ops H K). intros os. revert init.
  induction os as [|o os IH]; intros init; cbn [foldl]; [split_and!; [lia|by intros ? ?%elem_of_nil|by left]|].
  destruct (IH (N.max init o)) as (H1 & H2 & H3). split_and!.
  - lia.
  - intros v [->|Hin]%elem_of_cons; [lia|by apply H2].
  - destruct H3 as [H3|H3]; [|right; by right].
    destruct (N.max_spec init o) as [[? Hm]|[? Hm]]; rewrite Hm in *; [right; rewrite H3; by left|by left].
Qed.
Lemma minspec_char init (H : list (oprec N)) K :
  let m := minspec init H K in
  m <= init ∧ (∀ v, v ∈ known_ops H K → m <= v) ∧ (m = init ∨ m ∈ known_ops H K).
Proof.
  unfold minspec. generalize (known_ops H K). intros os. revert init.
  induction os as [|o os IH]; intros init; cbn [foldl]; [split_and!; [lia|by intros ? ?%elem_of_nil|by left]|].
  destruct (IH (N.min init o)) as (H1 & H2 & H3). split_and!.
  - lia.
  - intros v [->|Hin]%elem_of_cons; [lia|by apply H2].
  - destruct H3 as [H3|H3]; [|right; by right].
    destruct (N.min_spec init o) as [[? Hm]|[? Hm]]; rewrite Hm in *; [by left|right; rewrite H3; by left].
Qed.

(** * LWWReg with unique markers *)
Section lww.
  (** the initial register and all ops of the history use each marker for at
      most one value ("unique markers") *)
  Context (S : lww → Prop).
  Hypothesis S_inj : ∀ x y, S x → S y → lww_marker x = lww_marker y → x = y.

  Lemma lww_merge_S x y : S x → S y → S (lww_merge x y).
  Proof. intros Hx Hy. destruct y as [yv ym]. unfold lww_merge, lww_update. cbn. by destruct (_ <? _). Qed.
  Lemma lww_merge_comm x y : S x → S y → lww_merge x y = lww_merge y x.
  Proof.
    intros Hx Hy. unfold lww_merge, lww_update.
    destruct (lww_marker x <? lww_marker y) eqn:E1, (lww_marker y <? lww_marker x) eqn:E2; try done; try lia.
    - by destruct y.
    - by destruct x.
    - apply S_inj; [done..|lia].
  Qed.
  Lemma lww_merge_assoc x y z : S x → S y → S z →
    lww_merge (lww_merge x y) z = lww_merge x (lww_merge y z).
  Proof.
    intros Hx Hy Hz. unfold lww_merge, lww_update. destruct x as [xv xm], y as [yv ym], z as [zv zm]. cbn.
    destruct (xm <? ym) eqn:E1, (ym <? zm) eqn:E2; cbn; rewrite ?E1, ?E2; cbn;
      destruct (xm <? zm) eqn:E3; cbn; try done; lia.
  Qed.
  Lemma lww_merge_idem x : lww_merge x x = x.
  Proof. unfold lww_merge, lww_update. destruct (_ <? _) eqn:E; [lia|done]. Qed.
End lww.

Definition lww_unique (init : lww) (H : list (oprec lww)) : Prop :=
  ∀ x y, (x = init ∨ ∃ i r, H !! i = Some r ∧ op_val r = x) →
         (y = init ∨ ∃ i r, H !! i = Some r ∧ op_val r = y) →
         lww_marker x = lww_marker y → x = y.

(** greatest element of a list, starting from [b] *)
Lemma lmax_ub b l x : x ∈ l → x <= foldr N.max b l.
Proof.
  induction l as [|y l IH]; intros Hx; [by apply elem_of_nil in Hx|].
  cbn [foldr]. apply elem_of_cons in Hx as [->|Hx]; [lia|]. specialize (IH Hx). lia.
Qed.
Lemma lmax_init b l : b <= foldr N.max b l.
Proof. induction l as [|y l IH]; cbn [foldr]; lia. Qed.
Lemma lmax_least b l u : (∀ x, x ∈ l → x <= u) → b <= u → foldr N.max b l <= u.
Proof.
  induction l as [|x l IH]; intros Hx Hb; cbn [foldr]; [done|].
  apply N.max_lub; [apply Hx; by left|apply IH; [|done]]. intros y Hy. apply Hx. by right.
Qed.

(** with unique markers every reachable register holds the applied pair
    with the greatest marker (initial pair included), whatever the delivery
    order, duplication or merge pattern *)
Theorem lww_reach_spec init (H : list (oprec lww)) s K :
  reach init lww_merge lww_merge adm_any True H s K →
  lww_marker s = foldr N.max (lww_marker init) (lww_marker <$> known_ops H K) ∧
  (s = init ∨ s ∈ known_ops H K).
Proof.
  intros Hr.
  induction Hr as [|s K i o Hr (Hm & Hin) Ho Ha|s1 K1 s2 K2 _ Hr1 (Hm1 & Hin1) Hr2 (Hm2 & Hin2)].
  - rewrite known_ops_empty. split; [done|by left].
  - split.
    + assert (foldr N.max (lww_marker init) (lww_marker <$> known_ops H (K ∪ {[i]}))
              = N.max (foldr N.max (lww_marker init) (lww_marker <$> known_ops H K)) (lww_marker (op_val o))) as ->.
      { apply N.le_antisymm.
        - apply lmax_least.
          + intros x (op & -> & Hop)%elem_of_list_fmap.
            apply (known_ops_add_elem H K i o _ Ho) in Hop as [Hop| ->]; [|lia].
            pose proof (lmax_ub (lww_marker init) _ _ (elem_of_list_fmap_1 lww_marker _ _ Hop)). lia.
          + pose proof (lmax_init (lww_marker init) (lww_marker <$> known_ops H K)). lia.
        - apply N.max_lub.
          + apply lmax_least; [|apply lmax_init].
            intros x (op & -> & Hop)%elem_of_list_fmap. apply lmax_ub, elem_of_list_fmap. exists op. split; [done|].
            apply (known_ops_add_elem H K i o _ Ho). by left.
          + apply lmax_ub, elem_of_list_fmap. exists (op_val o). split; [done|].
            apply (known_ops_add_elem H K i o _ Ho). by right. }
      rewrite <- Hm. unfold lww_merge, lww_update. destruct (lww_marker s <? lww_marker (op_val o)) eqn:E; cbn; lia.
    + unfold lww_merge, lww_update. destruct (lww_marker s <? lww_marker (op_val o)) eqn:E.
      * right. apply (known_ops_add_elem H K i o _ Ho). right. by destruct (op_val o).
      * destruct Hin as [->|Hin]; [by left|right]. apply (known_ops_add_elem H K i o _ Ho). by left.
  - split.
    + assert (foldr N.max (lww_marker init) (lww_marker <$> known_ops H (K1 ∪ K2))
              = N.max (foldr N.max (lww_marker init) (lww_marker <$> known_ops H K1))
                      (foldr N.max (lww_marker init) (lww_marker <$> known_ops H K2))) as ->.
      { apply N.le_antisymm.
        - apply lmax_least.
          + intros x (op & -> & Hop)%elem_of_list_fmap. apply known_ops_union_elem in Hop as [Hop|Hop];
              pose proof (lmax_ub (lww_marker init) _ _ (elem_of_list_fmap_1 lww_marker _ _ Hop)); lia.
          + pose proof (lmax_init (lww_marker init) (lww_marker <$> known_ops H K1)). lia.
        - apply N.max_lub; (apply lmax_least; [|apply lmax_init]);
            intros x (op & -> & Hop)%elem_of_list_fmap; apply lmax_ub, elem_of_list_fmap; exists op; (split; [done|]);
            apply known_ops_union_elem; [by left|by right]. }
      rewrite <- Hm1, <- Hm2. unfold lww_merge, lww_update. destruct (lww_marker s1 <? lww_marker s2) eqn:E; cbn; lia.
    + unfold lww_merge, lww_update. destruct (lww_marker s1 <? lww_marker s2) eqn:E.
      * assert ({| lww_val := lww_val s2; lww_marker := lww_marker s2 |} = s2) as -> by (by destruct s2).
        destruct Hin2 as [->|Hin2]; [by left|right]. apply known_ops_union_elem. by right.
      * destruct Hin1 as [->|Hin1]; [by left|right]. apply known_ops_union_elem. by left.
Qed.

(** hence, with unique markers, the state itself is determined by the knowledge:
    equal knowledge gives equal registers, merge is ACI on reachable states *)
Corollary lww_converge init (H : list (oprec lww)) s1 s2 K :
  lww_unique init H →
  reach init lww_merge lww_merge adm_any True H s1 K →
  reach init lww_merge lww_merge adm_any True H s2 K → s1 = s2.
Proof.
  intros Hu H1 H2. destruct (lww_reach_spec _ _ _ _ H1) as [M1 I1], (lww_reach_spec _ _ _ _ H2) as [M2 I2].
  apply Hu; [| |congruence].
  - destruct I1 as [->|I1]; [by left|right]. apply elem_of_known_ops in I1 as (i & r & ? & _ & ?). by exists i, r.
  - destruct I2 as [->|I2]; [by left|right]. apply elem_of_known_ops in I2 as (i & r & ? & _ & ?). by exists i, r.
Qed.

(** equal marker with a different value is flagged as a conflict, and only that *)
Lemma lww_conflict_spec s v m : lww_conflict s v m = true ↔ lww_marker s = m ∧ lww_val s ≠ v.
Proof. unfold lww_conflict. split; [intros H|intros [? ?]]; lia. Qed.

(** * merge laws (C02) *)
Lemma gc_merge_laws (H : list (oprec dot)) s1 K1 s2 K2 s3 K3 :
  reach (∅ : vclock) vapply vmerge adm_any True H s1 K1 → reach ∅ vapply vmerge adm_any True H s2 K2 →
  reach ∅ vapply vmerge adm_any True H s3 K3 →
  vmerge s1 s2 = vmerge s2 s1 ∧ vmerge (vmerge s1 s2) s3 = vmerge s1 (vmerge s2 s3) ∧ vmerge s1 s1 = s1.
Proof.
  exact (sl_merge_laws vwf vmerge vfrom_dot ∅ vwf_empty vfrom_dot_wf vmerge_wf vmerge_comm vmerge_assoc
           (λ x _, vmerge_idem x) vapply vmerge vapply_as_merge (λ _ _ _ _, eq_refl) H s1 K1 s2 K2 s3 K3).
Qed.
Lemma pn_sl_args :
  pn_wf pn_new ∧ (∀ o, pn_wf (pn_embed o)) ∧ (∀ x y, pn_wf x → pn_wf y → pn_wf (pn_merge x y)) ∧
  (∀ x y, pn_wf x → pn_wf y → pn_merge x y = pn_merge y x) ∧
  (∀ x y z, pn_wf x → pn_wf y → pn_wf z → pn_merge (pn_merge x y) z = pn_merge x (pn_merge y z)) ∧
  (∀ x, pn_wf x → pn_merge x x = x) ∧
  (∀ s o, pn_wf s → pn_apply s o = pn_merge s (pn_embed o)).
Proof.
  split_and!.
  - split; apply vwf_empty.
  - intros o. unfold pn_embed. destruct (pn_dir o); split; simpl; (apply vwf_empty || apply vfrom_dot_wf).
  - intros x y [? ?] [? ?]. split; simpl; by apply vmerge_wf.
  - intros x y [? ?] [? ?]. apply pn_ext; simpl; by apply vmerge_comm.
  - intros x y z [? ?] [? ?] [? ?]. apply pn_ext; simpl; by apply vmerge_assoc.
  - intros x _. apply pn_ext; simpl; apply vmerge_idem.
  - intros s' o [? ?]. unfold pn_apply, pn_embed, pn_merge, gc_apply, gc_merge.
    destruct (pn_dir o); apply pn_ext; simpl; rewrite ?vmerge_empty_r; try done; by apply vapply_as_merge.
Qed.
Lemma pn_merge_laws (H : list (oprec pnop)) s1 K1 s2 K2 s3 K3 :
  reach pn_new pn_apply pn_merge adm_any True H s1 K1 → reach pn_new pn_apply pn_merge adm_any True H s2 K2 →
  reach pn_new pn_apply pn_merge adm_any True H s3 K3 →
  pn_merge s1 s2 = pn_merge s2 s1 ∧ pn_merge (pn_merge s1 s2) s3 = pn_merge s1 (pn_merge s2 s3) ∧ pn_merge s1 s1 = s1.
Proof.
  destruct pn_sl_args as (A1 & A2 & A3 & A4 & A5 & A6 & A7).
  exact (sl_merge_laws pn_wf pn_merge pn_embed pn_new A1 A2 A3 A4 A5 A6 pn_apply pn_merge A7 (λ _ _ _ _, eq_refl)
           H s1 K1 s2 K2 s3 K3).
Qed.
Lemma simple_merge_laws (s1 s2 s3 : gset N) (x y z : N) :
  (gs_merge s1 s2 = gs_merge s2 s1 ∧ gs_merge (gs_merge s1 s2) s3 = gs_merge s1 (gs_merge s2 s3) ∧ gs_merge s1 s1 = s1) ∧
  (max_update x y = max_update y x ∧ max_update (max_update x y) z = max_update x (max_update y z) ∧ max_update x x = x) ∧
  (min_update x y = min_update y x ∧ min_update (min_update x y) z = min_update x (min_update y z) ∧ min_update x x = x).
Proof.
  unfold gs_merge. rewrite !max_update_max, !min_update_min. split_and!; try set_solver; lia.
Qed.
Lemma lww_merge_laws (S : lww → Prop) :
  (∀ x y, S x → S y → lww_marker x = lww_marker y → x = y) →
  ∀ x y z, S x → S y → S z →
    lww_merge x y = lww_merge y x ∧ lww_merge (lww_merge x y) z = lww_merge x (lww_merge y z) ∧ lww_merge x x = x.
Proof.
  intros Hi x y z Hx Hy Hz. split_and!.
  - by apply (lww_merge_comm S Hi).
  - unfold lww_merge, lww_update. destruct x as [xv xm], y as [yv ym], z as [zv zm]. cbn.
    destruct (xm <? ym) eqn:E1, (ym <? zm) eqn:E2; cbn; rewrite ?E1, ?E2; cbn;
      destruct (xm <? zm) eqn:E3; cbn; try done; lia.
  - unfold lww_merge, lww_update. destruct (_ <? _) eqn:E; [lia|done].
Qed.

(** * hybrid replication and idempotence (C03, C09) for the counters *)
Lemma gc_hybrid_absorb (H : list (oprec dot)) s K s' K' i r :
  reach (∅ : vclock) vapply vmerge adm_any True H s K → reach ∅ vapply vmerge adm_any True H s' K' →
  vmerge s s' = gcspec H (K ∪ K') ∧
  (H !! i = Some r → i ∈ K → vapply s (op_val r) = s) ∧ (K' ⊆ K → vmerge s s' = s).
Proof.
  intros H1 H2. split.
  - rewrite (sl_merge_is_union vwf vmerge vfrom_dot ∅ vwf_empty vfrom_dot_wf vmerge_wf vmerge_comm vmerge_assoc
               (λ x _, vmerge_idem x) vapply vmerge vapply_as_merge (λ _ _ _ _, eq_refl) H s K s' K' H1 H2).
    unfold sl_spec, gcspec. apply gc_joins_dots_clock.
  - exact (sl_absorb vwf vmerge vfrom_dot ∅ vwf_empty vfrom_dot_wf vmerge_wf vmerge_comm vmerge_assoc
             (λ x _, vmerge_idem x) vapply vmerge vapply_as_merge (λ _ _ _ _, eq_refl) H s K i r s' K' H1 H2).
Qed.
Lemma pn_hybrid_absorb (H : list (oprec pnop)) s K s' K' i r :
  reach pn_new pn_apply pn_merge adm_any True H s K → reach pn_new pn_apply pn_merge adm_any True H s' K' →
  pn_merge s s' = pnspec H (K ∪ K') ∧
  (H !! i = Some r → i ∈ K → pn_apply s (op_val r) = s) ∧ (K' ⊆ K → pn_merge s s' = s).
Proof.
  intros H1 H2. destruct pn_sl_args as (A1 & A2 & A3 & A4 & A5 & A6 & A7). split.
  - apply pn_reach_pnspec. by apply reach_merge.
  - exact (sl_absorb pn_wf pn_merge pn_embed pn_new A1 A2 A3 A4 A5 A6 pn_apply pn_merge A7 (λ _ _ _ _, eq_refl)
             H s K i r s' K' H1 H2).
Qed.
