(** Closed restatement of the non-vacuity example of proofs/MapOrswotNK.v (stated there with
    section-local abbreviations). *)
From stdpp Require Import gmap.
From Crdt Require Import model.Orswot model.Map spec.System spec.OrswotSpec spec.OrswotSystem
  spec.MapSpec spec.MapSystem spec.MapOrswotSpec proofs.MapOrswotNK.
Local Open Scope N_scope.

(** two actors, keys 7 and 8, four API-generated ops without key removes; replica A applies a nested
    remove BEFORE the add it observed (not causally admissible): the remove is parked inside the nested set;
    replica B holds the add; merging them in either order gives the state reached by in-order delivery of all
    four ops, which is the specified state: member 10 is gone, nothing stays parked *)
Lemma mapor_nk_example_closed :
  ∃ (H : list (oprec (mop oop))) (sA sB sC : cmap orswot) (KA KB : gset nat),
    mohist_ok_nk H ∧ length H = 4%nat ∧
    ¬ adm_causal H ∅ 1%nat ∧
    moreach_nk H sA KA ∧
    odeferred <$> (eval <$> mentries sA !! 7) = Some {[ ({[1 := 1]} : gmap N N) := ({[10]} : gset N) ]} ∧
    moreach_nk H sB KB ∧
    mo_state_entries sB 7 = {[10 := {[1 := 1]}]} ∧
    moreach_nk H sC (KA ∪ KB) ∧
    mmerge orswot_valops sA sB = sC ∧ mmerge orswot_valops sB sA = sC ∧
    mmerge orswot_valops sA sB = mapor_spec_nk H (KA ∪ KB) ∧
    mapor_nk_ok H (KA ∪ KB) (mmerge orswot_valops sA sB) = true ∧
    mapor_nk_ok H KA sA = true ∧
    mo_state_entries sC 7 = ∅ ∧
    odeferred <$> (eval <$> mentries sC !! 7) = Some ∅ ∧
    mo_state_entries sC 8 = {[20 := {[2 := 2]}; 21 := {[1 := 2]}]}.
Proof.
  pose proof mapor_nk_example as P. cbv zeta in P.
  destruct P as (P1 & P2 & P3 & P4 & P5 & P6 & P7 & P8 & P9 & P10 & P11 & P12 & P13 & P14 & P15 & P16 & P17 & P18).
  rewrite P10 in P9.
  lazymatch type of P3 with moreach_nk ?H ?sA ?KA =>
    lazymatch type of P6 with moreach_nk _ ?sB ?KB =>
      lazymatch type of P9 with moreach_nk _ ?sC _ => exists H, sA, sB, sC, KA, KB end end end.
  split_and!; try assumption. reflexivity.
Qed.
Print Assumptions mapor_nk_example_closed.
