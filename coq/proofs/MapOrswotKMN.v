(** [Map<K, Orswot<M>>] with key removes, nested removes AND state merges, for EVERY history outside
    the classes of the known findings T2 and T3 (spec/MapOrswotKMN.v): all commands of [mocmd]; a key
    that some key remove of the history names receives only nested adds ([kmn_addonly]), at most one
    update per actor ([km_once]); any other key may receive anything.  Under per-actor (overtaking)
    delivery, duplicates AND state merges - ops may be generated at merged states - the COMPLETE state
    of every reachable replica is the specification [mapor_spec_kmn] of its knowledge
    ([mapor_refine_kmn]).

    Route (proofs/MapOrswotKMNa.v, KMNb.v, KMNc.v): an invariant carried through [reach] that is, per
    key, the invariant of proofs/MapOrswotKM.v when a remove names the key and the characterisation
    of proofs/MapOrswotNK.v when none does; the key layer is inherited from proofs/MapKeys.v.
      - Part 1: API-generated histories of the fragment are structurally well-formed ([kmn_wf],
        [mohist_kmn_wf]; proved together with the theorem: the context of a generated nested remove
        is read off a reachable state, which is the specification of its knowledge).
      - Part 2: the refinement theorem.
      - Part 3: corollaries (C01 C02 C03 C05 C08 C09 C20).
      - Part 4: the two earlier theorems as special cases.
      - Part 5: closed non-vacuity example combining both mechanisms; both hypotheses are needed. *)
From stdpp Require Import gmap.
From Crdt Require Import model.Orswot model.Map spec.System spec.OrswotSpec spec.OrswotSystem
  spec.MapSpec spec.MapSystem spec.MapOrswotSpec spec.MapOrswotKM spec.MapOrswotKMN proofs.VClock proofs.Reset
  proofs.OrswotLayer proofs.OrswotL1 proofs.OrswotL2a proofs.OrswotL2 proofs.OrswotSystem proofs.MapFacts proofs.MapKeys
  proofs.MapOrswot proofs.MapOrswotPA proofs.MapOrswotEq proofs.OrswotSparseL2 proofs.MapOrswotNK proofs.MapOrswotKMa
  proofs.MapOrswotKM proofs.MapOrswotKMCor proofs.MapOrswotKMNa proofs.MapOrswotKMNb proofs.MapOrswotKMNc.
From Coq Require Import ZifyBool ZifyN ZifyNat.
Local Open Scope N_scope.

Local Notation vo := orswot_valops.

(** * Part 1: histories of the fragment *)
Lemma mohist_kmn_maphist H : mohist_ok_kmn H → maphist_ok vo H.
Proof.
  induction 1 as [|H s K a cmd o Hok IH Hr Hown Hgen]; [constructor|].
  by apply (hist_snoc _ _ _ _ _ _ H s K a (mo_cmd cmd) o).
Qed.

Lemma kmn_named_spec os k : kmn_named os k = true ↔ ∃ c ks, MRm c ks ∈ os ∧ k ∈ ks.
Proof.
  unfold kmn_named. rewrite existsb_exists. split.
  - intros ([c ks|] & Hin & Hb); [|done]. apply bool_decide_eq_true in Hb. exists c, ks.
    split; [by apply elem_of_list_In|done].
  - intros (c & ks & Hin & Hk). exists (MRm c ks). split; [by apply elem_of_list_In|by apply bool_decide_eq_true].
Qed.

(** the hypotheses of the theorem relative to a naming list [all]; they pass to prefixes *)
Definition kmn_cond (all : list (mop oop)) (H : list (oprec (mop oop))) : Prop :=
  (∀ c ks k, MRm c ks ∈ hops H → k ∈ ks → kmn_named all k = true) ∧
  (∀ d k c ms, MUp d k (ORm c ms) ∈ hops H → kmn_named all k = false) ∧
  (∀ d1 o1 d2 o2 k, MUp d1 k o1 ∈ hops H → MUp d2 k o2 ∈ hops H → kmn_named all k = true →
                    dactor d1 = dactor d2 → d1 = d2 ∧ o1 = o2).

Lemma kmn_cond_prefix all H H' : kmn_cond all (H ++ H') → kmn_cond all H.
Proof.
  intros (CN & CA & CO). rewrite hops_app in *.
  assert (∀ x, x ∈ hops H → x ∈ hops H ++ hops H') as Hm by (intros x ?; apply elem_of_app; by left).
  split_and!.
  - intros c ks k Hin. by apply (CN c ks k), Hm.
  - intros d k c ms Hin. by apply (CA d k c ms), Hm.
  - intros d1 o1 d2 o2 k H1 H2. by apply (CO d1 o1 d2 o2 k); apply Hm.
Qed.

Lemma kmn_cond_hist H : km_once H → kmn_addonly H → kmn_cond (op_val <$> H) H.
Proof.
  intros Hkm Hao. split_and!.
  - intros c ks k Hin Hk. apply kmn_named_spec. by exists c, ks.
  - intros d k c ms (i & r & Hi & Ho)%elem_of_hops. by eapply Hao.
  - intros d1 o1 d2 o2 k (i & ri & Hi & Hoi)%elem_of_hops (j & rj & Hj & Hoj)%elem_of_hops Hn Ha.
    apply kmn_named_spec in Hn as (c & ks & (l & rl & Hl & Hol)%elem_of_hops & Hk).
    assert (i = j) as ->.
    { apply (Hkm i j ri rj d1 d2 k o1 o2); try done. by exists l, rl, c, ks. }
    rewrite Hi in Hj. injection Hj as <-. rewrite Hoi in Hoj. by injection Hoj as -> ->.
Qed.

Lemma nested_default (s : cmap orswot) k :
  default (v_default vo) (eval <$> mentries s !! k) = eval (default (MEntry ∅ (v_default vo)) (mentries s !! k)).
Proof. by destruct (mentries s !! k). Qed.

(** what a command generates at a reachable state *)
Lemma mogen_kmn_op all H s K a cmd o : maphist_ok vo H → kmn_wf all H → moreach_kmn H s K →
  mogen s a cmd = Some o →
  (∀ d k c ms, o = MUp d k (ORm c ms) → kmn_named all k = false) →
  kmn_op o ∧ ∀ d k c ms, o = MUp d k (ORm c ms) → kclk (hops H) k c.
Proof.
  intros Hmap Hwf Hr Hgen Hun. pose proof (kmn_inv_reach all H Hmap Hwf s K Hr) as Hinv.
  pose proof (side_nk H Hmap s K Hr) as HS.
  unfold mogen in Hgen.
  destruct cmd as [k ms|k ms [m'|]|ks [k'|]]; cbn [mo_cmd mgen] in Hgen; injection Hgen as <-;
    unfold mupdate, oadd_all, orm_all in *; cbn beta in *.
  - split; [reflexivity|]. intros ???? [=].
  - pose proof (Hun _ _ _ _ eq_refl) as Hn.
    rewrite nested_default, (inv_default_unnamed all H Hmap Hwf s K k Hr Hinv Hn).
    cbn [derive_rm_ctx rm_clock ocontains oentries ospec_of]. rewrite ospec_entries_default.
    split; [apply ospec_entry_wf|].
    intros d k' c ms' [= _ <- <- _]. by apply uk_kclk_nested_entry; [apply (ukey_unnamed all H Hmap Hwf)|].
  - pose proof (Hun _ _ _ _ eq_refl) as Hn.
    rewrite nested_default, (inv_default_unnamed all H Hmap Hwf s K k Hr Hinv Hn).
    cbn [derive_rm_ctx rm_clock oread_ctx oclock ospec_of].
    split; [apply ospec_clock_wf|].
    intros d k' c ms' [= _ <- <- _]. by apply uk_kclk_nested_clock; [apply (ukey_unnamed all H Hmap Hwf)|].
  - split; [done|]. intros ???? [=].
  - split; [done|]. intros ???? [=].
Qed.

Theorem mohist_kmn_wf all H : mohist_ok_kmn H → kmn_cond all H → kmn_wf all H.
Proof.
  induction 1 as [|H s K a cmd o Hok IH Hr Hown Hgen]; intros Hc.
  { split_and!; intros; by match goal with Hx : _ ∈ hops [] |- _ => apply elem_of_nil in Hx end. }
  specialize (IH (kmn_cond_prefix all H _ Hc)).
  pose proof (mohist_kmn_maphist H Hok) as Hmap.
  destruct Hc as (CN & CA & CO). unfold kmn_wf. rewrite hops_app in *. cbn [hops fmap list_fmap op_val] in *.
  destruct (mogen_kmn_op all H s K a cmd o Hmap IH Hr Hgen) as [Hop Hctx].
  { intros d k c ms ->. apply (CA d k c ms). apply elem_of_app. right. by apply elem_of_list_singleton. }
  assert (∀ x, x ∈ hops H → x ∈ hops H ++ [o]) as Hmono by (intros x ?; apply elem_of_app; by left).
  split_and!.
  - intros x [Hin| ->%elem_of_list_singleton]%elem_of_app; [by apply IH|done].
  - exact CN.
  - intros d k c ms Hin. split; [by eapply CA|].
    apply elem_of_app in Hin as [Hin|Heq%elem_of_list_singleton].
    + eapply kclk_mono; [exact Hmono|]. destruct IH as (_ & _ & Hk & _). by destruct (Hk d k c ms Hin).
    + eapply kclk_mono; [exact Hmono|]. by eapply Hctx.
  - exact CO.
Qed.

(** * Part 2: the COMPLETE state is the specification of the knowledge *)
Theorem mapor_refine_kmn (H : list (oprec (mop oop))) : mohist_ok_kmn H → km_once H → kmn_addonly H →
  ∀ (s : cmap orswot) (K : gset nat), moreach_kmn H s K → s = mapor_spec_kmn H K.
Proof.
  intros Hok Hkm Hao s K Hr. unfold mapor_spec_kmn.
  apply (kmn_reach_spec (op_val <$> H) H (mohist_kmn_maphist H Hok)); [|done].
  apply mohist_kmn_wf; [done|]. by apply kmn_cond_hist.
Qed.
Print Assumptions mapor_refine_kmn.

(** a key no remove of the op list names: the value-level specification [mo_entries] is the member
    table of the Orswot specification of the projected ops *)
Lemma uk_mo_entries os k : (∀ c ks, MRm c ks ∈ os → k ∉ ks) → mo_entries os k = ospec_entries (mo_proj os k).
Proof.
  intros Hs. apply map_eq. intros m. rewrite mo_entries_lookup, ospec_entries_lookup. cbn zeta.
  assert (mo_entry os k m = ospec_entry (mo_proj os k) m) as ->; [|done].
  apply dots_clock_ext. intros d. rewrite elem_of_mo_live_dots, elem_of_live_dots, mo_covered_false, covered_false.
  split.
  - intros [(d0 & ms & Ho & Hm) Hn]. split.
    + exists ms. split; [|done]. apply elem_of_mo_proj. by exists d0.
    + intros (c & ms' & [d1 Ho']%elem_of_mo_proj & Hm' & Hle). apply Hn. right. by exists d1, c, ms'.
  - intros [(ms & [d0 Ho]%elem_of_mo_proj & Hm) Hn]. split; [by exists d0, ms|].
    intros [(c & ks & Ho' & Hk & _)|(d1 & c & ms' & Ho' & Hm' & Hle)]; [by apply (Hs c ks) in Hk|].
    apply Hn. exists c, ms'. split_and!; [|done..]. apply elem_of_mo_proj. by exists d1.
Qed.

(** * Part 3: corollaries *)
Section corollaries.
  Context (H : list (oprec (mop oop))) (Hok : mohist_ok_kmn H) (Hkm : km_once H) (Hao : kmn_addonly H).
  Let Hmap : maphist_ok vo H := mohist_kmn_maphist H Hok.
  Let HH : owfH (habs H) := maphist_ok_wf vo H Hmap.
  Let Hwf : kmn_wf (op_val <$> H) H := mohist_kmn_wf (op_val <$> H) H Hok (kmn_cond_hist H Hkm Hao).
  Implicit Types (s : cmap orswot) (K : gset nat).

  (** the monitor's decider *)
  Theorem mapor_kmn_ok_reach s K : moreach_kmn H s K → mapor_kmn_ok H K s = true.
  Proof using Hok Hkm Hao. intros Hr. apply bool_decide_eq_true. by apply mapor_refine_kmn. Qed.

  (** C01 / C20: equal knowledge, equal (complete) state *)
  Theorem mapor_converge_kmn s1 s2 K : moreach_kmn H s1 K → moreach_kmn H s2 K → s1 = s2.
  Proof using Hok Hkm Hao.
    intros H1 H2. by rewrite (mapor_refine_kmn H Hok Hkm Hao s1 K H1), (mapor_refine_kmn H Hok Hkm Hao s2 K H2).
  Qed.

  Lemma mmerge_reach_kmn s1 K1 s2 K2 : moreach_kmn H s1 K1 → moreach_kmn H s2 K2 →
    moreach_kmn H (mmerge vo s1 s2) (K1 ∪ K2).
  Proof. intros. by apply reach_merge. Qed.

  (** C03: merging two replicas = having learned the union of their ops (hybrid replication) *)
  Theorem mapor_merge_spec_kmn s1 K1 s2 K2 : moreach_kmn H s1 K1 → moreach_kmn H s2 K2 →
    mmerge vo s1 s2 = mapor_spec_kmn H (K1 ∪ K2).
  Proof using Hok Hkm Hao. intros H1 H2. apply (mapor_refine_kmn H Hok Hkm Hao). by apply mmerge_reach_kmn. Qed.
  Theorem mapor_merge_is_union_kmn s1 K1 s2 K2 s K :
    moreach_kmn H s1 K1 → moreach_kmn H s2 K2 → moreach_kmn H s K → K = K1 ∪ K2 → mmerge vo s1 s2 = s.
  Proof using Hok Hkm Hao. intros H1 H2 H3 ->. eapply mapor_converge_kmn; [by apply mmerge_reach_kmn|done]. Qed.

  (** C02: [mmerge] is commutative, associative and idempotent on reachable states *)
  Theorem mapor_merge_comm_kmn s1 K1 s2 K2 : moreach_kmn H s1 K1 → moreach_kmn H s2 K2 →
    mmerge vo s1 s2 = mmerge vo s2 s1.
  Proof using Hok Hkm Hao.
    intros H1 H2. rewrite (mapor_merge_spec_kmn s1 K1 s2 K2), (mapor_merge_spec_kmn s2 K2 s1 K1) by done.
    by rewrite (comm_L (∪) K1 K2).
  Qed.
  Theorem mapor_merge_assoc_kmn s1 K1 s2 K2 s3 K3 :
    moreach_kmn H s1 K1 → moreach_kmn H s2 K2 → moreach_kmn H s3 K3 →
    mmerge vo (mmerge vo s1 s2) s3 = mmerge vo s1 (mmerge vo s2 s3).
  Proof using Hok Hkm Hao.
    intros H1 H2 H3.
    rewrite (mapor_merge_spec_kmn (mmerge vo s1 s2) (K1 ∪ K2) s3 K3) by (try apply mmerge_reach_kmn; done).
    rewrite (mapor_merge_spec_kmn s1 K1 (mmerge vo s2 s3) (K2 ∪ K3)) by (try apply mmerge_reach_kmn; done).
    by rewrite (assoc_L (∪) K1 K2 K3).
  Qed.
  Theorem mapor_merge_idem_kmn s K : moreach_kmn H s K → mmerge vo s s = s.
  Proof using Hok Hkm Hao.
    intros H1. rewrite (mapor_merge_spec_kmn s K s K) by done. rewrite (idemp_L (∪) K).
    symmetry. by apply mapor_refine_kmn.
  Qed.

  (** C09: a duplicate op and a stale state are absorbed *)
  Theorem mapor_dup_apply_kmn s K i r : moreach_kmn H s K → H !! i = Some r → i ∈ K →
    mapply vo s (op_val r) = s.
  Proof using Hok Hkm Hao.
    intros Hr Hi HiK.
    assert (adm_per_actor H K i) as Ha.
    { exists r. split; [done|]. intros j r' Hj Hl Hau.
      destruct (map_keys_reach_spec vo H HH s K Hr) as [_ [_ Hval]].
      apply (Hval i j _ _ HiK Hj (hmap_lookup_Some oabs H i r Hi) (hmap_lookup_Some oabs H j r' Hl)). done. }
    assert (moreach_kmn H (mapply vo s (op_val r)) (K ∪ {[i]})) as Hr' by (by eapply reach_apply).
    replace (K ∪ {[i]}) with K in Hr' by set_solver. by eapply mapor_converge_kmn.
  Qed.
  Theorem mapor_stale_merge_kmn s1 K1 s2 K2 : moreach_kmn H s1 K1 → moreach_kmn H s2 K2 → K2 ⊆ K1 →
    mmerge vo s1 s2 = s1 ∧ mmerge vo s2 s1 = s1.
  Proof using Hok Hkm Hao.
    intros H1 H2 Hsub.
    rewrite (mapor_merge_spec_kmn s1 K1 s2 K2), (mapor_merge_spec_kmn s2 K2 s1 K1) by done.
    assert (K1 ∪ K2 = K1) as -> by set_solver. assert (K2 ∪ K1 = K1) as -> by set_solver.
    split; symmetry; by apply mapor_refine_kmn.
  Qed.

  (** the components of a reachable state: the key layer of spec/MapSpec.v; under a present key that
      a remove of the history names: nested clock = entry clock, member table [mo_entries], nothing
      parked inside; under any other present key the Orswot specification of the nested ops
      addressed to it *)
  Theorem mapor_components_kmn s K k : moreach_kmn H s K →
    let os := known_ops H K in
    mclock s = mspec_clock os ∧ dom (mentries s) = mspec_keys os ∧
    mentry_clock s k = mspec_entry_clock os k ∧
    mdeferred s = ospec_deferred (oabs <$> os) ∧
    (∀ e, mentries s !! k = Some e →
          eclock e = mspec_entry_clock os k ∧
          eval e = if kmn_named (op_val <$> H) k then Orswot (mspec_entry_clock os k) (mo_entries os k) ∅
                   else ospec_of (mo_proj os k)).
  Proof using Hok Hkm Hao.
    intros Hr os. destruct (map_keys_reach_mspec vo H HH s K Hr) as (Ec & Ek & Ee & Ed).
    split_and!; [done|done|done|done|].
    intros e He. pose proof (mapor_refine_kmn H Hok Hkm Hao s K Hr) as Es.
    rewrite Es in He. unfold mapor_spec_kmn, mapor_spec_kmn_of in He. cbn [mentries] in He.
    rewrite fn_map_lookup in He. destruct (decide _); [|done]. by injection He as <-.
  Qed.

  (** the value-level specification (C05) and both monitor deciders of the earlier specifications *)
  Theorem mapor_values_refine_kmn s K k : moreach_kmn H s K →
    mo_state_entries s k = mo_entries (known_ops H K) k.
  Proof using Hok Hkm Hao.
    intros Hr. pose proof (kmn_inv_reach _ H Hmap Hwf s K Hr) as Hinv.
    unfold mo_state_entries. destruct (kmn_named (op_val <$> H) k) eqn:Hn.
    - destruct (mentries s !! k) as [e|] eqn:E.
      + specialize (Hinv k e E). rewrite Hn in Hinv. by destruct Hinv.
      + symmetry. by eapply (absent_named _ H Hmap Hwf).
    - rewrite uk_mo_entries.
      2:{ intros c ks Hin. by apply (unnamed_not_removed _ H Hwf k c ks Hn), (known_hops H K). }
      destruct (mentries s !! k) as [e|] eqn:E.
      + specialize (Hinv k e E). rewrite Hn in Hinv. by rewrite Hinv.
      + assert (k ∉ mkeys_mentioned (known_ops H K)) as Hnin.
        { intros Hin. apply (present_unnamed _ H Hmap Hwf s K k Hr Hn) in Hin as [? ?]. congruence. }
        destruct (nk_absent_nil (known_ops H K) k Hnin) as [_ ->]. by vm_compute.
  Qed.
  Theorem mapor_valspec_ok_kmn s K : moreach_kmn H s K → movalspec_ok H K s = true.
  Proof using Hok Hkm Hao.
    intros Hr. unfold movalspec_ok. apply andb_true_intro. split.
    - apply forallb_forall. intros k _. apply bool_decide_eq_true. by apply mapor_values_refine_kmn.
    - apply bool_decide_eq_true.
      destruct (map_keys_reach_mspec vo H HH s K Hr) as (_ & Ek & _).
      unfold mkeys in Ek. rewrite Ek. unfold mspec_keys. intros k.
      rewrite !elem_of_list_to_set, elem_of_list_In, filter_In, <- elem_of_list_In. tauto.
  Qed.
  Theorem mapor_keyspec_ok_kmn s K : moreach_kmn H s K → mkeyspec_ok H K s = true.
  Proof using Hok. apply (map_keyspec_ok vo H HH). Qed.
End corollaries.

(** every delivery discipline at least as strong as per-actor delivery (causal delivery in
    particular), with or without state merges, reaches only states of [moreach_kmn] *)
Theorem mapor_refine_kmn_any (adm : adm_t (mop oop)) (mg : Prop) H s K :
  mohist_ok_kmn H → km_once H → kmn_addonly H →
  (∀ K i, adm H K i → adm_per_actor H K i) →
  reach mnew (mapply vo) (mmerge vo) adm mg H s K → s = mapor_spec_kmn H K.
Proof.
  intros Hok Hkm Hao Hadm Hr. apply (mapor_refine_kmn H Hok Hkm Hao).
  induction Hr as [|s K i o Hr IH Ho Ha|s1 K1 s2 K2 Hm Hr1 IH1 Hr2 IH2].
  - constructor.
  - eapply reach_apply; [done..|by apply Hadm].
  - by apply reach_merge.
Qed.

(** causal delivery: an op's dependency set contains its author's earlier ops *)
Lemma kmn_hist_deps_own H : mohist_ok_kmn H →
  ∀ i r j r', H !! i = Some r → (j < i)%nat → H !! j = Some r' → op_author r' = op_author r → j ∈ op_deps r.
Proof.
  induction 1 as [|H s K a cmd o Hok IH Hr Hown Hgen]; [intros i r j r' Hi; by rewrite lookup_nil in Hi|].
  intros i r j r' Hi Hlt Hj Ha.
  destruct (decide (i < length H)%nat) as [Hl|Hge].
  - rewrite lookup_app_l in Hi by done. rewrite lookup_app_l in Hj by lia. by eapply IH.
  - assert (i = length H) as ->.
    { apply lookup_lt_Some in Hi. rewrite app_length in Hi. cbn in Hi. lia. }
    rewrite lookup_app_r, Nat.sub_diag in Hi by lia. cbn in Hi. injection Hi as <-. cbn in *.
    rewrite lookup_app_l in Hj by lia. by apply (Hown j r').
Qed.
Corollary mapor_refine_kmn_causal (mg : Prop) H s K : mohist_ok_kmn H → km_once H → kmn_addonly H →
  reach mnew (mapply vo) (mmerge vo) adm_causal mg H s K → s = mapor_spec_kmn H K.
Proof.
  intros Hok Hkm Hao. apply mapor_refine_kmn_any; [done|done|done|].
  intros K' i (r & Hi & Hd). exists r. split; [done|]. intros j r' Hlt Hj Ha.
  apply Hd. by eapply (kmn_hist_deps_own H Hok).
Qed.

Print Assumptions mohist_kmn_wf.
Print Assumptions mapor_kmn_ok_reach.
Print Assumptions mapor_converge_kmn.
Print Assumptions mapor_merge_spec_kmn.
Print Assumptions mapor_merge_is_union_kmn.
Print Assumptions mapor_merge_comm_kmn.
Print Assumptions mapor_merge_assoc_kmn.
Print Assumptions mapor_merge_idem_kmn.
Print Assumptions mapor_dup_apply_kmn.
Print Assumptions mapor_stale_merge_kmn.
Print Assumptions mapor_components_kmn.
Print Assumptions mapor_values_refine_kmn.
Print Assumptions mapor_valspec_ok_kmn.
Print Assumptions mapor_keyspec_ok_kmn.
Print Assumptions mapor_refine_kmn_any.
Print Assumptions mapor_refine_kmn_causal.
