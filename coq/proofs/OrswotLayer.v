(** Lookup-level characterisation of the Orswot specification (spec/OrswotSpec.v):
    every later proof reasons about [ospec_of] only through these lemmas. *)
From Crdt Require Import model.Orswot spec.System spec.OrswotSpec proofs.VClock.
From Coq Require Import ZifyBool ZifyN.
Local Open Scope N_scope.

(** * [fn_map] *)
Lemma fn_map_lookup `{Countable K} {V} (keys : gset K) (f : K → option V) k :
  fn_map keys f !! k = if decide (k ∈ keys) then f k else None.
Proof.
  unfold fn_map. rewrite map_lookup_imap, lookup_gset_to_gmap.
  destruct (decide (k ∈ keys)) as [Hin|Hin].
  - by rewrite option_guard_True.
  - by rewrite option_guard_False.
Qed.

(** * [max_ctr] *)
Lemma max_ctr_nil a : max_ctr [] a = 0.
Proof. done. Qed.
Lemma max_ctr_cons d ds a :
  max_ctr (d :: ds) a = if decide (dactor d = a) then N.max (dcounter d) (max_ctr ds a) else max_ctr ds a.
Proof. unfold max_ctr. cbn [omap list_omap]. by destruct (decide (dactor d = a)). Qed.
Lemma max_ctr_app ds1 ds2 a : max_ctr (ds1 ++ ds2) a = N.max (max_ctr ds1 a) (max_ctr ds2 a).
Proof.
  induction ds1 as [|d ds1 IH]; [cbn [app]; rewrite max_ctr_nil; lia|].
  cbn [app]. rewrite !max_ctr_cons, IH. destruct (decide _); lia.
Qed.
Lemma max_ctr_ge ds a d : d ∈ ds → dactor d = a → dcounter d <= max_ctr ds a.
Proof.
  induction 1 as [d ds|d d' ds Hin IH]; intros Ha; rewrite max_ctr_cons.
  - rewrite decide_True by done. lia.
  - specialize (IH Ha). destruct (decide _); lia.
Qed.
Lemma max_ctr_witness ds a :
  max_ctr ds a = 0 ∨ ∃ d, d ∈ ds ∧ dactor d = a ∧ dcounter d = max_ctr ds a.
Proof.
  induction ds as [|d ds IH]; [by left|]. rewrite max_ctr_cons.
  destruct (decide (dactor d = a)) as [Ha|Ha].
  - destruct (N.max_spec (dcounter d) (max_ctr ds a)) as [[Hlt ->]|[Hle ->]].
    + destruct IH as [IH|(d' & Hin & Ha' & Hc)]; [lia|]. right. exists d'. split; [by right|done].
    + right. exists d. split; [by left|done].
  - destruct IH as [IH|(d' & Hin & Ha' & Hc)]; [by left|]. right. exists d'. split; [by right|done].
Qed.
Lemma max_ctr_le_iff ds a n : max_ctr ds a <= n ↔ ∀ d, d ∈ ds → dactor d = a → dcounter d <= n.
Proof.
  split.
  - intros H d Hin Ha. pose proof (max_ctr_ge _ _ _ Hin Ha). lia.
  - intros H. destruct (max_ctr_witness ds a) as [->|(d & Hin & Ha & <-)]; [lia|]. by apply H.
Qed.
Lemma max_ctr_ext ds ds' a : (∀ d, d ∈ ds ↔ d ∈ ds') → max_ctr ds a = max_ctr ds' a.
Proof.
  intros H. apply N.le_antisymm; apply max_ctr_le_iff; intros d Hin Ha; apply max_ctr_ge; [by apply H|done|by apply H|done].
Qed.
Lemma max_ctr_pos_elem ds a : 0 < max_ctr ds a → a ∈ (dactor <$> ds).
Proof.
  intros Hp. destruct (max_ctr_witness ds a) as [?|(d & Hin & Ha & _)]; [lia|].
  subst a. by apply elem_of_list_fmap_1.
Qed.

(** * [dots_clock] *)
Lemma dots_clock_lookup ds a :
  dots_clock ds !! a = let n := max_ctr ds a in if n =? 0 then None else Some n.
Proof.
  unfold dots_clock. rewrite fn_map_lookup. destruct (decide _) as [Hin|Hin]; [done|].
  cbn zeta. destruct (max_ctr ds a =? 0) eqn:E; [done|]. exfalso. apply Hin.
  rewrite elem_of_list_to_set. apply max_ctr_pos_elem. lia.
Qed.
Lemma dots_clock_get ds a : vget (dots_clock ds) a = max_ctr ds a.
Proof.
  unfold vget. rewrite dots_clock_lookup. cbn zeta.
  destruct (max_ctr ds a =? 0) eqn:E; simpl; lia.
Qed.
Lemma dots_clock_wf ds : vwf (dots_clock ds).
Proof.
  intros a n. rewrite dots_clock_lookup. cbn zeta.
  destruct (max_ctr ds a =? 0) eqn:E; [done|]. intros [= <-]. lia.
Qed.
Lemma dots_clock_ext ds ds' : (∀ d, d ∈ ds ↔ d ∈ ds') → dots_clock ds = dots_clock ds'.
Proof.
  intros H. apply vwf_ext; [apply dots_clock_wf..|]. intros a. rewrite !dots_clock_get. by apply max_ctr_ext.
Qed.
Lemma dots_clock_nil : dots_clock [] = ∅.
Proof. apply map_eq. intros a. by rewrite dots_clock_lookup, lookup_empty. Qed.
Lemma dots_clock_empty_iff ds : dots_clock ds = ∅ ↔ ∀ a, max_ctr ds a = 0.
Proof.
  split.
  - intros H a. by rewrite <- dots_clock_get, H, vget_empty.
  - intros H. apply vwf_ext; [apply dots_clock_wf|apply vwf_empty|]. intros a.
    by rewrite dots_clock_get, vget_empty.
Qed.
Lemma dots_clock_snoc ds d : dcounter d ≠ 0 → dots_clock (ds ++ [d]) = vapply (dots_clock ds) d.
Proof.
  intros Hd. apply vwf_ext; [apply dots_clock_wf|apply vapply_wf, dots_clock_wf|]. intros a.
  rewrite vapply_get, !dots_clock_get, max_ctr_app, max_ctr_cons, max_ctr_nil.
  destruct (decide (dactor d = a)), (decide (a = dactor d)); subst; try done; lia.
Qed.

(** * membership in the op lists *)
Lemma elem_of_adds_of os d ms : (d, ms) ∈ adds_of os ↔ OAdd d ms ∈ os.
Proof.
  unfold adds_of. rewrite elem_of_list_omap. split.
  - intros (o & Hin & Ho). destruct o; simplify_eq. done.
  - intros Hin. exists (OAdd d ms). done.
Qed.
Lemma elem_of_rms_of os c ms : (c, ms) ∈ rms_of os ↔ ORm c ms ∈ os.
Proof.
  unfold rms_of. rewrite elem_of_list_omap. split.
  - intros (o & Hin & Ho). destruct o; simplify_eq. done.
  - intros Hin. exists (ORm c ms). done.
Qed.

Lemma covered_spec os m d :
  covered (rms_of os) m d = true ↔ ∃ c ms, ORm c ms ∈ os ∧ m ∈ ms ∧ dcounter d <= vget c (dactor d).
Proof.
  unfold covered. rewrite existsb_exists. split.
  - intros ([c ms] & Hin & Hb). apply andb_prop in Hb as [Hm Hc]. apply bool_decide_eq_true in Hm.
    exists c, ms. split; [|split; [done|cbn in Hc; lia]].
    apply elem_of_rms_of. by apply elem_of_list_In.
  - intros (c & ms & Hin & Hm & Hc). exists (c, ms). split.
    + apply elem_of_list_In. by apply elem_of_rms_of.
    + apply andb_true_intro. split; [by apply bool_decide_eq_true|cbn; lia].
Qed.

Lemma elem_of_live_dots os m d :
  d ∈ live_dots os m ↔ (∃ ms, OAdd d ms ∈ os ∧ m ∈ ms) ∧ covered (rms_of os) m d = false.
Proof.
  unfold live_dots. rewrite elem_of_list_omap. split.
  - intros ([d' ms] & Hin & Hb). cbn in Hb.
    destruct (bool_decide (m ∈ ms)) eqn:E1; [|done]. destruct (covered (rms_of os) m d') eqn:E2; [done|].
    cbn in Hb. simplify_eq. apply bool_decide_eq_true in E1. split; [|done].
    exists ms. split; [by apply elem_of_adds_of|done].
  - intros [(ms & Hin & Hm) Hc]. exists (d, ms). split; [by apply elem_of_adds_of|].
    cbn. rewrite (bool_decide_eq_true_2 _ Hm), Hc. done.
Qed.

(** * components of the specification *)
Lemma ospec_clock_get os a :
  vget (ospec_clock os) a = max_ctr (fst <$> adds_of os) a.
Proof. apply dots_clock_get. Qed.
Lemma ospec_clock_wf os : vwf (ospec_clock os).
Proof. apply dots_clock_wf. Qed.
Lemma ospec_entry_get os m a : vget (ospec_entry os m) a = max_ctr (live_dots os m) a.
Proof. apply dots_clock_get. Qed.
Lemma ospec_entry_wf os m : vwf (ospec_entry os m).
Proof. apply dots_clock_wf. Qed.

Lemma live_dots_mentioned os m d : d ∈ live_dots os m → m ∈ concat (snd <$> adds_of os).
Proof.
  rewrite elem_of_live_dots. intros [(ms & Hin & Hm) _].
  apply elem_of_list_In, in_concat. exists ms. split; [|by apply elem_of_list_In].
  apply elem_of_list_In. apply (elem_of_list_fmap_1 snd _ (d, ms)). by apply elem_of_adds_of.
Qed.

Lemma ospec_entries_lookup os m :
  ospec_entries os !! m = let c := ospec_entry os m in if vis_empty c then None else Some c.
Proof.
  unfold ospec_entries. rewrite fn_map_lookup. destruct (decide _) as [Hin|Hin]; [done|].
  cbn zeta. destruct (vis_empty (ospec_entry os m)) eqn:E; [done|]. exfalso. apply Hin.
  rewrite elem_of_list_to_set.
  assert (ospec_entry os m ≠ ∅) as Hne by (intros Hx; rewrite Hx in E; by vm_compute in E).
  unfold ospec_entry in Hne. rewrite dots_clock_empty_iff in Hne.
  destruct (live_dots os m) as [|d l] eqn:El; [by destruct Hne|].
  apply (live_dots_mentioned os m d). rewrite El. by left.
Qed.

Lemma elem_of_rm_members os c m : m ∈ rm_members os c ↔ ∃ ms, ORm c ms ∈ os ∧ m ∈ ms.
Proof.
  unfold rm_members. rewrite elem_of_list_to_set. split.
  - intros Hin%elem_of_list_In%in_concat. destruct Hin as (ms & Hin & Hm).
    apply elem_of_list_In, elem_of_list_omap in Hin as ([c' ms'] & Hin & Hb). cbn in Hb.
    case_bool_decide; simplify_eq. exists ms. split; [by apply elem_of_rms_of|by apply elem_of_list_In].
  - intros (ms & Hin & Hm). apply elem_of_list_In, in_concat. exists ms. split; [|by apply elem_of_list_In].
    apply elem_of_list_In, elem_of_list_omap. exists (c, ms). split; [by apply elem_of_rms_of|].
    cbn. by rewrite bool_decide_eq_true_2.
Qed.

Lemma elem_of_rm_clocks os c : c ∈ (fst <$> rms_of os) ↔ ∃ ms, ORm c ms ∈ os.
Proof.
  rewrite elem_of_list_fmap. split.
  - intros ([c' ms] & -> & Hin). exists ms. by apply elem_of_rms_of.
  - intros [ms Hin]. exists (c, ms). split; [done|]. by apply elem_of_rms_of.
Qed.

Lemma ospec_deferred_lookup os c :
  ospec_deferred os !! c =
    if decide (c ∈ (fst <$> rms_of os)) then
      if vle c (ospec_clock os) then None else Some (rm_members os c)
    else None.
Proof.
  unfold ospec_deferred. rewrite fn_map_lookup.
  destruct (decide (c ∈ list_to_set _)) as [Hin|Hin]; destruct (decide (c ∈ (fst <$> rms_of os))) as [Hex|Hex]; try done.
  - exfalso. apply Hex. by rewrite elem_of_list_to_set in Hin.
  - exfalso. apply Hin. by rewrite elem_of_list_to_set.
Qed.

(** * the specification depends only on the SET of known ops *)
Lemma covered_ext os os' m d : (∀ o, o ∈ os ↔ o ∈ os') → covered (rms_of os) m d = covered (rms_of os') m d.
Proof.
  intros H. apply eq_true_iff_eq. rewrite !covered_spec. by setoid_rewrite H.
Qed.
Lemma live_dots_ext os os' m d : (∀ o, o ∈ os ↔ o ∈ os') → d ∈ live_dots os m ↔ d ∈ live_dots os' m.
Proof.
  intros H. rewrite !elem_of_live_dots, (covered_ext os os') by done. by setoid_rewrite H.
Qed.
Lemma ospec_of_ext os os' : (∀ o, o ∈ os ↔ o ∈ os') → ospec_of os = ospec_of os'.
Proof.
  intros H.
  assert (ospec_clock os = ospec_clock os') as Hc.
  { apply dots_clock_ext. intros d. rewrite !elem_of_list_fmap. split.
    - intros ([d' ms] & -> & Hin). exists (d', ms). split; [done|]. apply elem_of_adds_of, H. by apply elem_of_adds_of.
    - intros ([d' ms] & -> & Hin). exists (d', ms). split; [done|]. apply elem_of_adds_of, H. by apply elem_of_adds_of. }
  assert (∀ m, ospec_entry os m = ospec_entry os' m) as He.
  { intros m. apply dots_clock_ext. intros d. by apply live_dots_ext. }
  unfold ospec_of. f_equal; [done|..].
  - apply map_eq. intros m. by rewrite !ospec_entries_lookup, He.
  - apply map_eq. intros c. rewrite !ospec_deferred_lookup, Hc.
    assert (rm_members os c = rm_members os' c) as ->.
    { apply set_eq. intros m. rewrite !elem_of_rm_members. by setoid_rewrite H. }
    destruct (decide (c ∈ (fst <$> rms_of os))) as [Hex|Hex], (decide (c ∈ (fst <$> rms_of os'))) as [Hex'|Hex']; try done.
    + destruct Hex'. apply elem_of_rm_clocks in Hex as [ms ?]. apply elem_of_rm_clocks. exists ms. by apply H.
    + destruct Hex. apply elem_of_rm_clocks in Hex' as [ms ?]. apply elem_of_rm_clocks. exists ms. by apply H.
Qed.

(** * [known_ops] *)
Lemma elem_of_known_ops {Op} (H : list (oprec Op)) K o :
  o ∈ known_ops H K ↔ ∃ i r, H !! i = Some r ∧ i ∈ K ∧ op_val r = o.
Proof.
  unfold known_ops. rewrite elem_of_list_omap. split.
  - intros ([i r] & Hin & Hb). cbn in Hb. case_bool_decide; simplify_eq.
    apply elem_of_lookup_imap in Hin as (i' & r' & [= -> ->] & Hl). by exists i', r'.
  - intros (i & r & Hl & Hi & <-). exists (i, r). split.
    + apply elem_of_lookup_imap. by exists i, r.
    + cbn. by rewrite bool_decide_eq_true_2.
Qed.
Lemma known_ops_empty {Op} (H : list (oprec Op)) : known_ops H ∅ = [].
Proof.
  destruct (known_ops H ∅) as [|o l] eqn:E; [done|].
  assert (o ∈ known_ops H ∅) as Hin by (rewrite E; by left).
  apply elem_of_known_ops in Hin as (i & r & _ & Hi & _). set_solver.
Qed.
Lemma known_ops_union_elem {Op} (H : list (oprec Op)) K1 K2 o :
  o ∈ known_ops H (K1 ∪ K2) ↔ o ∈ known_ops H K1 ∨ o ∈ known_ops H K2.
Proof.
  rewrite !elem_of_known_ops. split.
  - intros (i & r & Hl & Hi & Ho). apply elem_of_union in Hi as [Hi|Hi]; [left|right]; by exists i, r.
  - intros [(i & r & Hl & Hi & Ho)|(i & r & Hl & Hi & Ho)]; exists i, r; set_solver.
Qed.
Lemma known_ops_add_elem {Op} (H : list (oprec Op)) K i r o :
  H !! i = Some r → o ∈ known_ops H (K ∪ {[i]}) ↔ o ∈ known_ops H K ∨ o = op_val r.
Proof.
  intros Hl. rewrite known_ops_union_elem. split; (intros [?|Hx]; [by left|right]).
  - apply elem_of_known_ops in Hx as (j & r' & Hl' & Hj & <-). apply elem_of_singleton in Hj as ->. congruence.
  - subst. apply elem_of_known_ops. exists i, r. set_solver.
Qed.
