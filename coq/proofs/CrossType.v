(** Packaging of the per-type refinement results into the statements of the
    cross-type properties C01 (causal op delivery), C02 (merge laws), C03 (hybrid),
    C08 (per-actor order suffices), C09 (idempotence), C20 (structural equality). *)
From stdpp Require Import gmap.
From Crdt Require Import model.VClock model.Simple model.Orswot model.MVReg model.List model.Merkle
  spec.System spec.OrswotSpec spec.Specs spec.OrswotSystem spec.MVRegSystem spec.ListSystem
  proofs.VClock proofs.OrswotLayer proofs.Semilattice proofs.Simple proofs.OrswotSystem
  proofs.MVRegHb proofs.MVReg proofs.ListSystem proofs.GListSystem proofs.MerkleInv proofs.Merkle proofs.MerkleSystem.
Local Open Scope N_scope.

(** a causal schedule is in particular an arbitrary one *)
Lemma causal_is_any {Op} (H : list (oprec Op)) K i : adm_causal H K i → adm_any H K i.
Proof. intros (o & Ho & _). by exists o. Qed.
Lemma per_actor_is_any {Op} (H : list (oprec Op)) K i : adm_per_actor H K i → adm_any H K i.
Proof. intros (o & Ho & _). by exists o. Qed.

Notation creach init apply merge := (reach init apply merge adm_causal True).

Lemma creach_any {St Op} (init : St) (apply : St → Op → St) merge H s K :
  creach init apply merge H s K → reach init apply merge adm_any True H s K.
Proof. apply reach_adm_mono. intros ??. apply causal_is_any. Qed.

(** * C01: replicas that applied the same ops in causal order converge *)
Lemma c01_orswot H s1 s2 K : ohist_ok H →
  creach onew oapply omerge H s1 K → creach onew oapply omerge H s2 K → s1 = s2.
Proof.
  intros Hok H1 H2. eapply (orswot_converge H Hok);
    (eapply reach_adm_mono; [|eassumption]); intros ??; by apply causal_is_per_actor.
Qed.
Lemma c01_mvreg H s1 s2 K : mvhist_ok H →
  creach [] mvapply mvmerge H s1 K → creach [] mvapply mvmerge H s2 K →
  s1 ≡ₚ s2 ∧ rval (mvread s1) ≡ₚ rval (mvread s2) ∧ add_clock (mvread s1) = add_clock (mvread s2).
Proof.
  intros Hok H1%creach_any H2%creach_any. pose proof (mv_hist_ok_wf H Hok) as HH.
  pose proof (mv_converge H s1 s2 K HH H1 H2) as Hp. split_and!; [done| |].
  - unfold mvread. cbn [rval]. by rewrite Hp.
  - destruct (mv_read_ctx_clock H s1 K HH H1) as (-> & _), (mv_read_ctx_clock H s2 K HH H2) as (-> & _). done.
Qed.
Lemma c01_list H s1 s2 K : lhist_ok H → lreach H s1 K → lreach H s2 K → s1 = s2.
Proof. apply list_converge_ok. Qed.
Lemma c01_glist (H : list (oprec (list (Qc * N)))) s1 s2 K :
  creach [] gl_apply gl_merge H s1 K → creach [] gl_apply gl_merge H s2 K → s1 = s2.
Proof. intros H1%creach_any H2%creach_any. by eapply gl_converge. Qed.
Lemma c01_merkle hash (hi : ∀ n1 n2 : mnode, hash n1 = hash n2 → n1 = n2) H s1 s2 K :
  creach mk_new (mk_apply' hash) (mk_merge' hash) H s1 K →
  creach mk_new (mk_apply' hash) (mk_merge' hash) H s2 K → s1 = s2.
Proof. intros H1%creach_any H2%creach_any. by eapply (mk_converge hash hi). Qed.
Lemma c01_gcounter (H : list (oprec dot)) s1 s2 K :
  creach (∅ : vclock) vapply vmerge H s1 K → creach (∅ : vclock) vapply vmerge H s2 K → s1 = s2.
Proof. intros H1%creach_any H2%creach_any. by rewrite (gc_reach_spec H s1 K H1), (gc_reach_spec H s2 K H2). Qed.
Lemma c01_pncounter (H : list (oprec pnop)) s1 s2 K :
  creach pn_new pn_apply pn_merge H s1 K → creach pn_new pn_apply pn_merge H s2 K → s1 = s2.
Proof. intros H1%creach_any H2%creach_any. by rewrite (pn_reach_pnspec H s1 K H1), (pn_reach_pnspec H s2 K H2). Qed.
Lemma c01_gset (H : list (oprec N)) s1 s2 K :
  creach (∅ : gset N) gs_apply gs_merge H s1 K → creach (∅ : gset N) gs_apply gs_merge H s2 K → s1 = s2.
Proof. intros H1%creach_any H2%creach_any. by rewrite (gs_reach_spec H s1 K H1), (gs_reach_spec H s2 K H2). Qed.
Lemma c01_maxreg init (H : list (oprec N)) s1 s2 K :
  creach init max_update max_update H s1 K → creach init max_update max_update H s2 K → s1 = s2.
Proof. intros H1%creach_any H2%creach_any. by rewrite (max_reach_spec init H s1 K H1), (max_reach_spec init H s2 K H2). Qed.
Lemma c01_minreg init (H : list (oprec N)) s1 s2 K :
  creach init min_update min_update H s1 K → creach init min_update min_update H s2 K → s1 = s2.
Proof. intros H1%creach_any H2%creach_any. by rewrite (min_reach_spec init H s1 K H1), (min_reach_spec init H s2 K H2). Qed.
Lemma c01_lww init (H : list (oprec lww)) s1 s2 K : lww_unique init H →
  creach init lww_merge lww_merge H s1 K → creach init lww_merge lww_merge H s2 K → s1 = s2.
Proof. intros Hu H1%creach_any H2%creach_any. by eapply lww_converge. Qed.

(** states of different points in time are comparable: a state reached in a
    prefix of the run is still reachable later *)
Lemma c01_orswot_over_time H H' s1 s2 K : ohist_ok (H ++ H') →
  oreach H s1 K → oreach (H ++ H') s2 K → s1 = s2.
Proof. intros Hok H1 H2. eapply (orswot_converge _ Hok); [by apply oreach_mono|done]. Qed.

(** * C20: MVReg's hand-written [==] on equal knowledge *)
Lemma count_occ_pair_NoDup p l : NoDup l → p ∈ l → count_occ_pair p l = 1%nat.
Proof.
  unfold count_occ_pair. induction 1 as [|x l Hx Hnd IH]; [by intros ?%elem_of_nil|].
  cbn [List.filter]. intros [->|Hin]%elem_of_cons.
  - rewrite bool_decide_eq_true_2 by done. cbn [length]. f_equal.
    assert (List.filter (λ q, bool_decide (q = x)) l = []) as ->; [|done].
    clear -Hx. induction l as [|y l IH]; [done|]. cbn [List.filter].
    rewrite bool_decide_eq_false_2 by set_solver. apply IH. set_solver.
  - rewrite bool_decide_eq_false_2 by (intros ->; done). by apply IH.
Qed.
Lemma mveq_scan x y :
  (∀ p, p ∈ x → count_occ_pair p y = 1%nat) →
  foldl (λ acc p, match acc with
                  | Some true => match count_occ_pair p y with O => Some false | S O => Some true | _ => None end
                  | r => r end) (Some true) x = Some true.
Proof.
  induction x as [|p x IH]; intros Hc; [done|]. cbn [foldl].
  rewrite (Hc p) by (by left). apply IH. intros q Hq. apply Hc. by right.
Qed.
Lemma mveq_perm a b : NoDup a → a ≡ₚ b → mveq a b = Some true.
Proof.
  intros Ha Hp. assert (NoDup b) as Hb by (by rewrite <- Hp).
  unfold mveq. rewrite (mveq_scan a b), (mveq_scan b a); [done| |].
  - intros p Hp'. apply count_occ_pair_NoDup; [done|]. by rewrite Hp.
  - intros p Hp'. apply count_occ_pair_NoDup; [done|]. by rewrite <- Hp.
Qed.
Lemma c20_mvreg H s1 s2 K : mvhist_ok H → mvreach H s1 K → mvreach H s2 K → mveq s1 s2 = Some true.
Proof.
  intros Hok H1 H2. pose proof (mv_hist_ok_wf H Hok) as HH. apply mveq_perm.
  - by eapply mv_reach_NoDup.
  - by eapply mv_converge.
Qed.
