(** Local edits of [List] (src/list.rs) and [GList] (src/glist.rs) land at
    the requested index: on every state that satisfies the representation
    invariant (strictly sorted, no empty identifier) -- hence on every
    reachable state, whatever remote operations have been applied -- the two
    types behave like a [Vec] under their local editing API. *)
From Coq Require Import ZifyBool ZifyN.
From Crdt Require Import model.List proofs.VClock proofs.Identifier.

(** * The [Vec] model *)
Definition prev_of {B} (ix : nat) (l : list B) : option B :=
  match ix with O => None | S i => l !! i end.

Section vec.
  Context {A : Type}.
  Implicit Types (l : list A) (x : A) (i j : nat).

  (** [Vec::insert(i, x)] and [Vec::remove(i)] *)
  Definition insert_at i x l : list A := take i l ++ x :: drop i l.
  Definition remove_at i l : list A := take i l ++ drop (S i) l.

  Lemma remove_at_delete i l : remove_at i l = delete i l.
  Proof. symmetry. apply delete_take_drop. Qed.
  Lemma insert_at_length i x l : length (insert_at i x l) = S (length l).
  Proof.
    unfold insert_at. rewrite app_length. simpl. rewrite take_length, drop_length. lia.
  Qed.
  Lemma insert_at_0 x l : insert_at 0 x l = x :: l.
  Proof. done. Qed.
  Lemma insert_at_end x l : insert_at (length l) x l = l ++ [x].
  Proof. unfold insert_at. by rewrite firstn_all, drop_all. Qed.
  (** Everything before [i] stays, [x] is at [i], everything from [i] on is
      shifted by one: all other elements keep their relative order. *)
  Lemma insert_at_lookup_lt i x l j :
    (j < i)%nat → (i ≤ length l)%nat → insert_at i x l !! j = l !! j.
  Proof.
    intros. unfold insert_at. rewrite lookup_app_l by (rewrite take_length; lia).
    by apply lookup_take.
  Qed.
  Lemma insert_at_lookup_eq i x l :
    (i ≤ length l)%nat → insert_at i x l !! i = Some x.
  Proof.
    intros. unfold insert_at. rewrite lookup_app_r by (rewrite take_length; lia).
    rewrite take_length. by replace (i - i `min` length l)%nat with 0%nat by lia.
  Qed.
  Lemma insert_at_lookup_gt i x l j :
    (i ≤ j)%nat → (i ≤ length l)%nat → insert_at i x l !! S j = l !! j.
  Proof.
    intros. unfold insert_at. rewrite lookup_app_r by (rewrite take_length; lia).
    rewrite take_length. replace (S j - i `min` length l)%nat with (S (j - i)) by lia.
    simpl. rewrite lookup_drop. f_equal. lia.
  Qed.
  Lemma remove_at_lookup_lt i l j : (j < i)%nat → remove_at i l !! j = l !! j.
  Proof. intros. rewrite remove_at_delete. by apply lookup_delete_lt. Qed.
  Lemma remove_at_lookup_ge i l j : (i ≤ j)%nat → remove_at i l !! j = l !! S j.
  Proof. intros. rewrite remove_at_delete. by apply lookup_delete_ge. Qed.
  Lemma remove_at_length i l :
    (i < length l)%nat → length (remove_at i l) = pred (length l).
  Proof.
    intros. unfold remove_at. rewrite app_length, take_length, drop_length. lia.
  Qed.
  Lemma remove_at_insert_at i x l :
    (i ≤ length l)%nat → remove_at i (insert_at i x l) = l.
  Proof.
    intros. unfold remove_at, insert_at.
    rewrite take_app_alt by (rewrite take_length; lia).
    rewrite (cons_middle x), app_assoc.
    rewrite drop_app_alt by (rewrite app_length, take_length; simpl; lia).
    apply take_drop.
  Qed.

  Lemma last_take_prev ix l : (ix ≤ length l)%nat → last (take ix l) = prev_of ix l.
  Proof.
    intros. destruct ix as [|i]; [done|]. rewrite last_lookup, take_length.
    replace (Init.Nat.pred (S i `min` length l)) with i by lia.
    cbn [prev_of]. apply lookup_take. lia.
  Qed.
  Lemma head_drop_lookup ix l : head (drop ix l) = l !! ix.
  Proof. rewrite head_lookup, lookup_drop. f_equal. lia. Qed.
End vec.

Lemma fmap_insert_at {A B} (f : A → B) i x l :
  f <$> insert_at i x l = insert_at i (f x) (f <$> l).
Proof. unfold insert_at. by rewrite fmap_app, fmap_cons, fmap_take, fmap_drop. Qed.
Lemma fmap_remove_at {A B} (f : A → B) i l :
  f <$> remove_at i l = remove_at i (f <$> l).
Proof. unfold remove_at. by rewrite fmap_app, fmap_take, fmap_drop. Qed.
Lemma prev_of_fmap {A B} (f : A → B) ix l : prev_of ix (f <$> l) = f <$> prev_of ix l.
Proof. destruct ix; simpl; [done|]. apply list_lookup_fmap. Qed.

(** * Generic part: [between] of the two neighbours of a position of a
    sorted list lands exactly at that position *)
Section neighbours.
  Context {T : Type} (tcmp : T → T → comparison).
  Hypothesis tcmp_refl : ∀ x, tcmp x x = Eq.
  Hypothesis tcmp_eq : ∀ x y, tcmp x y = Eq → x = y.
  Hypothesis tcmp_antisym : ∀ x y, tcmp y x = CompOpp (tcmp x y).
  Hypothesis tcmp_trans : ∀ x y z, tcmp x y = Lt → tcmp y z = Lt → tcmp x z = Lt.
  Notation ident := (list (Qc * T)).
  Implicit Types (keys : list ident) (ix : nat) (m : T).

  Lemma sorted_ids_lookup_lt keys i j a b :
    sorted_ids tcmp keys → keys !! i = Some a → keys !! j = Some b → (i < j)%nat →
    idcmp tcmp a b = Lt.
  Proof.
    intros Hs Ha Hb Hij. rewrite <-(take_drop j keys) in Hs.
    eapply (sorted_ids_In_app tcmp); [exact Hs|..]; apply elem_of_list_In.
    - apply (elem_of_list_lookup_2 _ i). by rewrite lookup_take.
    - apply (elem_of_list_lookup_2 _ 0%nat). rewrite lookup_drop. by rewrite Nat.add_0_r.
  Qed.

  (** The identifier allocated for position [ix]: strictly above the
      element before that position, strictly below the element at that
      position, and carrying the marker. *)
  Lemma between_gap keys ix m :
    sorted_ids tcmp keys → Forall (λ i, i ≠ []) keys →
    let id := between tcmp (prev_of ix keys) (keys !! ix) m in
    (∀ a, prev_of ix keys = Some a → idcmp tcmp a id = Lt) ∧
    (∀ b, keys !! ix = Some b → idcmp tcmp id b = Lt) ∧
    idvalue id = Some m.
  Proof.
    intros Hs Hne id. subst id.
    destruct (prev_of ix keys) as [a|] eqn:Hp, (keys !! ix) as [b|] eqn:Hn.
    - assert (idcmp tcmp a b = Lt) as Hab.
      { destruct ix as [|i]; [done|]. simpl in Hp.
        eapply sorted_ids_lookup_lt; eauto. }
      destruct (between_density tcmp tcmp_refl a b m Hab) as [H1 H2].
      split_and!; [by intros ? [= <-]|by intros ? [= <-]|by apply between_value_lt].
    - split_and!; [|done|done]. intros ? [= <-]. apply between_low_only.
      destruct ix as [|i]; [done|]. simpl in Hp.
      exact (Forall_lookup_1 _ _ _ _ Hne Hp).
    - split_and!; [done| |done]. intros ? [= <-]. apply between_high_only_any.
    - done.
  Qed.

  Theorem idset_insert_at keys ix m :
    sorted_ids tcmp keys → Forall (λ i, i ≠ []) keys → (ix ≤ length keys)%nat →
    let id := between tcmp (prev_of ix keys) (keys !! ix) m in
    idset_insert tcmp id keys = insert_at ix id keys ∧ idvalue id = Some m.
  Proof.
    intros Hs Hne Hix id.
    destruct (between_gap keys ix m Hs Hne) as (H1 & H2 & H3). fold id in H1, H2, H3.
    split; [|done]. unfold insert_at.
    transitivity (idset_insert tcmp id (take ix keys ++ drop ix keys));
      [by rewrite take_drop|].
    apply (idset_insert_mid tcmp tcmp_eq tcmp_antisym tcmp_trans).
    - by rewrite take_drop.
    - by rewrite last_take_prev.
    - by rewrite head_drop_lookup.
  Qed.

  Theorem idmap_insert_at {X} (kl : list (ident * X)) ix m v :
    sorted_keys tcmp kl → Forall (λ p, p.1 ≠ []) kl → (ix ≤ length kl)%nat →
    let id := between tcmp (prev_of ix (kl.*1)) (kl.*1 !! ix) m in
    idmap_insert tcmp id v kl = insert_at ix (id, v) kl ∧ idvalue id = Some m.
  Proof.
    intros Hs Hne Hix id.
    destruct (between_gap (kl.*1) ix m) as (H1 & H2 & H3);
      [done|by apply Forall_fmap|].
    fold id in H1, H2, H3. split; [|done]. unfold insert_at.
    transitivity (idmap_insert tcmp id v (take ix kl ++ drop ix kl));
      [by rewrite take_drop|].
    apply (idmap_insert_mid tcmp tcmp_eq tcmp_antisym tcmp_trans).
    - by rewrite take_drop.
    - intros p Hp. apply H1. rewrite prev_of_fmap, <-last_take_prev by done.
      by rewrite Hp.
    - intros q Hq. apply H2. rewrite list_lookup_fmap, <-head_drop_lookup.
      by rewrite Hq.
  Qed.

  Theorem idmap_remove_at {X} (kl : list (ident * X)) ix p :
    sorted_keys tcmp kl → kl !! ix = Some p →
    idmap_remove tcmp p.1 kl = remove_at ix kl.
  Proof.
    intros Hs Hp. unfold remove_at.
    transitivity (idmap_remove tcmp p.1 (take ix kl ++ p :: drop (S ix) kl));
      [by rewrite take_drop_middle|].
    destruct p as [i v]. apply (idmap_remove_present tcmp tcmp_refl tcmp_antisym).
    by rewrite take_drop_middle.
  Qed.

  (** Non-emptiness is preserved by the container operations. *)
  Lemma idmap_insert_nonempty {X} i (v : X) (kl : list (ident * X)) :
    i ≠ [] → Forall (λ p, p.1 ≠ []) kl → Forall (λ p, p.1 ≠ []) (idmap_insert tcmp i v kl).
  Proof.
    intros Hi. induction 1 as [|p kl Hp Hkl IH]; simpl; [by repeat constructor|].
    destruct (idcmp tcmp i p.1); repeat constructor; auto.
  Qed.
End neighbours.

(** * [List] *)
(** Representation invariant: the [BTreeMap] is strictly sorted by
    identifier (true of any [BTreeMap] as long as [Ord] is lawful: proved in
    proofs/Identifier.v) and no key is the empty path. *)
Definition linv (s : clist) : Prop :=
  sorted_keys odcmp (lseq s) ∧ Forall (λ p, p.1 ≠ []) (lseq s).

Definition lop_ident (o : lop) : list (Qc * (N * N)) :=
  match o with LInsert id _ | LDelete id _ => id end.

Lemma idvalue_nonempty {T} (i : list (Qc * T)) m : idvalue i = Some m → i ≠ [].
Proof. by intros H ->. Qed.
Lemma nonempty_idvalue {T} (i : list (Qc * T)) : i ≠ [] → is_Some (idvalue i).
Proof.
  intros Hi. unfold idvalue. destruct (last i) eqn:Hl; [by eexists|].
  by apply last_None in Hl.
Qed.

Lemma linv_new : linv l_new.
Proof. split; [apply sorted_ids_nil|constructor]. Qed.

(** [apply] of ANY op that does not panic preserves the invariant: an
    insert whose identifier is empty panics ([None]), and a delete cannot
    add a key. *)
Theorem linv_apply s o s' : linv s → l_apply s o = Some s' → linv s'.
Proof.
  intros [Hs Hne]. unfold l_apply. destruct (lop_dot o) as [d|] eqn:Hd; [|done].
  destruct (dcounter d <=? _); intros [= <-]; [done|].
  destruct o as [id v|id d']; simpl.
  - split; [by apply idmap_insert_sorted_od|]. apply idmap_insert_nonempty; [|done].
    simpl in Hd. destruct (idvalue id) eqn:Hv; [|done]. by eapply idvalue_nonempty.
  - split; [by apply idmap_remove_sorted|by apply idmap_remove_Forall].
Qed.
(** ... and an op with a non-empty identifier never panics. *)
Theorem l_apply_total s o : lop_ident o ≠ [] → is_Some (l_apply s o).
Proof.
  intros Hne. unfold l_apply. destruct o as [id v|id d]; simpl in *.
  - destruct (nonempty_idvalue id Hne) as [m ->]. simpl. by destruct (_ <=? _).
  - by destruct (_ <=? _).
Qed.
Corollary linv_apply_nonempty s o :
  linv s → lop_ident o ≠ [] → ∃ s', l_apply s o = Some s' ∧ linv s'.
Proof.
  intros Hi Hne. destruct (l_apply_total s o Hne) as [s' Hs'].
  exists s'. split; [done|]. by eapply linv_apply.
Qed.

(** Every state reachable from [new()] by any sequence of non-panicking
    [apply]s (local or remote ops, any order) satisfies the invariant. *)
Fixpoint l_run (s : clist) (ops : list lop) : option clist :=
  match ops with
  | [] => Some s
  | o :: ops => match l_apply s o with Some s' => l_run s' ops | None => None end
  end.
Theorem linv_run s ops s' : linv s → l_run s ops = Some s' → linv s'.
Proof.
  revert s. induction ops as [|o ops IH]; simpl; intros s Hi.
  - by intros [= <-].
  - destruct (l_apply s o) as [s1|] eqn:Ha; [|done]. apply IH. by eapply linv_apply.
Qed.
Corollary linv_reachable ops s : l_run l_new ops = Some s → linv s.
Proof. apply linv_run, linv_new. Qed.

(** ** [insert_index] *)
(** The identifier allocated by [insert_index]. *)
Definition l_insert_id (s : clist) (ix : nat) (a : N) : list (Qc * (N * N)) :=
  let ix' := Nat.min ix (length (lseq s)) in
  between odcmp (prev_of ix' (lseq s).*1) ((lseq s).*1 !! ix')
    (a, vget (lclock s) a + 1).
Lemma l_insert_index_eq s ix v a :
  l_insert_index s ix v a = LInsert (l_insert_id s ix a) v.
Proof.
  unfold l_insert_index, l_insert_id.
  destruct (Nat.min ix (length (lseq s))); reflexivity.
Qed.

Lemma l_insert_id_spec s ix a v :
  linv s →
  let ix' := Nat.min ix (length (lseq s)) in
  let id := l_insert_id s ix a in
  idmap_insert odcmp id v (lseq s) = insert_at ix' (id, v) (lseq s) ∧
  idvalue id = Some (a, vget (lclock s) a + 1).
Proof.
  intros [Hs Hne] ix' id.
  pose proof (idmap_insert_at odcmp odcmp_refl odcmp_eq odcmp_antisym odcmp_trans
                (lseq s) ix' (a, vget (lclock s) a + 1) v Hs Hne) as H.
  cbv zeta in H. apply H. lia.
Qed.

(** The exact result of applying a locally generated insert. *)
Theorem l_insert_index_apply s ix v a :
  linv s →
  l_apply s (l_insert_index s ix v a) =
    Some (CList (insert_at (Nat.min ix (length (lseq s))) (l_insert_id s ix a, v) (lseq s))
                (vapply (lclock s) (vinc (lclock s) a))).
Proof.
  intros Hi. destruct (l_insert_id_spec s ix a v Hi) as [Hins Hval].
  rewrite l_insert_index_eq. unfold l_apply. cbn [lop_dot]. rewrite Hval.
  cbn [fmap option_fmap option_map fst snd dactor dcounter].
  destruct (_ <=? _) eqn:E; [lia|]. by rewrite Hins.
Qed.

(** L-ins *)
Theorem l_insert_index_spec s ix v a :
  linv s →
  ∃ s', l_apply s (l_insert_index s ix v a) = Some s' ∧ linv s' ∧
        l_read s' = insert_at (Nat.min ix (length (l_read s))) v (l_read s) ∧
        lclock s' = vapply (lclock s) (vinc (lclock s) a).
Proof.
  intros Hi. eexists. split; [by apply l_insert_index_apply|]. split_and!.
  - eapply linv_apply; [exact Hi|by apply l_insert_index_apply].
  - unfold l_read. cbn [lseq]. by rewrite fmap_insert_at, fmap_length.
  - done.
Qed.
(** Index-wise reading of L-ins. *)
Corollary l_insert_index_position s ix v a s' :
  linv s → l_apply s (l_insert_index s ix v a) = Some s' →
  let k := Nat.min ix (l_len s) in
  l_len s' = S (l_len s) ∧
  l_position s' k = Some v ∧
  (∀ j, (j < k)%nat → l_position s' j = l_position s j) ∧
  (∀ j, (k ≤ j)%nat → l_position s' (S j) = l_position s j).
Proof.
  intros Hi Ha k. destruct (l_insert_index_spec s ix v a Hi) as (s1 & Ha' & _ & Hr & _).
  rewrite Ha in Ha'. injection Ha' as <-.
  assert (length (l_read s) = l_len s) as Hlen by apply fmap_length.
  assert (l_len s' = length (l_read s')) as -> by (symmetry; apply fmap_length).
  unfold l_position. rewrite Hr, Hlen. fold k. split_and!.
  - by rewrite insert_at_length, Hlen.
  - apply insert_at_lookup_eq. lia.
  - intros j Hj. apply insert_at_lookup_lt; lia.
  - intros j Hj. apply insert_at_lookup_gt; lia.
Qed.

Theorem l_append_spec s v a :
  linv s →
  ∃ s', l_apply s (l_append s v a) = Some s' ∧ linv s' ∧
        l_read s' = l_read s ++ [v] ∧
        lclock s' = vapply (lclock s) (vinc (lclock s) a).
Proof.
  intros Hi. unfold l_append.
  destruct (l_insert_index_spec s (length (lseq s)) v a Hi) as (s' & Ha & Hi' & Hr & Hc).
  exists s'. split_and!; [done..| |done].
  rewrite Hr. unfold l_read at 1. rewrite fmap_length, Nat.min_id.
  rewrite <-(fmap_length snd (lseq s)). apply insert_at_end.
Qed.

(** API-generated inserts carry a non-empty identifier whose last marker is
    the fresh dot. *)
Theorem l_insert_index_ident s ix v a :
  linv s →
  lop_ident (l_insert_index s ix v a) ≠ [] ∧
  lop_dot (l_insert_index s ix v a) = Some (vinc (lclock s) a).
Proof.
  intros Hi. destruct (l_insert_id_spec s ix a v Hi) as [_ Hval].
  rewrite l_insert_index_eq. cbn [lop_ident lop_dot]. rewrite Hval.
  split; [by eapply idvalue_nonempty|done].
Qed.
(** The fresh identifier is not yet a key. *)
Theorem l_insert_index_fresh s ix a :
  linv s → l_insert_id s ix a ∉ (lseq s).*1.
Proof.
  intros Hi Hin. destruct (l_insert_id_spec s ix a 0 Hi) as [Hins _].
  destruct Hi as [Hs _].
  rewrite idmap_insert_present_od in Hins; [|done|by apply elem_of_list_In].
  apply (f_equal length) in Hins. rewrite insert_at_length in Hins. lia.
Qed.

(** ** [delete_index] *)
Theorem l_delete_index_None s ix a :
  l_delete_index s ix a = None ↔ (length (l_read s) ≤ ix)%nat.
Proof.
  unfold l_delete_index, l_read. rewrite fmap_None, list_lookup_fmap, fmap_None.
  by rewrite lookup_ge_None, fmap_length.
Qed.
Lemma l_delete_index_Some s ix a op :
  l_delete_index s ix a = Some op ↔
  ∃ p, lseq s !! ix = Some p ∧ op = LDelete p.1 (vinc (lclock s) a).
Proof.
  unfold l_delete_index. rewrite list_lookup_fmap.
  destruct (lseq s !! ix) as [p|]; simpl; split.
  - intros [= <-]. eauto.
  - by intros (? & [= <-] & ->).
  - done.
  - by intros (? & ? & _).
Qed.
(** L-del *)
Theorem l_delete_index_spec s ix a op :
  linv s → l_delete_index s ix a = Some op →
  ∃ s', l_apply s op = Some s' ∧ linv s' ∧
        l_read s' = remove_at ix (l_read s) ∧
        lclock s' = vapply (lclock s) (vinc (lclock s) a).
Proof.
  intros Hi (p & Hp & ->)%l_delete_index_Some.
  assert (l_apply s (LDelete p.1 (vinc (lclock s) a)) =
          Some (CList (remove_at ix (lseq s)) (vapply (lclock s) (vinc (lclock s) a)))) as Ha.
  { unfold l_apply. cbn [lop_dot vinc dinc vdot dactor dcounter].
    destruct (_ <=? _) eqn:E; [lia|].
    rewrite (idmap_remove_at odcmp odcmp_refl odcmp_antisym _ ix p); [done|apply Hi|done]. }
  eexists. split; [exact Ha|]. split_and!.
  - by eapply linv_apply.
  - unfold l_read. cbn [lseq]. by rewrite fmap_remove_at.
  - done.
Qed.
Theorem l_delete_index_ident s ix a op :
  linv s → l_delete_index s ix a = Some op →
  lop_ident op ≠ [] ∧ lop_ident op ∈ (lseq s).*1 ∧ lop_dot op = Some (vinc (lclock s) a).
Proof.
  intros [_ Hne] (p & Hp & ->)%l_delete_index_Some. cbn [lop_ident lop_dot]. split_and!.
  - exact (Forall_lookup_1 _ _ _ _ Hne Hp).
  - apply elem_of_list_fmap. exists p. split; [done|]. by eapply elem_of_list_lookup_2.
  - done.
Qed.

(** L-pos *)
Theorem l_position_spec s ix : l_position s ix = l_read s !! ix.
Proof. done. Qed.
Theorem l_len_spec s : l_len s = length (l_read s).
Proof. unfold l_len, l_read. by rewrite fmap_length. Qed.

(** * [GList] *)
Notation gl := (list (list (Qc * N))) (only parsing).

Definition ginv (g : gl) : Prop :=
  sorted_ids ncompare g ∧ Forall (λ i, i ≠ []) g.

Lemma ginv_new : ginv [].
Proof. split; [apply sorted_ids_nil|constructor]. Qed.
Theorem ginv_apply g id : ginv g → id ≠ [] → ginv (gl_apply g id).
Proof.
  intros [Hs Hne] Hid. split; [by apply idset_insert_sorted_n|].
  by apply idset_insert_Forall.
Qed.
Theorem ginv_merge_ids g o : ginv g → Forall (λ i, i ≠ []) o → ginv (gl_merge g o).
Proof.
  intros Hg Ho. revert g Hg. unfold gl_merge.
  induction Ho as [|i o Hi _ IH]; intros g Hg; simpl; [done|].
  by apply IH, ginv_apply.
Qed.
Corollary ginv_merge g o : ginv g → ginv o → ginv (gl_merge g o).
Proof. intros Hg [_ Ho]. by apply ginv_merge_ids. Qed.
(** Every state built from [new()] by applying ops with non-empty
    identifiers (in any order, from any replica) satisfies the invariant. *)
Corollary ginv_reachable ids :
  Forall (λ i, i ≠ []) ids → ginv (foldl gl_apply [] ids).
Proof. apply (ginv_merge_ids [] ids ginv_new). Qed.

(** [read] does not panic on such a state. *)
Lemma gl_read_total g : Forall (λ i, i ≠ []) g → is_Some (gl_read g).
Proof.
  intros H. apply mapM_is_Some. eapply Forall_impl; [exact H|].
  intros i Hi; simpl. by apply nonempty_idvalue.
Qed.
Lemma gl_read_length g l : gl_read g = Some l → length l = length g.
Proof. intros H%mapM_Some. symmetry. by eapply Forall2_length. Qed.
Lemma gl_read_insert_at g l ix id x :
  gl_read g = Some l → idvalue id = Some x →
  gl_read (insert_at ix id g) = Some (insert_at ix x l).
Proof.
  unfold gl_read. rewrite !mapM_Some. intros HF Hv. unfold insert_at.
  apply Forall2_app; [by apply Forall2_take|].
  constructor; [done|by apply Forall2_drop].
Qed.

(** ** The identifiers allocated by the API are never empty (no hypothesis
    on the list or on the anchor). *)
Theorem gl_insert_after_nonempty g low x : gl_insert_after g low x ≠ [].
Proof.
  unfold gl_insert_after. apply between_nonempty.
  destruct low as [l|]; [|done]. cbn [mbind option_bind].
  destruct (List.filter _ g) as [|h t] eqn:Hf; [done|]. simpl.
  assert (In h (List.filter (λ i, idlt ncompare l i) g)) as Hin by (rewrite Hf; by left).
  apply filter_In in Hin as [_ Hlt]. apply idlt_spec in Hlt. by rewrite Hlt.
Qed.
Theorem gl_insert_before_nonempty g high x : gl_insert_before g high x ≠ [].
Proof.
  unfold gl_insert_before. apply between_nonempty.
  destruct high as [h|]; [|done]. cbn [mbind option_bind].
  destruct (last _) as [l|] eqn:Hl; [|done]. simpl.
  apply last_Some in Hl as [l' Hl].
  assert (In l (List.filter (λ i, idlt ncompare i h) g)) as Hin.
  { rewrite Hl. apply in_or_app. right. by left. }
  apply filter_In in Hin as [_ Hlt]. apply idlt_spec in Hlt. by rewrite Hlt.
Qed.
Theorem gl_insert_nonempty g ix x id : gl_insert g ix x = Some id → id ≠ [].
Proof.
  unfold gl_insert. destruct (_ <? _)%nat; [done|]. 
  destruct (match ix with O => None | S i => g !! i end) as [p|]; intros H.
  - assert (id = gl_insert_after g (Some p) x) as -> by congruence.
    apply gl_insert_after_nonempty.
  - assert (id = gl_insert_before g (g !! ix) x) as -> by congruence.
    apply gl_insert_before_nonempty.
Qed.

(** ** The neighbours chosen by the API *)
Lemma gl_insert_after_eq g k id x :
  sorted_ids ncompare g → g !! k = Some id →
  gl_insert_after g (Some id) x = between ncompare (prev_of (S k) g) (g !! S k) x.
Proof.
  intros Hs Hk. unfold gl_insert_after. cbn [mbind option_bind prev_of]. rewrite Hk.
  assert (List.filter (λ i, idlt ncompare id i) g = drop (S k) g) as ->.
  { transitivity (List.filter (λ i, idlt ncompare id i) (take k g ++ id :: drop (S k) g));
      [by rewrite take_drop_middle|].
    apply filter_idlt_above_n. by rewrite take_drop_middle. }
  by rewrite head_drop_lookup.
Qed.
Lemma gl_insert_before_eq g k id x :
  sorted_ids ncompare g → g !! k = Some id →
  gl_insert_before g (Some id) x = between ncompare (prev_of k g) (g !! k) x.
Proof.
  intros Hs Hk. unfold gl_insert_before. cbn [mbind option_bind]. rewrite Hk.
  assert (List.filter (λ i, idlt ncompare i id) g = take k g) as ->.
  { transitivity (List.filter (λ i, idlt ncompare i id) (take k g ++ id :: drop (S k) g));
      [by rewrite take_drop_middle|].
    apply filter_idlt_below_n. by rewrite take_drop_middle. }
  rewrite last_take_prev; [done|]. apply lookup_lt_Some in Hk. lia.
Qed.
Lemma gl_insert_eq g ix x :
  sorted_ids ncompare g → (ix ≤ length g)%nat →
  gl_insert g ix x = Some (between ncompare (prev_of ix g) (g !! ix) x).
Proof.
  intros Hs Hix. unfold gl_insert.
  destruct (length g <? ix)%nat eqn:E; [apply Nat.ltb_lt in E; lia|]. f_equal.
  destruct ix as [|i].
  - destruct (g !! 0%nat) as [h|] eqn:Hh; [|done].
    by rewrite (gl_insert_before_eq g 0 h x Hs Hh), Hh.
  - destruct (lookup_lt_is_Some_2 g i) as [p Hp]; [lia|]. rewrite Hp.
    by rewrite (gl_insert_after_eq g i p x Hs Hp).
Qed.

(** The [assert!(idx <= self.len())]. *)
Theorem gl_insert_None g ix x : gl_insert g ix x = None ↔ (length g < ix)%nat.
Proof.
  unfold gl_insert. destruct (length g <? ix)%nat eqn:E.
  - apply Nat.ltb_lt in E. done.
  - apply Nat.ltb_ge in E. split; [done|lia].
Qed.

(** Applying the identifier allocated for position [ix]. *)
Lemma gl_apply_between g l ix x :
  ginv g → gl_read g = Some l → (ix ≤ length g)%nat →
  let id := between ncompare (prev_of ix g) (g !! ix) x in
  id ∉ g ∧ gl_apply g id = insert_at ix id g ∧
  gl_read (gl_apply g id) = Some (insert_at ix x l).
Proof.
  intros [Hs Hne] Hr Hix id.
  pose proof (idset_insert_at ncompare ncompare_refl ncompare_eq ncompare_antisym
                ncompare_trans g ix x Hs Hne Hix) as H.
  cbv zeta in H. fold id in H. destruct H as [Hins Hval].
  unfold gl_apply. split_and!.
  - intros Hin. rewrite idset_insert_present_n in Hins; [|done|by apply elem_of_list_In].
    apply (f_equal length) in Hins. rewrite insert_at_length in Hins. lia.
  - done.
  - rewrite Hins. by apply gl_read_insert_at.
Qed.

(** G-ins *)
Theorem gl_insert_spec g l ix x :
  ginv g → gl_read g = Some l → (ix ≤ length g)%nat →
  ∃ id, gl_insert g ix x = Some id ∧ id ≠ [] ∧ id ∉ g ∧
        gl_apply g id = insert_at ix id g ∧
        gl_read (gl_apply g id) = Some (insert_at ix x l).
Proof.
  intros Hg Hr Hix. eexists. split; [apply gl_insert_eq; [apply Hg|done]|].
  split; [|by apply gl_apply_between].
  eapply gl_insert_nonempty. apply gl_insert_eq; [apply Hg|done].
Qed.

(** G-after / G-before: the anchor is the element at position [k]. *)
Theorem gl_insert_after_spec g l k id x :
  ginv g → gl_read g = Some l → g !! k = Some id →
  let new := gl_insert_after g (Some id) x in
  new ∉ g ∧ gl_apply g new = insert_at (S k) new g ∧
  gl_read (gl_apply g new) = Some (insert_at (S k) x l).
Proof.
  intros Hg Hr Hk new. unfold new. rewrite (gl_insert_after_eq g k id x); [|apply Hg|done].
  apply gl_apply_between; [done..|]. apply lookup_lt_Some in Hk. lia.
Qed.
Theorem gl_insert_before_spec g l k id x :
  ginv g → gl_read g = Some l → g !! k = Some id →
  let new := gl_insert_before g (Some id) x in
  new ∉ g ∧ gl_apply g new = insert_at k new g ∧
  gl_read (gl_apply g new) = Some (insert_at k x l).
Proof.
  intros Hg Hr Hk new. unfold new. rewrite (gl_insert_before_eq g k id x); [|apply Hg|done].
  apply gl_apply_between; [done..|]. apply lookup_lt_Some in Hk. lia.
Qed.

(** Anchor [None]: both calls return the fixed identifier [[(0, x)]],
    whatever the list contains.  On the empty list that is the only
    element; on a non-empty list the element lands wherever rational 0
    sorts (see the examples below: first, middle, last, or nowhere when
    [[(0, x)]] is already present). *)
Theorem gl_insert_after_None g x : gl_insert_after g None x = [(Q2Qc 0, x)].
Proof. done. Qed.
Theorem gl_insert_before_None g x : gl_insert_before g None x = [(Q2Qc 0, x)].
Proof. done. Qed.

(** * Examples ([vm_compute]) on states with concurrent siblings *)
Module examples.
  Definition lstep (s : clist) (o : lop) : clist :=
    match l_apply s o with Some s' => s' | None => s end.
  (** identifiers with the rationals shown as [Q] *)
  Definition show {T} (i : list (Qc * T)) : list (Q * T) :=
    (λ n : Qc * T, (this n.1, n.2)) <$> i.

  (** Actors 1 and 2 both insert into the empty list (equal rationals,
      sibling markers), exchange the ops, then both insert at index 1
      concurrently (one fits between the sibling markers, the other forks a
      longer path), and exchange again. *)
  Definition opA1 := l_insert_index l_new 0 10 1.
  Definition opB1 := l_insert_index l_new 0 20 2.
  Definition s2 := lstep (lstep l_new opA1) opB1.
  Definition opA2 := l_insert_index s2 1 11 1.
  Definition opB2 := l_insert_index s2 1 21 2.
  Definition s4 := lstep (lstep s2 opB2) opA2.

  Example s4_state :
    l_read s4 = [10; 11; 21; 20] ∧
    (λ p, show p.1) <$> lseq s4 =
      [[(0%Q, (1, 1))]; [(0%Q, (1, 2))]; [(0%Q, (2, 1)); (0%Q, (2, 2))]; [(0%Q, (2, 1))]].
  Proof. by vm_compute. Qed.
  Example s4_inv : linv s4.
  Proof. apply (linv_reachable [opA1; opB1; opB2; opA2]). by vm_compute. Qed.
  (** a third actor inserts at every index 0..6 (5 and 6 are clamped) *)
  Example s4_insert_everywhere :
    forallb (λ ix, bool_decide
      (l_read (lstep s4 (l_insert_index s4 ix 99 3))
       = insert_at (Nat.min ix 4) 99 [10; 11; 21; 20])) (seq 0 7) = true.
  Proof. by vm_compute. Qed.
  Example s4_insert_ids :
    (λ ix, show (lop_ident (l_insert_index s4 ix 99 3))) <$> seq 0 5 =
      [[((-1)%Q, (3, 1))];
       [(0%Q, (1, 2)); (0%Q, (3, 1))];
       [(0%Q, (2, 1)); ((-1)%Q, (3, 1))];
       [(0%Q, (2, 1)); (1%Q, (3, 1))];
       [(1%Q, (3, 1))]].
  Proof. by vm_compute. Qed.
  Example s4_delete_everywhere :
    (λ ix, (λ o, l_read (lstep s4 o)) <$> l_delete_index s4 ix 3) <$> seq 0 6 =
      [Some [11; 21; 20]; Some [10; 21; 20]; Some [10; 11; 20]; Some [10; 11; 21];
       None; None].
  Proof. by vm_compute. Qed.

  (** GList: two replicas insert 3 resp. 7 into the empty list (same
      rational 0), then elements equal to / between / above the neighbours
      are inserted at index 1, forking paths. *)
  Definition gstep (g : list (list (Qc * N))) (ix : nat) (x : N) :=
    match gl_insert g ix x with Some id => gl_apply g id | None => g end.
  Definition g2 : list (list (Qc * N)) :=
    gl_merge (gl_apply [] (gl_insert_before [] None 3)) (gl_apply [] (gl_insert_before [] None 7)).
  Definition g6 := gstep (gstep (gstep (gstep g2 1 3) 1 7) 1 9) 1 5.
  Example g6_state :
    gl_read g6 = Some [3; 5; 9; 7; 3; 7] ∧
    show <$> g6 =
      [[(0%Q, 3)]; [(0%Q, 5)]; [(0%Q, 7); ((-2)%Q, 9)]; [(0%Q, 7); ((-1)%Q, 7)];
       [(0%Q, 7); (0%Q, 3)]; [(0%Q, 7)]].
  Proof. by vm_compute. Qed.
  (** every index 0..6, elements equal to either neighbour's element, in
      between, below and above all: always the [Vec] result, never a no-op *)
  Example g6_insert_everywhere :
    forallb (λ ix, forallb (λ x, bool_decide
      (gl_read (gstep g6 ix x) = Some (insert_at ix x [3; 5; 9; 7; 3; 7])))
      [0; 3; 5; 7; 9; 10]) (seq 0 7) = true.
  Proof. by vm_compute. Qed.
  Example g6_insert_out_of_bounds : gl_insert g6 7 1 = None.
  Proof. by vm_compute. Qed.

  (** [insert_after(None)] / [insert_before(None)] on NON-empty lists: the
      identifier is always [[(0, x)]]; it lands first, in the middle, last, or
      is already present (the insert is then lost). *)
  Definition q (z : Z) : Qc := Q2Qc (inject_Z z).
  Example none_anchor_first :
    let g := [[(q 1, 1)]; [(q 2, 2)]] in
    gl_read (gl_apply g (gl_insert_after g None 9)) = Some [9; 1; 2] ∧
    gl_read (gl_apply g (gl_insert_before g None 9)) = Some [9; 1; 2].
  Proof. by vm_compute. Qed.
  Example none_anchor_middle :
    let g := [[(q (-1), 1)]; [(q 1, 2)]] in
    gl_read (gl_apply g (gl_insert_after g None 9)) = Some [1; 9; 2] ∧
    gl_read (gl_apply g (gl_insert_before g None 9)) = Some [1; 9; 2].
  Proof. by vm_compute. Qed.
  Example none_anchor_last :
    let g := [[(q (-2), 1)]; [(q (-1), 2)]] in
    gl_read (gl_apply g (gl_insert_after g None 9)) = Some [1; 2; 9] ∧
    gl_read (gl_apply g (gl_insert_before g None 9)) = Some [1; 2; 9].
  Proof. by vm_compute. Qed.
  Example none_anchor_lost :
    let g := [[(q 0, 9)]] in
    ginv g ∧ gl_apply g (gl_insert_after g None 9) = g ∧
    gl_apply g (gl_insert_before g None 9) = g.
  Proof. split_and!; [split; repeat constructor; done|by vm_compute..]. Qed.

  (** The invariant is needed: with the empty identifier in the list (it
      is the greatest element), [insert] at the end lands BEFORE it. *)
  Example ginv_needed :
    let g := [[(q 0, 1)]; []] in
    sorted_ids ncompare g ∧
    ∃ id, gl_insert g 2 9 = Some id ∧ gl_apply g id = [[(q 0, 1)]; id; []].
  Proof. split; [repeat constructor; done|]. eexists. split; by vm_compute. Qed.
End examples.
