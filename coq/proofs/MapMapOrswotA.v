(** Helper library for proofs/MapMapOrswot.v (value-level refinement of
    [Map<K1, Map<K2, Orswot<M>>>] under causal op-based delivery).

    - Part 1: tables of clocks ([trep]: a [gmap] of non-empty clocks represents a function
      from keys to clocks) and what the table operations of the model do to them;
    - Part 2: surviving witnesses, generically (witness predicate, cover predicate) and how
      their clock changes when one op is learned;
    - Part 3: the two instances of spec/MapMapOrswotSpec.v (inner keys, members);
    - Part 4: the INNER map [cmap orswot] stored under an outer key, as a value: what
      [mapply orswot_valops] and [mreset orswot_valops] do to a map whose pending removes
      (of inner keys and of members) are inert. *)
From stdpp Require Import gmap.
From Crdt Require Import model.Orswot model.Map spec.System spec.OrswotSpec spec.OrswotSystem
  spec.MapSpec spec.MapSystem spec.MapOrswotSpec spec.MapMapOrswotSpec proofs.VClock proofs.Reset
  proofs.OrswotLayer proofs.OrswotL1 proofs.OrswotL2 proofs.OrswotSystem proofs.MapFacts proofs.MapKeys
  proofs.MapOrswot.
From Coq Require Import ZifyBool ZifyN ZifyNat.
Local Open Scope N_scope.

(** * Part 1: tables of clocks *)
Definition tbl (T : N → gmap N N) (k : N) : option (gmap N N) :=
  if vis_empty (T k) then None else Some (T k).
Definition trep (M : gmap N (gmap N N)) (T : N → gmap N N) : Prop := ∀ k, M !! k = tbl T k.
(** the table part of [oreset] / [mreset] *)
Definition kreset (es : gmap N (gmap N N)) (c : gmap N N) : gmap N (gmap N N) :=
  map_imap (λ _ mc, let mc' := vreset mc c in if vis_empty mc' then None else Some mc') es.

Lemma kreset_lookup es c k :
  kreset es c !! k = es !! k ≫= λ mc, if vis_empty (vreset mc c) then None else Some (vreset mc c).
Proof. unfold kreset. by rewrite map_lookup_imap. Qed.

Lemma tbl_empty T k : T k = ∅ → tbl T k = None.
Proof. unfold tbl. intros ->. by rewrite (proj2 (vis_empty_spec ∅)). Qed.
Lemma tbl_nonempty T k : T k ≠ ∅ → tbl T k = Some (T k).
Proof. unfold tbl. intros Hne%vis_empty_false. by rewrite Hne. Qed.

Lemma trep_eq M M' T : trep M T → trep M' T → M = M'.
Proof. intros H1 H2. apply map_eq. intros k. by rewrite H1, H2. Qed.
Lemma trep_Some M T k c : trep M T → M !! k = Some c → c = T k ∧ c ≠ ∅.
Proof.
  intros HM. rewrite HM. unfold tbl. destruct (vis_empty (T k)) eqn:E; [done|]. intros [= <-].
  split; [done|by apply vis_empty_false].
Qed.
Lemma trep_default M T k : trep M T → default ∅ (M !! k) = T k.
Proof.
  intros HM. rewrite HM. unfold tbl. destruct (vis_empty (T k)) eqn:E; [|done].
  apply vis_empty_spec in E. by rewrite E.
Qed.
Lemma trep_empty T : (∀ k, T k = ∅) → trep ∅ T.
Proof. intros HT k. by rewrite lookup_empty, tbl_empty. Qed.
Lemma trep_ext M T T' : (∀ k, T' k = T k) → trep M T → trep M T'.
Proof. intros HT HM k. rewrite HM. unfold tbl. by rewrite HT. Qed.

Lemma trep_kreset M T T' c : trep M T → (∀ k, T' k = vreset (T k) c) → trep (kreset M c) T'.
Proof.
  intros HM HT k. rewrite kreset_lookup, HM. unfold tbl. rewrite HT.
  destruct (vis_empty (T k)) eqn:E; [|done]. apply vis_empty_spec in E. rewrite E, vreset_empty_l. done.
Qed.
Lemma trep_orm M T T' (ks : gset N) c : trep M T →
  (∀ k, T' k = if decide (k ∈ ks) then vreset (T k) c else T k) → trep (orm_entries M ks c) T'.
Proof.
  intros HM HT k. rewrite orm_entries_lookup, HM. unfold tbl. rewrite HT.
  destruct (decide (k ∈ ks)) as [Hk|Hk].
  - rewrite (bool_decide_eq_true_2 _ Hk). destruct (vis_empty (T k)) eqn:E; [|done].
    apply vis_empty_spec in E. rewrite E, vreset_empty_l. done.
  - rewrite (bool_decide_eq_false_2 _ Hk). by destruct (vis_empty (T k)).
Qed.
Lemma trep_insert M T T' k0 d : dcounter d ≠ 0 → trep M T →
  (∀ k, T' k = if decide (k = k0) then vapply (T k) d else T k) →
  trep (<[k0 := vapply (default ∅ (M !! k0)) d]> M) T'.
Proof.
  intros Hd HM HT k. unfold tbl. rewrite HT. destruct (decide (k = k0)) as [->|Hne].
  - rewrite lookup_insert, (trep_default M T k0 HM).
    assert (vapply (T k0) d ≠ ∅) as Hne.
    { apply (vne_get _ (dactor d)). rewrite vapply_get, decide_True by done. lia. }
    apply vis_empty_false in Hne. by rewrite Hne.
  - rewrite lookup_insert_ne by done. apply HM.
Qed.
Lemma trep_oadd M T T' ms d : dcounter d ≠ 0 → trep M T →
  (∀ k, T' k = if decide (k ∈ ms) then vapply (T k) d else T k) → trep (oadd_entries M ms d) T'.
Proof.
  intros Hd HM HT k. unfold tbl. rewrite HT, oadd_entries_lookup. destruct (decide (k ∈ ms)) as [Hk|Hk].
  - rewrite (trep_default M T k HM).
    assert (vapply (T k) d ≠ ∅) as Hne.
    { apply (vne_get _ (dactor d)). rewrite vapply_get, decide_True by done. lia. }
    apply vis_empty_false in Hne. by rewrite Hne.
  - apply HM.
Qed.

(** a table all of whose clocks are below a clock that [c] covers is emptied by [c] *)
Lemma kreset_covered M ec c : (∀ k mc, M !! k = Some mc → vleq mc ec) → vwf ec →
  vreset ec c = ∅ → (∀ k mc, M !! k = Some mc → vwf mc) → kreset M c = ∅.
Proof.
  intros Hle Hw He Hwf. apply map_eq. intros k. rewrite kreset_lookup, lookup_empty.
  destruct (M !! k) as [mc|] eqn:E; [|done]. cbn.
  assert (vreset mc c = ∅) as ->; [|by rewrite (proj2 (vis_empty_spec ∅))].
  apply vreset_covered; [by eapply Hwf|]. apply (vreset_empty_iff ec c Hw) in He.
  eapply vleq_trans; [by eapply Hle|done].
Qed.

(** * Part 2: surviving witnesses, generically *)
Section glive.
  Context {Op : Type} (W C : Op → dot → Prop).
  Definition glive (os : list Op) (x : dot) : Prop :=
    (∃ o, o ∈ os ∧ W o x) ∧ ¬ ∃ o, o ∈ os ∧ C o x.

  Context (os os' : list Op) (new : Op).
  Hypothesis Hos' : ∀ o, o ∈ os' ↔ o ∈ os ∨ o = new.

  Lemma glive_step x :
    glive os' x ↔ (glive os x ∧ ¬ C new x) ∨ (W new x ∧ (¬ ∃ o, o ∈ os ∧ C o x) ∧ ¬ C new x).
  Proof using Hos'.
    unfold glive. split.
    - intros [(o & [Ho| ->]%Hos' & Hw) Hc].
      + left. split; [split; [by exists o|]|].
        * intros (o' & Ho' & Hc'). apply Hc. exists o'. split; [apply Hos'; by left|done].
        * intros Hn. apply Hc. exists new. split; [apply Hos'; by right|done].
      + right. split_and!; [done| |].
        * intros (o' & Ho' & Hc'). apply Hc. exists o'. split; [apply Hos'; by left|done].
        * intros Hn. apply Hc. exists new. split; [apply Hos'; by right|done].
    - intros [[[(o & Ho & Hw) Hc] Hn]|(Hw & Hc & Hn)].
      + split; [exists o; split; [apply Hos'; by left|done]|].
        intros (o' & [Ho'| ->]%Hos' & Hc'); [apply Hc; by exists o'|done].
      + split; [exists new; split; [apply Hos'; by right|done]|].
        intros (o' & [Ho'| ->]%Hos' & Hc'); [apply Hc; by exists o'|done].
  Qed.

  Context (ds ds' : list dot).
  Hypothesis Hds : ∀ x, x ∈ ds ↔ glive os x.
  Hypothesis Hds' : ∀ x, x ∈ ds' ↔ glive os' x.

  (** the new op is a remove: it covers, under guard [g], what its context [c] covers *)
  Lemma gclock_rm (g : Prop) `{!Decision g} c :
    (∀ x, ¬ W new x) → (∀ x, C new x ↔ g ∧ dcounter x <= vget c (dactor x)) →
    dots_clock ds' = if decide g then vreset (dots_clock ds) c else dots_clock ds.
  Proof using Hos' Hds Hds'.
    intros Hw Hc. destruct (decide g) as [Hg|Hg].
    - apply dots_clock_filter. intros x. rewrite Hds', glive_step, Hds, Hc. specialize (Hw x). tauto.
    - apply dots_clock_same. intros x. rewrite Hds', glive_step, Hds, Hc. specialize (Hw x). tauto.
  Qed.
  (** the new op is a witness, under guard [g], with a dot nothing known covers *)
  Lemma gclock_add (g : Prop) `{!Decision g} d :
    (∀ x, W new x ↔ g ∧ x = d) → (∀ x, ¬ C new x) → (g → ¬ ∃ o, o ∈ os ∧ C o d) →
    dots_clock ds' = if decide g then vapply (dots_clock ds) d else dots_clock ds.
  Proof using Hos' Hds Hds'.
    intros Hw Hc Hn. destruct (decide g) as [Hg|Hg].
    - apply dots_clock_add. intros x. rewrite Hds', glive_step, Hds, Hw. specialize (Hc x). split.
      + intros [[? _]|[[_ ->] _]]; tauto.
      + intros [?| ->]; [tauto|]. right. split; [done|]. split; [by apply Hn|done].
    - apply dots_clock_same. intros x. rewrite Hds', glive_step, Hds, Hw. specialize (Hc x). tauto.
  Qed.
End glive.

(** * Part 3: the two specification tables of depth 2 *)
Notation op2 := (mop (mop oop)) (only parsing).
Notation ledot x c := (dcounter x <= vget c (dactor x)) (only parsing).

Definition ik_wit (k1 k2 : N) (o : op2) (x : dot) : Prop :=
  match o with MUp _ k (MUp d k' _) => (k = k1 ∧ k' = k2) ∧ x = d | _ => False end.
Definition ik_cov (k1 k2 : N) (o : op2) (x : dot) : Prop :=
  match o with
  | MRm c ks => k1 ∈ ks ∧ ledot x c
  | MUp _ k (MRm c ks) => (k = k1 ∧ k2 ∈ ks) ∧ ledot x c
  | MUp _ _ (MUp _ _ _) => False
  end.
Definition mb_wit (k1 k2 m : N) (o : op2) (x : dot) : Prop :=
  match o with MUp _ k (MUp _ k' (OAdd d ms)) => (k = k1 ∧ k' = k2 ∧ m ∈ ms) ∧ x = d | _ => False end.
Definition mb_cov (k1 k2 m : N) (o : op2) (x : dot) : Prop :=
  match o with
  | MRm c ks => k1 ∈ ks ∧ ledot x c
  | MUp _ k (MRm c ks) => (k = k1 ∧ k2 ∈ ks) ∧ ledot x c
  | MUp _ k (MUp _ k' (ORm c ms)) => (k = k1 ∧ k' = k2 ∧ m ∈ ms) ∧ ledot x c
  | MUp _ _ (MUp _ _ (OAdd _ _)) => False
  end.

Definition ik_clock (os : list op2) (k1 k2 : N) : gmap N N := dots_clock (m2_inner_live os k1 k2).
Definition mb_clock (os : list op2) (k1 k2 m : N) : gmap N N := dots_clock (m2_live_dots os k1 k2 m).

Section m2spec.
  Implicit Types (os : list op2) (k m : N) (d x : dot).

  Lemma le_dot_spec d c : le_dot d c = true ↔ dcounter d <= vget c (dactor d).
  Proof. unfold le_dot. lia. Qed.

  Lemma m2_key_covered_spec os k1 k2 d :
    m2_key_covered os k1 k2 d = true ↔ ∃ o, o ∈ os ∧ ik_cov k1 k2 o d.
  Proof.
    unfold m2_key_covered. rewrite existsb_exists. split.
    - intros (o & Hin%elem_of_list_In & Hb). exists o. split; [done|].
      destruct o as [c ks|d0 k [c ks|d' k' o]]; cbn; [| |done].
      + apply andb_prop in Hb as [Hk%bool_decide_eq_true Hc%le_dot_spec]. done.
      + apply andb_prop in Hb as [Hb Hc%le_dot_spec].
        apply andb_prop in Hb as [Hk%bool_decide_eq_true Hk2%bool_decide_eq_true]. done.
    - intros (o & Hin & Hc). exists o. split; [by apply elem_of_list_In|].
      destruct o as [c ks|d0 k [c ks|d' k' o]]; cbn in Hc; [| |done].
      + destruct Hc as [Hk Hc%le_dot_spec]. by rewrite (bool_decide_eq_true_2 _ Hk), Hc.
      + destruct Hc as [[Hk Hk2] Hc%le_dot_spec].
        by rewrite (bool_decide_eq_true_2 _ Hk), (bool_decide_eq_true_2 _ Hk2), Hc.
  Qed.
  Lemma m2_key_covered_false os k1 k2 d :
    m2_key_covered os k1 k2 d = false ↔ ¬ ∃ o, o ∈ os ∧ ik_cov k1 k2 o d.
  Proof. by rewrite <- m2_key_covered_spec, not_true_iff_false. Qed.

  Lemma ik_cov_mb_cov k1 k2 m o d : ik_cov k1 k2 o d → mb_cov k1 k2 m o d.
  Proof. by destruct o as [c ks|d0 k [c ks|d' k' o]]. Qed.

  Lemma m2_member_covered_spec os k1 k2 m d :
    m2_member_covered os k1 k2 m d = true ↔ ∃ o, o ∈ os ∧ mb_cov k1 k2 m o d.
  Proof.
    unfold m2_member_covered. rewrite orb_true_iff, m2_key_covered_spec, existsb_exists. split.
    - intros [(o & Hin & Hc)|(o & Hin%elem_of_list_In & Hb)].
      + exists o. split; [done|by apply ik_cov_mb_cov].
      + exists o. split; [done|]. destruct o as [c ks|d0 k [c ks|d' k' [d'' ms|c ms]]]; try done. cbn.
        apply andb_prop in Hb as [Hb Hc%le_dot_spec]. apply andb_prop in Hb as [Hb Hm%bool_decide_eq_true].
        apply andb_prop in Hb as [Hk%bool_decide_eq_true Hk2%bool_decide_eq_true]. done.
    - intros (o & Hin & Hc). destruct o as [c ks|d0 k [c ks|d' k' [d'' ms|c ms]]]; cbn in Hc; try done.
      + left. by exists (MRm c ks).
      + left. by exists (MUp d0 k (MRm c ks)).
      + right. exists (MUp d0 k (MUp d' k' (ORm c ms))). split; [by apply elem_of_list_In|].
        destruct Hc as [(Hk & Hk2 & Hm) Hc%le_dot_spec].
        by rewrite (bool_decide_eq_true_2 _ Hk), (bool_decide_eq_true_2 _ Hk2), (bool_decide_eq_true_2 _ Hm), Hc.
  Qed.
  Lemma m2_member_covered_false os k1 k2 m d :
    m2_member_covered os k1 k2 m d = false ↔ ¬ ∃ o, o ∈ os ∧ mb_cov k1 k2 m o d.
  Proof. by rewrite <- m2_member_covered_spec, not_true_iff_false. Qed.

  Lemma elem_of_m2_inner_live os k1 k2 x :
    x ∈ m2_inner_live os k1 k2 ↔ glive (ik_wit k1 k2) (ik_cov k1 k2) os x.
  Proof.
    unfold m2_inner_live, glive. rewrite elem_of_list_omap, <- m2_key_covered_false. split.
    - intros (o & Hin & Hb). destruct o as [c ks|d0 k [c ks|d' k' o]]; try done.
      destruct (bool_decide (k = k1)) eqn:Ek; [|done]. destruct (bool_decide (k' = k2)) eqn:Ek2; [|done].
      destruct (m2_key_covered os k1 k2 d') eqn:Ec; [done|]. cbn in Hb. injection Hb as ->.
      apply bool_decide_eq_true in Ek, Ek2. split; [|done]. by exists (MUp d0 k (MUp x k' o)).
    - intros [(o & Hin & Hw) Hc]. exists o. split; [done|].
      destruct o as [c ks|d0 k [c ks|d' k' o]]; try done. destruct Hw as [[Hk Hk2] ->].
      by rewrite (bool_decide_eq_true_2 _ Hk), (bool_decide_eq_true_2 _ Hk2), Hc.
  Qed.
  Lemma elem_of_m2_live_dots os k1 k2 m x :
    x ∈ m2_live_dots os k1 k2 m ↔ glive (mb_wit k1 k2 m) (mb_cov k1 k2 m) os x.
  Proof.
    unfold m2_live_dots, glive. rewrite elem_of_list_omap, <- m2_member_covered_false. split.
    - intros (o & Hin & Hb). destruct o as [c ks|d0 k [c ks|d' k' [d'' ms|c ms]]]; try done.
      destruct (bool_decide (k = k1)) eqn:Ek; [|done]. destruct (bool_decide (k' = k2)) eqn:Ek2; [|done].
      destruct (bool_decide (m ∈ ms)) eqn:Em; [|done].
      destruct (m2_member_covered os k1 k2 m d'') eqn:Ec; [done|]. cbn in Hb. injection Hb as ->.
      apply bool_decide_eq_true in Ek, Ek2, Em. split; [|done]. by exists (MUp d0 k (MUp d' k' (OAdd x ms))).
    - intros [(o & Hin & Hw) Hc]. exists o. split; [done|].
      destruct o as [c ks|d0 k [c ks|d' k' [d'' ms|c ms]]]; try done. destruct Hw as [(Hk & Hk2 & Hm) ->].
      by rewrite (bool_decide_eq_true_2 _ Hk), (bool_decide_eq_true_2 _ Hk2), (bool_decide_eq_true_2 _ Hm), Hc.
  Qed.

  Lemma ik_clock_wf os k1 k2 : vwf (ik_clock os k1 k2).
  Proof. apply dots_clock_wf. Qed.
  Lemma mb_clock_wf os k1 k2 m : vwf (mb_clock os k1 k2 m).
  Proof. apply dots_clock_wf. Qed.

  Lemma m2_inner_clocks_trep os k1 : trep (m2_inner_clocks os k1) (ik_clock os k1).
  Proof.
    intros k2. unfold m2_inner_clocks, tbl. rewrite fn_map_lookup. destruct (decide _) as [Hin|Hin]; [done|].
    assert (m2_inner_live os k1 k2 = []) as Hnil.
    { apply list_no_elem_nil. intros x [(o & Ho & Hw) _]%elem_of_m2_inner_live. apply Hin.
      apply elem_of_list_to_set, elem_of_list_omap. exists o. split; [done|].
      destruct o as [c ks|d0 k [c ks|d' k' o]]; try done. destruct Hw as [[Hk Hk2] _]. subst k'.
      by rewrite (bool_decide_eq_true_2 _ Hk). }
    unfold ik_clock. rewrite Hnil, dots_clock_nil. done.
  Qed.
  Lemma m2_entries_trep os k1 k2 : trep (m2_entries os k1 k2) (mb_clock os k1 k2).
  Proof.
    intros m. unfold m2_entries, tbl. rewrite fn_map_lookup. destruct (decide _) as [Hin|Hin]; [done|].
    assert (m2_live_dots os k1 k2 m = []) as Hnil.
    { apply list_no_elem_nil. intros x [(o & Ho & Hw) _]%elem_of_m2_live_dots. apply Hin.
      apply elem_of_list_to_set. unfold m2_members_mentioned. apply elem_of_list_In, in_concat.
      destruct o as [c ks|d0 k [c ks|d' k' [d'' ms|c ms]]]; try done. destruct Hw as [(Hk & Hk2 & Hm) _].
      exists ms. split; [|by apply elem_of_list_In]. apply elem_of_list_In, elem_of_list_omap.
      exists (MUp d0 k (MUp d' k' (OAdd d'' ms))). split; [done|].
      by rewrite (bool_decide_eq_true_2 _ Hk), (bool_decide_eq_true_2 _ Hk2). }
    unfold mb_clock. rewrite Hnil, dots_clock_nil. done.
  Qed.

  (** ** inner update dots are outer update dots, nested add dots are inner update dots *)
  Definition m2_shape os : Prop :=
    ∀ d0 k d k' o, MUp d0 k (MUp d k' o) ∈ os →
      d = d0 ∧ match o with OAdd d'' _ => d'' = d0 | ORm _ _ => True end.

  Lemma ik_clock_le_clock os k1 k2 : m2_shape os → vleq (ik_clock os k1 k2) (mspec_clock os).
  Proof.
    intros Hsh a. unfold ik_clock, mspec_clock. rewrite !dots_clock_get.
    apply max_ctr_le_iff. intros x [(o & Ho & Hw) _]%elem_of_m2_inner_live Ha.
    apply max_ctr_ge; [|done]. destruct o as [c ks|d0 k [c ks|d' k' o]]; try done. destruct Hw as [_ ->].
    destruct (Hsh _ _ _ _ _ Ho) as [-> _]. apply elem_of_mall_dots. by eexists _, _.
  Qed.
  Lemma mb_clock_le_ik os k1 k2 m : m2_shape os → vleq (mb_clock os k1 k2 m) (ik_clock os k1 k2).
  Proof.
    intros Hsh a. unfold ik_clock, mb_clock. rewrite !dots_clock_get.
    apply max_ctr_le_iff. intros x [(o & Ho & Hw) Hc]%elem_of_m2_live_dots Ha.
    apply max_ctr_ge; [|done]. apply elem_of_m2_inner_live. split.
    - exists o. split; [done|]. destruct o as [c ks|d0 k [c ks|d' k' [d'' ms|c ms]]]; try done.
      destruct Hw as [(Hk & Hk2 & _) ->]. destruct (Hsh _ _ _ _ _ Ho) as [-> ->]. done.
    - intros (o' & Ho' & Hc'). apply Hc. exists o'. split; [done|by apply ik_cov_mb_cov].
  Qed.
  Lemma mb_clock_le_clock os k1 k2 m : m2_shape os → vleq (mb_clock os k1 k2 m) (mspec_clock os).
  Proof. intros Hsh. eapply vleq_trans; [by apply mb_clock_le_ik|by apply ik_clock_le_clock]. Qed.

  (** an outer key all of whose update dots are covered by outer key removes has no inner key *)
  Lemma ik_clock_key_covered os k1 k2 : m2_shape os →
    (∀ d o, MUp d k1 o ∈ os → mcovered os k1 d = true) → ik_clock os k1 k2 = ∅.
  Proof.
    intros Hsh Hcov. unfold ik_clock.
    rewrite (list_no_elem_nil (m2_inner_live os k1 k2)); [apply dots_clock_nil|].
    intros x [(o & Ho & Hw) Hc]%elem_of_m2_inner_live. apply Hc.
    destruct o as [c ks|d0 k [c ks|d' k' o]]; try done. destruct Hw as [[-> ->] ->].
    destruct (Hsh _ _ _ _ _ Ho) as [-> _]. apply Hcov, mcovered_spec in Ho as (c & ks & Hin & Hk & Hle).
    by exists (MRm c ks).
  Qed.
  Lemma mb_clock_key_covered os k1 k2 m : m2_shape os →
    (∀ d o, MUp d k1 o ∈ os → mcovered os k1 d = true) → mb_clock os k1 k2 m = ∅.
  Proof.
    intros Hsh Hcov. apply vleq_empty_inv; [apply mb_clock_wf|].
    rewrite <- (ik_clock_key_covered os k1 k2 Hsh Hcov). by apply mb_clock_le_ik.
  Qed.

  (** ** learning one more op *)
  Section step.
    Context (os os' : list op2) (new : op2).
    Hypothesis Hos' : ∀ o, o ∈ os' ↔ o ∈ os ∨ o = new.
    Local Notation IK k1 k2 := (gclock_rm (ik_wit k1 k2) (ik_cov k1 k2) os os' new Hos' _ _
      (elem_of_m2_inner_live os k1 k2) (elem_of_m2_inner_live os' k1 k2)) (only parsing).
    Local Notation MB k1 k2 m := (gclock_rm (mb_wit k1 k2 m) (mb_cov k1 k2 m) os os' new Hos' _ _
      (elem_of_m2_live_dots os k1 k2 m) (elem_of_m2_live_dots os' k1 k2 m)) (only parsing).

    (** an outer key remove *)
    Lemma ik_step_krm c ks k1 k2 : new = MRm c ks →
      ik_clock os' k1 k2 = if decide (k1 ∈ ks) then vreset (ik_clock os k1 k2) c else ik_clock os k1 k2.
    Proof using Hos'. intros Hn. apply (IK k1 k2 (k1 ∈ ks)); subst new; cbn; tauto. Qed.
    Lemma mb_step_krm c ks k1 k2 m : new = MRm c ks →
      mb_clock os' k1 k2 m =
        if decide (k1 ∈ ks) then vreset (mb_clock os k1 k2 m) c else mb_clock os k1 k2 m.
    Proof using Hos'. intros Hn. apply (MB k1 k2 m (k1 ∈ ks)); subst new; cbn; tauto. Qed.

    (** an inner key remove *)
    Lemma ik_step_irm d k c ks k1 k2 : new = MUp d k (MRm c ks) →
      ik_clock os' k1 k2 =
        if decide (k = k1 ∧ k2 ∈ ks) then vreset (ik_clock os k1 k2) c else ik_clock os k1 k2.
    Proof using Hos'. intros Hn. apply (IK k1 k2 (k = k1 ∧ k2 ∈ ks)); subst new; cbn; tauto. Qed.
    Lemma mb_step_irm d k c ks k1 k2 m : new = MUp d k (MRm c ks) →
      mb_clock os' k1 k2 m =
        if decide (k = k1 ∧ k2 ∈ ks) then vreset (mb_clock os k1 k2 m) c else mb_clock os k1 k2 m.
    Proof using Hos'. intros Hn. apply (MB k1 k2 m (k = k1 ∧ k2 ∈ ks)); subst new; cbn; tauto. Qed.

    (** an inner update (of any kind) witnesses its inner key *)
    Lemma ik_step_up d k d' k' o k1 k2 : new = MUp d k (MUp d' k' o) →
      (¬ ∃ o, o ∈ os ∧ ik_cov k k' o d') →
      ik_clock os' k1 k2 =
        if decide (k = k1 ∧ k' = k2) then vapply (ik_clock os k1 k2) d' else ik_clock os k1 k2.
    Proof using Hos'.
      intros Hn Hnc.
      apply (gclock_add (ik_wit k1 k2) (ik_cov k1 k2) os os' new Hos' _ _
               (elem_of_m2_inner_live os k1 k2) (elem_of_m2_inner_live os' k1 k2) (k = k1 ∧ k' = k2));
        subst new; cbn; [tauto|tauto|]. by intros [-> ->].
    Qed.
    (** a nested member remove *)
    Lemma mb_step_orm d k d' k' c ms k1 k2 m : new = MUp d k (MUp d' k' (ORm c ms)) →
      mb_clock os' k1 k2 m =
        if decide (k = k1 ∧ k' = k2 ∧ m ∈ ms) then vreset (mb_clock os k1 k2 m) c else mb_clock os k1 k2 m.
    Proof using Hos'. intros Hn. apply (MB k1 k2 m (k = k1 ∧ k' = k2 ∧ m ∈ ms)); subst new; cbn; tauto. Qed.
    (** a nested member add *)
    Lemma mb_step_add d k d' k' d'' ms k1 k2 m : new = MUp d k (MUp d' k' (OAdd d'' ms)) →
      (∀ m, ¬ ∃ o, o ∈ os ∧ mb_cov k k' m o d'') →
      mb_clock os' k1 k2 m =
        if decide (k = k1 ∧ k' = k2 ∧ m ∈ ms) then vapply (mb_clock os k1 k2 m) d'' else mb_clock os k1 k2 m.
    Proof using Hos'.
      intros Hn Hnc.
      apply (gclock_add (mb_wit k1 k2 m) (mb_cov k1 k2 m) os os' new Hos' _ _
               (elem_of_m2_live_dots os k1 k2 m) (elem_of_m2_live_dots os' k1 k2 m) (k = k1 ∧ k' = k2 ∧ m ∈ ms));
        subst new; cbn; [tauto|tauto|]. intros (-> & -> & _). apply Hnc.
    Qed.
  End step.
End m2spec.

(** * Part 4: the inner map as a value *)
Local Notation vo := orswot_valops.

(** the inner key table of a map of Orswots *)
Definition ic (t : cmap orswot) : gmap N (gmap N N) := eclock <$> mentries t.

(** entry clocks and witness clocks store no zero and are not empty *)
Definition imwf (t : cmap orswot) : Prop :=
  ∀ k e, mentries t !! k = Some e → (vwf (eclock e) ∧ eclock e ≠ ∅) ∧ eswf (oentries (eval e)).
(** every witness of a member is a witness of its key *)
Definition imle (t : cmap orswot) : Prop :=
  ∀ k e m mc, mentries t !! k = Some e → oentries (eval e) !! m = Some mc → vleq mc (eclock e).
(** context [c] covers nothing stored in entry [e] *)
Definition einert (e : mentry orswot) (c : gmap N N) : Prop :=
  inert (eclock e) c ∧ ∀ m mc, oentries (eval e) !! m = Some mc → inert mc c.
(** the map stored under a key of an outer map with clock [clk]: its clock and the clocks
    of its values are below [clk]; pending removes of members are inert ([vinv]); pending
    removes of keys are below [clk] and cover nothing of the entries they name *)
Definition iminv (clk : gmap N N) (t : cmap orswot) : Prop :=
  vleq (mclock t) clk ∧
  (∀ k e, mentries t !! k = Some e → vinv clk (eval e)) ∧
  (∀ c ks, mdeferred t !! c = Some ks →
     vleq c clk ∧ ∀ k e, k ∈ ks → mentries t !! k = Some e → einert e c).

(** what a key remove / a reset makes of an entry that survives *)
Definition ers (e : mentry orswot) (c : gmap N N) : mentry orswot :=
  MEntry (vreset (eclock e) c) (oreset (eval e) c).

Lemma oreset_entries v c : oentries (oreset v c) = kreset (oentries v) c.
Proof. done. Qed.

Lemma kreset_inert es c : eswf es → (∀ m mc, es !! m = Some mc → inert mc c) → kreset es c = es.
Proof.
  intros Hw Hi. apply map_eq. intros m. rewrite kreset_lookup. destruct (es !! m) as [mc|] eqn:E; [|done]. cbn.
  destruct (Hw m mc E) as [Hwf Hne]. rewrite (inert_vreset_id mc c Hwf (Hi m mc E)).
  apply vis_empty_false in Hne. by rewrite Hne.
Qed.
Lemma kreset_empty c : kreset ∅ c = ∅.
Proof. apply map_eq. intros m. by rewrite kreset_lookup, lookup_empty. Qed.

Lemma eswf_oadd es ms d : dcounter d ≠ 0 → eswf es → eswf (oadd_entries es ms d).
Proof.
  intros Hd Hw m mc. rewrite oadd_entries_lookup. destruct (decide (m ∈ ms)); [|apply Hw].
  intros [= <-]. split.
  - apply vapply_wf. destruct (es !! m) eqn:E; cbn; [by apply (Hw m)|apply vwf_empty].
  - apply (vne_get _ (dactor d)). rewrite vapply_get, decide_True by done. lia.
Qed.
Lemma eswf_orm es (ms : gset N) c : eswf es → eswf (orm_entries es ms c).
Proof.
  intros Hw m mc. rewrite orm_entries_lookup. destruct (es !! m) as [mc0|] eqn:E; [|done].
  destruct (Hw m mc0 E) as [Hwf Hne]. case_bool_decide; [|by intros [= <-]].
  destruct (vis_empty (vreset mc0 c)) eqn:Ev; [done|]. intros [= <-].
  split; [by apply vreset_wf|by apply vis_empty_false].
Qed.

Lemma einert_reset e c c' : einert e c' → einert (ers e c) c'.
Proof.
  intros [H1 H2]. split; [by apply inert_vreset|]. intros m mc. cbn [ers eval]. rewrite oreset_entries, kreset_lookup.
  destruct (oentries (eval e) !! m) as [mc0|] eqn:E; [|done]. cbn. destruct (vis_empty _); [done|].
  intros [= <-]. apply inert_vreset. by eapply H2.
Qed.
Lemma einert_reset_self e c : einert (ers e c) c.
Proof.
  split; [apply inert_vreset_self|]. intros m mc. cbn [ers eval]. rewrite oreset_entries, kreset_lookup.
  destruct (oentries (eval e) !! m) as [mc0|] eqn:E; [|done]. cbn. destruct (vis_empty _); [done|].
  intros [= <-]. apply inert_vreset_self.
Qed.
Lemma einert_reset_both e c c' : einert e c' → einert (ers e c) (vreset c' c).
Proof.
  intros [H1 H2]. split; [by apply inert_vreset_both|]. intros m mc. cbn [ers eval]. rewrite oreset_entries, kreset_lookup.
  destruct (oentries (eval e) !! m) as [mc0|] eqn:E; [|done]. cbn. destruct (vis_empty _); [done|].
  intros [= <-]. apply inert_vreset_both. by eapply H2.
Qed.

(** entries that differ only in the clock and the pending removes of the value *)
Definition erel (e e' : mentry orswot) : Prop :=
  eclock e' = eclock e ∧ oentries (eval e') = oentries (eval e) ∧
  ∀ clk, vinv clk (eval e) → vinv clk (eval e').
Definition orel (o o' : option (mentry orswot)) : Prop :=
  match o, o' with Some e, Some e' => erel e e' | None, None => True | _, _ => False end.

Lemma erel_refl e : erel e e.
Proof. done. Qed.
Lemma erel_trans e1 e2 e3 : erel e1 e2 → erel e2 e3 → erel e1 e3.
Proof. intros (A1 & A2 & A3) (B1 & B2 & B3). split_and!; [congruence|congruence|auto]. Qed.
Lemma erel_einert e e' c : erel e e' → einert e c → einert e' c.
Proof. intros (A1 & A2 & _) [H1 H2]. split; [by rewrite A1|]. intros m mc. rewrite A2. apply H2. Qed.

Lemma ers_inert e c : (vwf (eclock e) ∧ eclock e ≠ ∅) → eswf (oentries (eval e)) → einert e c →
  vis_empty (vreset (eclock e) c) = false ∧ erel e (ers e c).
Proof.
  intros [Hw Hne] Hes [H1 H2]. pose proof (inert_vreset_id _ _ Hw H1) as Eid. split.
  - rewrite Eid. by apply vis_empty_false.
  - split_and!; [done| |intros clk; apply nested_reset]. cbn [ers eval]. rewrite oreset_entries. by apply kreset_inert.
Qed.

Lemma mrm_lookup (es : gmap N (mentry orswot)) ks c k :
  mrm_entries vo es ks c !! k =
    es !! k ≫= λ e, if bool_decide (k ∈ ks)
                    then if vis_empty (vreset (eclock e) c) then None else Some (ers e c)
                    else Some e.
Proof. apply mrm_entries_lookup. Qed.

(** replaying inert pending key removes: only clocks and pending removes of values change *)
Lemma imfold_inert (t : cmap orswot) : imwf t →
  (∀ c ks k e, mdeferred t !! c = Some ks → k ∈ ks → mentries t !! k = Some e → einert e c) →
  mclock (mapply_deferred vo t) = mclock t ∧
  (∀ k, orel (mentries t !! k) (mentries (mapply_deferred vo t) !! k)) ∧
  ∀ c ks, mdeferred (mapply_deferred vo t) !! c = Some ks → mdeferred t !! c = Some ks.
Proof.
  intros Hw. unfold mapply_deferred.
  apply (map_fold_ind (λ acc (D : gmap (gmap N N) (gset N)),
    (∀ c ks k e, D !! c = Some ks → k ∈ ks → mentries t !! k = Some e → einert e c) →
    mclock acc = mclock t ∧ (∀ k, orel (mentries t !! k) (mentries acc !! k)) ∧
    ∀ c ks, mdeferred acc !! c = Some ks → D !! c = Some ks)).
  - intros _. cbn. split_and!; [done| |done]. intros k. by destruct (mentries t !! k).
  - intros c ks D acc Hc IH Hin. destruct IH as (IHc & IHe & IHd).
    { intros c' ks' k e Hl. apply (Hin c' ks' k e). rewrite lookup_insert_ne; [done|]. intros <-. congruence. }
    rewrite mapply_rm_clock, mapply_rm_entries, mapply_rm_deferred. split_and!; [done| |].
    + intros k. rewrite mrm_lookup. specialize (IHe k).
      destruct (mentries t !! k) as [e|] eqn:Et, (mentries acc !! k) as [e'|] eqn:Ea; try done. cbn.
      case_bool_decide as Hk; [|done].
      assert (einert e c) as Hie by (apply (Hin c ks k e); [by rewrite lookup_insert|done|done]).
      destruct (Hw k e Et) as [W1 W2]. destruct IHe as (A1 & A2 & A3).
      destruct (ers_inert e' c) as [-> Hr]; [by rewrite A1|by rewrite A2|by apply (erel_einert e)|].
      cbn. by apply (erel_trans e e').
    + intros c' ks'. destruct (vge (mclock acc) c).
      * intros Hl. specialize (IHd _ _ Hl). rewrite lookup_insert_ne; [done|]. intros <-. congruence.
      * destruct (decide (c' = c)) as [->|Hne].
        -- rewrite !lookup_insert.
           assert (mdeferred acc !! c = None) as ->.
           { destruct (mdeferred acc !! c) eqn:E; [|done]. apply IHd in E. congruence. }
           cbn. by rewrite (left_id_L ∅ (∪)).
        -- rewrite !lookup_insert_ne by done. apply IHd.
Qed.

Lemma orel_views (t t' : cmap orswot) : (∀ k, orel (mentries t !! k) (mentries t' !! k)) →
  ic t' = ic t ∧ ∀ k, mo_state_entries t' k = mo_state_entries t k.
Proof.
  intros Hr. split.
  - apply map_eq. intros k. unfold ic. rewrite !lookup_fmap. specialize (Hr k).
    destruct (mentries t !! k), (mentries t' !! k); try done. cbn. f_equal. apply Hr.
  - intros k. unfold mo_state_entries. specialize (Hr k).
    destruct (mentries t !! k), (mentries t' !! k); try done. apply Hr.
Qed.

Lemma iminv_mono clk clk' t : vleq clk clk' → iminv clk t → iminv clk' t.
Proof.
  intros Hle (H1 & H2 & H3). split_and!.
  - by eapply vleq_trans.
  - intros k e He. eapply vinv_mono; [done|by eapply H2].
  - intros c ks Hc. destruct (H3 c ks Hc) as [Hcc Hin]. split; [by eapply vleq_trans|done].
Qed.
Lemma iminv_new clk : iminv clk (mnew : cmap orswot).
Proof. split_and!; [apply vleq_empty_min|intros k e|intros c ks]; cbn; by rewrite lookup_empty. Qed.
Lemma imwf_new : imwf mnew.
Proof. intros k e. cbn. by rewrite lookup_empty. Qed.

(** ** an inner update whose dot is fresh for the outer clock *)
Lemma inner_up t clk d k op : imwf t → iminv clk t → vget clk (dactor d) < dcounter d →
  match op with OAdd d' _ => d' = d | ORm c _ => vleq c clk end →
  ic (mapply vo t (MUp d k op)) = <[k := vapply (default ∅ (ic t !! k)) d]> (ic t) ∧
  (∀ k', mo_state_entries (mapply vo t (MUp d k op)) k' =
     if decide (k' = k)
     then match op with
          | OAdd _ ms => oadd_entries (mo_state_entries t k) ms d
          | ORm c ms => orm_entries (mo_state_entries t k) (list_to_set ms) c
          end
     else mo_state_entries t k') ∧
  iminv (vapply clk d) (mapply vo t (MUp d k op)).
Proof.
  intros Hw (Hc & Hv & Hd) Hf Hop.
  rewrite mapply_up_fresh by (specialize (Hc (dactor d)); lia).
  cbn [v_default v_apply orswot_valops].
  set (e0 := default (MEntry ∅ onew) (mentries t !! k)).
  assert (vinv clk (eval e0) ∧ eswf (oentries (eval e0)) ∧ vwf (eclock e0) ∧
          mo_state_entries t k = oentries (eval e0) ∧ default ∅ (ic t !! k) = eclock e0 ∧
          ∀ c ks, mdeferred t !! c = Some ks → k ∈ ks → einert e0 c) as (V0 & W0 & Wc0 & E0 & Ec0 & I0).
  { subst e0. unfold mo_state_entries, ic. rewrite lookup_fmap. destruct (mentries t !! k) as [e|] eqn:E; cbn.
    - destruct (Hw k e E) as [[? ?] ?]. split_and!; [by eapply Hv|done|done|done|done|].
      intros c ks Hl Hk. destruct (Hd c ks Hl) as [_ Hin]. by apply (Hin k).
    - split_and!; [apply vinv_new|apply eswf_empty|apply vwf_empty|done|done|].
      intros c ks _ _. split; [apply inert_empty|]. intros m mc. cbn. by rewrite lookup_empty. }
  assert (dcounter d ≠ 0) as Hd0 by lia.
  set (F := match op with
            | OAdd _ ms => oadd_entries (oentries (eval e0)) ms d
            | ORm c ms => orm_entries (oentries (eval e0)) (list_to_set ms) c
            end).
  assert (oentries (oapply (eval e0) op) = F ∧ vinv (vapply clk d) (oapply (eval e0) op) ∧ eswf F ∧
          ∀ c, vleq c clk → (∀ m mc, oentries (eval e0) !! m = Some mc → inert mc c) →
               ∀ m mc, F !! m = Some mc → inert mc c) as (N1 & N2 & N3 & N4).
  { subst F. destruct op as [d' ms|c ms].
    - subst d'. destruct (nested_add _ clk d ms W0 V0 Hf) as [N1 N2]. split_and!; [done|done|by apply eswf_oadd|].
      intros c Hcc Hi m mc. rewrite oadd_entries_lookup. destruct (decide (m ∈ ms)); [|apply Hi].
      intros [= <-]. apply inert_vapply; [|specialize (Hcc (dactor d)); lia].
      destruct (oentries (eval e0) !! m) as [mc|] eqn:E; cbn; [by apply (Hi m)|apply inert_empty].
    - destruct (nested_rm _ clk c ms V0 Hop) as [N1 N2]. split_and!; [done| |by apply eswf_orm|].
      + eapply vinv_mono; [|done]. intros a. apply vapply_mono.
      + intros c' Hcc Hi m mc. rewrite orm_entries_lookup. destruct (oentries (eval e0) !! m) as [mc0|] eqn:E; [|done].
        case_bool_decide; [|intros [= <-]; by apply (Hi m)].
        destruct (vis_empty _); [done|]. intros [= <-]. apply inert_vreset. by apply (Hi m). }
  set (e1 := MEntry (vapply (eclock e0) d) (oapply (eval e0) op)).
  set (t1 := CMap (vapply (mclock t) d) (<[k := e1]> (mentries t)) (mdeferred t)).
  assert (imwf t1) as Hw1.
  { intros k' e'. subst t1. cbn [mentries]. destruct (decide (k' = k)) as [->|Hne].
    - rewrite lookup_insert. intros [= <-]. subst e1. cbn [eclock eval]. rewrite N1. split; [|done]. split.
      + by apply vapply_wf.
      + apply (vne_get _ (dactor d)). rewrite vapply_get, decide_True by done. lia.
    - rewrite lookup_insert_ne by done. apply Hw. }
  assert (∀ c ks k' e', mdeferred t1 !! c = Some ks → k' ∈ ks → mentries t1 !! k' = Some e' → einert e' c) as Hi1.
  { intros c ks k' e'. subst t1. cbn [mentries mdeferred]. intros Hl Hk'. destruct (Hd c ks Hl) as [Hcc Hin].
    destruct (decide (k' = k)) as [->|Hne].
    - rewrite lookup_insert. intros [= <-]. destruct (I0 c ks Hl Hk') as [I1 I2]. subst e1. split; cbn [eclock eval].
      + apply inert_vapply; [done|]. specialize (Hcc (dactor d)). lia.
      + rewrite N1. by apply N4.
    - rewrite lookup_insert_ne by done. by apply Hin. }
  destruct (imfold_inert t1 Hw1 Hi1) as (E1 & E2 & E3).
  destruct (orel_views t1 _ E2) as [-> Hme].
  split_and!.
  - rewrite Ec0. subst t1. unfold ic. cbn [mentries]. rewrite fmap_insert. by subst e1.
  - intros k'. rewrite Hme. subst t1. unfold mo_state_entries at 1. cbn [mentries].
    destruct (decide (k' = k)) as [->|Hne].
    + rewrite lookup_insert. subst e1. cbn [eval]. rewrite N1, E0. subst F. by destruct op.
    + by rewrite lookup_insert_ne.
  - assert (∀ k' e', mentries (mapply_deferred vo t1) !! k' = Some e' →
              ∃ e, mentries t1 !! k' = Some e ∧ erel e e') as Hback.
    { intros k' e' He'. specialize (E2 k'). rewrite He' in E2. destruct (mentries t1 !! k') as [e|]; [|done]. by exists e. }
    split_and!.
    + rewrite E1. subst t1. cbn [mclock]. intros a. rewrite !vapply_get. specialize (Hc a). destruct (decide _); lia.
    + intros k' e' (e & He & Hr)%Hback. apply Hr. revert He. subst t1. cbn [mentries].
      destruct (decide (k' = k)) as [->|Hne].
      * rewrite lookup_insert. by intros [= <-].
      * rewrite lookup_insert_ne by done. intros He. eapply vinv_mono; [|by eapply Hv]. intros a. apply vapply_mono.
    + intros c ks Hl%E3. split.
      * subst t1. cbn [mdeferred] in Hl. destruct (Hd c ks Hl) as [Hcc _]. intros a.
        specialize (Hcc a). pose proof (vapply_mono clk d a). lia.
      * intros k' e' Hk' (e & He & Hr)%Hback. apply (erel_einert e); [done|]. by apply (Hi1 c ks k').
Qed.

(** ** an inner key remove whose context is below the outer clock *)
Lemma inner_rm t clk c ks : imwf t → imle t → iminv clk t → vleq c clk →
  ic (mapply vo t (MRm c ks)) = orm_entries (ic t) ks c ∧
  (∀ k, mo_state_entries (mapply vo t (MRm c ks)) k =
     if decide (k ∈ ks) then kreset (mo_state_entries t k) c else mo_state_entries t k) ∧
  iminv clk (mapply vo t (MRm c ks)).
Proof.
  intros Hw Hle (Hc & Hv & Hd) Hcc. cbn [mapply].
  assert (∀ k e', mentries (mapply_rm vo t ks c) !! k = Some e' →
            ∃ e, mentries t !! k = Some e ∧ ((k ∈ ks ∧ e' = ers e c) ∨ (k ∉ ks ∧ e' = e))) as Hent.
  { intros k e'. rewrite mapply_rm_entries, mrm_lookup. destruct (mentries t !! k) as [e|]; [|done]. cbn.
    case_bool_decide.
    - destruct (vis_empty _); [done|]. intros [= <-]. exists e. split; [done|]. by left.
    - intros [= <-]. exists e. split; [done|]. by right. }
  split_and!.
  - unfold ic. rewrite mapply_rm_entries. apply kabs_rm_entries.
  - intros k. unfold mo_state_entries. rewrite mapply_rm_entries, mrm_lookup.
    destruct (mentries t !! k) as [e|] eqn:E; cbn.
    + destruct (decide (k ∈ ks)) as [Hk|Hk].
      * rewrite (bool_decide_eq_true_2 _ Hk). destruct (Hw k e E) as [[W1 W2] W3].
        destruct (vis_empty (vreset (eclock e) c)) eqn:Ev; [|done].
        apply vis_empty_spec in Ev. symmetry. apply (kreset_covered _ (eclock e)); [|done|done|].
        -- intros m mc. by apply (Hle k e).
        -- intros m mc Hm. by destruct (W3 m mc Hm).
      * by rewrite (bool_decide_eq_false_2 _ Hk).
    + destruct (decide (k ∈ ks)); [by rewrite kreset_empty|done].
  - assert (∀ c1 ks1, mdeferred t !! c1 = Some ks1 → ∀ k e', k ∈ ks1 →
              mentries (mapply_rm vo t ks c) !! k = Some e' → einert e' c1) as Hold.
    { intros c1 ks1 Hl k e' Hk (e & He & [[_ ->]|[_ ->]])%Hent; destruct (Hd c1 ks1 Hl) as [_ Hin].
      - apply einert_reset. by apply (Hin k).
      - by apply (Hin k). }
    assert (∀ k e', k ∈ ks → mentries (mapply_rm vo t ks c) !! k = Some e' → einert e' c) as Hnew.
    { intros k e' Hk (e & He & [[_ ->]|[? _]])%Hent; [apply einert_reset_self|done]. }
    split_and!.
    + by rewrite mapply_rm_clock.
    + intros k e' (e & He & [[_ ->]|[_ ->]])%Hent; [apply nested_reset|]; by eapply Hv.
    + intros c1 ks1. rewrite mapply_rm_deferred. destruct (vge (mclock t) c).
      * intros Hl. split; [by destruct (Hd c1 ks1 Hl)|by apply Hold].
      * destruct (decide (c1 = c)) as [->|Hne].
        -- rewrite lookup_insert. intros [= <-]. split; [done|]. intros k e' Hk.
           apply elem_of_union in Hk as [Hk|Hk]; [|by apply Hnew].
           destruct (mdeferred t !! c) as [old|] eqn:Eo; [|by apply elem_of_empty in Hk]. by apply (Hold c old).
        -- rewrite lookup_insert_ne by done. intros Hl. split; [by destruct (Hd c1 ks1 Hl)|by apply Hold].
Qed.

(** ** the reset an outer key remove performs on the inner map *)
Lemma inner_reset t clk c : imwf t → imle t → iminv clk t →
  ic (mreset vo t c) = kreset (ic t) c ∧
  (∀ k, mo_state_entries (mreset vo t c) k = kreset (mo_state_entries t k) c) ∧
  iminv clk (mreset vo t c).
Proof.
  intros Hw Hle (Hc & Hv & Hd).
  assert (∀ k, mentries (mreset vo t c) !! k =
            mentries t !! k ≫= λ e, if vis_empty (vreset (eclock e) c) then None else Some (ers e c)) as Hl.
  { intros k. unfold mreset. cbn [mentries]. by rewrite map_lookup_imap. }
  assert (∀ k e', mentries (mreset vo t c) !! k = Some e' → ∃ e, mentries t !! k = Some e ∧ e' = ers e c) as Hent.
  { intros k e'. rewrite Hl. destruct (mentries t !! k) as [e|]; [|done]. cbn.
    destruct (vis_empty _); [done|]. intros [= <-]. by exists e. }
  split_and!.
  - exact (f_equal oentries (kabs_reset vo t c)).
  - intros k. unfold mo_state_entries. rewrite Hl. destruct (mentries t !! k) as [e|] eqn:E; cbn; [|by rewrite kreset_empty].
    destruct (Hw k e E) as [[W1 W2] W3]. destruct (vis_empty (vreset (eclock e) c)) eqn:Ev; [|done].
    apply vis_empty_spec in Ev. symmetry. apply (kreset_covered _ (eclock e)); [|done|done|].
    + intros m mc. by apply (Hle k e).
    + intros m mc Hm. by destruct (W3 m mc Hm).
  - split_and!.
    + cbn [mreset mclock]. intros a. rewrite vreset_get. specialize (Hc a). case_match; lia.
    + intros k e' (e & He & ->)%Hent. apply nested_reset. by eapply Hv.
    + cbn [mreset mdeferred]. intros c' ks' Hl'.
      assert (is_Some (oreset_deferred (mdeferred t) c !! c')) as Hs by eauto.
      apply oreset_deferred_dom in Hs as [Hne (k0 & [ms0 H0] & <-)]. split.
      { destruct (Hd k0 ms0 H0) as [Hk _]. intros a. rewrite vreset_get. specialize (Hk a). case_match; lia. }
      intros k e' Hk (e & He & ->)%Hent.
      assert (k ∈ default ∅ (oreset_deferred (mdeferred t) c !! vreset k0 c)) as Hm' by (by rewrite Hl').
      apply oreset_deferred_mem in Hm' as [_ (k1 & ms1 & H1 & Hm1 & Hr)].
      rewrite <- Hr. apply einert_reset_both. destruct (Hd k1 ms1 H1) as [_ Hin]. by apply (Hin k).
Qed.

Print Assumptions gclock_rm.
Print Assumptions gclock_add.
Print Assumptions mb_step_add.
Print Assumptions imfold_inert.
Print Assumptions inner_up.
Print Assumptions inner_rm.
Print Assumptions inner_reset.
