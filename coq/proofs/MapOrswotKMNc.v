(** [Map<K, Orswot<M>>] outside the classes of the findings T2 and T3 (spec/MapOrswotKMN.v), third
    part: the MERGE step of the invariant [kmn_inv] ([kmn_merge_inv]) and the invariant for every
    reachable state ([kmn_inv_reach]).

    Per key [mmerge] runs [mmerge_entry] and then replays both pending key-remove tables.
      - A key that a remove names: the argument of proofs/MapOrswotKM.v for that key alone - the
        per-key step computes [kmF] per member and actor ([mmerge_entry_km]); each actor updates the
        key at most once, so entry clock and witness counter of an actor are its one dot or 0
        ([side_named_e], [side_named_w], [kmF_named]); a remove known only to the side that does not
        know the dot is still pending there and is replayed ([mmerge_key_vrel]); [km_point_named].
      - A key no remove names: the replays do not visit it ([mmerge_key_untouched]); the per-key
        step on the two specification entries is the specification entry of the joint knowledge
        ([uk_merge_entry]: [sparse_L2] on the projected lists, nothing is deleted). *)
From stdpp Require Import gmap.
From Crdt Require Import model.Orswot model.Map spec.System spec.OrswotSpec spec.OrswotSystem
  spec.MapSpec spec.MapSystem spec.MapOrswotSpec spec.MapOrswotKM spec.MapOrswotKMN proofs.VClock proofs.Reset
  proofs.OrswotLayer proofs.OrswotL1 proofs.OrswotL2a proofs.OrswotL2 proofs.OrswotSystem proofs.MapFacts proofs.MapKeys
  proofs.MapOrswot proofs.MapOrswotPA proofs.MapOrswotEq proofs.OrswotSparseL2 proofs.MapOrswotNK proofs.MapOrswotKMa
  proofs.MapOrswotKMNa proofs.MapOrswotKMNb.
From Coq Require Import ZifyBool ZifyN ZifyNat.
Local Open Scope N_scope.

Local Notation vo := orswot_valops.

Lemma max_single ds a n : 0 < n → (∀ d, d ∈ ds → dactor d = a → d = Dot a n) →
  max_ctr ds a = if bool_decide (Dot a n ∈ ds) then n else 0.
Proof.
  intros Hn Hu. destruct (max_ctr_witness ds a) as [Hz|(d & Hd & Ha & Hc)].
  - rewrite Hz. case_bool_decide as Hin; [|done]. pose proof (max_ctr_ge ds a _ Hin eq_refl). cbn in *. lia.
  - pose proof (Hu d Hd Ha) as ->. rewrite bool_decide_eq_true_2 by done. by rewrite <- Hc.
Qed.

Lemma kmF_w0 c1 e1 c2 e2 : kmF c1 e1 0 c2 e2 0 = 0.
Proof. unfold kmF. repeat case_match; lia. Qed.

Section km.
  Context (all : list (mop oop)) (H : list (oprec (mop oop))).
  Context (Hmap : maphist_ok vo H) (Hwf : kmn_wf all H).
  Let HH : owfH (habs H) := maphist_ok_wf vo H Hmap.
  Implicit Types (s : cmap orswot) (K : gset nat) (k m a : N) (d : dot).
  Local Notation named k := (kmn_named all k = true).
  Local Notation unnamed k := (kmn_named all k = false).

  Lemma mcov_union K1 K2 k d :
    mcovered (known_ops H (K1 ∪ K2)) k d = mcovered (known_ops H K1) k d || mcovered (known_ops H K2) k d.
  Proof.
    apply eq_true_iff_eq. rewrite orb_true_iff, !mcovered_spec. setoid_rewrite known_ops_union_elem. naive_solver.
  Qed.

  Lemma km_live_member K k m d : named k → d ∈ mo_live_dots (known_ops H K) k m ↔
    (∃ ms, MUp d k (OAdd d ms) ∈ known_ops H K ∧ m ∈ ms) ∧ mcovered (known_ops H K) k d = false.
  Proof using Hwf.
    intros Hn. rewrite elem_of_mo_live_dots, (mo_covered_mcov all H Hwf K k m d Hn). split.
    - intros [(d0 & ms & Hin & Hm) Hc]. split; [|done]. exists ms. split; [|done].
      by pose proof (mo_shape_known all H Hwf K d0 k d ms Hin) as ->.
    - intros [(ms & Hin & Hm) Hc]. split; [|done]. by exists d, ms.
  Qed.
  Lemma km_live_key K k d : d ∈ mlive_dots (known_ops H K) k ↔
    (∃ o, MUp d k o ∈ known_ops H K) ∧ mcovered (known_ops H K) k d = false.
  Proof. by rewrite elem_of_mlive_dots, <- mcovered_spec, not_true_iff_false. Qed.
  Lemma km_live_member_key K k m d : named k →
    d ∈ mo_live_dots (known_ops H K) k m → d ∈ mlive_dots (known_ops H K) k.
  Proof using Hwf. intros Hn. rewrite (km_live_member K k m d Hn), km_live_key. intros [(ms & Hin & _) Hc]. split; [by eexists|done]. Qed.

  (** ** what is known of a reachable state that satisfies the invariant *)
  Section side.
    Context s K (Hr : moreach_kmn H s K) (Hinv : kmn_inv all H s K).
    Let os := known_ops H K.

    Lemma side_eclock k : eclock (edef (mentries s !! k)) = mspec_entry_clock os k.
    Proof using Hmap Hr.
      destruct (map_keys_reach_mspec vo H HH s K Hr) as (_ & _ & E & _). rewrite <- E.
      unfold mentry_clock, edef. by destruct (mentries s !! k).
    Qed.
    Lemma side_entries k : named k → oentries (eval (edef (mentries s !! k))) = mo_entries os k.
    Proof using Hmap Hwf Hr Hinv.
      intros Hn. unfold edef. destruct (mentries s !! k) as [e|] eqn:E; cbn.
      - specialize (Hinv k e E). rewrite Hn in Hinv. by destruct Hinv.
      - symmetry. by eapply absent_named.
    Qed.
    Lemma side_e k a : vget (eclock (edef (mentries s !! k))) a = max_ctr (mlive_dots os k) a.
    Proof using Hmap Hr. rewrite side_eclock. apply dots_clock_get. Qed.
    Lemma side_w k m a : named k →
      gdef (oentries (eval (edef (mentries s !! k)))) m a = max_ctr (mo_live_dots os k m) a.
    Proof using Hmap Hwf Hr Hinv. intros Hn. rewrite side_entries by done. apply gdef_mo_entries. Qed.

    Lemma side_w_le_e k m a : named k → max_ctr (mo_live_dots os k m) a <= max_ctr (mlive_dots os k) a.
    Proof using Hwf. intros Hn. apply max_ctr_sub. intros d Hd _. by apply (km_live_member_key K k m). Qed.
    Lemma side_e_le_c k a : max_ctr (mlive_dots os k) a <= vget (mclock s) a.
    Proof using Hmap Hr.
      destruct (key_clock H Hmap s K Hr) as [-> _]. rewrite <- dots_clock_get. apply mspec_entry_le_clock.
    Qed.

    Lemma side_entry_ok k e : named k → mentries s !! k = Some e → entry_ok (mclock s) e.
    Proof using Hmap Hwf Hr Hinv.
      intros Hn He. pose proof (side_eclock k) as Ec. pose proof (side_entries k Hn) as Et.
      unfold edef in Ec, Et. rewrite He in Ec, Et. cbn in Ec, Et.
      pose proof (Hinv k e He) as Hk. rewrite Hn in Hk. destruct Hk as (_ & V & D). split_and!.
      - rewrite Ec. apply dots_clock_wf.
      - intros a. rewrite Ec. unfold mspec_entry_clock. rewrite dots_clock_get. apply side_e_le_c.
      - done.
      - done.
      - rewrite Et. apply mo_entries_eswf.
      - intros m a. rewrite Et, gdef_mo_entries, Ec. unfold mspec_entry_clock. rewrite dots_clock_get.
        by apply side_w_le_e.
    Qed.

    (** pending key removes are known key removes; a known key remove beyond the clock is pending *)
    Lemma side_pending_cov c ks k a n : mdeferred s !! c = Some ks → k ∈ ks → n <= vget c a →
      mcovered os k (Dot a n) = true.
    Proof using Hmap Hr.
      intros Hl Hk Hle. destruct (pending_known H Hmap s K c ks k Hr Hl Hk) as (ks' & Hin & Hk').
      apply mcovered_spec. by exists c, ks'.
    Qed.
    Lemma side_cov_pending k a n : mcovered os k (Dot a n) = true → vget (mclock s) a < n →
      ∃ c ks, mdeferred s !! c = Some ks ∧ k ∈ ks ∧ n <= vget c a.
    Proof using Hmap Hr.
      intros (c & ks' & Hin & Hk & Hle)%mcovered_spec Hlt. cbn in Hle.
      destruct (pending_covering H Hmap s K c ks' k a Hr Hin Hk) as (ks & Hl & Hk2); [lia|].
      by exists c, ks.
    Qed.

    (** a named key: the one update of actor [a] *)
    Lemma side_named_e k a n ms : named k → MUp (Dot a n) k (OAdd (Dot a n) ms) ∈ hops H →
      max_ctr (mlive_dots os k) a =
        if (n <=? vget (mclock s) a) && negb (mcovered os k (Dot a n)) then n else 0.
    Proof using Hmap Hwf Hr.
      intros Hn Hu. unfold os. pose proof (hops_pos H Hmap _ _ _ Hu) as Hpos. cbn in Hpos.
      rewrite (max_single _ a n Hpos).
      2:{ intros d [[o Ho] _]%km_live_key Ha.
          by destruct (once_named all H Hwf k d o (Dot a n) _ Hn (known_hops H _ _ Ho) Hu Ha). }
      pose proof (side_known H Hmap s K _ _ _ Hr Hu) as Hk. cbn in Hk.
      case_bool_decide as Hin.
      - apply km_live_key in Hin as [[o Ho] ->].
        destruct (once_named all H Hwf k _ o (Dot a n) _ Hn (known_hops H _ _ Ho) Hu eq_refl) as [_ ->].
        apply Hk in Ho. by rewrite (proj2 (N.leb_le _ _) Ho).
      - destruct (n <=? vget (mclock s) a) eqn:E; [|done]. destruct (mcovered (known_ops H K) k (Dot a n)) eqn:Ec; [done|].
        destruct Hin. apply km_live_key. split; [|done]. eexists. apply Hk. lia.
    Qed.
    Lemma side_named_w k m a n ms : named k → MUp (Dot a n) k (OAdd (Dot a n) ms) ∈ hops H → m ∈ ms →
      max_ctr (mo_live_dots os k m) a =
        if (n <=? vget (mclock s) a) && negb (mcovered os k (Dot a n)) then n else 0.
    Proof using Hmap Hwf Hr.
      intros Hn Hu Hm. unfold os. pose proof (hops_pos H Hmap _ _ _ Hu) as Hpos. cbn in Hpos.
      rewrite (max_single _ a n Hpos).
      2:{ intros d [(ms' & Ho & _) _]%(km_live_member K k m d Hn) Ha.
          by destruct (once_named all H Hwf k d _ (Dot a n) _ Hn (known_hops H _ _ Ho) Hu Ha). }
      pose proof (side_known H Hmap s K _ _ _ Hr Hu) as Hk. cbn in Hk.
      case_bool_decide as Hin.
      - apply (km_live_member K k m _ Hn) in Hin as [(ms' & Ho & _) ->].
        destruct (once_named all H Hwf k _ _ (Dot a n) _ Hn (known_hops H _ _ Ho) Hu eq_refl) as [_ Heq].
        rewrite Heq in Ho. apply Hk in Ho. by rewrite (proj2 (N.leb_le _ _) Ho).
      - destruct (n <=? vget (mclock s) a) eqn:E; [|done]. destruct (mcovered (known_ops H K) k (Dot a n)) eqn:Ec; [done|].
        destruct Hin. apply (km_live_member K k m _ Hn). split; [|done]. exists ms. split; [|done]. apply Hk. lia.
    Qed.

    (** a key no remove names: the entry is the specification entry of the known ops *)
    Lemma side_unnamed_opt k : unnamed k → mentries s !! k = uk_opt os k.
    Proof using Hmap Hwf Hr Hinv.
      intros Hn. unfold uk_opt. pose proof (present_unnamed all H Hmap Hwf s K k Hr Hn) as Hp. fold os in Hp.
      destruct (decide (k ∈ mkeys_mentioned os)) as [Hin|Hin].
      - apply Hp in Hin as [e He]. rewrite He. f_equal.
        pose proof (Hinv k e He) as Hk. rewrite Hn in Hk.
        pose proof (eclock_spec H Hmap s K k e Hr He) as Ec.
        destruct e as [ec v]. cbn in *. unfold nk_ent. fold os in Hk, Ec. by rewrite Hk, Ec.
      - destruct (mentries s !! k) as [e|] eqn:E; [|done]. destruct Hin. apply Hp. by eexists.
    Qed.
  End side.

  (** ** one member, one actor of a named key *)
  Section merge.
    Context s1 K1 s2 K2
      (Hr1 : moreach_kmn H s1 K1) (Hi1 : kmn_inv all H s1 K1)
      (Hr2 : moreach_kmn H s2 K2) (Hi2 : kmn_inv all H s2 K2).

    Lemma km_point_named k m a x x0 : named k →
      x0 = kmF (vget (mclock s1) a) (max_ctr (mlive_dots (known_ops H K1) k) a)
               (max_ctr (mo_live_dots (known_ops H K1) k m) a)
               (vget (mclock s2) a) (max_ctr (mlive_dots (known_ops H K2) k) a)
               (max_ctr (mo_live_dots (known_ops H K2) k m) a) →
      (x = 0 ∨ x = x0) →
      (∀ c ks, (mdeferred s1 !! c = Some ks ∨ mdeferred s2 !! c = Some ks) → k ∈ ks → x0 <= vget c a → x = 0) →
      ((∀ c ks, (mdeferred s1 !! c = Some ks ∨ mdeferred s2 !! c = Some ks) → k ∈ ks → vget c a < x0) → x = x0) →
      x = max_ctr (mo_live_dots (known_ops H (K1 ∪ K2)) k m) a.
    Proof using Hmap Hwf Hr1 Hr2.
      intros Hn Hx0 V1 V2 V3.
      assert (∀ n ms, MUp (Dot a n) k (OAdd (Dot a n) ms) ∈ hops H → m ∈ ms →
                x = max_ctr (mo_live_dots (known_ops H (K1 ∪ K2)) k m) a) as Han.
      { intros n ms Hu Hm. pose proof (hops_pos H Hmap _ _ _ Hu) as Hpos. cbn in Hpos.
        rewrite (side_named_e s1 K1 Hr1 k a n ms Hn Hu), (side_named_w s1 K1 Hr1 k m a n ms Hn Hu Hm),
          (side_named_e s2 K2 Hr2 k a n ms Hn Hu), (side_named_w s2 K2 Hr2 k m a n ms Hn Hu Hm) in Hx0.
        pose proof (side_known H Hmap s1 K1 _ _ _ Hr1 Hu) as Hk1. pose proof (side_known H Hmap s2 K2 _ _ _ Hr2 Hu) as Hk2.
        cbn in Hk1, Hk2.
        set (k1 := n <=? vget (mclock s1) a) in *. set (k2 := n <=? vget (mclock s2) a) in *.
        set (v1 := mcovered (known_ops H K1) k (Dot a n)) in *.
        set (v2 := mcovered (known_ops H K2) k (Dot a n)) in *.
        rewrite (kmF_named n _ _ k1 v1 k2 v2 Hpos eq_refl eq_refl) in Hx0.
        assert (max_ctr (mo_live_dots (known_ops H (K1 ∪ K2)) k m) a =
                  if (k1 || k2) && negb (v1 || v2) then n else 0) as ->.
        { rewrite (max_single _ a n Hpos).
          2:{ intros d [(ms' & Ho & _) _]%(km_live_member _ k m d Hn) Ha.
              by destruct (once_named all H Hwf k d _ (Dot a n) _ Hn (known_hops H _ _ Ho) Hu Ha). }
          case_bool_decide as Hin.
          - apply (km_live_member _ k m _ Hn) in Hin as [(ms' & Ho & _) Hc]. rewrite mcov_union in Hc. fold v1 v2 in Hc.
            rewrite Hc. destruct (once_named all H Hwf k _ _ (Dot a n) _ Hn (known_hops H _ _ Ho) Hu eq_refl) as [_ Heq].
            rewrite Heq in Ho. apply known_ops_union_elem in Ho as [Ho|Ho].
            + apply Hk1 in Ho. assert (k1 = true) as -> by (unfold k1; lia). done.
            + apply Hk2 in Ho. assert (k2 = true) as -> by (unfold k2; lia). by rewrite orb_true_r.
          - destruct ((k1 || k2) && negb (v1 || v2)) eqn:E; [|done]. destruct Hin.
            apply andb_prop in E as [Ek Ev]. apply negb_true_iff in Ev.
            apply (km_live_member _ k m _ Hn). split; [|by rewrite mcov_union]. exists ms. split; [|done].
            apply known_ops_union_elem. apply orb_prop in Ek as [Ek|Ek]; [left; apply Hk1|right; apply Hk2];
              unfold k1, k2 in Ek; lia. }
        assert (v1 = false → v2 = false →
                ∀ c ks, (mdeferred s1 !! c = Some ks ∨ mdeferred s2 !! c = Some ks) → k ∈ ks → vget c a < n) as Hno.
        { intros E1 E2 c ks Hl Hk. destruct (decide (vget c a < n)) as [|Hge]; [done|]. exfalso.
          destruct Hl as [Hl|Hl].
          - pose proof (side_pending_cov s1 K1 Hr1 c ks k a n Hl Hk) as Hc. fold v1 in Hc. rewrite E1 in Hc. assert (false = true) by (apply Hc; lia). done.
          - pose proof (side_pending_cov s2 K2 Hr2 c ks k a n Hl Hk) as Hc. fold v2 in Hc. rewrite E2 in Hc. assert (false = true) by (apply Hc; lia). done. }
        assert (v1 = true → k1 = false → x0 = n → x = 0) as Hp1.
        { intros E1 Ek Ex. destruct (side_cov_pending s1 K1 Hr1 k a n) as (c & ks & Hl & Hk & Hle); [done|unfold k1 in Ek; lia|].
          apply (V2 c ks); [by left|done|lia]. }
        assert (v2 = true → k2 = false → x0 = n → x = 0) as Hp2.
        { intros E2 Ek Ex. destruct (side_cov_pending s2 K2 Hr2 k a n) as (c & ks & Hl & Hk & Hle); [done|unfold k2 in Ek; lia|].
          apply (V2 c ks); [by right|done|lia]. }
        clearbody k1 k2 v1 v2.
        destruct v1, v2, k1, k2; cbn [andb orb negb] in *;
          first [ by destruct V1; lia
                | by (rewrite Hx0 in V3; rewrite V3; [done|]; apply Hno)
                | by (rewrite Hp1 by done)
                | by (rewrite Hp2 by done) ]. }
      destruct (max_ctr_witness (mo_live_dots (known_ops H (K1 ∪ K2)) k m) a) as [Hy|(d & Hd & Ha & Hc)].
      2:{ apply (km_live_member _ k m _ Hn) in Hd as [(ms & Ho & Hm) _]. destruct d as [a' n]. cbn in Ha. subst a'.
          apply (Han n ms); [by eapply known_hops|done]. }
      destruct (max_ctr_witness (mo_live_dots (known_ops H K1) k m) a) as [Hw1|(d & Hd & Ha & Hc)].
      2:{ apply (km_live_member _ k m _ Hn) in Hd as [(ms & Ho & Hm) _]. destruct d as [a' n]. cbn in Ha. subst a'.
          apply (Han n ms); [by eapply known_hops|done]. }
      destruct (max_ctr_witness (mo_live_dots (known_ops H K2) k m) a) as [Hw2|(d & Hd & Ha & Hc)].
      2:{ apply (km_live_member _ k m _ Hn) in Hd as [(ms & Ho & Hm) _]. destruct d as [a' n]. cbn in Ha. subst a'.
          apply (Han n ms); [by eapply known_hops|done]. }
      rewrite Hw1, Hw2, kmF_w0 in Hx0. rewrite Hy. lia.
    Qed.

    (** ** the merge step *)
    Lemma kmn_merge_inv : kmn_inv all H (mmerge vo s1 s2) (K1 ∪ K2).
    Proof using Hmap Hwf Hr1 Hr2 Hi1 Hi2.
      pose proof (mclock_wf H Hmap s1 K1 Hr1) as W1. pose proof (mclock_wf H Hmap s2 K2 Hr2) as W2.
      intros k e He. destruct (kmn_named all k) eqn:Hn.
      - (* a named key *)
        assert (∀ e0, mmerge_entry vo (mclock s1) (mclock s2) (mentries s1 !! k) (mentries s2 !! k) = Some e0 →
                  odeferred (eval e0) = ∅ ∧ oclock (eval e0) = eclock e0 ∧ eswf (oentries (eval e0))) as Hm.
        { intros e0 He0.
          destruct (mmerge_entry_km _ _ _ _ e0 W1 W2 (λ e, side_entry_ok s1 K1 Hr1 Hi1 k e Hn)
                      (λ e, side_entry_ok s2 K2 Hr2 Hi2 k e Hn) He0) as (A & B & C & _). done. }
        destruct (mmerge_key_vrel s1 s2 k e Hm He) as (e0 & He0 & V4 & D & Sw & Hx).
        split_and!; [|done|done].
        destruct (mmerge_entry_km _ _ _ _ e0 W1 W2 (λ e, side_entry_ok s1 K1 Hr1 Hi1 k e Hn)
                    (λ e, side_entry_ok s2 K2 Hr2 Hi2 k e Hn) He0) as (_ & _ & _ & Hg).
        apply eswf_ext; [done|apply mo_entries_eswf|]. intros m a. rewrite gdef_mo_entries.
        destruct (Hx m a) as (X1 & X2 & X3).
        apply (km_point_named k m a _ (gdef (oentries (eval e0)) m a) Hn); [|done..].
        by rewrite Hg, (side_e s1 K1 Hr1), (side_e s2 K2 Hr2), (side_w s1 K1 Hr1 Hi1 k m a Hn), (side_w s2 K2 Hr2 Hi2 k m a Hn).
      - (* a key no remove names *)
        rewrite mmerge_key_untouched in He.
        2:{ intros c ks [Hl|Hl]; [exact (pending_not_unnamed all H Hmap Hwf s1 K1 c ks k Hr1 Hn Hl)|
                                   exact (pending_not_unnamed all H Hmap Hwf s2 K2 c ks k Hr2 Hn Hl)]. }
        rewrite (side_unnamed_opt s1 K1 Hr1 Hi1 k Hn), (side_unnamed_opt s2 K2 Hr2 Hi2 k Hn) in He.
        destruct (key_clock H Hmap s1 K1 Hr1) as [Ec1 _]. destruct (key_clock H Hmap s2 K2 Hr2) as [Ec2 _].
        rewrite Ec1, Ec2 in He.
        rewrite (uk_merge_entry (hops H) k (ukey_unnamed all H Hmap Hwf k Hn) _ _
                   (side_nk H Hmap s1 K1 Hr1) (side_nk H Hmap s2 K2 Hr2)) in He.
        rewrite (uk_opt_ext _ (known_ops H (K1 ∪ K2))) in He.
        2:{ intros o. rewrite elem_of_app. symmetry. apply known_ops_union_elem. }
        unfold uk_opt in He. destruct (decide _); [|done]. by injection He as <-.
    Qed.
  End merge.

  (** ** the invariant holds of every reachable state *)
  Theorem kmn_inv_reach s K : moreach_kmn H s K → kmn_inv all H s K.
  Proof using Hmap Hwf.
    induction 1 as [|s K i o Hr IH Ho Ha|s1 K1 s2 K2 _ Hr1 I1 Hr2 I2].
    - intros k e; cbn; by rewrite lookup_empty.
    - by apply (kmn_step all H Hmap Hwf).
    - by apply kmn_merge_inv.
  Qed.

  (** ** the complete state is the specification of the knowledge, relative to [all] *)
  Theorem kmn_reach_spec s K : moreach_kmn H s K → s = mapor_spec_kmn_of all (known_ops H K).
  Proof using Hmap Hwf.
    intros Hr. pose proof (kmn_inv_reach s K Hr) as Hinv.
    destruct (map_keys_reach_mspec vo H HH s K Hr) as (Ec & Ek & Ee & Ed).
    apply cmap_eq3; [done| |done].
    apply map_eq. intros k. unfold mapor_spec_kmn_of. cbn [mentries]. rewrite fn_map_lookup.
    rewrite <- Ek. unfold mkeys. specialize (Ee k). unfold mentry_clock in Ee.
    destruct (mentries s !! k) as [e|] eqn:E.
    - rewrite decide_True by (by apply elem_of_dom_2 in E). f_equal.
      pose proof (Hinv k e E) as Hk. destruct (kmn_named all k).
      + destruct Hk as (A & B & D). destruct e as [ec [oc t d]]. cbn in *. by subst.
      + destruct e as [ec v]. cbn in *. by subst.
    - rewrite decide_False; [done|]. by apply not_elem_of_dom.
  Qed.
End km.

Print Assumptions km_point_named.
Print Assumptions kmn_merge_inv.
Print Assumptions kmn_inv_reach.
Print Assumptions kmn_reach_spec.
