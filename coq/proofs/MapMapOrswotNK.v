(** [Map<K1, Map<K2, Orswot<M>>>] (nesting depth 2) whose keys are never removed at either level
    (commands [M2Add], [M2Rm] only): the COMPLETE state of every reachable replica - outer clock,
    outer key set, outer entry clocks and under every outer key the complete inner map (its clock,
    key set, entry clocks, and under every inner key the complete Orswot with its pending nested
    removes), [mdeferred = ∅] at both levels - is the specification [map2_spec_nk] of its knowledge,
    under per-actor (overtaking) delivery, duplicates AND state merges ([map2_refine_nk]).

    Route: the depth-1 list-level lemmas of proofs/MapOrswotNK.v ([nk_apply_fresh], [nk_merge])
    are stated for op lists with side conditions ([nk_ops], [nk_univ], [nk_side]) that do not
    mention contiguity of dots; they apply verbatim to the projected lists [m2_proj os k1]
    ([n2_proj_univ], [n2_proj_side]: the inner clocks are below the outer entry clock, which is
    below the outer map clock, so "seen" comes from the outer knowledge).  This file repeats the
    depth-1 construction one level up:
      - Part 0: key-level facts of the specification, generic in the nested op type;
      - Part 1: the specification [map2_spec_nk_of] through lookup lemmas;
      - Part 2: L1 on op lists ([n2_apply_fresh]): outer dedup gate, then the inner [mapply];
      - Part 3: L2 on op lists ([n2_merge]): both sides hold [k1] → nothing is deleted and the
        inner [mmerge] is the specification of the concatenation; one side holds it → the reset
        clock is inert on the inner map ([n2_inner_reset_inert]);
      - Part 4: histories: [n2_wfH] (established for API-generated histories together with the
        theorem, [m2hist_nk_wf]), the instance of spec/System.v, the theorem. *)
From stdpp Require Import gmap.
From Crdt Require Import proofs.VClock proofs.Reset proofs.OrswotLayer
  proofs.OrswotL1 proofs.OrswotL2a proofs.OrswotL2 proofs.OrswotSystem proofs.MapFacts proofs.MapKeys
  proofs.MapOrswot proofs.OrswotSparseL2 proofs.MapOrswotNK
  model.Orswot model.Map spec.System spec.OrswotSpec spec.OrswotSystem
  spec.MapSpec spec.MapSystem spec.MapOrswotSpec spec.MapMapOrswotSpec spec.MapMapOrswotNKSpec.
From Coq Require Import ZifyBool ZifyN ZifyNat.
Local Open Scope N_scope.

Local Notation vo1 := orswot_valops.
Local Notation vo2 := (map_valops orswot_valops).
Local Notation S1 := mapor_spec_nk_of.
Local Notation S2 := map2_spec_nk_of.
Local Notation op2 := (mop (mop oop)).

(** * Part 0: key-level facts, generic in the nested op type *)
Section generic.
  Context {O : Type}.
  Implicit Types (os U : list (mop O)) (k : N) (d : dot).

  (** the dots of the updates of key [k] *)
  Definition gkdots os k : list dot :=
    omap (λ o, match o with MUp d k' _ => if bool_decide (k' = k) then Some d else None | MRm _ _ => None end) os.

  (** no key remove *)
  Definition g_norm os : Prop := ∀ c ks, MRm c ks ∉ os.

  Lemma g_mentioned os k : k ∈ mkeys_mentioned os ↔ ∃ d o, MUp d k o ∈ os.
  Proof.
    unfold mkeys_mentioned. rewrite elem_of_list_omap. split.
    - intros ([c ks|d k' o] & Hin & Hb); [done|]. injection Hb as ->. by exists d, o.
    - intros (d & o & Hin). by exists (MUp d k o).
  Qed.
  Lemma elem_of_gkdots os k d : d ∈ gkdots os k ↔ ∃ o, MUp d k o ∈ os.
  Proof.
    unfold gkdots. rewrite elem_of_list_omap. split.
    - intros ([c ks|d' k' o'] & Hin & Hb); [done|]. case_bool_decide; [|done]. simplify_eq. by exists o'.
    - intros (o & Hin). exists (MUp d k o). split; [done|]. by rewrite bool_decide_eq_true_2.
  Qed.
  Lemma gkdots_app os1 os2 k : gkdots (os1 ++ os2) k = gkdots os1 k ++ gkdots os2 k.
  Proof. unfold gkdots. by rewrite omap_app. Qed.
  Lemma g_mall_dots_app os1 os2 : mall_dots (os1 ++ os2) = mall_dots os1 ++ mall_dots os2.
  Proof. unfold mall_dots. by rewrite omap_app. Qed.
  Lemma g_mentioned_app os1 os2 : mkeys_mentioned (os1 ++ os2) = mkeys_mentioned os1 ++ mkeys_mentioned os2.
  Proof. unfold mkeys_mentioned. by rewrite omap_app. Qed.

  Lemma g_live os k d : g_norm os → d ∈ mlive_dots os k ↔ d ∈ gkdots os k.
  Proof.
    intros Hs. rewrite elem_of_mlive_dots, elem_of_gkdots. split; [by intros [? _]|].
    intros Hex. split; [done|]. intros (c & ks & Hin & _). by apply Hs in Hin.
  Qed.
  Lemma g_entry_clock os k : g_norm os → mspec_entry_clock os k = dots_clock (gkdots os k).
  Proof. intros Hs. apply dots_clock_ext. intros d. by apply g_live. Qed.
  Lemma g_clock_app os1 os2 : mspec_clock (os1 ++ os2) = vmerge (mspec_clock os1) (mspec_clock os2).
  Proof. unfold mspec_clock. by rewrite g_mall_dots_app, dots_clock_app. Qed.
  Lemma g_entry_clock_le os k a : vget (mspec_entry_clock os k) a <= vget (mspec_clock os) a.
  Proof. apply mspec_entry_le_clock. Qed.
  Lemma g_absent_kdots os k : k ∉ mkeys_mentioned os → gkdots os k = [].
  Proof.
    intros Hn. apply list_no_elem_nil. intros d [o Ho]%elem_of_gkdots. apply Hn, g_mentioned. by exists d, o.
  Qed.
  Lemma g_absent_entry_clock os k : k ∉ mkeys_mentioned os → mspec_entry_clock os k = ∅.
  Proof.
    intros Hn. unfold mspec_entry_clock.
    assert (mlive_dots os k = []) as ->; [|apply dots_clock_nil].
    apply list_no_elem_nil. intros d [[o Ho] _]%elem_of_mlive_dots. apply Hn, g_mentioned. by exists d, o.
  Qed.

  (** every positive component of [c] is the dot of an update of key [k] in the universe *)
  Definition gclk U k (c : gmap N N) : Prop := ∀ a, 0 < vget c a → ∃ o, MUp (Dot a (vget c a)) k o ∈ U.
  (** the ops a replica knows: ops of the universe; an update of the universe whose dot the
      replica's clock covers is known *)
  Definition gside U os : Prop :=
    (∀ o, o ∈ os → o ∈ U) ∧
    (∀ d k o, MUp d k o ∈ U → dcounter d <= vget (mspec_clock os) (dactor d) → MUp d k o ∈ os).

  Lemma gclk_mono U U' k c : (∀ o, o ∈ U → o ∈ U') → gclk U k c → gclk U' k c.
  Proof. intros Hs Hc a Ha. destruct (Hc a Ha) as [o Ho]. exists o. by apply Hs. Qed.

  Section gmerge.
    Context (U : list (mop O)) (Hnorm : g_norm U) (Hpos : ∀ d k o, MUp d k o ∈ U → 0 < dcounter d).

    Lemma gside_norm os : gside U os → g_norm os.
    Proof. intros [Hsub _] c ks Hin. by apply Hsub, Hnorm in Hin. Qed.

    Lemma gclk_entry_clock os k : gside U os → gclk U k (mspec_entry_clock os k).
    Proof using Hnorm Hpos.
      intros HS a. rewrite g_entry_clock, dots_clock_get by (by apply gside_norm). intros Hp.
      destruct (max_ctr_witness (gkdots os k) a) as [?|([a' n] & Hin & Ha & Hc)]; [lia|]. cbn in Ha, Hc. subst a'.
      rewrite <- Hc. apply elem_of_gkdots in Hin as [o Ho]. exists o. by apply HS.
    Qed.

    (** a replica that holds no update of [k] covers none of [k]'s dots *)
    Lemma gclk_inert os k x : gside U os → k ∉ mkeys_mentioned os → gclk U k x → inert x (mspec_clock os).
    Proof using Hnorm Hpos.
      intros [_ Hseen] Hk Hx a. destruct (N.eq_0_gt_0_cases (vget x a)) as [?|Hp]; [by left|right].
      destruct (Hx a Hp) as [o Ho]. destruct (N.lt_ge_cases (vget (mspec_clock os) a) (vget x a)) as [?|Hle]; [done|].
      exfalso. apply Hk, g_mentioned. exists (Dot a (vget x a)), o. by apply Hseen.
    Qed.

    (** a dot of [k] that one replica holds and the clock of the other covers is held by both *)
    Lemma g_entry_seen os os' k a : gside U os → gside U os' →
      vget (mspec_entry_clock os' k) a <= vget (mspec_clock os) a →
      vget (mspec_entry_clock os' k) a <= vget (mspec_entry_clock os k) a.
    Proof using Hnorm Hpos.
      intros HS HS'. rewrite !g_entry_clock, !dots_clock_get by (by apply gside_norm). intros Hle.
      destruct (max_ctr_witness (gkdots os' k) a) as [->|([a' n] & Hin & Ha & Hc)]; [lia|]. cbn in Ha, Hc. subst a'.
      rewrite <- Hc in *. apply (max_ctr_ge _ _ (Dot a n)); [|done].
      apply elem_of_gkdots in Hin as [o Ho]. apply elem_of_gkdots. exists o. apply HS; [by apply HS'|done].
    Qed.

    Lemma g_entry_clock_pos os k : gside U os → k ∈ mkeys_mentioned os →
      ∃ a, 0 < vget (mspec_entry_clock os k) a.
    Proof using Hnorm Hpos.
      intros HS (d & o & Ho)%g_mentioned.
      exists (dactor d). rewrite g_entry_clock, dots_clock_get by (by apply gside_norm).
      assert (0 < dcounter d) by (eapply Hpos; by apply HS).
      assert (dcounter d <= max_ctr (gkdots os k) (dactor d)); [|lia].
      apply max_ctr_ge; [|done]. apply elem_of_gkdots. by exists o.
    Qed.
    Lemma g_entry_clock_ne os k : gside U os → k ∈ mkeys_mentioned os → mspec_entry_clock os k ≠ ∅.
    Proof using Hnorm Hpos.
      intros HS Hin E. destruct (g_entry_clock_pos os k HS Hin) as [a Ha]. rewrite E, vget_empty in Ha. lia.
    Qed.

    (** one side holds the key, the other does not: the entry survives with its clock, and the
        reset clock is inert on every clock made of dots of [k] *)
    Lemma g_one_side os os' k : gside U os → gside U os' →
      k ∈ mkeys_mentioned os → k ∉ mkeys_mentioned os' →
      vge (mspec_clock os') (mspec_entry_clock os k) = false ∧
      vreset (mspec_entry_clock os k) (mspec_clock os') = mspec_entry_clock os k ∧
      ∀ x, gclk U k x → inert x (vreset (mspec_clock os') (mspec_entry_clock os k)).
    Proof using Hnorm Hpos.
      intros HS HS' Hin Hnin.
      pose proof (gclk_inert os' k _ HS' Hnin (gclk_entry_clock os k HS)) as Hi.
      assert (vwf (mspec_entry_clock os k)) as Hw by apply dots_clock_wf.
      assert (vwf (mspec_clock os')) as Hw' by apply dots_clock_wf.
      split_and!.
      - destruct (vge _ _) eqn:E; [|done]. apply vge_spec in E; [|done..].
        destruct (g_entry_clock_pos os k HS Hin) as [a Ha]. specialize (E a). destruct (Hi a); lia.
      - by apply inert_vreset_id.
      - intros x Hx. eapply inert_le; [by eapply gclk_inert|]. apply vreset_leq.
    Qed.

    (** both sides hold the key: the common clock is the join *)
    Lemma g_common os1 os2 k : gside U os1 → gside U os2 →
      vmerge (vmerge (vintersection (mspec_entry_clock os2 k) (mspec_entry_clock os1 k))
                     (vclone_without (mspec_entry_clock os2 k) (mspec_clock os1)))
             (vclone_without (mspec_entry_clock os1 k) (mspec_clock os2)) =
      vmerge (mspec_entry_clock os1 k) (mspec_entry_clock os2 k).
    Proof using Hnorm Hpos.
      intros HS1 HS2. unfold vclone_without.
      assert (vwf (mspec_entry_clock os1 k)) as Hw1 by apply dots_clock_wf.
      assert (vwf (mspec_entry_clock os2 k)) as Hw2 by apply dots_clock_wf.
      apply vwf_ext.
      - repeat apply vmerge_wf; try apply vreset_wf; try done. by apply vintersection_wf.
      - by apply vmerge_wf.
      - intros a. rewrite !vmerge_get, vintersection_get, !vreset_get.
        pose proof (g_entry_seen os1 os2 k a HS1 HS2). pose proof (g_entry_seen os2 os1 k a HS2 HS1).
        pose proof (g_entry_clock_le os1 k a). pose proof (g_entry_clock_le os2 k a).
        repeat case_match; lia.
    Qed.
  End gmerge.
End generic.

(** * Part 1: the specification, through lookups *)

(** what the commands [M2Add], [M2Rm] generate: an outer update carrying an inner update with
    the same dot, which is an op of the key-remove-free depth-1 fragment *)
Definition n2_op (o : op2) : Prop :=
  match o with
  | MUp d _ (MUp d' k2 o') => d' = d ∧ nk_op (MUp d' k2 o')
  | _ => False
  end.
Definition n2_ops (os : list op2) : Prop := ∀ o, o ∈ os → n2_op o.

Definition n2_ent (os : list op2) (k1 : N) : mentry (cmap orswot) :=
  MEntry (mspec_entry_clock os k1) (S1 (m2_proj os k1)).

Lemma n2_ops_app os1 os2 : n2_ops (os1 ++ os2) ↔ n2_ops os1 ∧ n2_ops os2.
Proof.
  unfold n2_ops. setoid_rewrite elem_of_app. split.
  - intros H. split; intros o Ho; apply H; tauto.
  - intros [H1 H2] o [?|?]; [by apply H1|by apply H2].
Qed.
Lemma n2_ops_norm os : n2_ops os → g_norm os.
Proof. intros Hs c ks Hin. by apply Hs in Hin. Qed.

Lemma elem_of_m2_proj os k1 o : o ∈ m2_proj os k1 ↔ ∃ d, MUp d k1 o ∈ os.
Proof.
  unfold m2_proj. rewrite elem_of_list_omap. split.
  - intros ([c ks|d k' o'] & Hin & Hb); [done|]. case_bool_decide; [|done]. simplify_eq. by exists d.
  - intros (d & Hin). exists (MUp d k1 o). split; [done|]. by rewrite bool_decide_eq_true_2.
Qed.
Lemma m2_proj_app os1 os2 k1 : m2_proj (os1 ++ os2) k1 = m2_proj os1 k1 ++ m2_proj os2 k1.
Proof. unfold m2_proj. by rewrite omap_app. Qed.
Lemma m2_proj_absent os k1 : k1 ∉ mkeys_mentioned os → m2_proj os k1 = [].
Proof.
  intros Hn. apply list_no_elem_nil. intros o [d Ho]%elem_of_m2_proj. apply Hn, g_mentioned. by exists d, o.
Qed.

(** an inner update addressed to [k1] comes from an outer update with the same dot *)
Lemma n2_proj_up os k1 d k2 o : n2_ops os → MUp d k2 o ∈ m2_proj os k1 → MUp d k1 (MUp d k2 o) ∈ os.
Proof. intros Hs [d0 Hin]%elem_of_m2_proj. pose proof (Hs _ Hin) as [Hd _]. cbn in Hd. by subst d0. Qed.

Lemma n2_proj_ops os k1 : n2_ops os → nk_ops (m2_proj os k1).
Proof.
  intros Hs o [d Hin]%elem_of_m2_proj. pose proof (Hs _ Hin) as Ho. cbn in Ho.
  destruct o as [c ks|d' k2 o']; [done|]. by destruct Ho.
Qed.

Lemma S1_nil : S1 [] = mnew.
Proof. by vm_compute. Qed.

Lemma n2_entries_lookup os k :
  mentries (S2 os) !! k = if decide (k ∈ mkeys_mentioned os) then Some (n2_ent os k) else None.
Proof.
  cbn [mentries map2_spec_nk_of]. rewrite fn_map_lookup.
  destruct (decide (k ∈ list_to_set _)) as [Hin|Hin]; rewrite elem_of_list_to_set in Hin.
  - by rewrite decide_True.
  - by rewrite decide_False.
Qed.

Lemma n2_ent_absent os k : k ∉ mkeys_mentioned os → n2_ent os k = MEntry ∅ mnew.
Proof. intros Hn. unfold n2_ent. by rewrite g_absent_entry_clock, m2_proj_absent, S1_nil. Qed.

Lemma n2_entries_default os k :
  default (MEntry ∅ (v_default vo2)) (mentries (S2 os) !! k) = n2_ent os k.
Proof.
  rewrite n2_entries_lookup. destruct (decide _) as [Hin|Hin]; [done|].
  cbn [default v_default map_valops]. by rewrite n2_ent_absent.
Qed.

(** the specification depends only on the SET of known ops *)
Lemma n2_spec_ext os os' : (∀ o, o ∈ os ↔ o ∈ os') → S2 os = S2 os'.
Proof.
  intros H.
  assert (mspec_clock os = mspec_clock os') as Hc.
  { apply dots_clock_ext. intros d. rewrite !elem_of_mall_dots. by setoid_rewrite H. }
  assert (∀ k, n2_ent os k = n2_ent os' k) as He.
  { intros k. unfold n2_ent. f_equal.
    - apply dots_clock_ext. intros d. rewrite !elem_of_mlive_dots. by setoid_rewrite H.
    - apply nk_spec_ext. intros o. rewrite !elem_of_m2_proj. by setoid_rewrite H. }
  apply cmap_eq3; [done| |done].
  apply map_eq. intros k. rewrite !n2_entries_lookup, He.
  destruct (decide (k ∈ mkeys_mentioned os)) as [Hin|Hin], (decide (k ∈ mkeys_mentioned os')) as [Hin'|Hin']; try done.
  - destruct Hin'. apply g_mentioned in Hin as (d & o & Ho). apply g_mentioned. exists d, o. by apply H.
  - destruct Hin. apply g_mentioned in Hin' as (d & o & Ho). apply g_mentioned. exists d, o. by apply H.
Qed.

(** the inner map clock is below the outer entry clock (which is below the outer map clock) *)
Lemma n2_inner_clock_le os k1 a : n2_ops os →
  vget (mspec_clock (m2_proj os k1)) a <= vget (mspec_entry_clock os k1) a.
Proof.
  intros Hs. unfold mspec_clock. rewrite g_entry_clock, !dots_clock_get by (by apply n2_ops_norm).
  apply max_ctr_le_iff. intros d Hd Ha. apply max_ctr_ge; [|done].
  apply elem_of_mall_dots in Hd as (k2 & o & Hd). apply elem_of_gkdots. eexists. by apply n2_proj_up.
Qed.

(** * Part 2: L1 on op lists *)
Lemma n2_apply_fresh os d k o :
  n2_ops (os ++ [MUp d k o]) → vget (mspec_clock os) (dactor d) < dcounter d →
  mapply vo2 (S2 os) (MUp d k o) = S2 (os ++ [MUp d k o]).
Proof.
  intros Hs' Hfresh. pose proof Hs' as [Hs Hnew]%n2_ops_app.
  assert (n2_op (MUp d k o)) as Hop by (apply Hnew; by left).
  pose proof (n2_ops_norm _ Hs) as Hn. pose proof (n2_ops_norm _ Hs') as Hn'.
  rewrite mapply_up_fresh by done. rewrite mapply_deferred_empty by done.
  rewrite n2_entries_default. cbn [eclock eval n2_ent v_apply map_valops].
  apply cmap_eq3; cbn [mclock mentries mdeferred]; [| |done].
  - unfold map2_spec_nk_of. cbn [mclock]. unfold mspec_clock. rewrite g_mall_dots_app. cbn. rewrite dots_clock_snoc; [done|lia].
  - apply map_eq. intros k'.
    rewrite (n2_entries_lookup (os ++ _)), g_mentioned_app. cbn [mkeys_mentioned omap list_omap].
    destruct (decide (k' = k)) as [->|Hne].
    + rewrite lookup_insert, decide_True by (rewrite elem_of_app, elem_of_list_singleton; by right).
      f_equal. unfold n2_ent. f_equal.
      * rewrite !g_entry_clock, gkdots_app by done. cbn. rewrite bool_decide_eq_true_2 by done.
        cbn. rewrite dots_clock_snoc; [done|lia].
      * rewrite m2_proj_app. cbn. rewrite bool_decide_eq_true_2 by done. cbn.
        destruct o as [c ks|d' k2 o']; [done|]. destruct Hop as [-> Hop].
        apply nk_apply_fresh.
        -- apply nk_ops_app. split; [by apply n2_proj_ops|]. by intros x ->%elem_of_list_singleton.
        -- pose proof (n2_inner_clock_le os k (dactor d) Hs). pose proof (g_entry_clock_le os k (dactor d)). lia.
    + rewrite lookup_insert_ne by done. rewrite n2_entries_lookup.
      assert (n2_ent (os ++ [MUp d k o]) k' = n2_ent os k') as ->.
      { unfold n2_ent. f_equal.
        - rewrite !g_entry_clock, gkdots_app by done. cbn. rewrite bool_decide_eq_false_2 by done.
          cbn. by rewrite app_nil_r.
        - rewrite m2_proj_app. cbn. rewrite bool_decide_eq_false_2 by done. cbn. by rewrite app_nil_r. }
      destruct (decide (k' ∈ mkeys_mentioned os)) as [Hin|Hin].
      * rewrite decide_True; [done|]. rewrite elem_of_app. by left.
      * rewrite decide_False; [done|]. rewrite elem_of_app, elem_of_list_singleton. intros [?|?]; congruence.
Qed.

(** * Part 3: L2 on op lists *)

(** the universe of all ops ever generated: shape, non-zero dots, and every positive component
    of a nested remove context under [(k1, k2)] is the dot of an update under [(k1, k2)] *)
Definition n2_univ (U : list op2) : Prop :=
  n2_ops U ∧ (∀ d k o, MUp d k o ∈ U → 0 < dcounter d) ∧
  (∀ d k1 d' k2 c ms, MUp d k1 (MUp d' k2 (ORm c ms)) ∈ U → kclk (m2_proj U k1) k2 c).

Lemma mreset_empty_deferred c : oreset_deferred ∅ c = ∅.
Proof. unfold oreset_deferred. by rewrite map_fold_empty. Qed.

(** [reset_remove] of a depth-1 specification state by a clock that is inert on all its clocks *)
Lemma mreset_spec_inert p r :
  inert (mspec_clock p) r →
  (∀ k, k ∈ mkeys_mentioned p → mspec_entry_clock p k ≠ ∅ ∧ inert (mspec_entry_clock p k) r) →
  (∀ k, oreset (ospec_of (mo_proj p k)) r = ospec_of (mo_proj p k)) →
  mreset vo1 (S1 p) r = S1 p.
Proof.
  intros Hc He Hv. unfold mreset. apply cmap_eq3; cbn [mclock mentries mdeferred mapor_spec_nk_of].
  - apply inert_vreset_id; [apply dots_clock_wf|done].
  - apply map_eq. intros k. rewrite map_lookup_imap.
    change (fn_map _ _) with (mentries (S1 p)). rewrite nk_entries_lookup.
    destruct (decide _) as [Hin|Hin]; [|done]. cbn [mbind option_bind nk_ent eclock eval v_reset orswot_valops].
    destruct (He k Hin) as [Hne Hi].
    rewrite (inert_vreset_id _ r) by (apply dots_clock_wf || done).
    rewrite (proj2 (vis_empty_false _) Hne). by rewrite Hv.
  - apply mreset_empty_deferred.
Qed.

Section merge2.
  Context (U : list op2) (HU : n2_univ U).
  Lemma n2u_norm : g_norm U.
  Proof using HU. apply n2_ops_norm, HU. Qed.
  Lemma n2u_pos : ∀ d k (o : mop oop), MUp d k o ∈ U → 0 < dcounter d.
  Proof using HU. apply HU. Qed.

  Lemma n2_side_ops os : gside U os → n2_ops os.
  Proof using HU. intros [Hsub _] o Ho. destruct HU as (Hs & _). by apply Hs, Hsub. Qed.

  (** the projected universe and the projected knowledge satisfy the depth-1 side conditions *)
  Lemma n2_proj_univ k1 : nk_univ (m2_proj U k1).
  Proof using HU.
    destruct HU as (Hs & Hp & Hk). split_and!.
    - by apply n2_proj_ops.
    - intros d k o Hin%(n2_proj_up U k1 d k o Hs). by eapply Hp.
    - intros d k c ms Hin%(n2_proj_up U k1 d k _ Hs). by eapply Hk.
  Qed.
  Lemma n2_proj_side os k1 : gside U os → nk_side (m2_proj U k1) (m2_proj os k1).
  Proof using HU.
    intros HS. pose proof (n2_side_ops os HS) as Hs. destruct HS as [Hsub Hseen]. destruct HU as (HsU & _).
    split.
    - intros o [d Ho]%elem_of_m2_proj. apply elem_of_m2_proj. exists d. by apply Hsub.
    - intros d k o Hin%(n2_proj_up U k1 d k o HsU) Hle. apply elem_of_m2_proj. exists d. apply Hseen; [done|].
      pose proof (n2_inner_clock_le os k1 (dactor d) Hs). pose proof (g_entry_clock_le os k1 (dactor d)). lia.
  Qed.

  (** a clock made of dots of updates under [(k1, k2)] is made of dots of updates of [k1] *)
  Lemma kclk_gclk k1 k2 x : kclk (m2_proj U k1) k2 x → gclk U k1 x.
  Proof using HU.
    intros Hx a Ha. destruct (Hx a Ha) as [o Ho]. eexists. apply n2_proj_up; [apply HU|done].
  Qed.
  Lemma gclk_inner_clock os k1 : gside U os → gclk U k1 (mspec_clock (m2_proj os k1)).
  Proof using HU.
    intros HS a. pose proof (n2_side_ops os HS) as Hs. unfold mspec_clock. rewrite dots_clock_get. intros Hp.
    destruct (max_ctr_witness (mall_dots (m2_proj os k1)) a) as [?|([a' n] & Hin & Ha & Hc)]; [lia|].
    cbn in Ha, Hc. subst a'. rewrite <- Hc.
    apply elem_of_mall_dots in Hin as (k2 & o & Hin). eexists. apply HS. by apply n2_proj_up.
  Qed.

  (** a clock that is inert on every clock made of dots of [k1] leaves the inner map under [k1] alone *)
  Lemma n2_inner_reset_inert os k1 r : gside U os →
    (∀ x, gclk U k1 x → inert x r) → mreset vo1 (S1 (m2_proj os k1)) r = S1 (m2_proj os k1).
  Proof using HU.
    intros HS Hr. pose proof (n2_proj_univ k1) as HU1. pose proof (n2_proj_side os k1 HS) as HS1.
    pose proof (nk_side_ops _ HU1 _ HS1) as Hs1.
    apply mreset_spec_inert.
    - by apply Hr, gclk_inner_clock.
    - intros k2 Hin. split.
      + intros E. destruct (nk_entry_clock_pos _ HU1 _ k2 HS1 Hin) as [a Ha]. rewrite E, vget_empty in Ha. lia.
      + apply Hr, (kclk_gclk k1 k2). by apply kclk_entry_clock.
    - intros k2. apply ospec_oreset_inert.
      + intros c ms [d Ho]%elem_of_mo_proj. by apply Hs1 in Ho.
      + apply Hr, (kclk_gclk k1 k2). by apply kclk_nested_clock.
      + intros m. apply Hr, (kclk_gclk k1 k2). by apply kclk_nested_entry.
      + intros c ms Hc. apply Hr, (kclk_gclk k1 k2). by apply (kclk_nested_rm _ HU1 (m2_proj os k1) k2 c ms).
  Qed.

  Theorem n2_merge os1 os2 : gside U os1 → gside U os2 →
    mmerge vo2 (S2 os1) (S2 os2) = S2 (os1 ++ os2).
  Proof using HU.
    intros HS1 HS2. pose proof (n2_side_ops os1 HS1) as Hs1. pose proof (n2_side_ops os2 HS2) as Hs2.
    assert (n2_ops (os1 ++ os2)) as Hs by (by apply n2_ops_app).
    pose proof (n2_ops_norm _ Hs1) as Hn1. pose proof (n2_ops_norm _ Hs2) as Hn2. pose proof (n2_ops_norm _ Hs) as Hn.
    rewrite mmerge_unfold. cbn zeta.
    change (mdeferred (S2 os2)) with (∅ : gmap (gmap N N) (gset N)).
    unfold mfold at 1 2. rewrite map_fold_empty. cbn [mclock mentries mdeferred].
    rewrite mapply_deferred_empty by done.
    apply cmap_eq3; cbn [mclock mentries mdeferred]; [| |done].
    - unfold map2_spec_nk_of. cbn [mclock]. by rewrite g_clock_app.
    - change (mclock (S2 os1)) with (mspec_clock os1). change (mclock (S2 os2)) with (mspec_clock os2).
      apply map_eq. intros k. rewrite mmerge_entries_lookup, !n2_entries_lookup, g_mentioned_app.
      assert (n2_ent (os1 ++ os2) k =
              MEntry (vmerge (mspec_entry_clock os1 k) (mspec_entry_clock os2 k))
                     (S1 (m2_proj os1 k ++ m2_proj os2 k))) as He.
      { unfold n2_ent. by rewrite !g_entry_clock, gkdots_app, dots_clock_app, m2_proj_app by done. }
      destruct (decide (k ∈ mkeys_mentioned os1)) as [H1|H1], (decide (k ∈ mkeys_mentioned os2)) as [H2|H2].
      + rewrite decide_True by (rewrite elem_of_app; by left).
        cbn [mmerge_entry n2_ent eclock eval]. rewrite (g_common U n2u_norm n2u_pos os1 os2 k HS1 HS2).
        assert (vwf (mspec_entry_clock os1 k)) as Hw1 by apply dots_clock_wf.
        assert (vwf (mspec_entry_clock os2 k)) as Hw2 by apply dots_clock_wf.
        destruct (vis_empty _) eqn:Ee.
        { apply vis_empty_spec in Ee. destruct (g_entry_clock_pos U n2u_norm n2u_pos os1 k HS1 H1) as [a Ha].
          assert (vget (vmerge (mspec_entry_clock os1 k) (mspec_entry_clock os2 k)) a = 0) as Hz by (by rewrite Ee, vget_empty).
          rewrite vmerge_get in Hz. lia. }
        rewrite He. f_equal. f_equal.
        rewrite (vmerge_comm (mspec_entry_clock os2 k)), vreset_self by done.
        cbn [v_reset v_merge map_valops].
        rewrite (nk_merge (m2_proj U k) (n2_proj_univ k) (m2_proj os1 k) (m2_proj os2 k)
                   (n2_proj_side os1 k HS1) (n2_proj_side os2 k HS2)).
        rewrite <- m2_proj_app. apply n2_inner_reset_inert.
        * split.
          -- intros o [?|?]%elem_of_app; [by apply HS1|by apply HS2].
          -- intros d k' o Hin Hle. rewrite g_clock_app, vmerge_get in Hle. apply elem_of_app.
             destruct (N.max_spec (vget (mspec_clock os1) (dactor d)) (vget (mspec_clock os2) (dactor d))) as [[_ E]|[_ E]];
               rewrite E in Hle; [right; by apply HS2|left; by apply HS1].
        * intros x _. apply inert_empty_r.
      + rewrite decide_True by (rewrite elem_of_app; by left).
        cbn [mmerge_entry n2_ent eclock eval].
        destruct (g_one_side U n2u_norm n2u_pos os1 os2 k HS1 HS2 H1 H2) as (-> & -> & Hr).
        cbn [v_reset map_valops]. rewrite (n2_inner_reset_inert os1 k _ HS1 Hr), He.
        rewrite (g_absent_entry_clock os2 k H2), (m2_proj_absent os2 k H2), vmerge_empty_r, app_nil_r. done.
      + rewrite decide_True by (rewrite elem_of_app; by right).
        cbn [mmerge_entry n2_ent eclock eval].
        destruct (g_one_side U n2u_norm n2u_pos os2 os1 k HS2 HS1 H2 H1) as (-> & -> & Hr).
        cbn [v_reset map_valops]. rewrite (n2_inner_reset_inert os2 k _ HS2 Hr), He.
        rewrite (g_absent_entry_clock os1 k H1), (m2_proj_absent os1 k H1), vmerge_empty_l by apply dots_clock_wf. done.
      + rewrite decide_False by (rewrite elem_of_app; tauto). done.
  Qed.
End merge2.

(** * Part 4: histories *)
Definition hops2 (H : list (oprec op2)) : list op2 := op_val <$> H.

(** structural well-formedness of a history: at outer key level the n-th update of an actor
    carries the dot (actor, n); the ops have the shape [n2_op]; every positive component of a
    nested remove context under [(k1, k2)] is the dot of an update under [(k1, k2)] *)
Definition n2_wfH (H : list (oprec op2)) : Prop := owfH (habs H) ∧ n2_univ (hops2 H).
Definition n2_valid (H : list (oprec op2)) (K : gset nat) : Prop := ovalid (habs H) K.

Lemma elem_of_hops2 H o : o ∈ hops2 H ↔ ∃ i r, H !! i = Some r ∧ op_val r = o.
Proof.
  unfold hops2. rewrite elem_of_list_fmap. split.
  - intros (r & -> & [i Hi]%elem_of_list_lookup). by exists i, r.
  - intros (i & r & Hi & <-). exists r. split; [done|]. by eapply elem_of_list_lookup_2.
Qed.
Lemma hops2_app H H' : hops2 (H ++ H') = hops2 H ++ hops2 H'.
Proof. unfold hops2. by rewrite fmap_app. Qed.

Lemma n2_habs_up_lookup (H : list (oprec op2)) i r d k o : H !! i = Some r → op_val r = MUp d k o →
  habs H !! i = Some (OpRec (op_author r) (OAdd d [k]) (op_deps r)).
Proof. intros Hi Ho. unfold habs. rewrite (hmap_lookup_Some oabs H i r Hi). by rewrite Ho. Qed.

Lemma n2_hops_pos H d k o : owfH (habs H) → MUp d k o ∈ hops2 H → 0 < dcounter d.
Proof.
  intros HH (i & r & Hi & Ho)%elem_of_hops2.
  destruct (owfH_add _ _ _ _ _ HH (n2_habs_up_lookup H i r d k o Hi Ho) eq_refl) as (_ & Hc & _). lia.
Qed.

Lemma n2_map_clock_abs (H : list (oprec op2)) K :
  mspec_clock (known_ops H K) = ospec_clock (known_ops (habs H) K).
Proof. by rewrite known_ops_habs, mspec_clock_abs. Qed.

Lemma n2_seen H K i r d k o : owfH (habs H) → n2_valid H K → H !! i = Some r → op_val r = MUp d k o →
  dcounter d <= vget (mspec_clock (known_ops H K)) (dactor d) → i ∈ K.
Proof.
  intros HH HK Hi Ho Hle. rewrite n2_map_clock_abs in Hle.
  exact (seen (habs H) K i _ d [k] HH HK (n2_habs_up_lookup H i r d k o Hi Ho) eq_refl Hle).
Qed.

Lemma n2_side_known H K : owfH (habs H) → n2_valid H K → gside (hops2 H) (known_ops H K).
Proof.
  intros HH HK. split.
  - intros o (i & r & Hi & _ & Ho)%elem_of_known_ops. apply elem_of_hops2. by exists i, r.
  - intros d k o (i & r & Hi & Ho)%elem_of_hops2 Hle. apply elem_of_known_ops. exists i, r.
    split_and!; [done| |done]. by eapply n2_seen.
Qed.

Lemma n2_valid_empty H : n2_valid H ∅.
Proof. apply ovalid_empty. Qed.
Lemma n2_valid_step H K i : n2_wfH H → n2_valid H K → adm_per_actor H K i → n2_valid H (K ∪ {[i]}).
Proof. intros [HH _] HK Ha. apply ovalid_step; [done..|]. by apply adm_per_actor_hmap. Qed.
Lemma n2_valid_union H K1 K2 : n2_valid H K1 → n2_valid H K2 → n2_valid H (K1 ∪ K2).
Proof. apply ovalid_union. Qed.

Lemma n2_spec_init H : map2_spec_nk H ∅ = mnew.
Proof. unfold map2_spec_nk. rewrite known_ops_empty. by vm_compute. Qed.

(** ** L1: applying an op to the specification state *)
Theorem n2_L1 H K i r : n2_wfH H → n2_valid H K → H !! i = Some r →
  mapply vo2 (map2_spec_nk H K) (op_val r) = map2_spec_nk H (K ∪ {[i]}).
Proof.
  intros [HH HU] HK Hi. unfold map2_spec_nk.
  assert (op_val r ∈ hops2 H) as Hin by (apply elem_of_hops2; by exists i, r).
  pose proof (proj1 HU _ Hin) as Hop.
  destruct (op_val r) as [c ks|d k o] eqn:Ho; [done|].
  destruct (N.le_gt_cases (dcounter d) (vget (mspec_clock (known_ops H K)) (dactor d))) as [Hle|Hgt].
  - assert (i ∈ K) as HiK by (by eapply n2_seen).
    assert (K ∪ {[i]} = K) as -> by set_solver.
    by apply mapply_dedup.
  - rewrite n2_apply_fresh; [|apply n2_ops_app|done].
    + apply n2_spec_ext. intros x. rewrite (known_ops_add_elem H K i r x Hi), Ho.
      by rewrite elem_of_app, elem_of_list_singleton.
    + split; [by apply (n2_side_ops (hops2 H) HU), n2_side_known|].
      by intros x ->%elem_of_list_singleton.
Qed.

(** ** L2: merging two specification states *)
Theorem n2_L2 H K1 K2 : n2_wfH H → n2_valid H K1 → n2_valid H K2 →
  mmerge vo2 (map2_spec_nk H K1) (map2_spec_nk H K2) = map2_spec_nk H (K1 ∪ K2).
Proof.
  intros [HH HU] HK1 HK2. unfold map2_spec_nk.
  rewrite (n2_merge (hops2 H) HU) by (by apply n2_side_known).
  apply n2_spec_ext. intros o. rewrite elem_of_app. symmetry. apply known_ops_union_elem.
Qed.

(** ** every reachable state is the specification of its knowledge (given [n2_wfH]) *)
Theorem n2_reach_spec H s K : n2_wfH H → m2reach_nk H s K → s = map2_spec_nk H K ∧ n2_valid H K.
Proof.
  intros HH Hr.
  refine (reach_spec eq mnew (mapply vo2) (mmerge vo2) adm_per_actor True map2_spec_nk n2_wfH n2_valid
            _ _ _ _ _ _ _ _ H s K HH Hr).
  - by intros ??? ->.
  - by intros ???? -> ->.
  - intros H'. by rewrite n2_spec_init.
  - intros H'. apply n2_valid_empty.
  - intros H' K' i. apply n2_valid_step.
  - intros H' K1 K2. apply n2_valid_union.
  - intros H' K' i o HH' HK' _ Hi. by apply n2_L1.
  - intros H' K1 K2 _. apply n2_L2.
Qed.

(** the theorem without merges (any [mergeable]) is the same instance of the framework *)
Theorem n2_reach_spec_mg (mg : Prop) H s K : n2_wfH H →
  reach mnew (mapply vo2) (mmerge vo2) adm_per_actor mg H s K → s = map2_spec_nk H K ∧ n2_valid H K.
Proof.
  intros HH Hr. apply (n2_reach_spec H s K HH).
  induction Hr as [|s K i o Hr IH Ho Ha|s1 K1 s2 K2 Hm Hr1 IH1 Hr2 IH2].
  - constructor.
  - by eapply reach_apply.
  - by apply reach_merge.
Qed.

(** ** API-generated histories are well-formed *)
Lemma m2gen_nk_mgen s a cmd o : m2gen_nk s a cmd = Some o → mgen vo2 s a (m2_cmd cmd) = Some o.
Proof. unfold m2gen_nk. by destruct (m2_nokrm cmd). Qed.

Lemma m2hist_nk_maphist H : m2hist_ok_nk H → maphist_ok vo2 H.
Proof.
  induction 1 as [|H s K a cmd o Hok IH Hr Hown Hgen]; [constructor|].
  by apply (hist_snoc _ _ _ _ _ _ H s K a (m2_cmd cmd) o); [done|done|done|apply m2gen_nk_mgen].
Qed.

(** the inner map the closure of the outer [Map::update] receives at a specification state *)
Lemma n2_spec_nested os k1 :
  default (v_default vo2) (eval <$> mentries (S2 os) !! k1) = S1 (m2_proj os k1).
Proof.
  rewrite n2_entries_lookup. destruct (decide _) as [Hin|Hin]; [done|].
  cbn. by rewrite (m2_proj_absent os k1 Hin), S1_nil.
Qed.

Lemma m2gen_nk_op H K a cmd o : n2_wfH H → n2_valid H K →
  m2gen_nk (map2_spec_nk H K) a cmd = Some o →
  n2_op o ∧ ∀ d k1 d' k2 c ms, o = MUp d k1 (MUp d' k2 (ORm c ms)) → kclk (m2_proj (hops2 H) k1) k2 c.
Proof.
  intros [HH HU] HK Hgen. pose proof (n2_side_known H K HH HK) as HS.
  unfold map2_spec_nk in Hgen. set (os := known_ops H K) in *.
  unfold m2gen_nk, m2gen in Hgen.
  destruct cmd as [k1 k2 ms|k1 k2 ms [m'|]|k1 ks src|ks src]; cbn [m2_nokrm m2_cmd mgen] in Hgen;
    [| | |done|done]; injection Hgen as <-;
    unfold mupdate, oadd_all, orm_all; cbn beta; rewrite ?n2_spec_nested, ?nk_spec_nested.
  - split; [by split|]. intros ?????? [=].
  - cbn [derive_rm_ctx rm_clock ocontains oentries ospec_of].
    rewrite ospec_entries_default. split; [split; [done|apply ospec_entry_wf]|].
    intros d k1' d' k2' c ms' [= _ <- _ <- <- _].
    by apply (kclk_nested_entry _ (n2_proj_univ _ HU k1)), n2_proj_side.
  - cbn [derive_rm_ctx rm_clock oread_ctx oclock ospec_of].
    split; [split; [done|apply ospec_clock_wf]|].
    intros d k1' d' k2' c ms' [= _ <- _ <- <- _].
    by apply (kclk_nested_clock _ (n2_proj_univ _ HU k1)), n2_proj_side.
Qed.

Theorem m2hist_nk_wf H : m2hist_ok_nk H → n2_wfH H.
Proof.
  intros Hok. split; [by apply (maphist_ok_wf vo2), m2hist_nk_maphist|].
  pose proof (maphist_ok_wf vo2 H (m2hist_nk_maphist H Hok)) as HHall.
  induction Hok as [|H s K a cmd o Hok IH Hr Hown Hgen].
  { split_and!; [by intros ? ?%elem_of_nil|by intros ??? ?%elem_of_nil|by intros ?????? ?%elem_of_nil]. }
  assert (owfH (habs H)) as HH by (by apply (maphist_ok_wf vo2), m2hist_nk_maphist).
  specialize (IH HH).
  destruct (n2_reach_spec H s K (conj HH IH) Hr) as [-> HK].
  destruct (m2gen_nk_op H K a cmd o (conj HH IH) HK Hgen) as [Hop Hctx].
  rewrite hops2_app. cbn [hops2 fmap list_fmap op_val].
  destruct IH as (Hs & Hpos & Hk).
  assert (∀ k1 x, x ∈ m2_proj (hops2 H) k1 → x ∈ m2_proj (hops2 H ++ [o]) k1) as Hmono.
  { intros k1 x ?. rewrite m2_proj_app. apply elem_of_app. by left. }
  split_and!.
  - apply n2_ops_app. split; [done|]. by intros x ->%elem_of_list_singleton.
  - intros d k o' Hin. apply (n2_hops_pos (H ++ [OpRec a o K]) d k o' HHall).
    by rewrite hops2_app.
  - intros d k1 d' k2 c ms [Hin|Heq%elem_of_list_singleton]%elem_of_app.
    + eapply kclk_mono; [apply Hmono|]. by eapply Hk.
    + eapply kclk_mono; [apply Hmono|]. by eapply Hctx.
Qed.

(** * The theorem *)
Theorem map2_refine_nk (H : list (oprec (mop (mop oop)))) : m2hist_ok_nk H →
  ∀ (s : cmap (cmap orswot)) (K : gset nat), m2reach_nk H s K → s = map2_spec_nk H K.
Proof. intros Hok s K Hr. by destruct (n2_reach_spec H s K (m2hist_nk_wf H Hok) Hr). Qed.

(** * Part 5: corollaries *)
Section corollaries.
  Context (H : list (oprec op2)) (Hok : m2hist_ok_nk H).
  Let HW : n2_wfH H := m2hist_nk_wf H Hok.
  Implicit Types (s : cmap (cmap orswot)) (K : gset nat).

  Lemma n2_reach_valid s K : m2reach_nk H s K → n2_valid H K.
  Proof using Hok. intros Hr. by destruct (n2_reach_spec H s K HW Hr). Qed.

  (** the monitor's decider *)
  Theorem map2_nk_ok_reach s K : m2reach_nk H s K → map2_nk_ok H K s = true.
  Proof using Hok. intros Hr. apply bool_decide_eq_true. by apply map2_refine_nk. Qed.

  (** C01 / C20: equal knowledge, equal (complete) state *)
  Theorem map2_converge_nk s1 s2 K : m2reach_nk H s1 K → m2reach_nk H s2 K → s1 = s2.
  Proof using Hok. intros H1 H2. by rewrite (map2_refine_nk H Hok s1 K H1), (map2_refine_nk H Hok s2 K H2). Qed.

  Lemma mmerge_reach_n2 s1 K1 s2 K2 : m2reach_nk H s1 K1 → m2reach_nk H s2 K2 →
    m2reach_nk H (mmerge vo2 s1 s2) (K1 ∪ K2).
  Proof. intros. by apply reach_merge. Qed.

  (** C03: merging two replicas = having learned the union of their ops (hybrid replication) *)
  Theorem map2_merge_spec_nk s1 K1 s2 K2 : m2reach_nk H s1 K1 → m2reach_nk H s2 K2 →
    mmerge vo2 s1 s2 = map2_spec_nk H (K1 ∪ K2).
  Proof using Hok. intros H1 H2. apply (map2_refine_nk H Hok). by apply mmerge_reach_n2. Qed.
  Theorem map2_merge_is_union_nk s1 K1 s2 K2 s K :
    m2reach_nk H s1 K1 → m2reach_nk H s2 K2 → m2reach_nk H s K → K = K1 ∪ K2 → mmerge vo2 s1 s2 = s.
  Proof using Hok. intros H1 H2 H3 ->. eapply map2_converge_nk; [by apply mmerge_reach_n2|done]. Qed.

  (** C02: [mmerge] is commutative, associative and idempotent on reachable states *)
  Theorem map2_merge_comm_nk s1 K1 s2 K2 : m2reach_nk H s1 K1 → m2reach_nk H s2 K2 →
    mmerge vo2 s1 s2 = mmerge vo2 s2 s1.
  Proof using Hok.
    intros H1 H2. rewrite (map2_merge_spec_nk s1 K1 s2 K2), (map2_merge_spec_nk s2 K2 s1 K1) by done.
    by rewrite (comm_L (∪) K1 K2).
  Qed.
  Theorem map2_merge_assoc_nk s1 K1 s2 K2 s3 K3 :
    m2reach_nk H s1 K1 → m2reach_nk H s2 K2 → m2reach_nk H s3 K3 →
    mmerge vo2 (mmerge vo2 s1 s2) s3 = mmerge vo2 s1 (mmerge vo2 s2 s3).
  Proof using Hok.
    intros H1 H2 H3.
    rewrite (map2_merge_spec_nk (mmerge vo2 s1 s2) (K1 ∪ K2) s3 K3) by (try apply mmerge_reach_n2; done).
    rewrite (map2_merge_spec_nk s1 K1 (mmerge vo2 s2 s3) (K2 ∪ K3)) by (try apply mmerge_reach_n2; done).
    by rewrite (assoc_L (∪) K1 K2 K3).
  Qed.
  Theorem map2_merge_idem_nk s K : m2reach_nk H s K → mmerge vo2 s s = s.
  Proof using Hok.
    intros H1. rewrite (map2_merge_spec_nk s K s K) by done. rewrite (idemp_L (∪) K).
    symmetry. by apply map2_refine_nk.
  Qed.

  (** C09: a duplicate op and a stale state are absorbed (no admissibility needed for the duplicate) *)
  Theorem map2_dup_apply_nk s K i r : m2reach_nk H s K → H !! i = Some r → i ∈ K →
    mapply vo2 s (op_val r) = s.
  Proof using Hok.
    intros Hr Hi HiK. rewrite (map2_refine_nk H Hok s K Hr) at 1.
    rewrite (n2_L1 H K i r HW (n2_reach_valid s K Hr) Hi).
    assert (K ∪ {[i]} = K) as -> by set_solver. symmetry. by apply map2_refine_nk.
  Qed.
  Theorem map2_stale_merge_nk s1 K1 s2 K2 : m2reach_nk H s1 K1 → m2reach_nk H s2 K2 → K2 ⊆ K1 →
    mmerge vo2 s1 s2 = s1 ∧ mmerge vo2 s2 s1 = s1.
  Proof using Hok.
    intros H1 H2 Hsub.
    rewrite (map2_merge_spec_nk s1 K1 s2 K2), (map2_merge_spec_nk s2 K2 s1 K1) by done.
    assert (K1 ∪ K2 = K1) as -> by set_solver. assert (K2 ∪ K1 = K1) as -> by set_solver.
    split; symmetry; by apply map2_refine_nk.
  Qed.

  Lemma n2_known_side s K : m2reach_nk H s K → gside (hops2 H) (known_ops H K).
  Proof using Hok. intros Hr. apply n2_side_known; [apply HW|by eapply n2_reach_valid]. Qed.

  (** the components of a reachable state: outer clock, no pending outer remove, the outer key set,
      the outer entry clocks, and the inner map under every outer key *)
  Theorem map2_components_nk s K k1 : m2reach_nk H s K →
    let os := known_ops H K in
    mclock s = mspec_clock os ∧ mdeferred s = ∅ ∧
    (k1 ∈ dom (mentries s) ↔ ∃ d o, MUp d k1 o ∈ os) ∧
    (∀ e, mentries s !! k1 = Some e →
          eclock e = dots_clock (gkdots os k1) ∧ eval e = mapor_spec_nk_of (m2_proj os k1)) ∧
    default mnew (eval <$> mentries s !! k1) = mapor_spec_nk_of (m2_proj os k1).
  Proof using Hok.
    intros Hr os. pose proof (n2_known_side s K Hr) as HS. fold os in HS.
    rewrite (map2_refine_nk H Hok s K Hr). unfold map2_spec_nk. fold os.
    assert (n2_ops os) as Hs by (apply (n2_side_ops (hops2 H) (proj2 HW)), HS).
    split_and!; [done|done| | |].
    - rewrite elem_of_dom, n2_entries_lookup, <- g_mentioned.
      destruct (decide _) as [Hin|Hin].
      + split; [done|by eexists].
      + split; [by intros [? ?]|done].
    - intros e. rewrite n2_entries_lookup. destruct (decide _); [|done]. intros [= <-].
      cbn [n2_ent eclock eval]. by rewrite g_entry_clock by (by apply n2_ops_norm).
    - apply (n2_spec_nested os k1).
  Qed.

  (** ... and inside the inner map under [k1]: its clock, no pending inner remove, its key set, its entry
      clocks, and under every inner key the complete Orswot of the ops addressed to [(k1, k2)] *)
  Theorem map2_inner_components_nk s K k1 k2 : m2reach_nk H s K →
    let p := m2_proj (known_ops H K) k1 in
    let t := default mnew (eval <$> mentries s !! k1) in
    mclock t = mspec_clock p ∧ mdeferred t = ∅ ∧
    (k2 ∈ dom (mentries t) ↔ ∃ d o, MUp d k1 (MUp d k2 o) ∈ known_ops H K) ∧
    (∀ e, mentries t !! k2 = Some e →
          eclock e = dots_clock (kdots p k2) ∧ eval e = ospec_of (mo_proj p k2)) ∧
    m2_state_entries s k1 k2 = ospec_entries (mo_proj p k2).
  Proof using Hok.
    intros Hr p t. pose proof (n2_known_side s K Hr) as HS.
    assert (n2_ops (known_ops H K)) as Hs by (apply (n2_side_ops (hops2 H) (proj2 HW)), HS).
    pose proof (n2_proj_ops _ k1 Hs) as Hp. fold p in Hp.
    assert (t = mapor_spec_nk_of p) as Et by (by destruct (map2_components_nk s K k1 Hr) as (_ & _ & _ & _ & ?)).
    assert (m2_state_entries s k1 k2 = mo_state_entries t k2) as Est.
    { unfold m2_state_entries, t. destruct (mentries s !! k1) as [e|]; [done|]. by vm_compute. }
    rewrite Est, Et. split_and!; [done|done| | |].
    - rewrite elem_of_dom, nk_entries_lookup.
      destruct (decide _) as [Hin|Hin].
      + split; [|by eexists]. intros _. apply elem_of_mkeys_mentioned in Hin as (d & o & Hin).
        exists d, o. by apply n2_proj_up.
      + split; [by intros [? ?]|]. intros (d & o & Hx). destruct Hin. apply elem_of_mkeys_mentioned.
        exists d, o. apply elem_of_m2_proj. by exists d.
    - intros e. rewrite nk_entries_lookup. destruct (decide _); [|done]. intros [= <-].
      cbn [nk_ent eclock eval]. by rewrite nk_entry_clock.
    - unfold mo_state_entries. rewrite nk_entries_lookup. destruct (decide _) as [Hin|Hin]; [done|].
      destruct (nk_absent_nil p k2 Hin) as [_ ->]. by vm_compute.
  Qed.

  (** the member sentence at depth 2: [m] is in the set under [(k1, k2)] iff some known add of [m]
      under [(k1, k2)] is covered by no known nested remove under [(k1, k2)] naming [m] *)
  Theorem map2_member_iff_nk s K k1 k2 m : m2reach_nk H s K →
    m ∈ dom (m2_state_entries s k1 k2) ↔
    ∃ d ms, MUp d k1 (MUp d k2 (OAdd d ms)) ∈ known_ops H K ∧ m ∈ ms ∧
            ¬ ∃ d' c ms', MUp d' k1 (MUp d' k2 (ORm c ms')) ∈ known_ops H K ∧ m ∈ ms' ∧
                          dcounter d <= vget c (dactor d).
  Proof using Hok.
    intros Hr. destruct (map2_inner_components_nk s K k1 k2 Hr) as (_ & _ & _ & _ & ->).
    pose proof (n2_known_side s K Hr) as HS. set (os := known_ops H K) in *.
    assert (n2_ops os) as Hs by (apply (n2_side_ops (hops2 H) (proj2 HW)), HS).
    pose proof (n2_proj_ops _ k1 Hs) as Hp1.
    set (p := mo_proj (m2_proj os k1) k2).
    assert (∀ o, o ∈ p ↔ ∃ d, MUp d k1 (MUp d k2 o) ∈ os) as Hpin.
    { intros o. unfold p. rewrite elem_of_mo_proj. split.
      - intros [d Hin]. exists d. by apply n2_proj_up.
      - intros [d Hin]. exists d. apply elem_of_m2_proj. by exists d. }
    assert (∀ d ms, OAdd d ms ∈ p ↔ MUp d k1 (MUp d k2 (OAdd d ms)) ∈ os) as Hadd.
    { intros d ms. rewrite Hpin. split; [|by exists d]. intros [d0 Hin].
      pose proof (Hs _ Hin) as [_ Hop]. cbn in Hop. by subst d0. }
    assert (∀ d ms, OAdd d ms ∈ p → dcounter d ≠ 0) as Hpos.
    { intros d ms Hin%Hadd. assert (0 < dcounter d); [|lia].
      destruct HW as [_ (_ & Hq & _)]. eapply Hq. by apply HS. }
    assert (ospec_entry p m ≠ ∅ ↔ ∃ d, d ∈ live_dots p m) as Hlive.
    { rewrite ospec_entry_empty_iff by done.
      destruct (live_dots p m) as [|x l]; split; try done.
      - by intros [? ?%elem_of_nil].
      - intros _. exists x. by left. }
    rewrite elem_of_dom, ospec_entries_lookup. cbn zeta.
    transitivity (∃ d, d ∈ live_dots p m).
    - rewrite <- Hlive, <- vis_empty_false. destruct (vis_empty (ospec_entry p m)); split; try done.
      by intros [? ?].
    - setoid_rewrite elem_of_live_dots. setoid_rewrite covered_false. split.
      + intros (d & (ms & Hin%Hadd & Hm) & Hn). exists d, ms. split_and!; [done..|].
        intros (d' & c & ms' & Ho' & Hm' & Hle). apply Hn. exists c, ms'. split_and!; [|done..].
        apply Hpin. by exists d'.
      + intros (d & ms & Ho%Hadd & Hm & Hn). exists d. split; [by exists ms|].
        intros (c & ms' & [d' Ho']%Hpin & Hm' & Hle). apply Hn. by exists d', c, ms'.
  Qed.
End corollaries.

(** instance of the framework corollaries, for reference: the section [system] of spec/System.v
    applies with [eqv := eq], [spec := map2_spec_nk], [wfH := n2_wfH], [valid := n2_valid],
    [L1 := n2_L1], [L2 := n2_L2] (see [n2_reach_spec]). *)

(** every delivery discipline at least as strong as per-actor delivery (causal delivery in
    particular), with or without state merges, reaches only states of [m2reach_nk] *)
Theorem map2_refine_nk_any (adm : adm_t op2) (mg : Prop) H s K : m2hist_ok_nk H →
  (∀ K i, adm H K i → adm_per_actor H K i) →
  reach mnew (mapply vo2) (mmerge vo2) adm mg H s K → s = map2_spec_nk H K.
Proof.
  intros Hok Hadm Hr. apply (map2_refine_nk H Hok).
  induction Hr as [|s K i o Hr IH Ho Ha|s1 K1 s2 K2 Hm Hr1 IH1 Hr2 IH2].
  - constructor.
  - eapply reach_apply; [done..|by apply Hadm].
  - by apply reach_merge.
Qed.

(** in particular without merges ([mergeable := False]) *)
Corollary map2_refine_nk_nomerge H s K : m2hist_ok_nk H →
  reach mnew (mapply vo2) (mmerge vo2) adm_per_actor False H s K → s = map2_spec_nk H K.
Proof. intros Hok. by apply map2_refine_nk_any. Qed.

(** causal delivery: an op's dependency set contains its author's earlier ops *)
Lemma n2_hist_deps_own H : m2hist_ok_nk H →
  ∀ i r j r', H !! i = Some r → (j < i)%nat → H !! j = Some r' → op_author r' = op_author r → j ∈ op_deps r.
Proof.
  induction 1 as [|H s K a cmd o Hok IH Hr Hown Hgen]; [intros i r j r' Hi; by rewrite lookup_nil in Hi|].
  intros i r j r' Hi Hlt Hj Ha.
  destruct (decide (i < length H)%nat) as [Hl|Hge].
  - rewrite lookup_app_l in Hi by done. rewrite lookup_app_l in Hj by lia. by eapply IH.
  - assert (i = length H) as ->.
    { apply lookup_lt_Some in Hi. rewrite app_length in Hi. cbn in Hi. lia. }
    rewrite lookup_app_r, Nat.sub_diag in Hi by lia. cbn in Hi. injection Hi as <-. cbn in *.
    rewrite lookup_app_l in Hj by lia. by apply (Hown j r').
Qed.
Corollary map2_refine_nk_causal (mg : Prop) H s K : m2hist_ok_nk H →
  reach mnew (mapply vo2) (mmerge vo2) adm_causal mg H s K → s = map2_spec_nk H K.
Proof.
  intros Hok. apply map2_refine_nk_any; [done|].
  intros K' i (r & Hi & Hd). exists r. split; [done|]. intros j r' Hlt Hj Ha.
  apply Hd. by eapply (n2_hist_deps_own H Hok).
Qed.

(** * Non-vacuity: two actors, outer keys 7 and 8, inner keys 3 and 4.  Actor 1 adds member 10 under
    (7,3) (op 0); actor 2 sees it, removes 10 under (7,3) (op 1, nested context {1:1}) and adds 20
    under (8,4) (op 2); actor 1 adds 21 under (7,4) (op 3).  Replica A receives op 1 BEFORE op 0 (the
    nested remove overtakes the add it observed: it is parked inside the innermost set under (7,3)),
    then op 2.  Replica B receives ops 0 and 3.  Their merge, in both orders, equals the specification
    of all four ops and the state of replica C that received the ops in order: 10 is gone. *)
Local Ltac n2_adm :=
  eexists; split; [done|]; intros [|[|[|[|j]]]] r' Hlt Hj Ha; cbn in Hj, Ha; simplify_eq; try lia; set_solver.
Local Ltac n2_own :=
  intros [|[|[|[|j]]]] r Hj Ha; cbn in Hj, Ha; simplify_eq; set_solver.

(** the pending nested removes of the innermost set under [(k1, k2)] *)
Definition m2_state_parked (s : cmap (cmap orswot)) (k1 k2 : N) : option (gmap (gmap N N) (gset N)) :=
  odeferred <$> (eval <$> (mentries (default mnew (eval <$> mentries s !! k1)) !! k2)).

Section example.
  Let o0 : op2 := MUp (Dot 1 1) 7 (MUp (Dot 1 1) 3 (OAdd (Dot 1 1) [10])).
  Let o1 : op2 := MUp (Dot 2 1) 7 (MUp (Dot 2 1) 3 (ORm {[1 := 1]} [10])).
  Let o2 : op2 := MUp (Dot 2 2) 8 (MUp (Dot 2 2) 4 (OAdd (Dot 2 2) [20])).
  Let o3 : op2 := MUp (Dot 1 2) 7 (MUp (Dot 1 2) 4 (OAdd (Dot 1 2) [21])).
  Let r0 := OpRec 1 o0 ∅.
  Let r1 := OpRec 2 o1 (∅ ∪ {[0%nat]}).
  Let r2 := OpRec 2 o2 (∅ ∪ {[0%nat]} ∪ {[1%nat]}).
  Let r3 := OpRec 1 o3 (∅ ∪ {[0%nat]}).
  Let H : list (oprec op2) := [r0; r1; r2; r3].
  Let KA : gset nat := ∅ ∪ {[1%nat]} ∪ {[2%nat]}.
  Let KB : gset nat := ∅ ∪ {[0%nat]} ∪ {[3%nat]}.
  Let KC : gset nat := ∅ ∪ {[0%nat]} ∪ {[1%nat]} ∪ {[2%nat]} ∪ {[3%nat]}.
  Let sA1 := mapply vo2 mnew o1.
  Let sA := mapply vo2 sA1 o2.
  Let sB := mapply vo2 (mapply vo2 mnew o0) o3.
  Let sC := mapply vo2 (mapply vo2 (mapply vo2 (mapply vo2 mnew o0) o1) o2) o3.

  Example map2_nk_example :
    m2hist_ok_nk H ∧
    ¬ adm_causal H ∅ 1%nat ∧
    m2reach_nk H sA KA ∧
    m2_state_parked sA1 7 3 = Some {[ ({[1 := 1]} : gmap N N) := ({[10]} : gset N) ]} ∧
    m2_state_parked sA 7 3 = Some {[ ({[1 := 1]} : gmap N N) := ({[10]} : gset N) ]} ∧
    m2reach_nk H sB KB ∧
    m2_state_entries sB 7 3 = {[10 := {[1 := 1]}]} ∧
    m2reach_nk H (mmerge vo2 sA sB) (KA ∪ KB) ∧
    m2reach_nk H sC KC ∧ KC = KA ∪ KB ∧
    mmerge vo2 sA sB = sC ∧ mmerge vo2 sB sA = sC ∧
    mmerge vo2 sA sB = map2_spec_nk H (KA ∪ KB) ∧
    map2_nk_ok H (KA ∪ KB) (mmerge vo2 sA sB) = true ∧
    map2_nk_ok H KA sA = true ∧
    m2_state_entries sC 7 3 = ∅ ∧
    m2_state_parked sC 7 3 = Some ∅ ∧
    m2_state_entries sC 7 4 = {[21 := {[1 := 2]}]} ∧
    m2_state_entries sC 8 4 = {[20 := {[2 := 2]}]}.
  Proof.
    assert (m2hist_ok_nk H) as Hok.
    { change H with (((([] ++ [r0]) ++ [r1]) ++ [r2]) ++ [r3]).
      apply (hist_snoc _ _ _ _ _ _ _ (mapply vo2 mnew o0) _ 1 (M2Add 7 4 [21])).
      - apply (hist_snoc _ _ _ _ _ _ _ (mapply vo2 (mapply vo2 mnew o0) o1) _ 2 (M2Add 8 4 [20])).
        + apply (hist_snoc _ _ _ _ _ _ _ (mapply vo2 mnew o0) _ 2 (M2Rm 7 3 [10] None)).
          * apply (hist_snoc _ _ _ _ _ _ _ mnew _ 1 (M2Add 7 3 [10])); [constructor|constructor|n2_own|by vm_compute].
          * apply (reach_apply _ _ _ _ _ _ mnew ∅ 0%nat r0); [constructor|done|n2_adm].
          * n2_own.
          * by vm_compute.
        + apply (reach_apply _ _ _ _ _ _ _ _ 1%nat r1); [|done|n2_adm].
          apply (reach_apply _ _ _ _ _ _ mnew ∅ 0%nat r0); [constructor|done|n2_adm].
        + n2_own.
        + by vm_compute.
      - apply (reach_apply _ _ _ _ _ _ mnew ∅ 0%nat r0); [constructor|done|n2_adm].
      - n2_own.
      - by vm_compute. }
    assert (m2reach_nk H sA KA) as HA.
    { apply (reach_apply _ _ _ _ _ _ _ _ 2%nat r2); [|done|n2_adm].
      apply (reach_apply _ _ _ _ _ _ mnew ∅ 1%nat r1); [constructor|done|n2_adm]. }
    assert (m2reach_nk H sB KB) as HB.
    { apply (reach_apply _ _ _ _ _ _ _ _ 3%nat r3); [|done|n2_adm].
      apply (reach_apply _ _ _ _ _ _ mnew ∅ 0%nat r0); [constructor|done|n2_adm]. }
    assert (m2reach_nk H sC KC) as HC.
    { apply (reach_apply _ _ _ _ _ _ _ _ 3%nat r3); [|done|n2_adm].
      apply (reach_apply _ _ _ _ _ _ _ _ 2%nat r2); [|done|n2_adm].
      apply (reach_apply _ _ _ _ _ _ _ _ 1%nat r1); [|done|n2_adm].
      apply (reach_apply _ _ _ _ _ _ mnew ∅ 0%nat r0); [constructor|done|n2_adm]. }
    assert (KC = KA ∪ KB) as HK by (apply (bool_decide_unpack _); by vm_compute).
    assert (m2reach_nk H (mmerge vo2 sA sB) (KA ∪ KB)) as HM by (by apply reach_merge).
    split_and!.
    - exact Hok.
    - intros (r & Hr & Hd). cbn in Hr. injection Hr as <-. cbn in Hd.
      revert Hd. apply (bool_decide_unpack _). by vm_compute.
    - exact HA.
    - apply (bool_decide_unpack _). by vm_compute.
    - apply (bool_decide_unpack _). by vm_compute.
    - exact HB.
    - apply (bool_decide_unpack _). by vm_compute.
    - exact HM.
    - exact HC.
    - exact HK.
    - exact (map2_merge_is_union_nk H Hok sA KA sB KB sC KC HA HB HC HK).
    - apply (map2_merge_is_union_nk H Hok sB KB sA KA sC KC HB HA HC).
      apply (bool_decide_unpack _). by vm_compute.
    - by apply (map2_refine_nk H Hok).
    - by apply (map2_nk_ok_reach H Hok).
    - by apply (map2_nk_ok_reach H Hok).
    - apply (bool_decide_unpack _). by vm_compute.
    - apply (bool_decide_unpack _). by vm_compute.
    - apply (bool_decide_unpack _). by vm_compute.
    - apply (bool_decide_unpack _). by vm_compute.
  Qed.
End example.

(** closed restatement of the example (stated above with section-local abbreviations) *)
Lemma map2_nk_example_closed :
  ∃ (H : list (oprec (mop (mop oop)))) (sA sB sC : cmap (cmap orswot)) (KA KB : gset nat),
    m2hist_ok_nk H ∧ length H = 4%nat ∧
    ¬ adm_causal H ∅ 1%nat ∧
    m2reach_nk H sA KA ∧
    m2_state_parked sA 7 3 = Some {[ ({[1 := 1]} : gmap N N) := ({[10]} : gset N) ]} ∧
    m2reach_nk H sB KB ∧
    m2_state_entries sB 7 3 = {[10 := {[1 := 1]}]} ∧
    m2reach_nk H sC (KA ∪ KB) ∧
    mmerge vo2 sA sB = sC ∧ mmerge vo2 sB sA = sC ∧
    mmerge vo2 sA sB = map2_spec_nk H (KA ∪ KB) ∧
    map2_nk_ok H (KA ∪ KB) (mmerge vo2 sA sB) = true ∧
    map2_nk_ok H KA sA = true ∧
    m2_state_entries sC 7 3 = ∅ ∧
    m2_state_parked sC 7 3 = Some ∅ ∧
    m2_state_entries sC 7 4 = {[21 := {[1 := 2]}]} ∧
    m2_state_entries sC 8 4 = {[20 := {[2 := 2]}]}.
Proof.
  pose proof map2_nk_example as P. cbv zeta in P.
  destruct P as (P1 & P2 & P3 & P4 & P5 & P6 & P7 & P8 & P9 & P10 & P11 & P12 & P13 & P14 & P15 & P16 & P17 & P18 & P19).
  rewrite P10 in P9.
  lazymatch type of P3 with reach _ _ _ _ _ ?H ?sA ?KA =>
    lazymatch type of P6 with reach _ _ _ _ _ _ ?sB ?KB =>
      lazymatch type of P9 with reach _ _ _ _ _ _ ?sC _ => exists H, sA, sB, sC, KA, KB end end end.
  split_and!; try assumption. reflexivity.
Qed.

Print Assumptions n2_apply_fresh.
Print Assumptions n2_merge.
Print Assumptions n2_L1.
Print Assumptions n2_L2.
Print Assumptions n2_reach_spec.
Print Assumptions n2_reach_spec_mg.
Print Assumptions m2hist_nk_wf.
Print Assumptions map2_refine_nk.
Print Assumptions map2_nk_ok_reach.
Print Assumptions map2_converge_nk.
Print Assumptions map2_merge_spec_nk.
Print Assumptions map2_merge_is_union_nk.
Print Assumptions map2_merge_comm_nk.
Print Assumptions map2_merge_assoc_nk.
Print Assumptions map2_merge_idem_nk.
Print Assumptions map2_dup_apply_nk.
Print Assumptions map2_stale_merge_nk.
Print Assumptions map2_components_nk.
Print Assumptions map2_inner_components_nk.
Print Assumptions map2_member_iff_nk.
Print Assumptions map2_refine_nk_any.
Print Assumptions map2_refine_nk_nomerge.
Print Assumptions map2_refine_nk_causal.
Print Assumptions map2_nk_example.
Print Assumptions map2_nk_example_closed.
