(** [Map<K, MVReg<V>>] whose keys are never removed, op-based replication under per-actor
    delivery (each actor's ops in issue order, otherwise arbitrary, duplicates allowed), no state
    merges: under every key the register holds (a permutation of) the causally maximal known
    writes addressed to that key ([mapmv_values_refine_nk]).

    [Map::update] hands the nested write the add context of the WHOLE map, so the clock of a put
    is the knowledge of its author's replica at generation plus the new dot:
    [pclk H r i = mspec_clock (known_ops H (op_deps r ∪ {[i]}))].  Knowledge sets are closed under
    each author's earlier ops, hence the clock order is exactly inclusion of knowledge
    ([pclk_le_iff]); this makes the projected writes of a key a "good" list in the sense of
    proofs/MVReg.v and the order-independent apply lemma [mv_apply_maximal] applies under the key.

      - Part 0: lists, the ops a command generates;
      - Part 1: transport to the key layer ([mapreach]/[maphist_ok] of proofs/MapKeys.v),
                structural well-formedness [mv_wfH] of API-generated histories;
      - Part 2: the clock order on puts;
      - Part 3: the writes of a key form a good list;
      - Part 4: the invariant and the theorem;
      - Part 5: corollaries; Part 6: closed examples. *)
From stdpp Require Import gmap.
From Crdt Require Import model.MVReg model.Map spec.System spec.OrswotSpec spec.OrswotSystem spec.Specs
  spec.MVRegSystem spec.MapSpec spec.MapSystem
  proofs.VClock proofs.OrswotLayer proofs.OrswotL1 proofs.OrswotSystem proofs.MVRegHb proofs.MVReg
  proofs.MapFacts proofs.MapKeys proofs.MapOrswot proofs.MapOrswotPA.
From Crdt Require Import spec.MapMVRegSpec.
From Coq Require Import ZifyBool ZifyN ZifyNat.
Local Open Scope N_scope.

Local Notation vo := mvreg_valops.
Local Notation mvst := (cmap (list (gmap N N * N))).
Local Notation mvhist := (list (oprec (mop mvop))).

(** * Part 0: lists *)
Lemma elem_of_mv_proj os k o : o ∈ mv_proj os k ↔ ∃ d, MUp d k o ∈ os.
Proof.
  unfold mv_proj. rewrite elem_of_list_omap. split.
  - intros ([c ks|d k' o'] & Hin & Hb); [done|]. case_bool_decide; [|done]. simplify_eq. by exists d.
  - intros (d & Hin). exists (MUp d k o). split; [done|]. by rewrite bool_decide_eq_true_2.
Qed.
Lemma elem_of_mv_keys (os : list (mop mvop)) k : k ∈ mkeys_mentioned os ↔ ∃ d o, MUp d k o ∈ os.
Proof.
  unfold mkeys_mentioned. rewrite elem_of_list_omap. split.
  - intros ([c ks|d k' o] & Hin & Hb); [done|]. injection Hb as ->. by exists d, o.
  - intros (d & o & Hin). by exists (MUp d k o).
Qed.

(** the elements of [mv_maximal W] depend on the elements of [W] only *)
Lemma mv_maximal_perm_ext W W' :
  NoDup W → NoDup W' → (∀ p, p ∈ W ↔ p ∈ W') → mv_maximal W ≡ₚ mv_maximal W'.
Proof.
  intros HW HW' He. apply NoDup_Permutation; [by apply NoDup_mv_maximal..|].
  intros p. rewrite !elem_of_mv_maximal, He. by setoid_rewrite He.
Qed.

(** [known_ops] only looks at the indices below the length (clock form) *)
Lemma mspec_clock_ext (os os' : list (mop mvop)) : (∀ o, o ∈ os ↔ o ∈ os') → mspec_clock os = mspec_clock os'.
Proof. intros He. apply dots_clock_ext. intros d. rewrite !elem_of_mall_dots. by setoid_rewrite He. Qed.

(** what [MVWrite] generates *)
Lemma mvgen_op s a cmd o : mvgen s a cmd = Some o →
  ∃ k v, o = MUp (vinc (mclock s) a) k (MVPut (vapply (mclock s) (vinc (mclock s) a)) v).
Proof. destruct cmd as [k v src]. cbn. intros [= <-]. by exists k, v. Qed.
Lemma mvgen_mgen s a cmd o : mvgen s a cmd = Some o → mgen vo s a (mv_cmd cmd) = Some o.
Proof. done. Qed.
(** the add context of [get k'] is the add context of [read_ctx]: the [src] of a command is
    immaterial *)
Lemma mv_src_irrelevant (s : mvst) k' a :
  derive_add_ctx (mget s k') a = derive_add_ctx (mread_ctx s) a.
Proof. done. Qed.

(** * Part 1: transport to the key layer *)
Lemma mvreach_nk_mapreach H s K : mvreach_nk H s K → mapreach vo H s K.
Proof. apply preach_true. Qed.
Lemma mvhist_nk_maphist H : mvhist_ok_nk H → maphist_ok vo H.
Proof.
  induction 1 as [|H s K a cmd o Hok IH Hr Hown Hgen]; [constructor|].
  apply (hist_snoc _ _ _ _ _ _ H s K a (mv_cmd cmd) o); [done| |done|by apply mvgen_mgen].
  by apply mvreach_nk_mapreach.
Qed.
Lemma mvhist_nk_owf H : mvhist_ok_nk H → owfH (habs H).
Proof. intros Hok. by apply (maphist_ok_wf vo), mvhist_nk_maphist. Qed.

(** a causal schedule is a per-actor schedule; a history generated under causal delivery is a
    history generated under per-actor delivery *)
Lemma mvhist_causal_nk H : mvhist_ok_nk_causal H → mvhist_ok_nk H.
Proof.
  induction 1 as [|H s K a cmd o Hok IH Hr Hown Hgen]; [constructor|].
  apply (hist_snoc _ _ _ _ _ _ H s K a cmd o); [done| |done|done].
  by apply (creach_preach mnew (mapply vo) (mmerge vo) mvgen).
Qed.
Lemma mvreach_causal_nk H s K : mvhist_ok_nk H → mvreach_nk_causal H s K → mvreach_nk H s K.
Proof. apply (creach_preach mnew (mapply vo) (mmerge vo) mvgen). Qed.

(** the knowledge of the author's replica when it has applied its own op [i] *)
Definition dk (r : oprec (mop mvop)) (i : nat) : gset nat := op_deps r ∪ {[i]}.
(** ... and its map clock: the clock of the put *)
Definition pclk (H : mvhist) (r : oprec (mop mvop)) (i : nat) : vclock := mspec_clock (known_ops H (dk r i)).

Lemma elem_of_dk r i x : x ∈ dk r i ↔ x ∈ op_deps r ∨ x = i.
Proof. unfold dk. set_solver. Qed.
Lemma dk_self r i : i ∈ dk r i.
Proof. apply elem_of_dk. by right. Qed.

Definition mv_rec_ok (H : mvhist) (i : nat) (r : oprec (mop mvop)) : Prop :=
  ovalid (habs H) (dk r i) ∧ (∀ j, j ∈ op_deps r → (j < i)%nat) ∧
  ∃ d k v, op_val r = MUp d k (MVPut (pclk H r i) v).
(** structural well-formedness: at key level the n-th update of an actor carries the dot
    (actor, n); every op is an update carrying a put whose clock is the map clock of the knowledge
    of its author (own op included); dependencies are earlier ops, closed under each author's
    earlier ops *)
Definition mv_wfH (H : mvhist) : Prop := owfH (habs H) ∧ ∀ i r, H !! i = Some r → mv_rec_ok H i r.

Lemma ovalid_lt {O} (H : list (oprec (mop O))) K i : ovalid (habs H) K → i ∈ K → (i < length H)%nat.
Proof.
  intros [HK _] Hi. destruct (HK i Hi) as [r Hr]. apply lookup_lt_Some in Hr.
  unfold habs in Hr. by rewrite hmap_length in Hr.
Qed.
Lemma ovalid_Some {O} (H : list (oprec (mop O))) K i : ovalid (habs H) K → i ∈ K → is_Some (H !! i).
Proof. intros HK Hi. apply lookup_lt_is_Some_2. by eapply ovalid_lt. Qed.

Lemma ovalid_app {O} (H H' : list (oprec (mop O))) K : ovalid (habs H) K → ovalid (habs (H ++ H')) K.
Proof.
  intros HK. pose proof HK as [HK1 HK2]. unfold habs. rewrite hmap_app. split.
  - intros i Hi. destruct (HK1 i Hi) as [r Hr]. exists r. by apply lookup_app_l_Some.
  - intros i j ri rj Hi Hlt Hli Hlj Ha.
    pose proof (ovalid_lt H K i HK Hi) as Hil.
    rewrite lookup_app_l in Hli by (rewrite hmap_length; lia).
    rewrite lookup_app_l in Hlj by (rewrite hmap_length; lia).
    by apply (HK2 i j ri rj).
Qed.

Lemma pclk_app (H H' : mvhist) r i : ovalid (habs H) (dk r i) → pclk (H ++ H') r i = pclk H r i.
Proof.
  intros HK. unfold pclk. apply mspec_clock_ext. intros o. apply known_ops_app_elem.
  intros j Hj. by eapply ovalid_lt.
Qed.

Lemma mv_rec_ok_app H H' i r : mv_rec_ok H i r → mv_rec_ok (H ++ H') i r.
Proof.
  intros (HK & Hlt & d & k & v & Ho). split_and!; [by apply ovalid_app|done|].
  exists d, k, v. by rewrite pclk_app.
Qed.

Lemma mvhist_recs H : mvhist_ok_nk H → ∀ i r, H !! i = Some r → mv_rec_ok H i r.
Proof.
  induction 1 as [|H s K a cmd o Hok IH Hr Hown Hgen]; [intros i r Hi; by rewrite lookup_nil in Hi|].
  intros i r Hi. destruct (decide (i < length H)%nat) as [Hl|Hge].
  { rewrite lookup_app_l in Hi by done. by apply mv_rec_ok_app, IH. }
  assert (i = length H) as ->.
  { apply lookup_lt_Some in Hi. rewrite app_length in Hi. cbn in Hi. lia. }
  pose proof Hi as Hi'. rewrite lookup_app_r, Nat.sub_diag in Hi by lia. cbn in Hi. injection Hi as <-.
  pose proof (mvhist_nk_owf H Hok) as HH. pose proof (mvreach_nk_mapreach H s K Hr) as Hr'.
  destruct (map_keys_reach_spec vo H HH s K Hr') as [_ HK].
  destruct (map_keys_reach_mspec vo H HH s K Hr') as (Ec & _).
  set (r := OpRec a o K) in *. set (n := length H) in *.
  assert (∀ j, j ∈ K → (j < n)%nat) as Hlt by (intros j Hj; by eapply ovalid_lt).
  assert (dk r n = K ∪ {[n]}) as Edk by done.
  unfold mv_rec_ok, pclk. rewrite Edk. split_and!.
  - pose proof (ovalid_app H [r] K HK) as [HK1 HK2]. split.
    + intros j [Hj| ->%elem_of_singleton]%elem_of_union; [by apply HK1|].
      unfold habs. rewrite hmap_lookup, Hi'. by eexists.
    + intros j j' rj rj' [Hj| ->%elem_of_singleton]%elem_of_union Hlt' Hlj Hlj' Ha; apply elem_of_union_l.
      * by apply (HK2 j j' rj rj').
      * apply hmap_lookup_inv in Hlj as (r0 & Hr0 & ->). apply hmap_lookup_inv in Hlj' as (r1 & Hr1 & ->).
        rewrite Hi' in Hr0. injection Hr0 as <-. cbn [op_author] in Ha.
        rewrite lookup_app_l in Hr1 by done. by apply (Hown j' r1).
  - done.
  - destruct (mvgen_op s a cmd o Hgen) as (k & v & Ho). exists (vinc (mclock s) a), k, v.
    cbn [op_val r]. rewrite Ho. do 2 f_equal. rewrite Ec. symmetry. unfold mspec_clock.
    apply dots_clock_add. intros x. rewrite !elem_of_mall_dots.
    setoid_rewrite (known_ops_add_elem (H ++ [r]) K n r _ Hi').
    setoid_rewrite (known_ops_app_elem H [r] K _ Hlt). cbn [op_val r]. rewrite Ho, Ec. split.
    + intros (k' & o' & [Hin|Heq]); [left; by exists k', o'|right; by injection Heq].
    + intros [(k' & o' & Hin)| ->]; [exists k', o'; by left|]. eexists _, _. by right.
Qed.

Theorem mvhist_nk_wf H : mvhist_ok_nk H → mv_wfH H.
Proof. intros Hok. split; [by apply mvhist_nk_owf|by apply mvhist_recs]. Qed.

(** * Part 2: the clock order on puts is inclusion of knowledge *)
Lemma habs_up_lookup' {O} (H : list (oprec (mop O))) i r d k o : H !! i = Some r → op_val r = MUp d k o →
  habs H !! i = Some (OpRec (op_author r) (OAdd d [k]) (op_deps r)).
Proof. intros Hi Ho. unfold habs. rewrite (hmap_lookup_Some oabs H i r Hi). by rewrite Ho. Qed.

Lemma mv_clock_abs {O} (H : list (oprec (mop O))) K :
  mspec_clock (known_ops H K) = ospec_clock (known_ops (habs H) K).
Proof. by rewrite known_ops_habs, mspec_clock_abs. Qed.

(** an update whose dot the map clock of a valid knowledge set covers is known *)
Lemma mv_seen {O} (H : list (oprec (mop O))) K i r d k o :
  owfH (habs H) → ovalid (habs H) K → H !! i = Some r → op_val r = MUp d k o →
  dcounter d <= vget (mspec_clock (known_ops H K)) (dactor d) → i ∈ K.
Proof.
  intros HH HK Hi Ho Hle. rewrite mv_clock_abs in Hle.
  exact (seen (habs H) K i _ d [k] HH HK (habs_up_lookup' H i r d k o Hi Ho) eq_refl Hle).
Qed.
(** ... and conversely *)
Lemma mv_known_le {O} (H : list (oprec (mop O))) K i r d k o :
  H !! i = Some r → op_val r = MUp d k o → i ∈ K →
  dcounter d <= vget (mspec_clock (known_ops H K)) (dactor d).
Proof.
  intros Hi Ho HiK. unfold mspec_clock. rewrite dots_clock_get. apply max_ctr_ge; [|done].
  apply elem_of_mall_dots. exists k, o. apply elem_of_known_ops. by exists i, r.
Qed.
Lemma mv_dot_pos {O} (H : list (oprec (mop O))) i r d k o :
  owfH (habs H) → H !! i = Some r → op_val r = MUp d k o → dactor d = op_author r ∧ 0 < dcounter d.
Proof.
  intros HH Hi Ho.
  destruct (owfH_add _ _ _ _ _ HH (habs_up_lookup' H i r d k o Hi Ho) eq_refl) as (Ha & Hc & _).
  cbn [op_author] in *. split; [done|lia].
Qed.

Section clocks.
  Context (H : mvhist) (HW : mv_wfH H).
  Let HH : owfH (habs H) := proj1 HW.

  Lemma wf_rec i r : H !! i = Some r → mv_rec_ok H i r.
  Proof using HW. apply HW. Qed.
  Lemma wf_put i r : H !! i = Some r → ∃ d k v, op_val r = MUp d k (MVPut (pclk H r i) v).
  Proof using HW. intros Hi. by destruct (wf_rec i r Hi) as (_ & _ & ?). Qed.
  Lemma wf_deps_lt i r j : H !! i = Some r → j ∈ op_deps r → (j < i)%nat.
  Proof using HW. intros Hi. destruct (wf_rec i r Hi) as (_ & Hlt & _). apply Hlt. Qed.
  Lemma wf_dk_valid i r : H !! i = Some r → ovalid (habs H) (dk r i).
  Proof using HW. intros Hi. by destruct (wf_rec i r Hi) as (? & _). Qed.

  Lemma pclk_wf r i : vwf (pclk H r i).
  Proof. apply dots_clock_wf. Qed.

  Lemma pclk_own i r d k o : H !! i = Some r → op_val r = MUp d k o →
    0 < dcounter d ∧ dcounter d <= vget (pclk H r i) (dactor d).
  Proof using HW.
    intros Hi Ho. split; [by destruct (mv_dot_pos H i r d k o HH Hi Ho)|].
    apply (mv_known_le H (dk r i) i r d k o Hi Ho), dk_self.
  Qed.
  Lemma pclk_not_empty i r : H !! i = Some r → vis_empty (pclk H r i) = false.
  Proof using HW.
    intros Hi. destruct (wf_put i r Hi) as (d & k & v & Ho).
    destruct (pclk_own i r d k _ Hi Ho) as [Hp Hle].
    apply not_true_iff_false. rewrite vis_empty_spec. intros E. rewrite E, vget_empty in Hle. lia.
  Qed.

  Theorem pclk_le_iff i ri j rj : H !! i = Some ri → H !! j = Some rj →
    vleq (pclk H rj j) (pclk H ri i) ↔ dk rj j ⊆ dk ri i.
  Proof using HW.
    intros Hi Hj. split.
    - intros Hle x Hx. destruct (ovalid_Some H _ x (wf_dk_valid j rj Hj) Hx) as [rx Hrx].
      destruct (wf_put x rx Hrx) as (d & k & v & Ho).
      apply (mv_seen H (dk ri i) x rx d k _ HH (wf_dk_valid i ri Hi) Hrx Ho).
      pose proof (mv_known_le H (dk rj j) x rx d k _ Hrx Ho Hx) as H1.
      specialize (Hle (dactor d)). unfold pclk in Hle. lia.
    - intros Hsub a. unfold pclk, mspec_clock. rewrite !dots_clock_get.
      apply max_ctr_le_iff. intros d Hd Ha. apply max_ctr_ge; [|done].
      apply elem_of_mall_dots in Hd as (k & o & Hin). apply elem_of_mall_dots. exists k, o.
      apply elem_of_known_ops in Hin as (x & rx & Hrx & Hx & Ho). apply elem_of_known_ops.
      exists x, rx. split_and!; [done|by apply Hsub|done].
  Qed.

  Lemma dk_antisym i ri j rj : H !! i = Some ri → H !! j = Some rj →
    dk rj j ⊆ dk ri i → dk ri i ⊆ dk rj j → i = j.
  Proof using HW.
    intros Hi Hj H1 H2.
    assert (j ∈ dk ri i) as [Hji| ->]%elem_of_dk by (apply H1, dk_self); [|done].
    assert (i ∈ dk rj j) as [Hij| ->]%elem_of_dk by (apply H2, dk_self); [|done].
    pose proof (wf_deps_lt i ri j Hi Hji). pose proof (wf_deps_lt j rj i Hj Hij). lia.
  Qed.
  (** distinct puts have distinct clocks *)
  Lemma pclk_inj i ri j rj : H !! i = Some ri → H !! j = Some rj → pclk H ri i = pclk H rj j → i = j.
  Proof using HW.
    intros Hi Hj E. apply (dk_antisym i ri j rj Hi Hj).
    - apply (pclk_le_iff i ri j rj Hi Hj). rewrite E. apply vleq_refl.
    - apply (pclk_le_iff j rj i ri Hj Hi). rewrite E. apply vleq_refl.
  Qed.
  (** the strict order: the smaller put was applied by the author of the greater one (together
      with everything its own author had applied) *)
  Theorem pclk_lt_iff i ri j rj : H !! i = Some ri → H !! j = Some rj →
    vlt (pclk H rj j) (pclk H ri i) = true ↔ j ∈ op_deps ri ∧ op_deps rj ⊆ op_deps ri.
  Proof using HW.
    intros Hi Hj. rewrite vlt_spec by apply pclk_wf. rewrite (pclk_le_iff i ri j rj Hi Hj). split.
    - intros [Hsub Hne].
      assert (j ≠ i) as Hji. { intros ->. rewrite Hi in Hj. injection Hj as ->. done. }
      assert (j ∈ op_deps ri) as Hjd.
      { assert (j ∈ dk ri i) as [?| ->]%elem_of_dk by (apply Hsub, dk_self); done. }
      split; [done|]. intros x Hx.
      assert (x ∈ dk ri i) as [?| ->]%elem_of_dk by (apply Hsub, elem_of_dk; by left); [done|].
      pose proof (wf_deps_lt i ri j Hi Hjd). pose proof (wf_deps_lt j rj i Hj Hx). lia.
    - intros [Hjd Hsub]. split.
      + intros x [Hx| ->]%elem_of_dk; apply elem_of_dk; left; [by apply Hsub|done].
      + intros E. symmetry in E. apply (pclk_inj i ri j rj Hi Hj) in E. subst j.
        pose proof (wf_deps_lt i ri i Hi Hjd). lia.
  Qed.
  Corollary pclk_lt_index i ri j rj : H !! i = Some ri → H !! j = Some rj →
    vlt (pclk H rj j) (pclk H ri i) = true → (j < i)%nat.
  Proof using HW. intros Hi Hj [Hjd _]%(pclk_lt_iff i ri j rj Hi Hj). by eapply wf_deps_lt. Qed.
End clocks.

(** * Part 3: the known writes of a key form a good list *)
Definition kwrites (H : mvhist) (K : gset nat) (k : N) : list (gmap N N * N) :=
  mv_writes (mv_proj (known_ops H K) k).

Lemma elem_of_kwrites H K k p :
  p ∈ kwrites H K k ↔ ∃ i r d, H !! i = Some r ∧ i ∈ K ∧ op_val r = MUp d k (MVPut p.1 p.2).
Proof.
  unfold kwrites, mv_writes. rewrite elem_of_remove_dups, elem_of_list_fmap. split.
  - intros ([c v] & -> & [d Hin]%elem_of_mv_proj). apply elem_of_known_ops in Hin as (i & r & Hi & HiK & Ho).
    by exists i, r, d.
  - intros (i & r & d & Hi & HiK & Ho). exists (MVPut p.1 p.2). split; [by destruct p|].
    apply elem_of_mv_proj. exists d. apply elem_of_known_ops. by exists i, r.
Qed.

Section good.
  Context (H : mvhist) (HW : mv_wfH H).

  (** the put of a known write of [k] *)
  Lemma kwrites_inv K k p : p ∈ kwrites H K k →
    ∃ i r d, H !! i = Some r ∧ i ∈ K ∧ op_val r = MUp d k (MVPut p.1 p.2) ∧ p.1 = pclk H r i.
  Proof using HW.
    intros (i & r & d & Hi & HiK & Ho)%elem_of_kwrites. exists i, r, d. split_and!; [done..|].
    destruct (wf_put H HW i r Hi) as (d' & k' & v' & Ho'). rewrite Ho in Ho'. by injection Ho'.
  Qed.

  Lemma kwrites_up K k n i r d c v :
    (length H - i ≤ n)%nat → H !! i = Some r → i ∈ K → op_val r = MUp d k (MVPut c v) →
    ∃ q, q ∈ mv_maximal (kwrites H K k) ∧ vleq c q.1.
  Proof using HW.
    revert i r d c v. induction n as [|n IH]; intros i r d c v Hn Hi HiK Ho.
    { apply lookup_lt_Some in Hi. lia. }
    set (W := kwrites H K k).
    assert ((c, v) ∈ W) as HpW by (apply elem_of_kwrites; by exists i, r, d).
    assert (c = pclk H r i) as Ec.
    { destruct (wf_put H HW i r Hi) as (d' & k' & v' & Ho'). rewrite Ho in Ho'. by injection Ho'. }
    destruct (forallb (λ q : gmap N N * N, negb (vlt c q.1)) W) eqn:EB.
    - exists (c, v). split; [|apply vleq_refl].
      apply elem_of_mv_maximal. split; [done|]. cbn [fst]. split; [rewrite Ec; by apply pclk_not_empty|].
      intros q Hq. apply negb_true_iff. revert q Hq. by apply forallb_elem.
    - apply forallb_false_elem in EB as (q & Hq & Hlt). apply negb_false_iff in Hlt.
      apply kwrites_inv in Hq as (j & rj & dj & Hj & HjK & Hoj & Eq).
      rewrite Ec, Eq in Hlt. pose proof (pclk_lt_index H HW j rj i r Hj Hi Hlt) as Hij.
      pose proof (lookup_lt_Some _ _ _ Hj).
      destruct (IH j rj dj q.1 q.2) as (q' & Hq' & Hle); [lia|done|done|done|].
      exists q'. split; [done|]. eapply vleq_trans; [|exact Hle].
      apply vlt_spec in Hlt as [Hle' _]; [|apply pclk_wf..]. by rewrite Ec, Eq.
  Qed.

  Lemma kwrites_good K k : good (kwrites H K k).
  Proof using HW.
    split.
    - apply NoDup_remove_dups.
    - intros p (i & r & d & Hi & _ & _ & ->)%kwrites_inv. apply pclk_wf.
    - intros p (i & r & d & Hi & _ & _ & ->)%kwrites_inv. by apply pclk_not_empty.
    - intros p q (i & r & d & Hi & _ & Ho & Ep)%kwrites_inv (j & rj & dj & Hj & _ & Hoj & Eq)%kwrites_inv E.
      rewrite Ep, Eq in E. apply (pclk_inj H HW i r j rj Hi Hj) in E. subst j.
      rewrite Hi in Hj. injection Hj as <-. rewrite Ho in Hoj. destruct p, q. cbn in *. by simplify_eq.
    - intros p (i & r & d & Hi & HiK & Ho & _)%kwrites_inv.
      by eapply (kwrites_up K k (length H - i) i r d p.1 p.2).
  Qed.
End good.

(** * Part 4: the invariant and the theorem *)
Lemma mv_state_vals_default (s : mvst) k :
  eval (default (MEntry ∅ (v_default vo)) (mentries s !! k)) = mv_state_vals s k.
Proof. unfold mv_state_vals. by destruct (mentries s !! k). Qed.

Section refine.
  Context (H : mvhist) (HW : mv_wfH H).
  Let HH : owfH (habs H) := proj1 HW.

  (** the key layer of a reachable state (proofs/MapKeys.v), no key remove pending *)
  Lemma mv_reach_keys s K : mvreach_nk H s K →
    ovalid (habs H) K ∧ mclock s = mspec_clock (known_ops H K) ∧ mdeferred s = ∅.
  Proof using HW.
    intros Hr%mvreach_nk_mapreach. destruct (map_keys_reach_spec vo H HH s K Hr) as [_ HK].
    destruct (map_keys_reach_mspec vo H HH s K Hr) as (Ec & _ & _ & Ed). split_and!; [done..|].
    rewrite Ed. apply map_eq. intros c. rewrite lookup_empty.
    destruct (ospec_deferred _ !! c) as [ms|] eqn:E; [|done].
    apply ospec_deferred_Some in E as (_ & _ & ms' & Hin).
    apply elem_of_list_fmap in Hin as (o & Ho & Hin).
    apply elem_of_known_ops in Hin as (i & r & Hi & _ & <-).
    destruct (wf_put H HW i r Hi) as (d & k & v & Ho'). by rewrite Ho' in Ho.
  Qed.

  Theorem mv_reach_vals s K : mvreach_nk H s K →
    ∀ k, mv_state_vals s k ≡ₚ mv_maximal (kwrites H K k).
  Proof using HW.
    induction 1 as [|s K i r Hr IH Hi Ha|s1 K1 s2 K2 [] _ _ _ _].
    { intros k. unfold mv_state_vals, kwrites. by rewrite known_ops_empty. }
    intros k'. destruct (mv_reach_keys s K Hr) as (HK & Ec & Ed).
    destruct (wf_put H HW i r Hi) as (d & k & v & Ho). rewrite Ho. set (c := pclk H r i) in *.
    destruct (N.le_gt_cases (dcounter d) (vget (mclock s) (dactor d))) as [Hle|Hgt].
    { (* already known: the dedup gate *)
      rewrite mapply_dedup by done. rewrite Ec in Hle.
      assert (i ∈ K) as HiK by (by eapply (mv_seen H K i r d k)).
      by replace (K ∪ {[i]}) with K by set_solver. }
    rewrite mapply_up_fresh by done. rewrite mapply_deferred_empty by done.
    assert (∀ k0 p, p ∈ kwrites H (K ∪ {[i]}) k0 ↔ p ∈ kwrites H K k0 ∨ (k0 = k ∧ p = (c, v))) as Hel.
    { intros k0 p. rewrite !elem_of_kwrites. split.
      - intros (j & rj & dj & Hj & [HjK| ->%elem_of_singleton]%elem_of_union & Hoj).
        + left. by exists j, rj, dj.
        + right. rewrite Hi in Hj. injection Hj as <-. rewrite Ho in Hoj. destruct p. cbn in Hoj. by simplify_eq.
      - intros [(j & rj & dj & Hj & HjK & Hoj)|[-> ->]].
        + exists j, rj, dj. split_and!; [done|set_solver|done].
        + exists i, r, d. split_and!; [done|set_solver|done]. }
    unfold mv_state_vals at 1. cbn [mentries].
    destruct (decide (k' = k)) as [->|Hne].
    - rewrite lookup_insert. cbn [eval v_apply vo]. rewrite mv_state_vals_default.
      etrans; [apply mvapply_proper, IH|].
      apply mv_apply_maximal; [by apply kwrites_good..|].
      intros p. rewrite Hel. naive_solver.
    - rewrite lookup_insert_ne by done. etrans; [apply (IH k')|].
      apply mv_maximal_perm_ext; [apply NoDup_remove_dups..|].
      intros p. rewrite Hel. naive_solver.
  Qed.
End refine.

(** ** the theorem: under every key the register holds exactly the causally maximal known writes
    addressed to that key *)
Theorem mapmv_values_refine_nk (H : list (oprec (mop mvop))) : mvhist_ok_nk H →
  ∀ (s : cmap (list (gmap N N * N))) (K : gset nat), mvreach_nk H s K →
    ∀ k, mv_state_vals s k ≡ₚ mv_maximal (mv_writes (mv_proj (known_ops H K) k)).
Proof. intros Hok s K Hr k. by apply (mv_reach_vals H (mvhist_nk_wf H Hok)). Qed.

(** (1) the same under causal delivery *)
Theorem mapmv_values_refine_nk_causal (H : list (oprec (mop mvop))) : mvhist_ok_nk_causal H →
  ∀ (s : cmap (list (gmap N N * N))) (K : gset nat), mvreach_nk_causal H s K →
    ∀ k, mv_state_vals s k ≡ₚ mv_maximal (mv_writes (mv_proj (known_ops H K) k)).
Proof.
  intros Hok%mvhist_causal_nk s K Hr. apply (mapmv_values_refine_nk H Hok). by apply mvreach_causal_nk.
Qed.

(** * Part 5: corollaries *)

(** knowledge sets of causal schedules are closed under dependencies *)
Section causal_closed.
  Context {St Op Cmd : Type} (init : St) (apply : St → Op → St) (merge : St → St → St).
  Context (gen : St → N → Cmd → option Op).
  Notation creach := (reach init apply merge adm_causal False).
  Notation chist_ok := (hist_ok init apply merge gen adm_causal False).

  Definition dep_closed (H : list (oprec Op)) (K : gset nat) : Prop :=
    ∀ j rj, j ∈ K → H !! j = Some rj → op_deps rj ⊆ K.

  Lemma creach_in_range H s K : creach H s K → ∀ j, j ∈ K → (j < length H)%nat.
  Proof.
    induction 1 as [|s K i o Hr IH Ho Ha|s1 K1 s2 K2 [] _ _ _ _]; [set_solver|].
    intros j [Hj| ->%elem_of_singleton]%elem_of_union; [by apply IH|by eapply lookup_lt_Some].
  Qed.
  Lemma creach_closed H s K : creach H s K → dep_closed H K.
  Proof.
    induction 1 as [|s K i o Hr IH Ho Ha|s1 K1 s2 K2 [] _ _ _ _]; [intros j rj Hj; set_solver|].
    intros j rj [Hj| ->%elem_of_singleton]%elem_of_union Hl.
    - pose proof (IH j rj Hj Hl). set_solver.
    - destruct Ha as (o' & Ho' & Hd). simplify_eq. set_solver.
  Qed.
  Lemma chist_closed H : chist_ok H → ∀ i r, H !! i = Some r →
    (∀ j, j ∈ op_deps r → (j < i)%nat) ∧ dep_closed H (op_deps r).
  Proof.
    induction 1 as [|H s K a cmd o Hok IH Hr Hown Hgen]; [intros i r Hi; by rewrite lookup_nil in Hi|].
    intros i r Hi. destruct (decide (i < length H)%nat) as [Hl|Hge].
    - rewrite lookup_app_l in Hi by done. destruct (IH i r Hi) as [Hlt Hc]. split; [done|].
      intros j rj Hj Hlj. pose proof (Hlt j Hj). rewrite lookup_app_l in Hlj by lia. by apply (Hc j rj).
    - assert (i = length H) as ->.
      { apply lookup_lt_Some in Hi. rewrite app_length in Hi. cbn in Hi. lia. }
      rewrite lookup_app_r, Nat.sub_diag in Hi by lia. cbn in Hi. injection Hi as <-. cbn [op_deps].
      pose proof (creach_in_range H s K Hr) as Hlt. split; [done|].
      intros j rj Hj Hlj. pose proof (Hlt j Hj). rewrite lookup_app_l in Hlj by lia.
      by apply (creach_closed H s K Hr j rj).
  Qed.
End causal_closed.

Section corollaries.
  Context (H : mvhist) (Hok : mvhist_ok_nk H).
  Let HW : mv_wfH H := mvhist_nk_wf H Hok.
  Let HH : owfH (habs H) := mvhist_nk_owf H Hok.
  Implicit Types (s : mvst) (K : gset nat) (k : N).

  (** the monitor's decider *)
  Theorem mapmv_vals_ok_reach s K : mvreach_nk H s K → mapmv_vals_ok H K s = true.
  Proof using Hok.
    intros Hr. apply forallb_forall. intros k _. apply bool_decide_eq_true. by apply mapmv_values_refine_nk.
  Qed.

  (** the key layer of the same states: map clock, key set, entry clocks are functions of the
      knowledge; nothing is pending; a key is present iff an update of it is known *)
  Theorem mapmv_keys_nk s K k : mvreach_nk H s K →
    let os := known_ops H K in
    mapreach vo H s K ∧ maphist_ok vo H ∧
    mclock s = mspec_clock os ∧ mkeys s = mspec_keys os ∧
    (∀ k, mentry_clock s k = mspec_entry_clock os k) ∧ mdeferred s = ∅ ∧
    mkeyspec_ok H K s = true ∧
    (k ∈ dom (mentries s) ↔ ∃ d o, MUp d k o ∈ os) ∧
    (∀ c ks, MRm c ks ∉ os).
  Proof using Hok.
    intros Hr os. pose proof (mvreach_nk_mapreach H s K Hr) as Hr'.
    destruct (map_keys_reach_mspec vo H HH s K Hr') as (Ec & Ek & Ee & _).
    destruct (mv_reach_keys H HW s K Hr) as (_ & _ & Ed).
    assert (∀ c ks, MRm c ks ∉ os) as Hnr.
    { intros c ks (i & r & Hi & _ & Ho)%elem_of_known_ops.
      destruct (wf_put H HW i r Hi) as (d & k' & v & Ho'). by rewrite Ho' in Ho. }
    split_and!; [done|by apply mvhist_nk_maphist|done..|by apply (map_keyspec_ok vo H HH)| |done].
    destruct (map_key_present_iff vo H HH s K k Hr') as (_ & -> & _). split.
    - intros (d & o & Hin & _). by exists d, o.
    - intros (d & o & Hin). exists d, o. split; [done|]. intros (c & ks & Hin' & _). by apply Hnr in Hin'.
  Qed.

  (** C01 / C20: equal knowledge gives the same key layer and, under every key, the same values *)
  Theorem mapmv_converge_nk s1 s2 K : mvreach_nk H s1 K → mvreach_nk H s2 K →
    kabs s1 = kabs s2 ∧
    (∀ k, mv_state_vals s1 k ≡ₚ mv_state_vals s2 k) ∧
    (∀ k, rval (mvread (mv_state_vals s1 k)) ≡ₚ rval (mvread (mv_state_vals s2 k))).
  Proof using Hok.
    intros H1 H2.
    assert (∀ k, mv_state_vals s1 k ≡ₚ mv_state_vals s2 k) as Hv.
    { intros k. rewrite (mapmv_values_refine_nk H Hok s1 K H1 k). symmetry. by apply mapmv_values_refine_nk. }
    split_and!; [|done|].
    - apply (map_keys_converge vo H HH s1 s2 K); by apply mvreach_nk_mapreach.
    - intros k. cbn. by rewrite (Hv k).
  Qed.

  (** C09: a duplicate op is absorbed (by the dedup gate of the map: nothing changes at all) *)
  Theorem mapmv_dup_apply_nk s K i r : mvreach_nk H s K → H !! i = Some r → i ∈ K →
    mapply vo s (op_val r) = s.
  Proof using Hok.
    intros Hr Hi HiK. destruct (mv_reach_keys H HW s K Hr) as (_ & Ec & _).
    destruct (wf_put H HW i r Hi) as (d & k & v & Ho). rewrite Ho. apply mapply_dedup. rewrite Ec.
    by apply (mv_known_le H K i r d k _ Hi Ho).
  Qed.

  (** C08: per-actor delivery gives what causal delivery gives *)
  Theorem mapmv_causal_agree_nk s1 s2 K : mvreach_nk_causal H s1 K → mvreach_nk H s2 K →
    kabs s1 = kabs s2 ∧ ∀ k, mv_state_vals s1 k ≡ₚ mv_state_vals s2 k.
  Proof using Hok.
    intros H1%(mvreach_causal_nk H s1 K Hok) H2.
    destruct (mapmv_converge_nk s1 s2 K H1 H2) as (? & ? & _). done.
  Qed.

  (** the sentence of C06 under a key: a value is stored under [k] iff a put of it under [k] is
      known and no known put of [k] has a strictly greater clock *)
  Theorem mapmv_stored_iff_nk s K k c v : mvreach_nk H s K →
    (c, v) ∈ mv_state_vals s k ↔
      (∃ d, MUp d k (MVPut c v) ∈ known_ops H K) ∧
      ∀ d' c' v', MUp d' k (MVPut c' v') ∈ known_ops H K → vlt c c' = false.
  Proof using Hok.
    intros Hr. rewrite (mapmv_values_refine_nk H Hok s K Hr k). fold (kwrites H K k).
    rewrite elem_of_mv_maximal. cbn [fst].
    assert (∀ p, p ∈ kwrites H K k ↔ ∃ d, MUp d k (MVPut p.1 p.2) ∈ known_ops H K) as Hel.
    { intros p. rewrite elem_of_kwrites. setoid_rewrite elem_of_known_ops. split.
      - intros (i & r & d & ?). by exists d, i, r.
      - intros (d & i & r & ?). by exists i, r, d. }
    split.
    - intros (Hin & _ & Hmax). split; [by apply (Hel (c, v))|].
      intros d' c' v' Hin'. apply (Hmax (c', v')), Hel. by exists d'.
    - intros [Hin Hmax]. split_and!.
      + by apply (Hel (c, v)).
      + apply (Hel (c, v)), kwrites_inv in Hin as (i & r & d & Hi & _ & _ & E); [|done]. cbn [fst] in E.
        rewrite E. by apply pclk_not_empty.
      + intros q [d' Hq]%Hel. by eapply Hmax.
  Qed.

  (** the values read under a key *)
  Corollary mapmv_read_iff_nk s K k v : mvreach_nk H s K →
    v ∈ rval (mvread (mv_state_vals s k)) ↔
      ∃ d c, MUp d k (MVPut c v) ∈ known_ops H K ∧
             ∀ d' c' v', MUp d' k (MVPut c' v') ∈ known_ops H K → vlt c c' = false.
  Proof using Hok.
    intros Hr. cbn. rewrite elem_of_list_fmap. split.
    - intros ([c v'] & -> & Hin). apply (mapmv_stored_iff_nk s K k c v' Hr) in Hin as [[d Hin] Hmax]. by exists d, c.
    - intros (d & c & Hin & Hmax). exists (c, v). split; [done|]. apply (mapmv_stored_iff_nk s K k c v Hr).
      split; [by exists d|done].
  Qed.

  (** the clock order in terms of observation.  Per-actor delivery: the clock of put [j] is
      strictly below the clock of put [i] iff the author of [i] had applied [j] AND everything the
      author of [j] had applied when it generated [j] (the second conjunct cannot be dropped under
      per-actor delivery: [mapmv_observed_not_enough]) *)
  Theorem mapmv_clock_observed_nk i ri di ki ci vi j rj dj kj cj vj :
    H !! i = Some ri → op_val ri = MUp di ki (MVPut ci vi) →
    H !! j = Some rj → op_val rj = MUp dj kj (MVPut cj vj) →
    (vlt cj ci = true ↔ j ∈ op_deps ri ∧ op_deps rj ⊆ op_deps ri) ∧
    (vleq cj ci ↔ op_deps rj ∪ {[j]} ⊆ op_deps ri ∪ {[i]}) ∧
    (vlt cj ci = true → (j < i)%nat) ∧
    (cj = ci → j = i).
  Proof using Hok.
    intros Hi Hoi Hj Hoj.
    assert (ci = pclk H ri i) as ->.
    { destruct (wf_put H HW i ri Hi) as (d' & k' & v' & Ho'). rewrite Hoi in Ho'. by injection Ho'. }
    assert (cj = pclk H rj j) as ->.
    { destruct (wf_put H HW j rj Hj) as (d' & k' & v' & Ho'). rewrite Hoj in Ho'. by injection Ho'. }
    split_and!.
    - by apply pclk_lt_iff.
    - by apply pclk_le_iff.
    - by apply pclk_lt_index.
    - intros E. symmetry. by eapply pclk_inj.
  Qed.
End corollaries.

(** ... causal delivery: iff the author of [i] had applied [j] *)
Theorem mapmv_clock_observed_causal H i ri di ki ci vi j rj dj kj cj vj : mvhist_ok_nk_causal H →
  H !! i = Some ri → op_val ri = MUp di ki (MVPut ci vi) →
  H !! j = Some rj → op_val rj = MUp dj kj (MVPut cj vj) →
  (vlt cj ci = true ↔ j ∈ op_deps ri).
Proof.
  intros Hc Hi Hoi Hj Hoj. pose proof (mvhist_causal_nk H Hc) as Hok.
  destruct (mapmv_clock_observed_nk H Hok i ri di ki ci vi j rj dj kj cj vj Hi Hoi Hj Hoj) as (-> & _).
  split; [by intros [? _]|]. intros Hjd. split; [done|].
  destruct (chist_closed mnew (mapply vo) (mmerge vo) mvgen H Hc i ri Hi) as [_ Hcl]. by apply (Hcl j rj).
Qed.

(** * Part 6: closed examples *)
Local Ltac mv_calc := apply (bool_decide_unpack _); by vm_compute.
Local Ltac mv_adm :=
  eexists; split; [reflexivity|]; intros [|[|[|[|j]]]] r' Hlt Hj Ha; cbn in Hj, Ha; simplify_eq; try lia; mv_calc.
Local Ltac mv_adm_c := eexists; split; [reflexivity|]; mv_calc.
Local Ltac mv_own :=
  intros [|[|[|[|j]]]] r Hj Ha; cbn in Hj, Ha; simplify_eq; mv_calc.
Local Instance mv_mvop_eq_dec : EqDecision mvop.
Proof. solve_decision. Defined.
Local Instance mv_mop_eq_dec : EqDecision (mop mvop).
Proof. solve_decision. Defined.

(** ** Non-vacuity: two actors, keys 7 and 8.  Actor 1 writes 10 under 7 (op 0).  Actor 2, having
    applied it, writes 20 under 8 (op 1: its put clock {1:1, 2:1} mentions actor 1's dot although
    the write concerns another key) and then 30 under 7 (op 2, supersedes 10).  Actor 1
    concurrently writes 40 under 7 (op 3).  Replica X receives ops 1, 2 - actor 2's write of key
    7 - BEFORE op 0, then ops 0 and 3 (per-actor order respected, not causal); replica Y receives
    ops 0 1 2 3 (causal).  Both end with the two concurrent values 30 and 40 under 7. *)
Example mapmv_nk_example :
  ∃ (H : list (oprec (mop mvop))) (sX2 sX3 sX sY : cmap (list (gmap N N * N))) (K : gset nat),
    H = [OpRec 1 (MUp (Dot 1 1) 7 (MVPut {[1 := 1]} 10)) ∅;
         OpRec 2 (MUp (Dot 2 1) 8 (MVPut {[1 := 1; 2 := 1]} 20)) (∅ ∪ {[0%nat]});
         OpRec 2 (MUp (Dot 2 2) 7 (MVPut {[1 := 1; 2 := 2]} 30)) (∅ ∪ {[0%nat]} ∪ {[1%nat]});
         OpRec 1 (MUp (Dot 1 2) 7 (MVPut {[1 := 2]} 40)) (∅ ∪ {[0%nat]})] ∧
    mvhist_ok_nk_causal H ∧ mvhist_ok_nk H ∧
    (* replica X: ops 1 2 0 3 *)
    ¬ adm_causal H ∅ 1%nat ∧
    mvreach_nk H sX2 (∅ ∪ {[1%nat]} ∪ {[2%nat]}) ∧
    mvreach_nk H sX3 (∅ ∪ {[1%nat]} ∪ {[2%nat]} ∪ {[0%nat]}) ∧
    mvreach_nk H sX (∅ ∪ {[1%nat]} ∪ {[2%nat]} ∪ {[0%nat]} ∪ {[3%nat]}) ∧
    K = ∅ ∪ {[1%nat]} ∪ {[2%nat]} ∪ {[0%nat]} ∪ {[3%nat]} ∧
    (* replica Y: ops 0 1 2 3 *)
    mvreach_nk_causal H sY K ∧
    (* under 7, at X: 30 alone; the late write 10 changes nothing; then 30 and 40 *)
    mv_state_vals sX2 7 = [({[1 := 1; 2 := 2]}, 30)] ∧
    mv_state_vals sX3 7 = [({[1 := 1; 2 := 2]}, 30)] ∧
    mv_state_vals sX 7 = [({[1 := 1; 2 := 2]}, 30); ({[1 := 2]}, 40)] ∧
    mv_state_vals sY 7 = [({[1 := 1; 2 := 2]}, 30); ({[1 := 2]}, 40)] ∧
    mv_state_vals sX 8 = [({[1 := 1; 2 := 1]}, 20)] ∧
    rval (mvread (mv_state_vals sX 7)) = [30; 40] ∧
    mv_maximal (mv_writes (mv_proj (known_ops H K) 7)) = [({[1 := 1; 2 := 2]}, 30); ({[1 := 2]}, 40)] ∧
    mv_maximal (mv_writes (mv_proj (known_ops H (∅ ∪ {[1%nat]} ∪ {[2%nat]})) 7)) = [({[1 := 1; 2 := 2]}, 30)] ∧
    mapmv_vals_ok H K sX = true ∧ mapmv_vals_ok H K sY = true ∧ mkeyspec_ok H K sX = true ∧
    kabs sX = kabs sY ∧ sX = sY.
Proof.
  set (o0 := MUp (Dot 1 1) 7 (MVPut {[1 := 1]} 10) : mop mvop).
  set (o1 := MUp (Dot 2 1) 8 (MVPut {[1 := 1; 2 := 1]} 20) : mop mvop).
  set (o2 := MUp (Dot 2 2) 7 (MVPut {[1 := 1; 2 := 2]} 30) : mop mvop).
  set (o3 := MUp (Dot 1 2) 7 (MVPut {[1 := 2]} 40) : mop mvop).
  set (r0 := OpRec 1 o0 ∅). set (r1 := OpRec 2 o1 (∅ ∪ {[0%nat]})).
  set (r2 := OpRec 2 o2 (∅ ∪ {[0%nat]} ∪ {[1%nat]})). set (r3 := OpRec 1 o3 (∅ ∪ {[0%nat]})).
  set (H := [r0; r1; r2; r3]).
  assert (mvhist_ok_nk_causal H) as Hc.
  { change H with (((([] ++ [r0]) ++ [r1]) ++ [r2]) ++ [r3]).
    apply (hist_snoc _ _ _ _ _ _ _ (mapply vo mnew o0) _ 1 (MVWrite 7 40 None)).
    - apply (hist_snoc _ _ _ _ _ _ _ (mapply vo (mapply vo mnew o0) o1) _ 2 (MVWrite 7 30 (Some 7))).
      + apply (hist_snoc _ _ _ _ _ _ _ (mapply vo mnew o0) _ 2 (MVWrite 8 20 None)).
        * apply (hist_snoc _ _ _ _ _ _ _ mnew _ 1 (MVWrite 7 10 None)); [constructor|constructor|mv_own|mv_calc].
        * apply (reach_apply _ _ _ _ _ _ mnew ∅ 0%nat r0); [constructor|done|mv_adm_c].
        * mv_own.
        * mv_calc.
      + apply (reach_apply _ _ _ _ _ _ _ _ 1%nat r1); [|done|mv_adm_c].
        apply (reach_apply _ _ _ _ _ _ mnew ∅ 0%nat r0); [constructor|done|mv_adm_c].
      + mv_own.
      + mv_calc.
    - apply (reach_apply _ _ _ _ _ _ mnew ∅ 0%nat r0); [constructor|done|mv_adm_c].
    - mv_own.
    - mv_calc. }
  pose proof (mvhist_causal_nk H Hc) as Hok.
  set (sX2 := mapply vo (mapply vo mnew o1) o2).
  set (sX3 := mapply vo sX2 o0). set (sX := mapply vo sX3 o3).
  set (sY := mapply vo (mapply vo (mapply vo (mapply vo mnew o0) o1) o2) o3).
  set (KX := ∅ ∪ {[1%nat]} ∪ {[2%nat]} ∪ {[0%nat]} ∪ {[3%nat]} : gset nat).
  assert (mvreach_nk H sX2 (∅ ∪ {[1%nat]} ∪ {[2%nat]})) as HX2.
  { apply (reach_apply _ _ _ _ _ _ _ _ 2%nat r2); [|done|mv_adm].
    apply (reach_apply _ _ _ _ _ _ mnew ∅ 1%nat r1); [constructor|done|mv_adm]. }
  assert (mvreach_nk H sX3 (∅ ∪ {[1%nat]} ∪ {[2%nat]} ∪ {[0%nat]})) as HX3.
  { apply (reach_apply _ _ _ _ _ _ _ _ 0%nat r0); [done|done|mv_adm]. }
  assert (mvreach_nk H sX KX) as HX.
  { apply (reach_apply _ _ _ _ _ _ _ _ 3%nat r3); [done|done|mv_adm]. }
  assert (mvreach_nk_causal H sY (∅ ∪ {[0%nat]} ∪ {[1%nat]} ∪ {[2%nat]} ∪ {[3%nat]})) as HY.
  { apply (reach_apply _ _ _ _ _ _ _ _ 3%nat r3); [|done|mv_adm_c].
    apply (reach_apply _ _ _ _ _ _ _ _ 2%nat r2); [|done|mv_adm_c].
    apply (reach_apply _ _ _ _ _ _ _ _ 1%nat r1); [|done|mv_adm_c].
    apply (reach_apply _ _ _ _ _ _ mnew ∅ 0%nat r0); [constructor|done|mv_adm_c]. }
  assert (∅ ∪ {[0%nat]} ∪ {[1%nat]} ∪ {[2%nat]} ∪ {[3%nat]} = KX) as EK by mv_calc.
  rewrite EK in HY.
  exists H, sX2, sX3, sX, sY, KX. split_and!.
  - done.
  - exact Hc.
  - exact Hok.
  - intros (r & Hr & Hd). cbn in Hr. injection Hr as <-. cbn in Hd. revert Hd. mv_calc.
  - exact HX2.
  - exact HX3.
  - exact HX.
  - done.
  - exact HY.
  - mv_calc.
  - mv_calc.
  - mv_calc.
  - mv_calc.
  - mv_calc.
  - mv_calc.
  - mv_calc.
  - mv_calc.
  - by apply (mapmv_vals_ok_reach H Hok).
  - apply (mapmv_vals_ok_reach H Hok). by apply mvreach_causal_nk.
  - by destruct (mapmv_keys_nk H Hok sX KX 7 HX) as (_ & _ & _ & _ & _ & _ & ? & _).
  - by destruct (mapmv_causal_agree_nk H Hok sY sX KX HY HX) as [-> _].
  - mv_calc.
Qed.

(** ** Under per-actor delivery "the author of [i] had applied [j]" does NOT give [cj < ci]:
    knowledge is not transitive.  Actor 1 writes (op 0); actor 2, having applied it, writes (op 1,
    clock {1:1, 2:1}); actor 3 receives op 1 WITHOUT op 0 (admissible per actor) and writes (op 2,
    clock {2:1, 3:1}): op 1 is a dependency of op 2, the clocks are concurrent, and every replica
    that knows the three ops holds both values (the refinement theorem is about the clock order,
    whatever it means).  [mapmv_clock_observed_nk] is the exact reading; under causal delivery
    this cannot happen ([mapmv_clock_observed_causal]). *)
Example mapmv_observed_not_enough :
  ∃ (H : list (oprec (mop mvop))) (s : cmap (list (gmap N N * N))) (K : gset nat),
    H = [OpRec 1 (MUp (Dot 1 1) 7 (MVPut {[1 := 1]} 10)) ∅;
         OpRec 2 (MUp (Dot 2 1) 7 (MVPut {[1 := 1; 2 := 1]} 20)) (∅ ∪ {[0%nat]});
         OpRec 3 (MUp (Dot 3 1) 7 (MVPut {[2 := 1; 3 := 1]} 30)) (∅ ∪ {[1%nat]})] ∧
    mvhist_ok_nk H ∧ ¬ mvhist_ok_nk_causal H ∧
    (1%nat ∈ (∅ ∪ {[1%nat]} : gset nat)) ∧
    vlt {[1 := 1; 2 := 1]} {[2 := 1; 3 := 1]} = false ∧
    vcmp {[1 := 1; 2 := 1]} {[2 := 1; 3 := 1]} = None ∧
    mvreach_nk H s K ∧ K = ∅ ∪ {[2%nat]} ∪ {[1%nat]} ∪ {[0%nat]} ∧
    mv_state_vals s 7 = [({[2 := 1; 3 := 1]}, 30); ({[1 := 1; 2 := 1]}, 20)] ∧
    mapmv_vals_ok H K s = true.
Proof.
  set (o0 := MUp (Dot 1 1) 7 (MVPut {[1 := 1]} 10) : mop mvop).
  set (o1 := MUp (Dot 2 1) 7 (MVPut {[1 := 1; 2 := 1]} 20) : mop mvop).
  set (o2 := MUp (Dot 3 1) 7 (MVPut {[2 := 1; 3 := 1]} 30) : mop mvop).
  set (r0 := OpRec 1 o0 ∅). set (r1 := OpRec 2 o1 (∅ ∪ {[0%nat]})). set (r2 := OpRec 3 o2 (∅ ∪ {[1%nat]})).
  set (H := [r0; r1; r2]).
  assert (mvhist_ok_nk H) as Hok.
  { change H with ((([] ++ [r0]) ++ [r1]) ++ [r2]).
    apply (hist_snoc _ _ _ _ _ _ _ (mapply vo mnew o1) _ 3 (MVWrite 7 30 None)).
    - apply (hist_snoc _ _ _ _ _ _ _ (mapply vo mnew o0) _ 2 (MVWrite 7 20 None)).
      + apply (hist_snoc _ _ _ _ _ _ _ mnew _ 1 (MVWrite 7 10 None)); [constructor|constructor|mv_own|mv_calc].
      + apply (reach_apply _ _ _ _ _ _ mnew ∅ 0%nat r0); [constructor|done|mv_adm].
      + mv_own.
      + mv_calc.
    - apply (reach_apply _ _ _ _ _ _ mnew ∅ 1%nat r1); [constructor|done|mv_adm].
    - mv_own.
    - mv_calc. }
  set (s := mapply vo (mapply vo (mapply vo mnew o2) o1) o0).
  assert (mvreach_nk H s (∅ ∪ {[2%nat]} ∪ {[1%nat]} ∪ {[0%nat]})) as Hs.
  { apply (reach_apply _ _ _ _ _ _ _ _ 0%nat r0); [|done|mv_adm].
    apply (reach_apply _ _ _ _ _ _ _ _ 1%nat r1); [|done|mv_adm].
    apply (reach_apply _ _ _ _ _ _ mnew ∅ 2%nat r2); [constructor|done|mv_adm]. }
  exists H, s, (∅ ∪ {[2%nat]} ∪ {[1%nat]} ∪ {[0%nat]}). split_and!.
  - done.
  - exact Hok.
  - intros Hc.
    destruct (mapmv_clock_observed_causal H 2%nat r2 (Dot 3 1) 7 {[2 := 1; 3 := 1]} 30
                1%nat r1 (Dot 2 1) 7 {[1 := 1; 2 := 1]} 20 Hc eq_refl eq_refl eq_refl eq_refl) as [_ Hx].
    assert (vlt ({[1 := 1; 2 := 1]} : gmap N N) {[2 := 1; 3 := 1]} = true) as Hlt by (apply Hx; mv_calc).
    revert Hlt. mv_calc.
  - mv_calc.
  - mv_calc.
  - mv_calc.
  - exact Hs.
  - done.
  - mv_calc.
  - by apply (mapmv_vals_ok_reach H Hok).
Qed.

(** ** The no-merge restriction is needed (finding T1, [map_T1_assoc_refuted] of
    proofs/MapRefuted.v, as a history): actor 3 writes 7 under key 1 (op 0); actor 2, having
    applied it, writes 1 and then 0 under key 0 (ops 1, 2; put clocks {3:1, 2:1} < {3:1, 2:2}).
    With state merges allowed the history is still API-generated and the state
    [a + (b + c)] (a: ops 0 1, b: op 0, c: ops 0 1 2) is reachable with knowledge {0, 1, 2}; it
    holds the overwritten value 1 next to 0 under key 0 ([mmerge_entry] resets the register of
    [b + c] by dots the entry clock does not have: the clock of the value 0 is stripped from
    {3:1, 2:2} to {2:2} and no longer dominates {3:1, 2:1}), while the only causally maximal known
    write of key 0 is 0. *)
Example mapmv_merge_refuted :
  ∃ (H : list (oprec (mop mvop))) (s : cmap (list (gmap N N * N))) (K : gset nat),
    H = [OpRec 3 (MUp (Dot 3 1) 1 (MVPut {[3 := 1]} 7)) ∅;
         OpRec 2 (MUp (Dot 2 1) 0 (MVPut {[3 := 1; 2 := 1]} 1)) (∅ ∪ {[0%nat]});
         OpRec 2 (MUp (Dot 2 2) 0 (MVPut {[3 := 1; 2 := 2]} 0)) (∅ ∪ {[0%nat]} ∪ {[1%nat]})] ∧
    mvhist_ok_nk_causal H ∧
    hist_ok mnew (mapply vo) (mmerge vo) mvgen adm_causal True H ∧
    reach mnew (mapply vo) (mmerge vo) adm_causal True H s K ∧
    (∀ i, i ∈ K ↔ (i < 3)%nat) ∧
    mv_state_vals s 0 = [({[3 := 1; 2 := 1]}, 1); ({[2 := 2]}, 0)] ∧
    mv_maximal (mv_writes (mv_proj (known_ops H K) 0)) = [({[3 := 1; 2 := 2]}, 0)] ∧
    ¬ (mv_state_vals s 0 ≡ₚ mv_maximal (mv_writes (mv_proj (known_ops H K) 0))) ∧
    mapmv_vals_ok H K s = false.
Proof.
  set (o0 := MUp (Dot 3 1) 1 (MVPut {[3 := 1]} 7) : mop mvop).
  set (o1 := MUp (Dot 2 1) 0 (MVPut {[3 := 1; 2 := 1]} 1) : mop mvop).
  set (o2 := MUp (Dot 2 2) 0 (MVPut {[3 := 1; 2 := 2]} 0) : mop mvop).
  set (r0 := OpRec 3 o0 ∅). set (r1 := OpRec 2 o1 (∅ ∪ {[0%nat]})).
  set (r2 := OpRec 2 o2 (∅ ∪ {[0%nat]} ∪ {[1%nat]})).
  set (H := [r0; r1; r2]).
  assert (∀ mg : Prop, hist_ok mnew (mapply vo) (mmerge vo) mvgen adm_causal mg H) as Hok.
  { intros mg. change H with ((([] ++ [r0]) ++ [r1]) ++ [r2]).
    apply (hist_snoc _ _ _ _ _ _ _ (mapply vo (mapply vo mnew o0) o1) _ 2 (MVWrite 0 0 None)).
    - apply (hist_snoc _ _ _ _ _ _ _ (mapply vo mnew o0) _ 2 (MVWrite 0 1 None)).
      + apply (hist_snoc _ _ _ _ _ _ _ mnew _ 3 (MVWrite 1 7 None)); [constructor|constructor|mv_own|mv_calc].
      + apply (reach_apply _ _ _ _ _ _ mnew ∅ 0%nat r0); [constructor|done|mv_adm_c].
      + mv_own.
      + mv_calc.
    - apply (reach_apply _ _ _ _ _ _ _ _ 1%nat r1); [|done|mv_adm_c].
      apply (reach_apply _ _ _ _ _ _ mnew ∅ 0%nat r0); [constructor|done|mv_adm_c].
    - mv_own.
    - mv_calc. }
  set (b := mapply vo mnew o0). set (a := mapply vo b o1). set (c := mapply vo a o2).
  assert (reach mnew (mapply vo) (mmerge vo) adm_causal True H b (∅ ∪ {[0%nat]})) as Hb.
  { apply (reach_apply _ _ _ _ _ _ mnew ∅ 0%nat r0); [constructor|done|mv_adm_c]. }
  assert (reach mnew (mapply vo) (mmerge vo) adm_causal True H a (∅ ∪ {[0%nat]} ∪ {[1%nat]})) as Ha.
  { apply (reach_apply _ _ _ _ _ _ _ _ 1%nat r1); [done|done|mv_adm_c]. }
  assert (reach mnew (mapply vo) (mmerge vo) adm_causal True H c (∅ ∪ {[0%nat]} ∪ {[1%nat]} ∪ {[2%nat]})) as Hc.
  { apply (reach_apply _ _ _ _ _ _ _ _ 2%nat r2); [done|done|mv_adm_c]. }
  set (K := (∅ ∪ {[0%nat]} ∪ {[1%nat]}) ∪ ((∅ ∪ {[0%nat]}) ∪ (∅ ∪ {[0%nat]} ∪ {[1%nat]} ∪ {[2%nat]})) : gset nat).
  exists H, (mmerge vo a (mmerge vo b c)), K.
  assert (mv_state_vals (mmerge vo a (mmerge vo b c)) 0 = [({[3 := 1; 2 := 1]}, 1); ({[2 := 2]}, 0)]) as Ev by mv_calc.
  assert (mv_maximal (mv_writes (mv_proj (known_ops H K) 0)) = [({[3 := 1; 2 := 2]}, 0)]) as Em by mv_calc.
  split_and!.
  - done.
  - apply Hok.
  - apply Hok.
  - apply reach_merge; [done|done|]. by apply reach_merge.
  - intros i. unfold K. rewrite !elem_of_union, !elem_of_singleton, elem_of_empty. lia.
  - exact Ev.
  - exact Em.
  - rewrite Ev, Em. intros Hp%Permutation_length. done.
  - mv_calc.
Qed.

Print Assumptions mvhist_nk_wf.
Print Assumptions pclk_le_iff.
Print Assumptions pclk_lt_iff.
Print Assumptions kwrites_good.
Print Assumptions mv_reach_vals.
Print Assumptions mapmv_values_refine_nk.
Print Assumptions mapmv_values_refine_nk_causal.
Print Assumptions mapmv_vals_ok_reach.
Print Assumptions mapmv_keys_nk.
Print Assumptions mapmv_converge_nk.
Print Assumptions mapmv_dup_apply_nk.
Print Assumptions mapmv_causal_agree_nk.
Print Assumptions mapmv_stored_iff_nk.
Print Assumptions mapmv_read_iff_nk.
Print Assumptions mapmv_clock_observed_nk.
Print Assumptions mapmv_clock_observed_causal.
Print Assumptions mapmv_nk_example.
Print Assumptions mapmv_observed_not_enough.
Print Assumptions mapmv_merge_refuted.
