(** The key layer of [Map] is an [Orswot].

    [kabs] (spec/MapSystem.v) forgets the nested values of a map state: what is
    left (map clock, key set with the entry clocks, pending-remove table) is an
    [Orswot] state, and every [Map] operation acts on it exactly as the
    corresponding [Orswot] operation (Part 1; clocks must store no zero, see
    [mapply_rm_needs_wf]).  The simulation is carried through the
    replicated-system framework (Part 2: [map_reach_sim], [maphist_ok_abs]), so
    that the key layer of [Map] inherits every theorem of
    proofs/OrswotSystem.v (Part 3).

    [mapreach vo] / [maphist_ok vo] are the [Map] instances of [reach] /
    [hist_ok] (the name [mreach] is taken by proofs/MapFacts.v). *)
From stdpp Require Import gmap.
From Crdt Require Import model.Orswot model.Map spec.System spec.OrswotSpec spec.OrswotSystem
  spec.MapSpec spec.MapSystem proofs.VClock proofs.OrswotLayer proofs.OrswotL1 proofs.OrswotL2 proofs.OrswotSystem.
From Coq Require Import ZifyBool ZifyN ZifyNat.
Local Open Scope N_scope.

(** * Part 1: the simulation *)

(** clocks of a key-level state store no zero: the state clock and the
    contexts of the pending removes.  [Map::apply_keyset_rm] compares
    [self.clock] with the context, [Orswot::apply_rm] the context with
    [self.clock]; the derived [PartialOrd] of [VClock] is antisymmetric only
    on clocks without stored zeros (see [mapply_rm_needs_wf]). *)
Definition kwf (s : orswot) : Prop :=
  vwf (oclock s) ∧ ∀ c ms, odeferred s !! c = Some ms → vwf c.

Lemma kabs_clock {V} (s : cmap V) : oclock (kabs s) = mclock s.
Proof. done. Qed.
Lemma kabs_entries {V} (s : cmap V) : oentries (kabs s) = eclock <$> mentries s.
Proof. done. Qed.
Lemma kabs_deferred {V} (s : cmap V) : odeferred (kabs s) = mdeferred s.
Proof. done. Qed.

(** two folds over the same table *)
Lemma map_fold_sim `{Countable K} {A B B'} (R : B → B' → Prop)
    (f : K → A → B → B) (f' : K → A → B' → B') b b' (m : gmap K A) :
  R b b' →
  (∀ i x r r', m !! i = Some x → R r r' → R (f i x r) (f' i x r')) →
  R (map_fold f b m) (map_fold f' b' m).
Proof.
  intros Hb Hstep. unfold map_fold. cbn.
  assert (∀ p, p ∈ map_to_list m → m !! p.1 = Some p.2) as Hl.
  { intros [i x]. apply elem_of_map_to_list. }
  induction (map_to_list m) as [|[i x] l IH]; [done|]. cbn.
  apply Hstep; [apply (Hl (i, x)); by left|]. apply IH. intros p Hp. apply Hl. by right.
Qed.

Lemma vcmp_flip a b : vwf a → vwf b →
  match vcmp a b with None | Some Lt => true | _ => false end =
  match vcmp b a with None | Some Gt => true | _ => false end.
Proof.
  intros Ha Hb. destruct (vcmp a b) as [[]|] eqn:E.
  - apply vcmp_Eq in E as ->. by rewrite (proj2 (vcmp_Eq b b)).
  - apply vcmp_Lt in E as [Hne Hle]; [|done..].
    by rewrite (proj2 (vcmp_Gt b a Hb Ha)).
  - apply vcmp_Gt in E as [Hne Hle]; [|done..].
    by rewrite (proj2 (vcmp_Lt b a Hb Ha)).
  - apply vcmp_None in E as [H1 H2]; [|done..].
    by rewrite (proj2 (vcmp_None b a Hb Ha)).
Qed.

Section sim.
  Context {V O E : Type} (vo : valops V O E).
  Implicit Types (s t : cmap V) (c : gmap N N) (ks : gset N) (k : N).

  Lemma kabs_new : kabs (mnew : cmap V) = onew.
  Proof. unfold kabs, mnew, onew. cbn. by rewrite fmap_empty. Qed.

  Lemma kabs_rm_entries (es : gmap N (mentry V)) ks c :
    eclock <$> mrm_entries vo es ks c = orm_entries (eclock <$> es) ks c.
  Proof.
    apply map_eq. intros k. unfold mrm_entries, orm_entries.
    rewrite lookup_fmap, !map_lookup_imap, lookup_fmap.
    destruct (es !! k) as [e|]; [|done]. cbn.
    case_bool_decide; [|done]. cbn. by destruct (vis_empty _).
  Qed.

  Lemma kabs_defer (df : gmap (gmap N N) (gset N)) c ks :
    <[c := default ∅ (df !! c) ∪ ks]> df = odefer df c ks.
  Proof.
    unfold odefer. destruct (df !! c); cbn; [done|]. by rewrite (left_id_L ∅ (∪)).
  Qed.

  Lemma kabs_apply_rm s ks c : vwf (mclock s) → vwf c →
    kabs (mapply_rm vo s ks c) = oapply_rm (kabs s) ks c.
  Proof.
    intros Hs Hc. unfold mapply_rm, oapply_rm. cbn [oclock oentries odeferred kabs].
    pose proof (vcmp_flip (mclock s) c Hs Hc) as Hf.
    destruct (vcmp (mclock s) c) as [[]|], (vcmp c (mclock s)) as [[]|]; try done;
      unfold kabs; cbn [mclock mentries mdeferred]; by rewrite kabs_rm_entries, ?kabs_defer.
  Qed.

  Lemma kabs_fold s (D : gmap (gmap N N) (gset N)) :
    kwf (kabs s) → (∀ c ks, D !! c = Some ks → vwf c) →
    kabs (map_fold (λ c ks acc, mapply_rm vo acc ks c) s D) =
      map_fold (λ c ks acc, oapply_rm acc ks c) (kabs s) D ∧
    mclock (map_fold (λ c ks acc, mapply_rm vo acc ks c) s D) = mclock s ∧
    (∀ c ks, mdeferred (map_fold (λ c ks acc, mapply_rm vo acc ks c) s D) !! c = Some ks → vwf c).
  Proof.
    intros [Hs Hd] HD.
    apply (map_fold_sim (λ (r : cmap V) (r' : orswot),
             kabs r = r' ∧ mclock r = mclock s ∧ ∀ c ks, mdeferred r !! c = Some ks → vwf c)); [done|].
    intros c ks r r' Hc (<- & Hr & Hrd). split_and!.
    - apply kabs_apply_rm; [by rewrite Hr|by eapply HD].
    - unfold mapply_rm. by destruct (vcmp (mclock r) c) as [[]|].
    - intros c' ks'. unfold mapply_rm.
      destruct (vcmp (mclock r) c) as [[]|]; cbn [mdeferred]; try apply Hrd;
        (destruct (decide (c' = c)) as [->|Hne];
          [intros _; by eapply HD|rewrite lookup_insert_ne by done; apply Hrd]).
  Qed.

  Lemma kabs_apply_deferred s : kwf (kabs s) →
    kabs (mapply_deferred vo s) = oapply_deferred (kabs s).
  Proof.
    intros [Hs Hd]. unfold mapply_deferred, oapply_deferred.
    apply (kabs_fold (CMap (mclock s) (mentries s) ∅) (mdeferred s)); [|done].
    split; [done|]. intros c ms. cbn. by rewrite lookup_empty.
  Qed.

  (** the only requirement on an op: a remove context stores no zero *)
  Definition mopwf (o : mop O) : Prop := match o with MRm c _ => vwf c | MUp _ _ _ => True end.

  Lemma kabs_apply s o : kwf (kabs s) → mopwf o →
    kabs (mapply vo s o) = oapply (kabs s) (oabs o).
  Proof.
    intros [Hs Hd] Ho. destruct o as [c ks|d k op]; cbn [mapply oapply oabs].
    - rewrite list_to_set_elements_L. by apply kabs_apply_rm.
    - cbn [oclock kabs]. destruct (dcounter d <=? vget (mclock s) (dactor d)); [done|].
      rewrite kabs_apply_deferred.
      + f_equal. unfold kabs. cbn [mclock mentries mdeferred oadd_entries foldl]. f_equal.
        rewrite fmap_insert. cbn [eclock oentries]. rewrite lookup_fmap. by destruct (mentries s !! k).
      + split; [by apply vapply_wf|done].
  Qed.

  Lemma kabs_merge_entries sc oc (e1 e2 : gmap N (mentry V)) :
    eclock <$> merge (mmerge_entry vo sc oc) e1 e2 =
      merge (omerge_entry sc oc) (eclock <$> e1) (eclock <$> e2).
  Proof.
    apply map_eq. intros k. rewrite lookup_fmap, !lookup_merge, !lookup_fmap.
    destruct (e1 !! k) as [x|], (e2 !! k) as [y|]; cbn; try done.
    - by destruct (vis_empty _).
    - by destruct (vge oc (eclock x)).
    - by destruct (vge sc (eclock y)).
  Qed.

  Lemma kabs_merge s t : kwf (kabs s) → kwf (kabs t) →
    kabs (mmerge vo s t) = omerge (kabs s) (kabs t).
  Proof.
    intros [Hs Hsd] [Ht Htd]. unfold mmerge, omerge. cbn [oclock oentries odeferred kabs].
    destruct (kabs_fold (CMap (mclock s) (merge (mmerge_entry vo (mclock s) (mclock t))
                                            (mentries s) (mentries t)) (mdeferred s))
                        (mdeferred t)) as (E1 & E2 & E3); [by split|done|].
    set (s1 := map_fold _ (CMap _ _ _) _) in *.
    rewrite kabs_apply_deferred.
    - f_equal. unfold kabs at 1. cbn [mclock mentries mdeferred].
      change (kabs (CMap ?a ?b ?c)) with (Orswot a (eclock <$> b) c) in E1.
      rewrite kabs_merge_entries in E1. rewrite <- E1. done.
    - split; cbn [oclock odeferred kabs mclock mdeferred]; [|done].
      apply vmerge_wf; [by rewrite E2|done].
  Qed.

  Lemma kabs_reset s c : kabs (mreset vo s c) = oreset (kabs s) c.
  Proof.
    unfold mreset, oreset, kabs. cbn [mclock mentries mdeferred oclock oentries odeferred]. f_equal.
    apply map_eq. intros k. rewrite lookup_fmap, !map_lookup_imap, lookup_fmap.
    destruct (mentries s !! k) as [e|]; [|done]. cbn. by destruct (vis_empty _).
  Qed.

  (** the invariant is kept *)
  Lemma kwf_new : kwf (kabs (mnew : cmap V)).
  Proof. split; [apply vwf_empty|]. intros c ms. cbn. by rewrite lookup_empty. Qed.

  (** reads *)
  Lemma kabs_dom s : dom (mentries s) = dom (oentries (kabs s)).
  Proof. cbn. by rewrite dom_fmap_L. Qed.
  Lemma kabs_get_rm_clock s k : rm_clock (mget s k) = rm_clock (ocontains (kabs s) k).
  Proof. cbn. by rewrite lookup_fmap. Qed.
  Lemma kabs_add_clocks s k :
    add_clock (mget s k) = oclock (kabs s) ∧ add_clock (mread_ctx s) = oclock (kabs s) ∧
    add_clock (mlen s) = oclock (kabs s) ∧ add_clock (mis_empty s) = oclock (kabs s) ∧
    rm_clock (mread_ctx s) = rm_clock (oread_ctx (kabs s)) ∧
    rm_clock (mlen s) = oclock (kabs s) ∧ rm_clock (mis_empty s) = oclock (kabs s).
  Proof. done. Qed.
  Lemma kabs_contains s k :
    bool_decide (is_Some (mentries s !! k)) = rval (ocontains (kabs s) k).
  Proof. cbn. apply bool_decide_ext. by rewrite lookup_fmap, fmap_is_Some. Qed.
  Lemma kabs_get_present s k : is_Some (rval (mget s k)) ↔ rval (ocontains (kabs s) k) = true.
  Proof. cbn. by rewrite bool_decide_eq_true, lookup_fmap, !fmap_is_Some. Qed.
End sim.

(** The hypotheses of [kabs_apply_rm] are needed: with a stored zero the two
    comparisons disagree and only the Orswot files the remove as pending. *)
Example mapply_rm_needs_wf :
  let s : cmap unit := CMap ∅ ∅ ∅ in
  let vo : valops unit unit unit := ValOps tt (λ _ _, tt) (λ _ _, tt) (λ _ _, tt) (λ _ _, None) (λ _ _, true) in
  let c : gmap N N := {[1 := 0]} in
  mdeferred (mapply_rm vo s {[7]} c) = ∅ ∧ odeferred (oapply_rm (kabs s) {[7]} c) = {[c := {[7]}]}.
Proof. split; apply (bool_decide_unpack _); by vm_compute. Qed.

(** * Part 2: transfer through the replicated-system framework *)

Lemma hmap_lookup {Op Op'} (aop : Op → Op') (H : list (oprec Op)) i :
  hmap aop H !! i = (λ r, OpRec (op_author r) (aop (op_val r)) (op_deps r)) <$> H !! i.
Proof. apply list_lookup_fmap. Qed.
Lemma hmap_lookup_Some {Op Op'} (aop : Op → Op') (H : list (oprec Op)) i r :
  H !! i = Some r → hmap aop H !! i = Some (OpRec (op_author r) (aop (op_val r)) (op_deps r)).
Proof. intros Hi. by rewrite hmap_lookup, Hi. Qed.
Lemma hmap_lookup_inv {Op Op'} (aop : Op → Op') (H : list (oprec Op)) i r' :
  hmap aop H !! i = Some r' →
  ∃ r, H !! i = Some r ∧ r' = OpRec (op_author r) (aop (op_val r)) (op_deps r).
Proof. rewrite hmap_lookup. destruct (H !! i) as [r|]; [|done]. intros [= <-]. by exists r. Qed.
Lemma hmap_app {Op Op'} (aop : Op → Op') (H1 H2 : list (oprec Op)) :
  hmap aop (H1 ++ H2) = hmap aop H1 ++ hmap aop H2.
Proof. apply fmap_app. Qed.
Lemma hmap_length {Op Op'} (aop : Op → Op') (H : list (oprec Op)) : length (hmap aop H) = length H.
Proof. apply fmap_length. Qed.

(** admissibility only looks at indices, authors and dependencies *)
Lemma adm_per_actor_hmap {Op Op'} (aop : Op → Op') (H : list (oprec Op)) K i :
  adm_per_actor H K i ↔ adm_per_actor (hmap aop H) K i.
Proof.
  split.
  - intros (r & Hi & Hd). eexists. split; [by apply hmap_lookup_Some|]. cbn [op_author].
    intros j r' Hj (r0 & Hr0 & ->)%hmap_lookup_inv Ha. by apply (Hd j r0).
  - intros (r' & (r & Hi & ->)%hmap_lookup_inv & Hd). exists r. split; [done|].
    intros j r0 Hj Hr0 Ha. eapply (Hd j); [done|by apply hmap_lookup_Some|done].
Qed.
Lemma adm_causal_hmap {Op Op'} (aop : Op → Op') (H : list (oprec Op)) K i :
  adm_causal H K i ↔ adm_causal (hmap aop H) K i.
Proof.
  split.
  - intros (r & Hi & Hd). eexists. split; [by apply hmap_lookup_Some|done].
  - intros (r' & (r & Hi & ->)%hmap_lookup_inv & Hd). by exists r.
Qed.
Lemma adm_any_hmap {Op Op'} (aop : Op → Op') (H : list (oprec Op)) K i :
  adm_any H K i ↔ adm_any (hmap aop H) K i.
Proof. unfold adm_any. by rewrite hmap_lookup, fmap_is_Some. Qed.
Lemma own_known_hmap {Op Op'} (aop : Op → Op') (H : list (oprec Op)) a K :
  own_known H a K ↔ own_known (hmap aop H) a K.
Proof.
  split.
  - intros Ho j r' (r & Hr & ->)%hmap_lookup_inv Ha. by apply (Ho j r).
  - intros Ho j r Hr Ha. eapply (Ho j); [by apply hmap_lookup_Some|done].
Qed.

(** an abstraction that commutes with [init], [apply] and [merge] (on the
    states whose abstraction is reachable) maps reachable states to reachable
    states of the abstract system, with the same knowledge *)
Section reach_sim.
  Context {St Op St' Op' : Type}.
  Context (init : St) (apply : St → Op → St) (merge : St → St → St).
  Context (init' : St') (apply' : St' → Op' → St') (merge' : St' → St' → St').
  Context (adm : adm_t Op) (adm' : adm_t Op') (mergeable : Prop).
  Context (abs : St → St') (aop : Op → Op').
  Notation reachC := (reach init apply merge adm mergeable).
  Notation reachA := (reach init' apply' merge' adm' mergeable).

  Lemma reach_sim H :
    (∀ K i, adm H K i → adm' (hmap aop H) K i) →
    abs init = init' →
    (∀ s K i r, reachA (hmap aop H) (abs s) K → H !! i = Some r →
                abs (apply s (op_val r)) = apply' (abs s) (aop (op_val r))) →
    (∀ s1 K1 s2 K2, reachA (hmap aop H) (abs s1) K1 → reachA (hmap aop H) (abs s2) K2 →
                    abs (merge s1 s2) = merge' (abs s1) (abs s2)) →
    ∀ s K, reachC H s K → reachA (hmap aop H) (abs s) K.
  Proof.
    intros Hadm Hinit Happ Hmrg s K.
    induction 1 as [|s K i o Hr IH Ho Ha|s1 K1 s2 K2 Hm Hr1 IH1 Hr2 IH2].
    - rewrite Hinit. constructor.
    - rewrite (Happ s K i o IH Ho).
      apply (reach_apply _ _ _ _ _ _ _ _ i (OpRec (op_author o) (aop (op_val o)) (op_deps o)));
        [done|by apply hmap_lookup_Some|by apply Hadm].
    - rewrite (Hmrg s1 K1 s2 K2 IH1 IH2). by apply reach_merge.
  Qed.
End reach_sim.

(** ** the Map instance *)
Notation mapreach vo := (reach mnew (mapply vo) (mmerge vo) adm_per_actor True).
Notation maphist_ok vo := (hist_ok mnew (mapply vo) (mmerge vo) (mgen vo) adm_per_actor True).

Lemma oreach_kwf H s K : owfH H → oreach H s K → kwf s.
Proof.
  intros HH Hr. destruct (orswot_reach_spec _ _ _ HH Hr) as [-> _]. split; [apply ospec_clock_vwf|].
  intros c ms Hc. by destruct (ospec_deferred_inv _ _ _ _ HH Hc).
Qed.

Lemma owfH_habs_mopwf {O} (H : list (oprec (mop O))) i r :
  owfH (habs H) → H !! i = Some r → mopwf (op_val r).
Proof.
  intros HH Hi. specialize (HH i _ (hmap_lookup_Some oabs H i r Hi)). cbn [op_val] in HH.
  by destruct (op_val r).
Qed.

Section map_system.
  Context {V O E : Type} (vo : valops V O E).

  Theorem map_reach_sim (H : list (oprec (mop O))) s K :
    owfH (habs H) → mapreach vo H s K → oreach (habs H) (kabs s) K.
  Proof.
    intros HH. apply (reach_sim mnew (mapply vo) (mmerge vo) onew oapply omerge
                        adm_per_actor adm_per_actor True kabs oabs H).
    - intros K' i. apply adm_per_actor_hmap.
    - apply kabs_new.
    - intros s' K' i r Hr Hi. apply kabs_apply; [by eapply oreach_kwf|by eapply owfH_habs_mopwf].
    - intros s1 K1 s2 K2 H1 H2. apply kabs_merge; by eapply oreach_kwf.
  Qed.

  Lemma mgen_cabs s a cmd o : mgen vo s a cmd = Some o → ogen (kabs s) a (cabs cmd) = Some (oabs o).
  Proof.
    destruct cmd as [k f|ks [k'|]]; cbn; intros [= <-]; cbn; try done.
    by rewrite lookup_fmap.
  Qed.

  Theorem maphist_ok_abs (H : list (oprec (mop O))) : maphist_ok vo H → ohist_ok (habs H).
  Proof.
    induction 1 as [|H s K a cmd o Hok IH Hr Hown Hgen]; [constructor|].
    unfold habs. rewrite hmap_app. cbn.
    apply (hist_snoc _ _ _ _ _ _ (habs H) (kabs s) K a (cabs cmd) (oabs o)); [done| | |].
    - apply map_reach_sim; [|done]. by apply ohist_ok_wf.
    - by apply own_known_hmap.
    - by apply mgen_cabs.
  Qed.

  Corollary maphist_ok_wf (H : list (oprec (mop O))) : maphist_ok vo H → owfH (habs H).
  Proof. intros Hok. by apply ohist_ok_wf, maphist_ok_abs. Qed.
End map_system.

(** * Part 3: the key-level theorems of [Map] *)

(** ** the key-level specification of [Map] (spec/MapSpec.v) is the [Orswot]
    specification of the abstracted ops *)
Lemma known_ops_hmap_gen {Op Op'} (aop : Op → Op') (H : list (oprec Op)) (K : gset nat) (f : nat → nat) :
  omap (λ p : nat * oprec Op', if bool_decide (p.1 ∈ K) then Some (op_val p.2) else None)
       (imap (λ i x, (f i, x)) (hmap aop H)) =
  aop <$> omap (λ p : nat * oprec Op, if bool_decide (p.1 ∈ K) then Some (op_val p.2) else None)
               (imap (λ i x, (f i, x)) H).
Proof.
  revert f. induction H as [|r H IH]; intros f; [done|]. cbn.
  case_bool_decide; cbn; [f_equal|]; apply (IH (f ∘ S)).
Qed.
Lemma known_ops_hmap {Op Op'} (aop : Op → Op') (H : list (oprec Op)) K :
  known_ops (hmap aop H) K = aop <$> known_ops H K.
Proof. apply (known_ops_hmap_gen aop H K id). Qed.

Section spec_abs.
  Context {O : Type}.
  Implicit Types (os : list (mop O)) (k : N) (d : dot).

  Lemma known_ops_habs (H : list (oprec (mop O))) K : known_ops (habs H) K = oabs <$> known_ops H K.
  Proof. apply known_ops_hmap. Qed.

  Lemma mall_dots_abs os : mall_dots os = fst <$> adds_of (oabs <$> os).
  Proof. induction os as [|[c ks|d k o] os IH]; cbn; [done|done|by f_equal]. Qed.
  Lemma mspec_clock_abs os : mspec_clock os = ospec_clock (oabs <$> os).
  Proof. unfold mspec_clock, ospec_clock. by rewrite mall_dots_abs. Qed.

  Lemma mkeys_mentioned_abs os : mkeys_mentioned os = concat (snd <$> adds_of (oabs <$> os)).
  Proof. induction os as [|[c ks|d k o] os IH]; cbn; [done|done|by f_equal]. Qed.

  Lemma mcovered_abs os k d : mcovered os k d = covered (rms_of (oabs <$> os)) k d.
  Proof.
    unfold mcovered, covered. induction os as [|[c ks|d' k' o] os IH]; cbn; [done| |done].
    rewrite IH. f_equal. f_equal. apply bool_decide_ext. by rewrite elem_of_elements.
  Qed.

  Lemma mlive_dots_abs_gen os0 os k :
    omap (λ o : mop O, match o with
                       | MUp d k' _ => if bool_decide (k' = k) && negb (mcovered os0 k d) then Some d else None
                       | MRm _ _ => None
                       end) os =
    omap (λ a : dot * list N,
            if bool_decide (k ∈ a.2) && negb (covered (rms_of (oabs <$> os0)) k a.1) then Some a.1 else None)
         (adds_of (oabs <$> os)).
  Proof.
    induction os as [|[c ks|d k' o] os IH]; cbn; [done|done|].
    rewrite IH, mcovered_abs.
    replace (bool_decide (k ∈ [k'])) with (bool_decide (k' = k)); [done|].
    apply bool_decide_ext. rewrite elem_of_list_singleton. naive_solver.
  Qed.
  Lemma mlive_dots_abs os k : mlive_dots os k = live_dots (oabs <$> os) k.
  Proof. apply mlive_dots_abs_gen. Qed.
  Lemma mspec_entry_clock_abs os k : mspec_entry_clock os k = ospec_entry (oabs <$> os) k.
  Proof. unfold mspec_entry_clock, ospec_entry. by rewrite mlive_dots_abs. Qed.

  Lemma mspec_keys_abs os : mspec_keys os = dom (ospec_entries (oabs <$> os)).
  Proof.
    apply set_eq. intros k. unfold mspec_keys.
    rewrite elem_of_list_to_set, elem_of_list_In, filter_In, <- elem_of_list_In, elem_of_dom.
    rewrite mspec_entry_clock_abs, mkeys_mentioned_abs.
    unfold ospec_entries. rewrite fn_map_lookup.
    destruct (decide (k ∈ _)) as [Hin|Hin]; rewrite elem_of_list_to_set in Hin.
    - cbn zeta. destruct (vis_empty (ospec_entry (oabs <$> os) k)); cbn; split.
      + by intros [_ ?].
      + by intros [? ?].
      + by eexists.
      + done.
    - split; [by intros [? _]|by intros [? ?]].
  Qed.

  (** the sentence: a surviving witness of [k] is the dot of an applied update
      of [k] that no applied remove naming [k] covers *)
  Lemma mcovered_spec os k d :
    mcovered os k d = true ↔ ∃ c ks, MRm c ks ∈ os ∧ k ∈ ks ∧ dcounter d <= vget c (dactor d).
  Proof.
    rewrite mcovered_abs, covered_spec. split.
    - intros (c & ms & Hin & Hk & Hle). apply elem_of_list_fmap in Hin as ([c' ks|] & Heq & Hin); [|done].
      cbn in Heq. injection Heq as -> ->. exists c', ks. by rewrite <- elem_of_elements.
    - intros (c & ks & Hin & Hk & Hle). exists c, (elements ks). split_and!; [|by rewrite elem_of_elements|done].
      apply elem_of_list_fmap. by exists (MRm c ks).
  Qed.
  Lemma elem_of_mlive_dots os k d :
    d ∈ mlive_dots os k ↔
      (∃ o, MUp d k o ∈ os) ∧
      ¬ ∃ c ks, MRm c ks ∈ os ∧ k ∈ ks ∧ dcounter d <= vget c (dactor d).
  Proof.
    rewrite <- mcovered_spec. unfold mlive_dots. rewrite elem_of_list_omap. split.
    - intros ([c ks|d' k' o] & Hin & Hb); [done|].
      case_bool_decide as Hk; [|done]. subst k'. destruct (mcovered os k d') eqn:Ec; [done|].
      cbn in Hb. injection Hb as ->. split; [by exists o|]. by rewrite Ec.
    - intros [[o Hin] Hc]. exists (MUp d k o). split; [done|].
      rewrite bool_decide_eq_true_2 by done. by destruct (mcovered os k d).
  Qed.
End spec_abs.

(** ** the theorems, for histories whose key-level view is structurally
    well-formed ([owfH (habs H)]: the n-th update of an actor carries the dot
    (actor, n), remove contexts store no zero) - in particular for every
    API-generated history ([maphist_ok_wf]) *)
Section map_keys.
  Context {V O E : Type} (vo : valops V O E) (H : list (oprec (mop O))).
  Context (HH : owfH (habs H)).
  Implicit Types (s : cmap V) (K : gset nat) (k : N).

  (** every theorem about reachable [Orswot] states holds of the key layer *)
  Theorem map_keys_inherit (P : orswot → gset nat → Prop) :
    (∀ t K, oreach (habs H) t K → P t K) → ∀ s K, mapreach vo H s K → P (kabs s) K.
  Proof. intros HP s K Hr. apply HP. by apply (map_reach_sim vo). Qed.

  (** 1. map clock, key set with entry clocks and pending-remove table are
      functions of the knowledge set *)
  Theorem map_keys_reach_spec s K : mapreach vo H s K →
    kabs s = ospec (habs H) K ∧ ovalid (habs H) K.
  Proof. intros Hr. apply orswot_reach_spec; [done|by apply (map_reach_sim vo)]. Qed.

  (** ... the same in terms of the key-level specification of spec/MapSpec.v *)
  Theorem map_keys_reach_mspec s K : mapreach vo H s K →
    mclock s = mspec_clock (known_ops H K) ∧
    mkeys s = mspec_keys (known_ops H K) ∧
    (∀ k, mentry_clock s k = mspec_entry_clock (known_ops H K) k) ∧
    mdeferred s = ospec_deferred (oabs <$> known_ops H K).
  Proof.
    intros Hr. destruct (map_keys_reach_spec s K Hr) as [Es _].
    unfold ospec in Es. rewrite known_ops_habs in Es. split_and!.
    - rewrite mspec_clock_abs. exact (f_equal oclock Es).
    - rewrite mspec_keys_abs. unfold mkeys. rewrite kabs_dom. by rewrite Es.
    - intros k. rewrite mspec_entry_clock_abs, <- ospec_entries_default.
      change (ospec_entries (oabs <$> known_ops H K)) with (oentries (ospec_of (oabs <$> known_ops H K))).
      rewrite <- Es. cbn. rewrite lookup_fmap. unfold mentry_clock. by destruct (mentries s !! k).
    - exact (f_equal odeferred Es).
  Qed.

  (** 2. the monitor's executable check holds of every reachable state *)
  Theorem map_keyspec_ok s K : mapreach vo H s K → mkeyspec_ok H K s = true.
  Proof.
    intros Hr. destruct (map_keys_reach_mspec s K Hr) as (E1 & E2 & E3 & _).
    unfold mkeyspec_ok. rewrite !andb_true_iff, !bool_decide_eq_true, forallb_forall.
    split_and!; [done|done|]. intros k _. by apply bool_decide_eq_true.
  Qed.

  (** 3. C05 at key level: a key is present iff some applied update of it is
      covered by no applied remove naming it; the context handed out by [get]
      is the join of the surviving update dots *)
  Theorem map_key_present_iff s K k : mapreach vo H s K →
    (k ∈ dom (mentries s) ↔ ∃ d, d ∈ mlive_dots (known_ops H K) k) ∧
    (k ∈ dom (mentries s) ↔
       ∃ d o, MUp d k o ∈ known_ops H K ∧
              ¬ ∃ c ks, MRm c ks ∈ known_ops H K ∧ k ∈ ks ∧ dcounter d <= vget c (dactor d)) ∧
    rm_clock (mget s k) = mspec_entry_clock (known_ops H K) k ∧
    (is_Some (rval (mget s k)) ↔ k ∈ dom (mentries s)).
  Proof.
    intros Hr. destruct (map_keys_reach_spec s K Hr) as [Es _].
    assert (k ∈ dom (mentries s) ↔ ∃ d, d ∈ mlive_dots (known_ops H K) k) as Hiff.
    { rewrite kabs_dom, Es. change (dom (oentries ?x)) with (rval (oread x)).
      rewrite <- (c04_member_read _ _ _ HH). unfold c04_member.
      rewrite known_ops_habs, <- mlive_dots_abs.
      destruct (mlive_dots (known_ops H K) k) as [|d l]; split; try done.
      - by intros [? ?%elem_of_nil].
      - intros _. exists d. by left. }
    split_and!; [done| | |].
    - rewrite Hiff. setoid_rewrite elem_of_mlive_dots. split.
      + intros (d & [o Ho] & Hn). by exists d, o.
      + intros (d & o & Ho & Hn). exists d. split; [by exists o|done].
    - destruct (map_keys_reach_mspec s K Hr) as (_ & _ & E3 & _). rewrite <- E3.
      cbn. unfold mentry_clock. by destruct (mentries s !! k).
    - cbn. by rewrite elem_of_dom, fmap_is_Some.
  Qed.

  (** 4. convergence of the key layer: equal knowledge gives the same clock,
      the same keys with the same contexts and the same pending removes, under
      per-actor delivery with duplicates and merges *)
  Theorem map_keys_converge s1 s2 K : mapreach vo H s1 K → mapreach vo H s2 K →
    kabs s1 = kabs s2.
  Proof.
    intros H1 H2. destruct (map_keys_reach_spec _ _ H1) as [-> _].
    by destruct (map_keys_reach_spec _ _ H2) as [-> _].
  Qed.
  Corollary map_keys_converge_reads s1 s2 K : mapreach vo H s1 K → mapreach vo H s2 K →
    mclock s1 = mclock s2 ∧ dom (mentries s1) = dom (mentries s2) ∧
    (∀ k, rm_clock (mget s1 k) = rm_clock (mget s2 k)) ∧
    (∀ k, add_clock (mget s1 k) = add_clock (mget s2 k)) ∧
    mread_ctx s1 = mread_ctx s2 ∧
    rval (mlen s1) = rval (mlen s2) ∧ rval (mis_empty s1) = rval (mis_empty s2) ∧
    mdeferred s1 = mdeferred s2.
  Proof.
    intros H1 H2. pose proof (map_keys_converge _ _ _ H1 H2) as Eq.
    pose proof (f_equal oclock Eq) as Ec. pose proof (f_equal odeferred Eq) as Ed.
    pose proof (f_equal oentries Eq) as Ee. cbn in Ec, Ed, Ee.
    assert (dom (mentries s1) = dom (mentries s2)) as Edom.
    { by rewrite <- (dom_fmap_L eclock (mentries s1)), Ee, dom_fmap_L. }
    split_and!; try done.
    - intros k. cbn. by rewrite <- !lookup_fmap, Ee.
    - unfold mread_ctx. by rewrite Ec.
    - cbn. f_equal. by rewrite <- !size_dom, Edom.
    - cbn. apply bool_decide_ext. by rewrite <- !dom_empty_iff_L, Edom.
  Qed.

  (** 5. on the key layer [mmerge] is a join on reachable states, and merging
      is having learned the union *)
  Lemma mmerge_reach s1 K1 s2 K2 : mapreach vo H s1 K1 → mapreach vo H s2 K2 →
    mapreach vo H (mmerge vo s1 s2) (K1 ∪ K2).
  Proof. intros. by apply reach_merge. Qed.

  Theorem map_keys_merge_laws s1 K1 s2 K2 s3 K3 :
    mapreach vo H s1 K1 → mapreach vo H s2 K2 → mapreach vo H s3 K3 →
    kabs (mmerge vo s1 s2) = kabs (mmerge vo s2 s1) ∧
    kabs (mmerge vo (mmerge vo s1 s2) s3) = kabs (mmerge vo s1 (mmerge vo s2 s3)) ∧
    kabs (mmerge vo s1 s1) = kabs s1 ∧
    kabs (mmerge vo s1 s2) = ospec (habs H) (K1 ∪ K2) ∧
    kabs (mmerge vo s1 s2) = omerge (kabs s1) (kabs s2).
  Proof.
    intros H1 H2 H3.
    assert (∀ s K, mapreach vo H s K → kabs s = ospec (habs H) K) as Hs.
    { intros s K Hr. by destruct (map_keys_reach_spec _ _ Hr). }
    split_and!.
    - rewrite (Hs _ _ (mmerge_reach _ _ _ _ H1 H2)), (Hs _ _ (mmerge_reach _ _ _ _ H2 H1)).
      by rewrite (comm_L (∪) K1 K2).
    - rewrite (Hs _ _ (mmerge_reach _ _ _ _ (mmerge_reach _ _ _ _ H1 H2) H3)),
              (Hs _ _ (mmerge_reach _ _ _ _ H1 (mmerge_reach _ _ _ _ H2 H3))).
      by rewrite (assoc_L (∪) K1 K2 K3).
    - rewrite (Hs _ _ (mmerge_reach _ _ _ _ H1 H1)), (idemp_L (∪) K1). symmetry. by apply Hs.
    - apply Hs. by apply mmerge_reach.
    - apply kabs_merge; eapply oreach_kwf; try done; by apply (map_reach_sim vo).
  Qed.

  (** duplicates and stale states are absorbed (C09 at key level) *)
  Theorem map_keys_absorb s K i r s' K' :
    mapreach vo H s K → mapreach vo H s' K' →
    (H !! i = Some r → i ∈ K → kabs (mapply vo s (op_val r)) = kabs s) ∧
    (K' ⊆ K → kabs (mmerge vo s s') = kabs s).
  Proof.
    intros H1 H2. pose proof (map_reach_sim vo H _ _ HH H1) as A1.
    pose proof (map_reach_sim vo H _ _ HH H2) as A2.
    pose proof (oreach_kwf _ _ _ HH A1) as W1. pose proof (oreach_kwf _ _ _ HH A2) as W2.
    destruct (orswot_reach_spec _ _ _ HH A1) as [Es Hval]. split.
    - intros Hi HiK. rewrite kabs_apply; [|done|by eapply owfH_habs_mopwf].
      pose proof (hmap_lookup_Some oabs H i r Hi) as Hi'.
      assert (adm_per_actor (habs H) K i) as Hadm.
      { eexists. split; [exact Hi'|]. intros j r' Hj Hl Ha. by eapply (proj2 Hval i j _ r'). }
      pose proof (orswot_L1 (habs H) K i _ HH Hval Hadm Hi') as L1. cbn [op_val] in L1.
      rewrite Es at 1. rewrite L1, Es. f_equal. set_solver.
    - intros Hsub. rewrite kabs_merge by done. destruct (orswot_reach_spec _ _ _ HH A2) as [Es' Hval'].
      rewrite Es at 1. rewrite Es'. rewrite (orswot_L2 (habs H) K K' HH Hval Hval'), Es. f_equal. set_solver.
  Qed.

  (** 6. a key all of whose applied updates are covered is absent, whatever
      else the replica has learned, in any order *)
  Theorem map_removed_key_stays_absent s K k : mapreach vo H s K →
    mlive_dots (known_ops H K) k = [] → mentries s !! k = None.
  Proof.
    intros Hr Hl. apply not_elem_of_dom. rewrite (proj1 (map_key_present_iff s K k Hr)), Hl.
    by intros [? ?%elem_of_nil].
  Qed.
  Corollary map_removed_key_stays_absent' s K k : mapreach vo H s K →
    (∀ d o, MUp d k o ∈ known_ops H K →
            ∃ c ks, MRm c ks ∈ known_ops H K ∧ k ∈ ks ∧ dcounter d <= vget c (dactor d)) →
    mentries s !! k = None ∧ rval (mget s k) = None ∧ rm_clock (mget s k) = ∅.
  Proof.
    intros Hr Hcov.
    assert (mentries s !! k = None) as Hn.
    { apply (map_removed_key_stays_absent s K k Hr).
      destruct (mlive_dots (known_ops H K) k) as [|d l] eqn:El; [done|]. exfalso.
      assert (d ∈ mlive_dots (known_ops H K) k) as Hd by (rewrite El; by left).
      apply elem_of_mlive_dots in Hd as [[o Ho] Hnc]. apply Hnc. by eapply Hcov. }
    cbn. by rewrite Hn.
  Qed.
End map_keys.

(** ** for API-generated histories *)
Section map_keys_api.
  Context {V O E : Type} (vo : valops V O E) (H : list (oprec (mop O))).
  Context (Hok : maphist_ok vo H).
  Let HH : owfH (habs H) := maphist_ok_wf vo H Hok.
  Let Hok' : ohist_ok (habs H) := maphist_ok_abs vo H Hok.
  Implicit Types (s : cmap V) (K : gset nat) (k : N).

  Lemma elem_of_oabs_rm (os : list (mop O)) c ms :
    ORm c ms ∈ oabs <$> os ↔ ∃ ks, MRm c ks ∈ os ∧ ms = elements ks.
  Proof.
    rewrite elem_of_list_fmap. split.
    - intros ([c' ks|] & Heq & Hin); [|done]. cbn in Heq. injection Heq as -> ->. by exists ks.
    - intros (ks & Hin & ->). by exists (MRm c ks).
  Qed.

  Theorem map_keys_api s K k : mapreach vo H s K →
    kabs s = ospec (habs H) K ∧
    mkeyspec_ok H K s = true ∧
    (k ∈ dom (mentries s) ↔
       ∃ d o, MUp d k o ∈ known_ops H K ∧
              ¬ ∃ c ks, MRm c ks ∈ known_ops H K ∧ k ∈ ks ∧ dcounter d <= vget c (dactor d)) ∧
    rm_clock (mget s k) = mspec_entry_clock (known_ops H K) k ∧
    (mlive_dots (known_ops H K) k = [] → mentries s !! k = None).
  Proof.
    intros Hr. split_and!.
    - by destruct (map_keys_reach_spec vo H HH s K Hr).
    - by apply (map_keyspec_ok vo H HH).
    - by destruct (map_key_present_iff vo H HH s K k Hr) as (_ & ? & _).
    - by destruct (map_key_present_iff vo H HH s K k Hr) as (_ & _ & ? & _).
    - by apply (map_removed_key_stays_absent vo H HH).
  Qed.

  Theorem map_keys_converge_api s1 s2 K : mapreach vo H s1 K → mapreach vo H s2 K → kabs s1 = kabs s2.
  Proof. by apply (map_keys_converge vo H HH). Qed.

  (** the pending-remove table holds exactly the applied removes whose context
      the map clock does not cover yet (C08 at key level); no entry has an empty
      clock *)
  Theorem map_keys_pending s K c : mapreach vo H s K →
    (∀ ks, mdeferred s !! c = Some ks →
           vwf c ∧ c ≠ ∅ ∧ vle c (mclock s) = false ∧
           ∀ k, k ∈ ks ↔ ∃ ks', MRm c ks' ∈ known_ops H K ∧ k ∈ ks') ∧
    ((∃ ks, MRm c ks ∈ known_ops H K) → vle c (mclock s) = false → is_Some (mdeferred s !! c)) ∧
    (vle c (mclock s) = true → mdeferred s !! c = None) ∧
    (∀ k e, mentries s !! k = Some e → eclock e ≠ ∅).
  Proof.
    intros Hr. pose proof (map_reach_sim vo H s K HH Hr) as Hr'.
    destruct (orswot_pending (habs H) Hok' (kabs s) K c Hr') as (P1 & P2 & P3 & P4).
    cbn [kabs oclock oentries odeferred] in *. split_and!.
    - intros ks Hks. destruct (P1 ks Hks) as (? & ? & ? & ->). split_and!; try done.
      intros k. rewrite elem_of_rm_members, known_ops_habs. split.
      + intros (ms & (ks' & Hin & ->)%elem_of_oabs_rm & Hk). exists ks'. by rewrite <- elem_of_elements.
      + intros (ks' & Hin & Hk). exists (elements ks'). split; [|by rewrite elem_of_elements].
        apply elem_of_oabs_rm. by exists ks'.
    - intros [ks Hin]. apply P2. exists (elements ks). rewrite known_ops_habs.
      apply elem_of_oabs_rm. by exists ks.
    - done.
    - intros k e He. apply (P4 k). by rewrite lookup_fmap, He.
  Qed.

  (** the dot an update gets from a read of the author's own replica is fresh:
      no op of the history carries it (C07 at key level) *)
  Theorem map_update_dot_fresh s K a : mapreach vo H s K → own_known H a K →
    let d := ac_dot (derive_add_ctx (mread_ctx s) a) in
    dactor d = a ∧ dcounter d = vget (mclock s) a + 1 ∧
    ∀ j r k o, H !! j = Some r → op_val r ≠ MUp d k o.
  Proof.
    intros Hr Hown d. pose proof (map_reach_sim vo H s K HH Hr) as Hr'.
    destruct (orswot_contexts (habs H) Hok' (kabs s) K a 0 Hr') as (_ & _ & _ & _ & _ & _ & Hf).
    destruct (Hf (proj1 (own_known_hmap oabs H a K) Hown)) as (Ha & _ & Hfresh).
    split_and!; [done|done|].
    intros j r k o Hj Hv. apply (Hfresh j _ [k] (hmap_lookup_Some oabs H j r Hj)).
    cbn [op_val]. by rewrite Hv.
  Qed.
End map_keys_api.

(** ** non-vacuity: two replicas update key 7 concurrently; actor 1 then removes
    the key with the context [get(7)] gave it after its own update only.  The
    history is API-generated, the replica that has applied all three ops is
    reachable, and the key is still present there, witnessed by actor 2's dot. *)
Section example.
  Let vo := mvreg_valops.
  Let up (v : N) : mcmd (list (gmap N N * N)) mvop := MCUp 7 (λ _ ctx, mvwrite v ctx).
  Let o0 : mop mvop := MUp (Dot 1 1) 7 (MVPut {[1 := 1]} 5).
  Let o1 : mop mvop := MUp (Dot 2 1) 7 (MVPut {[2 := 1]} 6).
  Let o2 : mop mvop := MRm {[1 := 1]} {[7]}.
  Let H : list (oprec (mop mvop)) := [OpRec 1 o0 ∅; OpRec 2 o1 ∅; OpRec 1 o2 (∅ ∪ {[0%nat]})].
  Let K : gset nat := ∅ ∪ {[0%nat]} ∪ {[1%nat]} ∪ {[2%nat]}.
  Let s := mapply vo (mapply vo (mapply vo mnew o0) o1) o2.

  Example map_keys_example :
    maphist_ok vo H ∧ mapreach vo H s K ∧
    known_ops H K = [o0; o1; o2] ∧
    7 ∈ dom (mentries s) ∧
    rm_clock (mget s 7) = {[2 := 1]} ∧
    mlive_dots (known_ops H K) 7 = [Dot 2 1] ∧
    mkeyspec_ok H K s = true ∧
    (* the replica that has not seen actor 2's update has no key *)
    mapreach vo H (mapply vo (mapply vo mnew o0) o2) (∅ ∪ {[0%nat]} ∪ {[2%nat]}) ∧
    mentries (mapply vo (mapply vo mnew o0) o2) = ∅.
  Proof.
    assert (∀ (H' : list (oprec (mop mvop))) K' i r, H' !! i = Some r →
              (∀ j, (j < i)%nat → j ∈ K') → adm_per_actor H' K' i) as Hadm.
    { intros H' K' i r Hi Hlt. exists r. split; [done|]. intros j r' Hj _ _. by apply Hlt. }
    assert (maphist_ok vo H) as Hok.
    { change H with ((([] ++ [OpRec 1 o0 ∅]) ++ [OpRec 2 o1 ∅]) ++ [OpRec 1 o2 (∅ ∪ {[0%nat]})]).
      apply (hist_snoc _ _ _ _ _ _ _ (mapply vo mnew o0) _ 1 (MCRm {[7]} (Some 7))).
      - apply (hist_snoc _ _ _ _ _ _ _ mnew _ 2 (up 6)).
        + apply (hist_snoc _ _ _ _ _ _ _ mnew _ 1 (up 5)); [constructor|constructor| |by vm_compute].
          intros j r Hj. by rewrite lookup_nil in Hj.
        + constructor.
        + intros [|j] r Hj Ha; cbn in Hj; simplify_eq.
        + by vm_compute.
      - apply (reach_apply _ _ _ _ _ _ mnew ∅ 0%nat (OpRec 1 o0 ∅)); [constructor|done|].
        eapply Hadm; [done|]. intros j Hj. lia.
      - intros [|[|j]] r Hj Ha; cbn in Hj; simplify_eq. set_solver.
      - by vm_compute. }
    assert (mapreach vo H (mapply vo mnew o0) (∅ ∪ {[0%nat]})) as R0.
    { apply (reach_apply _ _ _ _ _ _ mnew ∅ 0%nat (OpRec 1 o0 ∅)); [constructor|done|].
      eapply Hadm; [done|]. intros j Hj. lia. }
    split_and!.
    - done.
    - apply (reach_apply _ _ _ _ _ _ _ _ 2%nat (OpRec 1 o2 (∅ ∪ {[0%nat]}))); [|done|].
      + apply (reach_apply _ _ _ _ _ _ _ _ 1%nat (OpRec 2 o1 ∅)); [done|done|].
        eapply Hadm; [done|]. intros j Hj. assert (j = 0%nat) as -> by lia. set_solver.
      + eapply Hadm; [done|]. intros j Hj. assert (j = 0%nat ∨ j = 1%nat) as [-> | ->] by lia; set_solver.
    - by vm_compute.
    - apply (bool_decide_unpack _). by vm_compute.
    - apply (bool_decide_unpack _). by vm_compute.
    - by vm_compute.
    - by vm_compute.
    - apply (reach_apply _ _ _ _ _ _ _ _ 2%nat (OpRec 1 o2 (∅ ∪ {[0%nat]}))); [done|done|].
      exists (OpRec 1 o2 (∅ ∪ {[0%nat]})). split; [done|].
      intros [|[|j]] r Hj Hr Ha; cbn in Hr; simplify_eq; [set_solver|lia].
    - apply (bool_decide_unpack _). by vm_compute.
  Qed.
End example.

Print Assumptions kabs_apply_rm.
Print Assumptions kabs_apply_deferred.
Print Assumptions kabs_apply.
Print Assumptions kabs_merge.
Print Assumptions kabs_reset.
Print Assumptions kabs_add_clocks.
Print Assumptions mapply_rm_needs_wf.
Print Assumptions reach_sim.
Print Assumptions map_reach_sim.
Print Assumptions maphist_ok_abs.
Print Assumptions map_keys_inherit.
Print Assumptions map_keys_reach_spec.
Print Assumptions map_keys_reach_mspec.
Print Assumptions map_keyspec_ok.
Print Assumptions map_key_present_iff.
Print Assumptions map_keys_converge.
Print Assumptions map_keys_converge_reads.
Print Assumptions map_keys_merge_laws.
Print Assumptions map_keys_absorb.
Print Assumptions map_removed_key_stays_absent.
Print Assumptions map_removed_key_stays_absent'.
Print Assumptions map_keys_api.
Print Assumptions map_keys_converge_api.
Print Assumptions map_keys_pending.
Print Assumptions map_update_dot_fresh.
Print Assumptions map_keys_example.
