(** GList as an instance of the replicated-system framework (spec/System.v).

    Under ANY delivery order, duplication and merge pattern, and for arbitrary
    ops (no well-formedness of the history is needed), a reachable GList state
    is exactly the set of identifiers it has learned, in identifier order:
    [gl_reach_spec], [glspec_sorted], [glspec_elem].  Convergence, the merge
    laws and idempotence are the framework corollaries. *)
From stdpp Require Import gmap.
From Crdt Require Import model.List spec.System spec.OrswotSpec spec.Specs
  proofs.Identifier proofs.OrswotLayer.

Notation glreach := (reach (@nil (list (Qc * N))) gl_apply gl_merge adm_any True).

(** * [gl_apply] / [gl_merge] on sorted lists *)
Lemma gl_apply_sorted g id : sorted_ids ncompare g → sorted_ids ncompare (gl_apply g id).
Proof. apply idset_insert_sorted_n. Qed.
Lemma gl_apply_elem g id x : x ∈ gl_apply g id ↔ x = id ∨ x ∈ g.
Proof. apply idset_insert_elem_of_n. Qed.

Lemma gl_fold_sorted o : ∀ g, sorted_ids ncompare g → sorted_ids ncompare (foldl gl_apply g o).
Proof. induction o as [|id o IH]; intros g Hg; cbn [foldl]; [done|]. by apply IH, gl_apply_sorted. Qed.
Lemma gl_fold_elem o : ∀ g x, x ∈ foldl gl_apply g o ↔ x ∈ g ∨ x ∈ o.
Proof.
  induction o as [|id o IH]; intros g x; cbn [foldl].
  - rewrite elem_of_nil. tauto.
  - rewrite IH, gl_apply_elem, elem_of_cons. tauto.
Qed.
Lemma gl_merge_sorted g o : sorted_ids ncompare g → sorted_ids ncompare (gl_merge g o).
Proof. apply gl_fold_sorted. Qed.
Lemma gl_merge_elem g o x : x ∈ gl_merge g o ↔ x ∈ g ∨ x ∈ o.
Proof. apply gl_fold_elem. Qed.

(** two sorted lists with the same elements are equal *)
Lemma gl_ext g g' :
  sorted_ids ncompare g → sorted_ids ncompare g' → (∀ x, x ∈ g ↔ x ∈ g') → g = g'.
Proof.
  intros Hg Hg' Hx. apply sorted_ids_ext_n; [done..|].
  intros x. rewrite <- !elem_of_list_In. apply Hx.
Qed.

(** * the specification: the learned identifiers, in identifier order *)
Theorem glspec_sorted (H : list (oprec (list (Qc * N)))) K : sorted_ids ncompare (glspec H K).
Proof. apply gl_fold_sorted, sorted_ids_nil. Qed.
Theorem glspec_elem (H : list (oprec (list (Qc * N)))) K id : id ∈ glspec H K ↔ id ∈ known_ops H K.
Proof. unfold glspec. rewrite gl_fold_elem, elem_of_nil. tauto. Qed.
Corollary glspec_NoDup (H : list (oprec (list (Qc * N)))) K : NoDup (glspec H K).
Proof. apply sorted_ids_NoDup_n, glspec_sorted. Qed.

Lemma glspec_init (H : list (oprec (list (Qc * N)))) : [] = glspec H ∅.
Proof. unfold glspec. by rewrite known_ops_empty. Qed.
(** L1: applying an op to the specification state *)
Lemma gl_L1 (H : list (oprec (list (Qc * N)))) K i o :
  H !! i = Some o → gl_apply (glspec H K) (op_val o) = glspec H (K ∪ {[i]}).
Proof.
  intros Hl. apply gl_ext; [apply gl_apply_sorted, glspec_sorted|apply glspec_sorted|].
  intros x. rewrite gl_apply_elem, !glspec_elem, (known_ops_add_elem H K i o) by done. tauto.
Qed.
(** L2: merging two specification states *)
Lemma gl_L2 (H : list (oprec (list (Qc * N)))) K1 K2 :
  gl_merge (glspec H K1) (glspec H K2) = glspec H (K1 ∪ K2).
Proof.
  apply gl_ext; [apply gl_merge_sorted, glspec_sorted|apply glspec_sorted|].
  intros x. rewrite gl_merge_elem, !glspec_elem, known_ops_union_elem. done.
Qed.

(** * the framework instance *)
Section instance.
  Let wfH (_ : list (oprec (list (Qc * N)))) : Prop := True.
  Let valid (_ : list (oprec (list (Qc * N)))) (_ : gset nat) : Prop := True.
  Let gen (_ : list (list (Qc * N))) (_ : N) (_ : unit) : option (list (Qc * N)) := None.

  Local Lemma gl_apply_proper (s s' : list (list (Qc * N))) o : s = s' → gl_apply s o = gl_apply s' o.
  Proof. by intros ->. Qed.
  Local Lemma gl_merge_proper (s1 s1' s2 s2' : list (list (Qc * N))) :
    s1 = s1' → s2 = s2' → gl_merge s1 s2 = gl_merge s1' s2'.
  Proof. by intros -> ->. Qed.
  Local Lemma gl_valid_empty H : valid H ∅.
  Proof. done. Qed.
  Local Lemma gl_valid_step H K i : wfH H → valid H K → adm_any H K i → valid H (K ∪ {[i]}).
  Proof. done. Qed.
  Local Lemma gl_valid_union H K1 K2 : valid H K1 → valid H K2 → valid H (K1 ∪ K2).
  Proof. done. Qed.
  Local Lemma gl_L1' H K i o : wfH H → valid H K → adm_any H K i → H !! i = Some o →
    gl_apply (glspec H K) (op_val o) = glspec H (K ∪ {[i]}).
  Proof. intros _ _ _. apply gl_L1. Qed.
  Local Lemma gl_L2' H K1 K2 : True → wfH H → valid H K1 → valid H K2 →
    gl_merge (glspec H K1) (glspec H K2) = glspec H (K1 ∪ K2).
  Proof. intros _ _ _ _. apply gl_L2. Qed.

  (** every reachable state, under any delivery order, is the sorted list of
      the identifiers it has learned *)
  Theorem gl_reach_spec (H : list (oprec (list (Qc * N)))) s K : glreach H s K → s = glspec H K.
  Proof.
    intros Hr.
    exact (proj1 (reach_spec eq [] gl_apply gl_merge adm_any True glspec wfH valid
             gl_apply_proper gl_merge_proper glspec_init gl_valid_empty gl_valid_step gl_valid_union
             gl_L1' gl_L2' H s K I Hr)).
  Qed.

  (** equal knowledge, equal state *)
  Corollary gl_converge (H : list (oprec (list (Qc * N)))) s1 s2 K :
    glreach H s1 K → glreach H s2 K → s1 = s2.
  Proof.
    apply (converge eq [] gl_apply gl_merge adm_any True glspec wfH valid
             gl_apply_proper gl_merge_proper glspec_init gl_valid_empty gl_valid_step gl_valid_union
             gl_L1' gl_L2' H s1 s2 K I).
  Qed.
  (** merging two replicas = having learned the union of their ops *)
  Corollary gl_merge_is_union (H : list (oprec (list (Qc * N)))) s1 K1 s2 K2 s K :
    glreach H s1 K1 → glreach H s2 K2 → glreach H s K → K = K1 ∪ K2 → gl_merge s1 s2 = s.
  Proof.
    apply (merge_is_union eq [] gl_apply gl_merge adm_any True glspec wfH valid
             gl_apply_proper gl_merge_proper glspec_init gl_valid_empty gl_valid_step gl_valid_union
             gl_L1' gl_L2' H s1 K1 s2 K2 s K I I).
  Qed.
  Corollary gl_merge_comm (H : list (oprec (list (Qc * N)))) s1 K1 s2 K2 :
    glreach H s1 K1 → glreach H s2 K2 → gl_merge s1 s2 = gl_merge s2 s1.
  Proof.
    apply (merge_comm eq [] gl_apply gl_merge adm_any True glspec wfH valid
             gl_apply_proper gl_merge_proper glspec_init gl_valid_empty gl_valid_step gl_valid_union
             gl_L1' gl_L2' H s1 K1 s2 K2 I I).
  Qed.
  Corollary gl_merge_assoc (H : list (oprec (list (Qc * N)))) s1 K1 s2 K2 s3 K3 :
    glreach H s1 K1 → glreach H s2 K2 → glreach H s3 K3 →
    gl_merge (gl_merge s1 s2) s3 = gl_merge s1 (gl_merge s2 s3).
  Proof.
    apply (merge_assoc eq [] gl_apply gl_merge adm_any True glspec wfH valid
             gl_apply_proper gl_merge_proper glspec_init gl_valid_empty gl_valid_step gl_valid_union
             gl_L1' gl_L2' H s1 K1 s2 K2 s3 K3 I I).
  Qed.
  Corollary gl_merge_idem (H : list (oprec (list (Qc * N)))) s K : glreach H s K → gl_merge s s = s.
  Proof.
    apply (merge_idem eq [] gl_apply gl_merge adm_any True glspec wfH valid
             gl_apply_proper gl_merge_proper glspec_init gl_valid_empty gl_valid_step gl_valid_union
             gl_L1' gl_L2' H s K I I).
  Qed.
  (** re-delivering a known op changes nothing *)
  Corollary gl_dup_apply (H : list (oprec (list (Qc * N)))) s K i o :
    glreach H s K → H !! i = Some o → i ∈ K → gl_apply s (op_val o) = s.
  Proof.
    intros Hr Hl Hi.
    apply (dup_apply eq [] gl_apply gl_merge gen adm_any True glspec wfH valid
             gl_apply_proper gl_merge_proper glspec_init gl_valid_empty gl_valid_step gl_valid_union
             gl_L1' gl_L2' H s K i o I Hr Hl); [by exists o|done].
  Qed.
  (** merging a replica that knows nothing new changes nothing *)
  Corollary gl_stale_merge (H : list (oprec (list (Qc * N)))) s1 K1 s2 K2 :
    glreach H s1 K1 → glreach H s2 K2 → K2 ⊆ K1 → gl_merge s1 s2 = s1.
  Proof.
    apply (stale_merge eq [] gl_apply gl_merge gen adm_any True glspec wfH valid
             gl_apply_proper gl_merge_proper glspec_init gl_valid_empty gl_valid_step gl_valid_union
             gl_L1' gl_L2' H s1 K1 s2 K2 I I).
  Qed.
End instance.

(** the two halves of the specification, on reachable states *)
Corollary gl_reach_sorted (H : list (oprec (list (Qc * N)))) s K : glreach H s K → sorted_ids ncompare s.
Proof. intros ->%gl_reach_spec. apply glspec_sorted. Qed.
Corollary gl_reach_elem (H : list (oprec (list (Qc * N)))) s K id :
  glreach H s K → id ∈ s ↔ id ∈ known_ops H K.
Proof. intros ->%gl_reach_spec. apply glspec_elem. Qed.
Corollary gl_reach_elem_hist (H : list (oprec (list (Qc * N)))) s K id :
  glreach H s K → id ∈ s ↔ ∃ i r, H !! i = Some r ∧ i ∈ K ∧ op_val r = id.
Proof. intros Hr. rewrite (gl_reach_elem H s K id Hr). apply elem_of_known_ops. Qed.

Print Assumptions gl_reach_spec.
Print Assumptions gl_converge.
Print Assumptions gl_merge_is_union.
Print Assumptions gl_merge_comm.
Print Assumptions gl_merge_assoc.
Print Assumptions gl_merge_idem.
Print Assumptions gl_dup_apply.
Print Assumptions gl_stale_merge.
Print Assumptions gl_reach_elem_hist.
