(** The Orswot merge refinement (L2) for specifications over op LISTS whose add dots need
    not be contiguous per actor.

    proofs/OrswotL2.v proves [omerge (ospec H K1) (ospec H K2) = ospec H (K1 ∪ K2)] for
    histories satisfying [owfH] (the n-th add of an actor carries counter n).  The nested
    Orswot under a key of a [Map] receives only the dots of the updates addressed to that key:
    a sparse subsequence of each actor's dots.  What the proof of L2 really uses is stated
    here as [sp_side U os] (for a universe [U] of ops, "everything ever generated"):
      - the ops [os] a replica knows are ops of the universe;
      - remove contexts store no zero;
      - an add of the universe whose dot the clock of [os] covers is an op of [os]
        (the replica cannot have skipped it);
    plus: add dots of the universe have a non-zero counter.  Under these hypotheses
    [omerge (ospec_of os1) (ospec_of os2) = ospec_of (os1 ++ os2)] ([sparse_L2]).  The
    per-member/per-actor case analysis [core_l2] and the model-side characterisation of
    [omerge] (proofs/OrswotL2a.v) are reused unchanged. *)
From Crdt Require Import model.Orswot spec.System spec.OrswotSpec spec.OrswotSystem
  proofs.VClock proofs.OrswotLayer proofs.OrswotL1 proofs.OrswotL2a proofs.OrswotL2.
From Coq Require Import ZifyBool ZifyN.
Local Open Scope N_scope.

Definition sp_side (U os : list oop) : Prop :=
  (∀ o, o ∈ os → o ∈ U) ∧
  (∀ c ms, ORm c ms ∈ os → vwf c) ∧
  (∀ d ms, OAdd d ms ∈ U → dcounter d <= vget (ospec_clock os) (dactor d) → OAdd d ms ∈ os).

(** [m] is named by an add of the universe carrying the dot [(a,n)] *)
Definition smemb (U : list oop) (m a n : N) : Prop := ∃ ms, OAdd (Dot a n) ms ∈ U ∧ m ∈ ms.

Lemma sp_add_known U os m a n : sp_side U os →
  (∃ ms, OAdd (Dot a n) ms ∈ os ∧ m ∈ ms) ↔ smemb U m a n ∧ n <= vget (ospec_clock os) a.
Proof.
  intros (Hsub & _ & Hseen). split.
  - intros (ms & Hin & Hm). split; [exists ms; split; [by apply Hsub|done]|].
    rewrite ospec_clock_get. apply (max_ctr_ge _ _ (Dot a n)); [|done].
    apply (elem_of_list_fmap_1 fst _ (Dot a n, ms)). by apply elem_of_adds_of.
  - intros [(ms & Hin & Hm) Hn]. exists ms. split; [|done]. by apply Hseen.
Qed.

Lemma sp_cov_split os m a n : (∀ c ms, ORm c ms ∈ os → vwf c) → cov os m a n →
  n <= vget (ospec_clock os) a ∨ tcov (ospec_deferred os) m a n.
Proof.
  intros Hwf (c & ms & Hin & Hm & Hle)%cov_spec.
  destruct (vle c (ospec_clock os)) eqn:E.
  - left. apply vle_spec in E; [|by eapply Hwf|apply ospec_clock_wf]. specialize (E a). lia.
  - right. exists c, (rm_members os c). split.
    + apply l2_deferred_Some. split; [by exists ms|done].
    + split; [|done]. apply elem_of_rm_members. by exists ms.
Qed.

Section sparse.
  Context (U os1 os2 : list oop).
  Hypothesis Hpos : ∀ d ms, OAdd d ms ∈ U → 0 < dcounter d.
  Hypothesis HS1 : sp_side U os1.
  Hypothesis HS2 : sp_side U os2.

  Lemma sp_memb_pos m a n : smemb U m a n → 0 < n.
  Proof using Hpos. intros (ms & Hin & _). apply Hpos in Hin. done. Qed.

  Lemma sp_live_side os m a n : sp_side U os →
    Dot a n ∈ live_dots os m ↔
    0 < n ∧ n <= vget (ospec_clock os) a ∧ smemb U m a n ∧ ¬ cov os m a n.
  Proof using Hpos.
    intros HS. rewrite elem_of_live_dots, (sp_add_known U os m a n HS). unfold cov. split.
    - intros [[Hm Hn] Hc]. pose proof (sp_memb_pos _ _ _ Hm). rewrite Hc. done.
    - intros (_ & Hn & Hm & Hc). split; [done|]. by destruct (covered _ m (Dot a n)).
  Qed.

  Lemma sp_live_union m a n :
    Dot a n ∈ live_dots (os1 ++ os2) m ↔
    0 < n ∧ n <= N.max (vget (ospec_clock os1) a) (vget (ospec_clock os2) a)
    ∧ smemb U m a n ∧ ¬ cov os1 m a n ∧ ¬ cov os2 m a n.
  Proof using Hpos HS1 HS2.
    rewrite elem_of_live_dots.
    assert ((∃ ms, OAdd (Dot a n) ms ∈ os1 ++ os2 ∧ m ∈ ms) ↔
            smemb U m a n ∧ n <= N.max (vget (ospec_clock os1) a) (vget (ospec_clock os2) a)) as ->.
    { pose proof (sp_add_known U os1 m a n HS1) as E1. pose proof (sp_add_known U os2 m a n HS2) as E2.
      split.
      - intros (ms & [Hin|Hin]%elem_of_app & Hm).
        + destruct (proj1 E1) as [? ?]; [by exists ms|]. split; [done|lia].
        + destruct (proj1 E2) as [? ?]; [by exists ms|]. split; [done|lia].
      - intros [Hm Hn].
        destruct (N.max_spec (vget (ospec_clock os1) a) (vget (ospec_clock os2) a)) as [[_ Hmx]|[_ Hmx]];
          rewrite Hmx in Hn.
        + destruct (proj2 E2) as (ms & ? & ?); [done|]. exists ms. rewrite elem_of_app. tauto.
        + destruct (proj2 E1) as (ms & ? & ?); [done|]. exists ms. rewrite elem_of_app. tauto. }
    pose proof (cov_app os1 os2 m a n) as Hca. unfold cov in *. split.
    - intros [[Hm Hn] Hc]. pose proof (sp_memb_pos _ _ _ Hm).
      assert (¬ (covered (rms_of os1) m (Dot a n) = true ∨ covered (rms_of os2) m (Dot a n) = true)) as Hnn.
      { intros Hx. apply Hca in Hx. congruence. }
      repeat split; try done; intros ?; apply Hnn; tauto.
    - intros (_ & Hn & Hm & Hc1 & Hc2). split; [done|].
      destruct (covered (rms_of (os1 ++ os2)) m (Dot a n)); [|done].
      destruct Hca as [[?|?] _]; done.
  Qed.

  Lemma sp_pointwise m a :
    let x := max_ctr (live_dots (os1 ++ os2) m) a in
    let v := gmerge (max_ctr (live_dots os1 m) a) (max_ctr (live_dots os2 m) a)
                    (vget (ospec_clock os1) a) (vget (ospec_clock os2) a) in
    (v = 0 → x = 0) ∧
    (0 < v → ¬ tcov (ospec_deferred os1) m a v → ¬ tcov (ospec_deferred os2) m a v → x = v) ∧
    (0 < v → tcov (ospec_deferred os1) m a v ∨ tcov (ospec_deferred os2) m a v → x = 0).
  Proof using Hpos HS1 HS2.
    intros x v.
    set (c1 := vget (ospec_clock os1) a) in *. set (c2 := vget (ospec_clock os2) a) in *.
    set (x1 := max_ctr (live_dots os1 m) a) in *. set (x2 := max_ctr (live_dots os2 m) a) in *.
    pose proof (max_ctr_ismax (live_dots os1 m) a _ (λ n, sp_live_side os1 m a n HS1)) as M1.
    pose proof (max_ctr_ismax (live_dots os2 m) a _ (λ n, sp_live_side os2 m a n HS2)) as M2.
    pose proof (max_ctr_ismax (live_dots (os1 ++ os2) m) a _ (λ n, sp_live_union m a n)) as M.
    fold c1 c2 x1 x2 x in M1, M2, M.
    assert (x1 <= c1) as Hx1 by (eapply ismax_le; [|exact M1]; cbn; intros; tauto).
    assert (x2 <= c2) as Hx2 by (eapply ismax_le; [|exact M2]; cbn; intros; tauto).
    destruct HS1 as (_ & Hw1 & _), HS2 as (_ & Hw2 & _).
    destruct (N.le_ge_cases c1 c2) as [Hc|Hc].
    - assert (v = if x1 =? x2 then x1 else if x2 <=? c1 then 0 else x2) as ->.
      { unfold v, gmerge. destruct (x1 =? x2) eqn:?, (x2 =? x1) eqn:?, (x2 <=? c1) eqn:?, (x1 <=? c2) eqn:?; lia. }
      apply (core_l2 (smemb U m a) (cov os1 m a) (cov os2 m a)
                     (tcov (ospec_deferred os1) m a) (tcov (ospec_deferred os2) m a) c1 c2 x1 x2 x); try done.
      + intros n n'. apply cov_down.
      + intros n n'. apply cov_down.
      + intros n. by apply sp_cov_split.
      + intros n. by apply sp_cov_split.
      + intros n. apply l2_tcov_cov.
      + intros n. apply l2_tcov_cov.
      + eapply ismax_iff; [|exact M]. intros n. cbn. rewrite N.max_r by done. done.
    - assert (v = if x2 =? x1 then x2 else if x1 <=? c2 then 0 else x1) as ->.
      { unfold v, gmerge. destruct (x1 =? x2) eqn:?, (x2 =? x1) eqn:?, (x2 <=? c1) eqn:?, (x1 <=? c2) eqn:?; lia. }
      destruct (core_l2 (smemb U m a) (cov os2 m a) (cov os1 m a)
                     (tcov (ospec_deferred os2) m a) (tcov (ospec_deferred os1) m a) c2 c1 x2 x1 x) as (R1 & R2 & R3); try done.
      + intros n n'. apply cov_down.
      + intros n n'. apply cov_down.
      + intros n. by apply sp_cov_split.
      + intros n. by apply sp_cov_split.
      + intros n. apply l2_tcov_cov.
      + intros n. apply l2_tcov_cov.
      + eapply ismax_iff; [|exact M]. intros n. cbn. rewrite N.max_l by done. tauto.
      + split; [done|]. split; [intros; by apply R2|]. intros ? [?|?]; apply R3; tauto.
  Qed.

  Lemma sp_deferred :
    odeferred (omerge (ospec_of os1) (ospec_of os2)) = ospec_deferred (os1 ++ os2).
  Proof using Hpos HS1 HS2.
    destruct HS1 as (_ & Hw1 & _), HS2 as (_ & Hw2 & _).
    apply map_eq. intros c.
    rewrite omerge_deferred. cbn [oclock odeferred ospec_of]. rewrite <- l2_clock_app.
    rewrite (ospec_deferred_lookup (os1 ++ os2)).
    assert ((∃ ms, ORm c ms ∈ os1 ++ os2) ↔ (∃ ms, ORm c ms ∈ os1) ∨ (∃ ms, ORm c ms ∈ os2)) as Hex.
    { setoid_rewrite elem_of_app. split; [intros (ms & [?|?]); [left|right]; by exists ms|].
      intros [[ms ?]|[ms ?]]; exists ms; tauto. }
    destruct (vle c (ospec_clock (os1 ++ os2))) eqn:E; [by destruct (decide _)|].
    assert (∀ os, (∀ c ms, ORm c ms ∈ os → vwf c) → (∃ ms, ORm c ms ∈ os) →
                  vleq (ospec_clock os) (ospec_clock (os1 ++ os2)) →
                  ospec_deferred os !! c = Some (rm_members os c)) as Hpend.
    { intros os Hw [ms Hin] Hle. apply l2_deferred_Some. split; [by exists ms|]. split; [|done].
      destruct (vle c (ospec_clock os)) eqn:E'; [|done].
      assert (vwf c) as Hcw by (by eapply Hw).
      apply vle_spec in E'; [|done|apply ospec_clock_wf].
      assert (vle c (ospec_clock (os1 ++ os2)) = true); [|congruence].
      apply vle_spec; [done|apply ospec_clock_wf|]. by eapply vleq_trans. }
    assert (∀ os, (¬ ∃ ms, ORm c ms ∈ os) → ospec_deferred os !! c = None) as Hnone.
    { intros os Hn. destruct (ospec_deferred os !! c) eqn:E'; [|done].
      apply l2_deferred_Some in E' as (? & _). done. }
    assert (vleq (ospec_clock os1) (ospec_clock (os1 ++ os2))) as Hle1 by (rewrite l2_clock_app; apply vmerge_ub_l).
    assert (vleq (ospec_clock os2) (ospec_clock (os1 ++ os2))) as Hle2 by (rewrite l2_clock_app; apply vmerge_ub_r).
    rewrite l2_rm_members_app.
    pose proof (Hpend os1 Hw1) as Hp1. pose proof (Hpend os2 Hw2) as Hp2.
    pose proof (Hnone os1) as Hn1. pose proof (Hnone os2) as Hn2.
    clear Hpend Hnone.
    destruct (decide (c ∈ (fst <$> rms_of (os1 ++ os2)))) as [Hin|Hin].
    - apply elem_of_rm_clocks, Hex in Hin.
      destruct (classic_rm os1 c) as [Hr1|Hr1], (classic_rm os2 c) as [Hr2|Hr2].
      + rewrite (Hp2 Hr2 Hle2), (Hp1 Hr1 Hle1).
        assert (vle c (ospec_clock os1) = false) as ->; [|done].
        pose proof (Hp1 Hr1 Hle1) as Hp. by apply l2_deferred_Some in Hp as (_ & ? & _).
      + rewrite (Hn2 Hr2), (Hp1 Hr1 Hle1). f_equal.
        rewrite (l2_rm_members_none os2 c Hr2). set_solver.
      + rewrite (Hp2 Hr2 Hle2), (Hn1 Hr1).
        assert (vle c (ospec_clock os1) = false) as ->.
        { destruct Hr2 as [ms Hr2]. assert (vwf c) as Hw by (by eapply Hw2).
          destruct (vle c (ospec_clock os1)) eqn:E'; [|done].
          apply vle_spec in E'; [|done|apply ospec_clock_wf].
          assert (vle c (ospec_clock (os1 ++ os2)) = true); [|congruence].
          apply vle_spec; [done|apply ospec_clock_wf|]. by eapply vleq_trans. }
        cbn [dunion]. f_equal. rewrite (l2_rm_members_none os1 c Hr1). set_solver.
      + tauto.
    - assert (¬ ∃ ms, ORm c ms ∈ os1) as Hr1.
      { intros Hx. apply Hin, elem_of_rm_clocks, Hex. by left. }
      assert (¬ ∃ ms, ORm c ms ∈ os2) as Hr2.
      { intros Hx. apply Hin, elem_of_rm_clocks, Hex. by right. }
      by rewrite (Hn2 Hr2), (Hn1 Hr1).
  Qed.

  Theorem sparse_L2 : omerge (ospec_of os1) (ospec_of os2) = ospec_of (os1 ++ os2).
  Proof using Hpos HS1 HS2.
    apply orswot_eq.
    - rewrite omerge_clock. cbn [oclock ospec_of]. by rewrite l2_clock_app.
    - cbn [oentries ospec_of].
      assert (ewf (oentries (omerge (ospec_of os1) (ospec_of os2)))) as Hw.
      { apply omerge_wf; cbn [oclock oentries ospec_of]; try apply ospec_clock_wf; apply l2_ewf_spec. }
      apply ewf_ext; [done|apply l2_ewf_spec|]. intros m a.
      rewrite l2_eget_spec.
      pose proof (omerge_eget (ospec_of os1) (ospec_of os2) m a) as Hm.
      cbn [oclock oentries odeferred ospec_of] in Hm. rewrite !l2_eget_spec in Hm.
      specialize (Hm (ospec_clock_wf _) (ospec_clock_wf _) (l2_ewf_spec _) (l2_ewf_spec _)). cbn zeta in Hm.
      destruct (sp_pointwise m a) as (R1 & R2 & R3).
      set (v := gmerge _ _ _ _) in *.
      destruct Hm as [[E Hfree]|[E Hcov]]; rewrite E.
      + destruct (N.eq_0_gt_0_cases v) as [Hv|Hv]; [rewrite Hv; symmetry; by apply R1|].
        symmetry. apply R2; [done|..].
        * intros (c & ms & Hl & Hin & Hle). specialize (Hfree c ms (or_introl Hl) Hin). lia.
        * intros (c & ms & Hl & Hin & Hle). specialize (Hfree c ms (or_intror Hl) Hin). lia.
      + destruct (N.eq_0_gt_0_cases v) as [Hv|Hv]; [symmetry; by apply R1|].
        symmetry. apply R3; [done|]. destruct Hcov as (c & ms & [Hl|Hl] & Hin & Hle); [left|right]; by exists c, ms.
    - apply sp_deferred.
  Qed.
End sparse.

Print Assumptions sparse_L2.
