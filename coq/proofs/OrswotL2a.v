(** Model-side lemmas for the Orswot merge refinement (L2): pointwise
    characterisation of [omerge_entry], of folding [oapply_rm] over a pending
    table, of [oapply_deferred] and finally of [omerge] itself.

    Entry maps are viewed through [eget es m a] (counter of actor [a] in the
    witness clock of member [m], 0 when absent) under the invariant [ewf] (stored
    witness clocks are well-formed and non-empty), for which [eget] is
    extensional ([ewf_ext]). *)
From Crdt Require Import model.Orswot proofs.VClock.
From Coq Require Import ZifyBool ZifyN.
Local Open Scope N_scope.

(** * entry maps, pointwise *)
Definition oclk (o : option (gmap N N)) : gmap N N := match o with Some c => c | None => ∅ end.
Definition eget (es : gmap N (gmap N N)) (m a : N) : N := vget (oclk (es !! m)) a.
Definition cwf (c : gmap N N) : Prop := vwf c ∧ c ≠ ∅.
Definition ewf (es : gmap N (gmap N N)) : Prop := ∀ m c, es !! m = Some c → cwf c.

Lemma cwf_pos c : cwf c → ∃ a, 0 < vget c a.
Proof.
  intros [Hw Hne]. destruct (map_choose c Hne) as (a & n & Ha). exists a.
  rewrite (vget_Some _ _ _ Ha). pose proof (vwf_lookup _ _ _ Hw Ha). lia.
Qed.
Lemma vget_zero_empty c : vwf c → (∀ a, vget c a = 0) → c = ∅.
Proof. intros Hw H. apply vwf_ext; [done|apply vwf_empty|]. intros a. by rewrite H, vget_empty. Qed.

Lemma ewf_empty : ewf ∅.
Proof. intros m c. by rewrite lookup_empty. Qed.

Lemma ewf_ext e1 e2 : ewf e1 → ewf e2 → (∀ m a, eget e1 m a = eget e2 m a) → e1 = e2.
Proof.
  intros H1 H2 H. apply map_eq. intros m. specialize (H m). unfold eget in H.
  destruct (e1 !! m) as [c1|] eqn:E1, (e2 !! m) as [c2|] eqn:E2; cbn [oclk] in H.
  - f_equal. apply vwf_ext; [apply (H1 _ _ E1)|apply (H2 _ _ E2)|done].
  - destruct (cwf_pos _ (H1 _ _ E1)) as [a Ha]. specialize (H a). rewrite vget_empty in H. lia.
  - destruct (cwf_pos _ (H2 _ _ E2)) as [a Ha]. specialize (H a). rewrite vget_empty in H. lia.
  - done.
Qed.

(** * [omerge_entry] *)
Definition gmerge (x1 x2 c1 c2 : N) : N :=
  N.max (N.max (if x2 =? x1 then x2 else 0) (if x2 <=? c1 then 0 else x2))
        (if x1 <=? c2 then 0 else x1).

Definition owf (o : option (gmap N N)) : Prop := ∀ c, o = Some c → cwf c.

Lemma vreset_not_empty c k : vwf c → vwf k → vge k c = false → vreset c k ≠ ∅.
Proof.
  intros Hc Hk Hge He. assert (vleq c k) as Hle.
  { intros a. assert (vget (vreset c k) a = 0) as H0 by (by rewrite He, vget_empty).
    rewrite vreset_get in H0. destruct (vget c a <=? vget k a) eqn:E; lia. }
  apply (vge_spec k c Hk Hc) in Hle. congruence.
Qed.

Lemma omerge_entry_get sc oc o1 o2 a : vwf sc → vwf oc → owf o1 → owf o2 →
  vget (oclk (omerge_entry sc oc o1 o2)) a =
    gmerge (vget (oclk o1) a) (vget (oclk o2) a) (vget sc a) (vget oc a).
Proof.
  intros Hsc Hoc H1 H2. unfold omerge_entry, gmerge.
  destruct o1 as [our|], o2 as [their|]; cbn [oclk].
  - destruct (H1 _ eq_refl) as [Hw1 _], (H2 _ eq_refl) as [Hw2 _].
    unfold vclone_without.
    set (common := vmerge _ _).
    assert (vget common a = N.max (N.max (if vget their a =? vget our a then vget their a else 0)
                                         (if vget their a <=? vget sc a then 0 else vget their a))
                                  (if vget our a <=? vget oc a then 0 else vget our a)) as Hc.
    { unfold common. by rewrite !vmerge_get, vintersection_get, !vreset_get. }
    destruct (vis_empty common) eqn:E; cbn [oclk]; [|done].
    apply vis_empty_spec in E. rewrite <- Hc, E. done.
  - destruct (H1 _ eq_refl) as [Hw1 _]. rewrite vget_empty.
    destruct (vge oc our) eqn:E; cbn [oclk].
    + apply vge_spec in E; [|done..]. specialize (E a). rewrite vget_empty.
      destruct (0 =? vget our a), (0 <=? vget sc a), (vget our a <=? vget oc a) eqn:E3; lia.
    + rewrite vreset_get.
      destruct (0 =? vget our a), (0 <=? vget sc a), (vget our a <=? vget oc a) eqn:E3; lia.
  - destruct (H2 _ eq_refl) as [Hw2 _]. rewrite vget_empty.
    destruct (vge sc their) eqn:E; cbn [oclk].
    + apply vge_spec in E; [|done..]. specialize (E a). rewrite vget_empty.
      destruct (vget their a =? 0) eqn:E1, (vget their a <=? vget sc a) eqn:E2, (0 <=? vget oc a); lia.
    + rewrite vreset_get.
      destruct (vget their a =? 0) eqn:E1, (vget their a <=? vget sc a) eqn:E2, (0 <=? vget oc a); lia.
  - rewrite vget_empty. destruct (0 =? 0), (0 <=? vget sc a), (0 <=? vget oc a); lia.
Qed.

Lemma omerge_entry_wf sc oc o1 o2 : vwf sc → vwf oc → owf o1 → owf o2 →
  owf (omerge_entry sc oc o1 o2).
Proof.
  intros Hsc Hoc H1 H2 c. unfold omerge_entry.
  destruct o1 as [our|], o2 as [their|].
  - destruct (H1 _ eq_refl) as [Hw1 _], (H2 _ eq_refl) as [Hw2 _].
    unfold vclone_without. set (common := vmerge _ _).
    destruct (vis_empty common) eqn:E; [done|]. intros [= <-]. split.
    + unfold common. repeat apply vmerge_wf; try apply vreset_wf; try done. by apply vintersection_wf.
    + intros He. apply vis_empty_spec in He. congruence.
  - destruct (H1 _ eq_refl) as [Hw1 _].
    destruct (vge oc our) eqn:E; [done|]. intros [= <-]. split; [by apply vreset_wf|by apply vreset_not_empty].
  - destruct (H2 _ eq_refl) as [Hw2 _].
    destruct (vge sc their) eqn:E; [done|]. intros [= <-]. split; [by apply vreset_wf|by apply vreset_not_empty].
  - done.
Qed.

Lemma ewf_owf es m : ewf es → owf (es !! m).
Proof. intros H c Hc. by apply (H m). Qed.

Lemma omerge_entries_lookup sc oc (e1 e2 : gmap N (gmap N N)) (m : N) :
  merge (omerge_entry sc oc) e1 e2 !! m = omerge_entry sc oc (e1 !! m) (e2 !! m).
Proof. rewrite lookup_merge. by destruct (e1 !! m), (e2 !! m). Qed.

Lemma omerge_entries_get sc oc e1 e2 m a : vwf sc → vwf oc → ewf e1 → ewf e2 →
  eget (merge (omerge_entry sc oc) e1 e2) m a =
    gmerge (eget e1 m a) (eget e2 m a) (vget sc a) (vget oc a).
Proof.
  intros. unfold eget. rewrite omerge_entries_lookup. apply omerge_entry_get; try done; by apply ewf_owf.
Qed.
Lemma omerge_entries_wf sc oc e1 e2 : vwf sc → vwf oc → ewf e1 → ewf e2 →
  ewf (merge (omerge_entry sc oc) e1 e2).
Proof.
  intros ???? m c. rewrite omerge_entries_lookup. apply omerge_entry_wf; try done; by apply ewf_owf.
Qed.

(** * [orm_entries] *)
Lemma orm_entries_get es ms c m a :
  eget (orm_entries es ms c) m a =
    if decide (m ∈ ms) then (if eget es m a <=? vget c a then 0 else eget es m a) else eget es m a.
Proof.
  unfold eget, orm_entries. rewrite map_lookup_imap.
  destruct (es !! m) as [mc|] eqn:E; cbn [oclk mbind option_bind].
  - destruct (decide (m ∈ ms)) as [Hin|Hin].
    + rewrite (bool_decide_eq_true_2 _ Hin). cbn zeta. rewrite <- vreset_get.
      destruct (vis_empty (vreset mc c)) eqn:Ee; cbn [oclk]; [|done].
      apply vis_empty_spec in Ee. by rewrite Ee.
    + by rewrite (bool_decide_eq_false_2 _ Hin).
  - rewrite vget_empty. destruct (decide _); [|done]. by destruct (0 <=? vget c a).
Qed.
Lemma orm_entries_wf es ms c : ewf es → ewf (orm_entries es ms c).
Proof.
  intros H m k. unfold orm_entries. rewrite map_lookup_imap.
  destruct (es !! m) as [mc|] eqn:E; cbn [mbind option_bind]; [|done].
  destruct (H _ _ E) as [Hw Hne].
  destruct (bool_decide (m ∈ ms)); [|intros [= <-]; by split].
  cbn zeta. destruct (vis_empty (vreset mc c)) eqn:Ee; [done|]. intros [= <-]. split; [by apply vreset_wf|].
  intros He. apply vis_empty_spec in He. congruence.
Qed.

(** * [odefer], [oapply_rm] *)
Definition dunion (o : option (gset N)) (ms : gset N) : gset N :=
  match o with Some old => old ∪ ms | None => ms end.

Lemma l2_odefer_lookup df c ms k :
  odefer df c ms !! k = if decide (k = c) then Some (dunion (df !! c) ms) else df !! k.
Proof.
  unfold odefer, dunion. destruct (decide (k = c)) as [->|Hne].
  - destruct (df !! c); by rewrite lookup_insert.
  - destruct (df !! c); by rewrite lookup_insert_ne.
Qed.

Lemma oapply_rm_clock s ms c : oclock (oapply_rm s ms c) = oclock s.
Proof. unfold oapply_rm. by destruct (vcmp c (oclock s)) as [[]|]. Qed.
Lemma oapply_rm_entries s ms c : oentries (oapply_rm s ms c) = orm_entries (oentries s) ms c.
Proof. unfold oapply_rm. by destruct (vcmp c (oclock s)) as [[]|]. Qed.
Lemma oapply_rm_deferred s ms c :
  odeferred (oapply_rm s ms c) = if vle c (oclock s) then odeferred s else odefer (odeferred s) c ms.
Proof. unfold oapply_rm, vle. by destruct (vcmp c (oclock s)) as [[]|]. Qed.

(** * folding [oapply_rm] over a table *)
Definition ofold (s : orswot) (D : gmap (gmap N N) (gset N)) : orswot :=
  map_fold (λ c ms acc, oapply_rm acc ms c) s D.

Lemma ofold_clock s D : oclock (ofold s D) = oclock s.
Proof.
  unfold ofold. apply (map_fold_ind (λ r _, oclock r = oclock s)); [done|].
  intros c ms D' r _ IH. by rewrite oapply_rm_clock.
Qed.
Lemma ofold_wf s D : ewf (oentries s) → ewf (oentries (ofold s D)).
Proof.
  intros Hs. unfold ofold. apply (map_fold_ind (λ r _, ewf (oentries r))); [done|].
  intros c ms D' r _ IH. rewrite oapply_rm_entries. by apply orm_entries_wf.
Qed.

(** the value of actor [a] for member [m] survives iff it exceeds every
    applicable context of the table *)
Definition tcov (D : gmap (gmap N N) (gset N)) (m a v : N) : Prop :=
  ∃ c ms, D !! c = Some ms ∧ m ∈ ms ∧ v <= vget c a.
Definition tfree (D : gmap (gmap N N) (gset N)) (m a v : N) : Prop :=
  ∀ c ms, D !! c = Some ms → m ∈ ms → vget c a < v.

Lemma ofold_eget s D m a :
  (eget (oentries (ofold s D)) m a = eget (oentries s) m a ∧ tfree D m a (eget (oentries s) m a))
  ∨ (eget (oentries (ofold s D)) m a = 0 ∧ tcov D m a (eget (oentries s) m a)).
Proof.
  unfold ofold. set (v := eget (oentries s) m a).
  apply (map_fold_ind (λ r D, (eget (oentries r) m a = v ∧ tfree D m a v)
                              ∨ (eget (oentries r) m a = 0 ∧ tcov D m a v))).
  - left. split; [done|]. intros c ms. by rewrite lookup_empty.
  - intros c ms D' r Hc IH. rewrite oapply_rm_entries, orm_entries_get.
    destruct IH as [[IH1 IH2]|[IH1 (c' & ms' & Hl & Hin & Hle)]].
    + rewrite IH1. destruct (decide (m ∈ ms)) as [Hin|Hin].
      * destruct (v <=? vget c a) eqn:E.
        -- right. split; [done|]. exists c, ms. rewrite lookup_insert. split; [done|split; [done|lia]].
        -- left. split; [done|]. intros c' ms'. destruct (decide (c' = c)) as [->|Hne].
           ++ rewrite lookup_insert. intros [= <-] _. lia.
           ++ rewrite lookup_insert_ne by done. apply IH2.
      * left. split; [done|]. intros c' ms'. destruct (decide (c' = c)) as [->|Hne].
        -- rewrite lookup_insert. by intros [= <-] ?.
        -- rewrite lookup_insert_ne by done. apply IH2.
    + right. split.
      * rewrite IH1. destruct (decide _); [|done]. by destruct (0 <=? vget c a).
      * exists c', ms'. rewrite lookup_insert_ne by congruence. done.
Qed.

Lemma ofold_deferred s D c :
  odeferred (ofold s D) !! c =
    match D !! c with
    | Some ms => if vle c (oclock s) then odeferred s !! c else Some (dunion (odeferred s !! c) ms)
    | None => odeferred s !! c
    end.
Proof.
  unfold ofold.
  apply (map_fold_ind (λ r D, oclock r = oclock s ∧ ∀ c, odeferred r !! c =
    match D !! c with
    | Some ms => if vle c (oclock s) then odeferred s !! c else Some (dunion (odeferred s !! c) ms)
    | None => odeferred s !! c
    end)).
  - split; [done|]. intros k. by rewrite lookup_empty.
  - intros k ms D' r Hk [IHc IH]. split; [by rewrite oapply_rm_clock|]. intros k'.
    rewrite oapply_rm_deferred, IHc. destruct (decide (k' = k)) as [->|Hne].
    + rewrite lookup_insert. destruct (vle k (oclock s)) eqn:E.
      * by rewrite IH, Hk.
      * rewrite l2_odefer_lookup, decide_True by done. by rewrite IH, Hk.
    + rewrite lookup_insert_ne by done. destruct (vle k (oclock s)) eqn:E; [apply IH|].
      rewrite l2_odefer_lookup, decide_False by done. apply IH.
Qed.

(** * [oapply_deferred] *)
Lemma oapply_deferred_ofold s :
  oapply_deferred s = ofold (Orswot (oclock s) (oentries s) ∅) (odeferred s).
Proof. done. Qed.

Lemma oapply_deferred_clock s : oclock (oapply_deferred s) = oclock s.
Proof. by rewrite oapply_deferred_ofold, ofold_clock. Qed.
Lemma oapply_deferred_wf s : ewf (oentries s) → ewf (oentries (oapply_deferred s)).
Proof. intros. rewrite oapply_deferred_ofold. by apply ofold_wf. Qed.
Lemma oapply_deferred_eget s m a :
  (eget (oentries (oapply_deferred s)) m a = eget (oentries s) m a ∧ tfree (odeferred s) m a (eget (oentries s) m a))
  ∨ (eget (oentries (oapply_deferred s)) m a = 0 ∧ tcov (odeferred s) m a (eget (oentries s) m a)).
Proof. rewrite oapply_deferred_ofold. apply (ofold_eget (Orswot (oclock s) (oentries s) ∅)). Qed.
Lemma oapply_deferred_deferred s c :
  odeferred (oapply_deferred s) !! c =
    match odeferred s !! c with
    | Some ms => if vle c (oclock s) then None else Some ms
    | None => None
    end.
Proof.
  rewrite oapply_deferred_ofold, ofold_deferred. cbn [oclock odeferred].
  rewrite lookup_empty. by destruct (odeferred s !! c).
Qed.

(** * [omerge] *)
Definition tboth (D1 D2 : gmap (gmap N N) (gset N)) (m a v : N) : Prop :=
  ∃ c ms, (D1 !! c = Some ms ∨ D2 !! c = Some ms) ∧ m ∈ ms ∧ v <= vget c a.
Definition tnone (D1 D2 : gmap (gmap N N) (gset N)) (m a v : N) : Prop :=
  ∀ c ms, (D1 !! c = Some ms ∨ D2 !! c = Some ms) → m ∈ ms → vget c a < v.

Lemma omerge_clock s o : oclock (omerge s o) = vmerge (oclock s) (oclock o).
Proof. unfold omerge. rewrite oapply_deferred_clock. cbn [oclock]. by rewrite (ofold_clock (Orswot _ _ _)). Qed.

Lemma omerge_wf s o : vwf (oclock s) → vwf (oclock o) → ewf (oentries s) → ewf (oentries o) →
  ewf (oentries (omerge s o)).
Proof.
  intros. unfold omerge. apply oapply_deferred_wf. cbn [oentries].
  apply (ofold_wf (Orswot _ _ _)). cbn [oentries]. by apply omerge_entries_wf.
Qed.

Lemma omerge_eget s o m a : vwf (oclock s) → vwf (oclock o) → ewf (oentries s) → ewf (oentries o) →
  let v := gmerge (eget (oentries s) m a) (eget (oentries o) m a) (vget (oclock s) a) (vget (oclock o) a) in
  (eget (oentries (omerge s o)) m a = v ∧ tnone (odeferred s) (odeferred o) m a v)
  ∨ (eget (oentries (omerge s o)) m a = 0 ∧ tboth (odeferred s) (odeferred o) m a v).
Proof.
  intros Hs Ho Hes Heo v. unfold omerge.
  set (s0 := Orswot (oclock s) (merge (omerge_entry (oclock s) (oclock o)) (oentries s) (oentries o)) (odeferred s)).
  change (map_fold _ s0 (odeferred o)) with (ofold s0 (odeferred o)).
  set (s1 := ofold s0 (odeferred o)).
  set (s2 := Orswot (vmerge (oclock s1) (oclock o)) (oentries s1) (odeferred s1)).
  assert (eget (oentries s0) m a = v) as H0 by (by apply omerge_entries_get).
  assert (∀ c, odeferred s2 !! c =
     match odeferred o !! c with
     | Some ms => if vle c (oclock s) then odeferred s !! c else Some (dunion (odeferred s !! c) ms)
     | None => odeferred s !! c
     end) as HT by (intros c; apply (ofold_deferred s0)).
  pose proof (ofold_eget s0 (odeferred o) m a) as H1. fold s1 in H1. rewrite H0 in H1.
  pose proof (oapply_deferred_eget s2 m a) as H2. cbn [oentries] in H2. change (oentries s2) with (oentries s1) in H2.
  destruct H1 as [[E1 F1]|[E1 C1]].
  - rewrite E1 in H2. destruct H2 as [[E2 F2]|[E2 C2]].
    + left. split; [done|]. intros c ms [Hl|Hl] Hin; [|by eapply F1].
      specialize (HT c). destruct (odeferred o !! c) as [ms2|] eqn:Eo.
      * rewrite Hl in HT. destruct (vle c (oclock s)).
        -- by eapply F2.
        -- eapply F2; [exact HT|]. cbn [dunion]. set_solver.
      * rewrite Hl in HT. by eapply F2.
    + right. split; [done|]. destruct C2 as (c & ms & Hl & Hin & Hle). rewrite HT in Hl.
      destruct (odeferred o !! c) as [ms2|] eqn:Eo.
      * destruct (vle c (oclock s)).
        -- exists c, ms. split; [by left|done].
        -- injection Hl as <-. destruct (odeferred s !! c) as [ms1|] eqn:Es; cbn [dunion] in Hin.
           ++ apply elem_of_union in Hin as [Hin|Hin].
              ** exists c, ms1. split; [by left|done].
              ** exists c, ms2. split; [by right|done].
           ++ exists c, ms2. split; [by right|done].
      * exists c, ms. split; [by left|done].
  - right. split.
    + rewrite E1 in H2. by destruct H2 as [[-> _]|[-> _]].
    + destruct C1 as (c & ms & Hl & Hin & Hle). exists c, ms. split; [by right|done].
Qed.

Lemma omerge_deferred s o c :
  odeferred (omerge s o) !! c =
    if vle c (vmerge (oclock s) (oclock o)) then None else
    match odeferred o !! c with
    | Some ms => if vle c (oclock s) then odeferred s !! c else Some (dunion (odeferred s !! c) ms)
    | None => odeferred s !! c
    end.
Proof.
  unfold omerge. rewrite oapply_deferred_deferred. cbn [oclock odeferred].
  set (s0 := Orswot (oclock s) _ (odeferred s)).
  change (map_fold _ s0 (odeferred o)) with (ofold s0 (odeferred o)).
  rewrite (ofold_clock s0), (ofold_deferred s0). cbn [oclock odeferred].
  subst s0. cbn [oclock odeferred].
  destruct (vle c (vmerge (oclock s) (oclock o))), (odeferred o !! c), (vle c (oclock s)), (odeferred s !! c); done.
Qed.
