(** Instances of the functor of proofs/MapNKFunctor.v at nesting depths 0, 1, 2, 3, and the
    end-to-end theorem at depth 3: the COMPLETE state of every reachable replica of a
    [Map<K1, Map<K2, Map<K3, Orswot<M>>>>] whose keys are never removed (at any level) is the
    specification [map3_spec_nk] of its knowledge, under per-actor (overtaking) delivery,
    duplicates AND state merges ([map3_refine_nk]).

      - Part 1: the instances [sr0 .. sr3], each by ONE application of [map_sr]; their
        specifications are (by conversion) [ospec_of], [mapor_spec_nk_of], [map2_spec_nk_of] and
        [map3_spec_nk_of]; the side conditions of the functor are those of the existing files
        ([nk_ops_tagged], [nk_univ_muniv]: [nk_univ U ↔ muniv sr0 (λ _, True) U]; [n2_ops_tagged],
        [n2_univ_muniv]: [n2_univ U ↔ muniv sr1 (λ _, True) U]), so the list-level statements of
        [nk_apply_fresh]/[nk_merge] (depth 1) and [n2_apply_fresh]/[n2_merge] (depth 2) are
        re-derived verbatim from the fields [vapply_fresh]/[vmerge_spec] of [sr1], [sr2]
        ([nk_apply_fresh'], [nk_merge'], [n2_apply_fresh'], [n2_merge']), and the new depth-3
        lemmas [n3_apply_fresh]/[n3_merge]/[n3_reset_inert] from those of [sr3];
      - Part 2: the ops generated at specification states are new ops of the universe
        ([mogen_nk_new], [m2gen_nk_new]); the reach level re-derived at depths 1 and 2 from
        [map_sr_refine] ([mapor_refine_nk'], [map2_refine_nk']);
      - Part 3: depth 3: commands, [m3gen_nk], [m3reach_nk], [m3hist_ok_nk], [map3_spec_nk],
        [m3gen_nk_new], [map3_refine_nk], corollaries (instances of the generic corollaries of
        proofs/MapNKFunctor.v), the innermost set and the member sentence (C05 at depth 3), closed
        example. *)
From stdpp Require Import gmap.
From Crdt Require Import proofs.VClock proofs.Reset proofs.OrswotLayer
  proofs.OrswotL1 proofs.OrswotL2a proofs.OrswotL2 proofs.OrswotSystem proofs.MapFacts proofs.MapKeys
  proofs.MapOrswot proofs.OrswotSparseL2 proofs.MapOrswotNK proofs.MapMapOrswotNK proofs.MapNKFunctor
  model.Orswot model.Map spec.System spec.OrswotSpec spec.OrswotSystem
  spec.MapSpec spec.MapSystem spec.MapOrswotSpec spec.MapMapOrswotSpec spec.MapMapOrswotNKSpec.
From Coq Require Import ZifyBool ZifyN ZifyNat.
Local Open Scope N_scope.

Local Notation vo1 := orswot_valops.
Local Notation vo2 := (map_valops orswot_valops).
Local Notation vo3 := (map_valops (map_valops orswot_valops)).
Local Notation op1 := (mop oop).
Local Notation op2 := (mop (mop oop)).
Local Notation op3 := (mop (mop (mop oop))).
Local Notation map1 := (cmap orswot).
Local Notation map2 := (cmap (cmap orswot)).
Local Notation map3 := (cmap (cmap (cmap orswot))).

(** * Part 1: the instances *)
Definition sr0 : sparse_ref vo1 := orswot_sr.
Definition sr1 : sparse_ref vo2 := map_sr sr0.
Definition sr2 : sparse_ref vo3 := map_sr sr1.
Definition sr3 : sparse_ref (map_valops vo3) := map_sr sr2.

(** the depth-3 specification, written out *)
Definition map3_spec_nk_of (os : list op3) : map3 :=
  CMap (mspec_clock os)
       (fn_map (list_to_set (mkeys_mentioned os))
               (λ k1, Some (MEntry (mspec_entry_clock os k1) (map2_spec_nk_of (mproj os k1)))))
       ∅.

(** the specifications of the instances are the specifications of the development *)
Lemma sr0_spec : vspec sr0 = ospec_of.
Proof. reflexivity. Qed.
Lemma sr1_spec : vspec sr1 = mapor_spec_nk_of.
Proof. reflexivity. Qed.
Lemma sr2_spec : vspec sr2 = map2_spec_nk_of.
Proof. reflexivity. Qed.
Lemma sr3_spec : vspec sr3 = map3_spec_nk_of.
Proof. reflexivity. Qed.
Lemma mproj_mo_proj : @mproj oop = mo_proj.
Proof. reflexivity. Qed.
Lemma mproj_m2_proj : @mproj (mop oop) = m2_proj.
Proof. reflexivity. Qed.

(** ** depth 1: the side conditions of proofs/MapOrswotNK.v *)
Lemma nk_op_tag d k o : nk_op (MUp d k o) ↔ otag d o.
Proof. by destruct o. Qed.
Lemma nk_ops_tagged os : nk_ops os ↔ mtagged sr0 os.
Proof.
  split.
  - intros Hs [c ks|d k o] Hin; pose proof (Hs _ Hin) as Ho; [done|]. exists d. split; [done|].
    by apply nk_op_tag in Ho.
  - intros Hs [c ks|d k o] Hin; destruct (Hs _ Hin) as [d0 Ho]; [done|]. destruct Ho as [<- Ho].
    by apply (nk_op_tag d k o).
Qed.
(** the universes of the functor at depth 1 are exactly the universes [nk_univ] of
    proofs/MapOrswotNK.v (whose update dots lie in the ambient set) *)
Lemma muniv_nk_univ A U : muniv sr0 A U ↔ nk_univ U ∧ dots_in mdot A U.
Proof.
  split.
  - intros HU. split; [|by apply (mu_dots sr0 A U)]. destruct HU as (Hs & Hp & Hk).
    split_and!; [by apply nk_ops_tagged|intros d k o Hin; by destruct (Hp d k o Hin)|].
    intros d k c ms Hin.
    assert (ORm c ms ∈ mproj U k) as Hin' by (apply elem_of_mproj; by exists d).
    by destruct (proj1 (Hk k) c ms Hin') as [_ Hc].
  - intros [(Hs & Hp & Hc) HA]. split_and!; [by apply nk_ops_tagged| |].
    + intros d k o Hin. split; [by eapply Hp|by eapply (HA (MUp d k o))].
    + intros k. split.
      * intros c ms [d Hin]%elem_of_mproj. split; [exact (Hs _ Hin)|by eapply Hc].
      * intros d ms [d0 Hin]%elem_of_mproj. pose proof (Hs _ Hin) as Ho. cbn in Ho. subst d0.
        split; [by eapply Hp|by exists (OAdd d ms)].
Qed.
Lemma nk_univ_muniv U : nk_univ U ↔ muniv sr0 (λ _, True) U.
Proof. rewrite muniv_nk_univ. split; [by split|by intros [? _]]. Qed.

(** the list-level content of [nk_apply_fresh] and [nk_merge], from the functor *)
Theorem nk_apply_fresh' os d k o :
  nk_ops (os ++ [MUp d k o]) → vget (mspec_clock os) (dactor d) < dcounter d →
  mapply vo1 (mapor_spec_nk_of os) (MUp d k o) = mapor_spec_nk_of (os ++ [MUp d k o]).
Proof.
  intros [Hs Hn]%nk_ops_app Hf. apply (vapply_fresh sr1 os d (MUp d k o)); [by apply nk_ops_tagged| |done].
  apply nk_ops_tagged in Hn. destruct (Hn (MUp d k o)) as [d' [-> Ht]]; [by left|]. by split.
Qed.
Theorem nk_merge' U os1 os2 : nk_univ U → nk_side U os1 → nk_side U os2 →
  mmerge vo1 (mapor_spec_nk_of os1) (mapor_spec_nk_of os2) = mapor_spec_nk_of (os1 ++ os2).
Proof.
  intros HU%nk_univ_muniv HS1 HS2. apply (vmerge_spec sr1 (λ _, True) U os1 os2 HU); by apply mside_gside.
Qed.

(** ** depth 2: the side conditions of proofs/MapMapOrswotNK.v *)
Lemma n2_ops_tagged os : n2_ops os ↔ mtagged sr1 os.
Proof.
  split.
  - intros Hs [c ks|d k o] Hin; pose proof (Hs _ Hin) as Ho; [done|]. exists d. split; [done|].
    destruct o as [c ks|d1 k2 o1]; [done|]. destruct Ho as [-> Ho]. split; [done|].
    by apply nk_op_tag in Ho.
  - intros Hs [c ks|d k o] Hin; destruct (Hs _ Hin) as [d0 Ho]; [done|]. destruct Ho as [<- Ho].
    destruct o as [c ks|d1 k2 o1]; [done|]. destruct Ho as [-> Ho]. split; [done|].
    by apply (nk_op_tag d k2 o1).
Qed.
(** ... and at depth 2 exactly the universes [n2_univ] of proofs/MapMapOrswotNK.v *)
Lemma n2_univ_muniv U : n2_univ U ↔ muniv sr1 (λ _, True) U.
Proof.
  split.
  - intros HU. pose proof HU as (Hs & Hp & Hc). split_and!; [by apply n2_ops_tagged|by split; [eapply Hp|]|].
    intros k1. apply muniv_nk_univ. split; [by apply n2_proj_univ|].
    intros [c ks|d' k2 o] d Hin [= <-]. exists (MUp d' k2 o). by apply (n2_proj_up U k1 d' k2 o Hs).
  - intros (Hs & Hp & Hk). split_and!; [by apply n2_ops_tagged|intros d k o Hin; by destruct (Hp d k o Hin)|].
    intros d k1 d' k2 c ms Hin.
    assert (MUp d' k2 (ORm c ms) ∈ m2_proj U k1) as Hin' by (apply elem_of_m2_proj; by exists d).
    destruct (proj1 (muniv_nk_univ _ _) (Hk k1)) as [(_ & _ & Hc) _]. by eapply Hc.
Qed.
Theorem n2_apply_fresh' os d k o :
  n2_ops (os ++ [MUp d k o]) → vget (mspec_clock os) (dactor d) < dcounter d →
  mapply vo2 (map2_spec_nk_of os) (MUp d k o) = map2_spec_nk_of (os ++ [MUp d k o]).
Proof.
  intros [Hs Hn]%n2_ops_app Hf. apply (vapply_fresh sr2 os d (MUp d k o)); [by apply n2_ops_tagged| |done].
  apply n2_ops_tagged in Hn. destruct (Hn (MUp d k o)) as [d' [-> Ht]]; [by left|]. by split.
Qed.
Theorem n2_merge' U os1 os2 : n2_univ U → gside U os1 → gside U os2 →
  mmerge vo2 (map2_spec_nk_of os1) (map2_spec_nk_of os2) = map2_spec_nk_of (os1 ++ os2).
Proof.
  intros HU%n2_univ_muniv HS1 HS2. apply (vmerge_spec sr2 (λ _, True) U os1 os2 HU); by apply mside_gside.
Qed.

(** ** depth 3 (new): L1 and L2 on op lists *)
Theorem n3_apply_fresh os d k o :
  mtagged sr2 (os ++ [MUp d k o]) → vget (mspec_clock os) (dactor d) < dcounter d →
  mapply vo3 (map3_spec_nk_of os) (MUp d k o) = map3_spec_nk_of (os ++ [MUp d k o]).
Proof.
  intros [Hs Hn]%mtagged_app Hf. apply (vapply_fresh sr3 os d (MUp d k o)); [done| |done].
  destruct (Hn (MUp d k o)) as [d' [-> Ht]]; [by left|]. by split.
Qed.
Theorem n3_merge A U os1 os2 : muniv sr2 A U → gside U os1 → gside U os2 →
  mmerge vo3 (map3_spec_nk_of os1) (map3_spec_nk_of os2) = map3_spec_nk_of (os1 ++ os2).
Proof. intros HU HS1 HS2. apply (vmerge_spec sr3 A U os1 os2 HU); by apply mside_gside. Qed.
Theorem n3_reset_inert A U os r : muniv sr2 A U → gside U os → (∀ x, aclk A x → inert x r) →
  mreset vo3 (map3_spec_nk_of os) r = map3_spec_nk_of os.
Proof. intros HU HS Hr. apply (vreset_inert sr3 A U os r HU); [by apply mside_gside|done]. Qed.

(** * Part 2: the ops generated at specification states are new ops of the universe *)

(** the dot of the add context derived at a map state is non-zero *)
Lemma derive_add_dot_pos {V} (s : cmap V) a : 0 < dcounter (ac_dot (derive_add_ctx (mread_ctx s) a)).
Proof. unfold derive_add_ctx, mread_ctx, vinc, dinc, VClock.vdot. cbn. lia. Qed.

(** the innermost step, shared by all depths: the nested Orswot op generated by the add / remove
    closure at the Orswot specification of a side of the universe under key [k] is a new op *)
Lemma ogen_add_new (U : list op1) k (ctx : addctx) ms : 0 < dcounter (ac_dot ctx) →
  onewop (kdom (U ++ [MUp (ac_dot ctx) k (oadd_all ms ctx)]) k) (mproj U k) (ac_dot ctx) (oadd_all ms ctx).
Proof. intros Hp. split; [done|split; [done|apply kdom_snoc]]. Qed.
Lemma odclk_kdom (U : list op1) o k x : mtagged sr0 U → dclk odot (mproj U k) x → aclk (kdom (U ++ [o]) k) x.
Proof.
  intros Hs Hx a Ha. destruct (Hx a Ha) as (o' & Ho & Hd). apply kdom_app_l. exists o'. by apply (mproj_up sr0).
Qed.
Lemma ogen_rm_new_read (U : list op1) o k p d ms : mtagged sr0 U → sside odot (mproj U k) p →
  onewop (kdom (U ++ [o]) k) (mproj U k) d (orm_all ms (derive_rm_ctx (oread_ctx (ospec_of p)))).
Proof.
  intros Hs HS. cbn [onewop orm_all derive_rm_ctx rm_clock oread_ctx oclock ospec_of].
  split; [apply ospec_clock_wf|]. by apply odclk_kdom, odclk_clock.
Qed.
Lemma ogen_rm_new_contains (U : list op1) o k p d ms m' : mtagged sr0 U → sside odot (mproj U k) p →
  onewop (kdom (U ++ [o]) k) (mproj U k) d (orm_all ms (derive_rm_ctx (ocontains (ospec_of p) m'))).
Proof.
  intros Hs HS. cbn [onewop orm_all derive_rm_ctx rm_clock ocontains oentries ospec_of].
  rewrite ospec_entries_default. split; [apply ospec_entry_wf|]. by apply odclk_kdom, odclk_entry.
Qed.

(** ** depth 1, re-derived *)
Lemma mogen_nk_new U os a c o : muniv sr0 (λ _, True) U → gside U os →
  mogen_nk (mspec_nk_of sr0 os) a c = Some o → ∃ d, mnewop sr0 (λ _, True) U d o.
Proof.
  intros HU HS Hgen. unfold mogen_nk, mogen in Hgen.
  set (ctx := derive_add_ctx (mread_ctx (mspec_nk_of sr0 os)) a) in *.
  assert (0 < dcounter (ac_dot ctx)) as Hp by apply derive_add_dot_pos.
  pose proof (mside_proj sr0 _ U HU os) as HP. pose proof (proj1 HU) as Hs.
  destruct c as [k ms|k ms [m'|]|ks src]; cbn [mo_nokrm mo_cmd mgen] in Hgen; [| | |done]; injection Hgen as <-;
    exists (ac_dot ctx); unfold mupdate; fold ctx; cbn beta; rewrite ?(mspec_nested sr0);
    (apply (mnewop_up sr0); [done|done|]).
  - by apply ogen_add_new.
  - apply ogen_rm_new_contains; [done|by apply HP].
  - apply ogen_rm_new_read; [done|by apply HP].
Qed.
Theorem mapor_refine_nk' (H : list (oprec op1)) : mohist_ok_nk H →
  ∀ (s : map1) (K : gset nat), moreach_nk H s K → s = mapor_spec_nk H K.
Proof. apply (map_sr_refine sr0 mogen_nk mo_cmd mogen_nk_mgen mogen_nk_new). Qed.

(** ** depth 2, re-derived *)
Lemma m2gen_nk_new U os a c o : muniv sr1 (λ _, True) U → gside U os →
  m2gen_nk (mspec_nk_of sr1 os) a c = Some o → ∃ d, mnewop sr1 (λ _, True) U d o.
Proof.
  intros HU HS Hgen. unfold m2gen_nk, m2gen in Hgen.
  set (ctx := derive_add_ctx (mread_ctx (mspec_nk_of sr1 os)) a) in *.
  assert (0 < dcounter (ac_dot ctx)) as Hp by apply derive_add_dot_pos.
  assert (∀ k1, muniv sr0 (kdom U k1) (mproj U k1)) as HU1 by apply HU.
  assert (∀ k1, gside (mproj U k1) (mproj os k1)) as HS1.
  { intros k1. apply mside_gside. by apply (mside_proj sr1 _ U HU). }
  assert (∀ k1 k2, sside odot (mproj (mproj U k1) k2) (mproj (mproj os k1) k2)) as HP.
  { intros k1 k2. by apply (mside_proj sr0 _ _ (HU1 k1)). }
  destruct c as [k1 k2 ms|k1 k2 ms [m'|]|k1 ks src|ks src]; cbn [m2_nokrm m2_cmd mgen] in Hgen;
    [| | |done|done]; injection Hgen as <-;
    exists (ac_dot ctx); unfold mupdate; fold ctx; cbn beta;
    rewrite ?(mspec_nested sr1); change (vspec sr1) with (mspec_nk_of sr0); rewrite ?(mspec_nested sr0);
    (apply (mnewop_up sr1); [done|done|]); (apply (mnewop_up sr0); [done|apply kdom_snoc|]).
  - by apply ogen_add_new.
  - apply ogen_rm_new_contains; [apply (HU1 k1)|by apply HP].
  - apply ogen_rm_new_read; [apply (HU1 k1)|by apply HP].
Qed.
Theorem map2_refine_nk' (H : list (oprec op2)) : m2hist_ok_nk H →
  ∀ (s : map2) (K : gset nat), m2reach_nk H s K → s = map2_spec_nk H K.
Proof. apply (map_sr_refine sr1 m2gen_nk m2_cmd m2gen_nk_mgen m2gen_nk_new). Qed.

(** * Part 3: depth 3 *)

(** What the application may ask a key-remove-free [Map<K1, Map<K2, Map<K3, Orswot<M>>>>] for: add
    members / remove members under [(k1, k2, k3)].  Every edit goes through
    [outer.update(k1, ctx, |mid, c| mid.update(k2, c, |inner, c2| inner.update(k3, c2, |set, c3| …)))];
    the add context is handed on unchanged; the remove context comes from the innermost set's
    [read_ctx] ([None]) or [contains m'] ([Some m']). *)
Inductive m3cmd :=
| M3Add (k1 k2 k3 : N) (ms : list N)
| M3Rm (k1 k2 k3 : N) (ms : list N) (src : option N).

Definition m3_cmd (c : m3cmd) : mcmd map2 op2 :=
  match c with
  | M3Add k1 k2 k3 ms =>
      MCUp k1 (λ mid ctx, mupdate vo2 mid k2 ctx (λ inner c2,
                 mupdate vo1 inner k3 c2 (λ _ c3, oadd_all ms c3)))
  | M3Rm k1 k2 k3 ms None =>
      MCUp k1 (λ mid ctx, mupdate vo2 mid k2 ctx (λ inner c2,
                 mupdate vo1 inner k3 c2 (λ v _, orm_all ms (derive_rm_ctx (oread_ctx v)))))
  | M3Rm k1 k2 k3 ms (Some m') =>
      MCUp k1 (λ mid ctx, mupdate vo2 mid k2 ctx (λ inner c2,
                 mupdate vo1 inner k3 c2 (λ v _, orm_all ms (derive_rm_ctx (ocontains v m')))))
  end.
Definition m3gen_nk (s : map3) (a : N) (c : m3cmd) : option op3 := mgen vo3 s a (m3_cmd c).

Definition map3_spec_nk (H : list (oprec op3)) (K : gset nat) : map3 := map3_spec_nk_of (known_ops H K).
(** decider for the monitor *)
Definition map3_nk_ok (H : list (oprec op3)) (K : gset nat) (s : map3) : bool :=
  bool_decide (s = map3_spec_nk H K).

Notation m3reach_nk := (reach mnew (mapply (map_valops (map_valops orswot_valops)))
                          (mmerge (map_valops (map_valops orswot_valops))) adm_per_actor True).
Notation m3hist_ok_nk := (hist_ok mnew (mapply (map_valops (map_valops orswot_valops)))
                            (mmerge (map_valops (map_valops orswot_valops))) m3gen_nk adm_per_actor True).

Lemma m3gen_nk_new U os a c o : muniv sr2 (λ _, True) U → gside U os →
  m3gen_nk (mspec_nk_of sr2 os) a c = Some o → ∃ d, mnewop sr2 (λ _, True) U d o.
Proof.
  intros HU HS Hgen. unfold m3gen_nk in Hgen.
  set (ctx := derive_add_ctx (mread_ctx (mspec_nk_of sr2 os)) a) in *.
  assert (0 < dcounter (ac_dot ctx)) as Hp by apply derive_add_dot_pos.
  assert (∀ k1, muniv sr1 (kdom U k1) (mproj U k1)) as HU1 by apply HU.
  assert (∀ k1, gside (mproj U k1) (mproj os k1)) as HS1.
  { intros k1. apply mside_gside. by apply (mside_proj sr2 _ U HU). }
  assert (∀ k1 k2, muniv sr0 (kdom (mproj U k1) k2) (mproj (mproj U k1) k2)) as HU2 by (intros k1; apply (HU1 k1)).
  assert (∀ k1 k2, gside (mproj (mproj U k1) k2) (mproj (mproj os k1) k2)) as HS2.
  { intros k1 k2. apply mside_gside. by apply (mside_proj sr1 _ _ (HU1 k1)). }
  assert (∀ k1 k2 k3, sside odot (mproj (mproj (mproj U k1) k2) k3) (mproj (mproj (mproj os k1) k2) k3)) as HP.
  { intros k1 k2 k3. by apply (mside_proj sr0 _ _ (HU2 k1 k2)). }
  destruct c as [k1 k2 k3 ms|k1 k2 k3 ms [m'|]]; cbn [m3_cmd mgen] in Hgen; injection Hgen as <-;
    exists (ac_dot ctx); unfold mupdate; fold ctx; cbn beta;
    rewrite ?(mspec_nested sr2); change (vspec sr2) with (mspec_nk_of sr1);
    rewrite ?(mspec_nested sr1); change (vspec sr1) with (mspec_nk_of sr0); rewrite ?(mspec_nested sr0);
    (apply (mnewop_up sr2); [done|done|]); (apply (mnewop_up sr1); [done|apply kdom_snoc|]);
    (apply (mnewop_up sr0); [done|apply kdom_snoc|]).
  - by apply ogen_add_new.
  - apply ogen_rm_new_contains; [apply (HU2 k1 k2)|by apply HP].
  - apply ogen_rm_new_read; [apply (HU2 k1 k2)|by apply HP].
Qed.

(** * The theorem at depth 3 *)
Theorem map3_refine_nk (H : list (oprec op3)) : m3hist_ok_nk H →
  ∀ (s : map3) (K : gset nat), m3reach_nk H s K → s = map3_spec_nk H K.
Proof. apply (map_sr_refine sr2 m3gen_nk m3_cmd (λ _ _ _ _ E, E) m3gen_nk_new). Qed.

(** ** corollaries *)
Section corollaries3.
  Context (H : list (oprec op3)) (Hok : m3hist_ok_nk H).
  Implicit Types (s : map3) (K : gset nat).
  Local Notation G := (map_sr_refine sr2 m3gen_nk m3_cmd (λ _ _ _ _ E, E) m3gen_nk_new).

  Theorem map3_nk_ok_reach s K : m3reach_nk H s K → map3_nk_ok H K s = true.
  Proof using Hok. intros Hr. apply bool_decide_eq_true. by apply map3_refine_nk. Qed.
  Theorem map3_converge_nk s1 s2 K : m3reach_nk H s1 K → m3reach_nk H s2 K → s1 = s2.
  Proof using Hok. exact (sr_converge sr2 m3gen_nk m3_cmd (λ _ _ _ _ E, E) m3gen_nk_new H Hok s1 s2 K). Qed.
  Theorem map3_merge_spec_nk s1 K1 s2 K2 : m3reach_nk H s1 K1 → m3reach_nk H s2 K2 →
    mmerge vo3 s1 s2 = map3_spec_nk H (K1 ∪ K2).
  Proof using Hok. exact (sr_merge_spec sr2 m3gen_nk m3_cmd (λ _ _ _ _ E, E) m3gen_nk_new H Hok s1 K1 s2 K2). Qed.
  Theorem map3_merge_is_union_nk s1 K1 s2 K2 s K :
    m3reach_nk H s1 K1 → m3reach_nk H s2 K2 → m3reach_nk H s K → K = K1 ∪ K2 → mmerge vo3 s1 s2 = s.
  Proof using Hok. exact (sr_merge_is_union sr2 m3gen_nk m3_cmd (λ _ _ _ _ E, E) m3gen_nk_new H Hok s1 K1 s2 K2 s K). Qed.
  Theorem map3_merge_comm_nk s1 K1 s2 K2 : m3reach_nk H s1 K1 → m3reach_nk H s2 K2 →
    mmerge vo3 s1 s2 = mmerge vo3 s2 s1.
  Proof using Hok. exact (sr_merge_comm sr2 m3gen_nk m3_cmd (λ _ _ _ _ E, E) m3gen_nk_new H Hok s1 K1 s2 K2). Qed.
  Theorem map3_merge_assoc_nk s1 K1 s2 K2 s3 K3 :
    m3reach_nk H s1 K1 → m3reach_nk H s2 K2 → m3reach_nk H s3 K3 →
    mmerge vo3 (mmerge vo3 s1 s2) s3 = mmerge vo3 s1 (mmerge vo3 s2 s3).
  Proof using Hok. exact (sr_merge_assoc sr2 m3gen_nk m3_cmd (λ _ _ _ _ E, E) m3gen_nk_new H Hok s1 K1 s2 K2 s3 K3). Qed.
  Theorem map3_merge_idem_nk s K : m3reach_nk H s K → mmerge vo3 s s = s.
  Proof using Hok. exact (sr_merge_idem sr2 m3gen_nk m3_cmd (λ _ _ _ _ E, E) m3gen_nk_new H Hok s K). Qed.
  Theorem map3_dup_apply_nk s K i r : m3reach_nk H s K → H !! i = Some r → i ∈ K →
    mapply vo3 s (op_val r) = s.
  Proof using Hok. exact (sr_dup_apply sr2 m3gen_nk m3_cmd (λ _ _ _ _ E, E) m3gen_nk_new H Hok s K i r). Qed.
  Theorem map3_stale_merge_nk s1 K1 s2 K2 : m3reach_nk H s1 K1 → m3reach_nk H s2 K2 → K2 ⊆ K1 →
    mmerge vo3 s1 s2 = s1 ∧ mmerge vo3 s2 s1 = s1.
  Proof using Hok. exact (sr_stale_merge sr2 m3gen_nk m3_cmd (λ _ _ _ _ E, E) m3gen_nk_new H Hok s1 K1 s2 K2). Qed.

  (** the components of a reachable state: outer clock, no pending outer remove, the outer key set,
      the outer entry clocks, and under every outer key the complete depth-2 map *)
  Theorem map3_components_nk s K k1 : m3reach_nk H s K →
    let os := known_ops H K in
    mclock s = mspec_clock os ∧ mdeferred s = ∅ ∧
    (k1 ∈ dom (mentries s) ↔ ∃ d o, MUp d k1 o ∈ os) ∧
    (∀ e, mentries s !! k1 = Some e →
          eclock e = dots_clock (gkdots os k1) ∧ eval e = map2_spec_nk_of (mproj os k1)) ∧
    default mnew (eval <$> mentries s !! k1) = map2_spec_nk_of (mproj os k1).
  Proof using Hok. exact (sr_components sr2 m3gen_nk m3_cmd (λ _ _ _ _ E, E) m3gen_nk_new H Hok s K k1). Qed.

  (** every delivery discipline at least as strong as per-actor delivery, with or without merges *)
  Theorem map3_refine_nk_any (adm : adm_t op3) (mg : Prop) s K :
    (∀ K i, adm H K i → adm_per_actor H K i) →
    reach mnew (mapply vo3) (mmerge vo3) adm mg H s K → s = map3_spec_nk H K.
  Proof using Hok. exact (sr_refine_any sr2 m3gen_nk m3_cmd (λ _ _ _ _ E, E) m3gen_nk_new H Hok adm mg s K). Qed.
End corollaries3.

(** the views of a depth-3 state: the member table and the pending nested removes of the innermost
    set under [(k1, k2, k3)] *)
Definition m3_state_entries (s : map3) (k1 k2 k3 : N) : gmap N (gmap N N) :=
  match mentries s !! k1 with Some e => m2_state_entries (eval e) k2 k3 | None => ∅ end.
Definition m3_state_parked (s : map3) (k1 k2 k3 : N) : option (gmap (gmap N N) (gset N)) :=
  m2_state_parked (default mnew (eval <$> mentries s !! k1)) k2 k3.

(** the member table of the innermost set of a specification state *)
Lemma mo_state_entries_spec p k : mo_state_entries (mapor_spec_nk_of p) k = ospec_entries (mproj p k).
Proof.
  unfold mo_state_entries. rewrite nk_entries_lookup. destruct (decide _) as [Hin|Hin]; [done|].
  rewrite (mproj_absent p k Hin). by vm_compute.
Qed.
Lemma m2_state_entries_spec p k1 k2 :
  m2_state_entries (map2_spec_nk_of p) k1 k2 = ospec_entries (mproj (mproj p k1) k2).
Proof.
  unfold m2_state_entries. rewrite n2_entries_lookup. destruct (decide _) as [Hin|Hin].
  - cbn [n2_ent eval]. apply mo_state_entries_spec.
  - rewrite (mproj_absent p k1 Hin). by vm_compute.
Qed.
Lemma m3_state_entries_spec p k1 k2 k3 :
  m3_state_entries (map3_spec_nk_of p) k1 k2 k3 = ospec_entries (mproj (mproj (mproj p k1) k2) k3).
Proof.
  unfold m3_state_entries. change map3_spec_nk_of with (mspec_nk_of sr2). rewrite (mentries_lookup sr2).
  destruct (decide _) as [Hin|Hin].
  - cbn [ment eval]. apply m2_state_entries_spec.
  - rewrite (mproj_absent p k1 Hin). by vm_compute.
Qed.

(** the nested Orswot ops addressed to [(k1, k2, k3)] *)
Lemma elem_of_mproj3 (os : list op3) k1 k2 k3 o : mtagged sr2 os →
  o ∈ mproj (mproj (mproj os k1) k2) k3 ↔ ∃ d, MUp d k1 (MUp d k2 (MUp d k3 o)) ∈ os.
Proof.
  intros Hs. split.
  - intros [d Hin]%elem_of_mproj. exists d.
    assert (mtagged sr1 (mproj os k1)) as Hs1 by exact (mproj_tagged sr2 os k1 Hs).
    pose proof (mproj_up sr1 (mproj os k1) k2 d (MUp d k3 o) Hs1 Hin eq_refl) as Hin2.
    exact (mproj_up sr2 os k1 d (MUp d k2 (MUp d k3 o)) Hs Hin2 eq_refl).
  - intros [d Hin]. apply elem_of_mproj. exists d. apply elem_of_mproj. exists d. apply elem_of_mproj. by exists d.
Qed.

Section member3.
  Context (H : list (oprec op3)) (Hok : m3hist_ok_nk H).
  Implicit Types (s : map3) (K : gset nat).

  (** the complete innermost set under [(k1, k2, k3)] *)
  Theorem map3_innermost_nk s K k1 k2 k3 : m3reach_nk H s K →
    let p := mproj (mproj (mproj (known_ops H K) k1) k2) k3 in
    default onew (eval <$> mentries (default mnew (eval <$> mentries (default mnew (eval <$> mentries s !! k1)) !! k2)) !! k3)
      = ospec_of p ∧
    m3_state_entries s k1 k2 k3 = ospec_entries p.
  Proof using Hok.
    intros Hr p. rewrite (map3_refine_nk H Hok s K Hr). unfold map3_spec_nk. split.
    - change map3_spec_nk_of with (mspec_nk_of sr2). rewrite (mspec_nested sr2).
      change (vspec sr2) with (mspec_nk_of sr1). rewrite (mspec_nested sr1).
      change (vspec sr1) with (mspec_nk_of sr0). by rewrite (mspec_nested sr0).
    - apply m3_state_entries_spec.
  Qed.

  (** the member sentence at depth 3 (C05): [m] is in the set under [(k1, k2, k3)] iff some known
      add of [m] under [(k1, k2, k3)] is covered by no known nested remove under [(k1, k2, k3)]
      naming [m] *)
  Theorem map3_member_iff_nk s K k1 k2 k3 m : m3reach_nk H s K →
    m ∈ dom (m3_state_entries s k1 k2 k3) ↔
    ∃ d ms, MUp d k1 (MUp d k2 (MUp d k3 (OAdd d ms))) ∈ known_ops H K ∧ m ∈ ms ∧
            ¬ ∃ d' c ms', MUp d' k1 (MUp d' k2 (MUp d' k3 (ORm c ms'))) ∈ known_ops H K ∧ m ∈ ms' ∧
                          dcounter d <= vget c (dactor d).
  Proof using Hok.
    intros Hr. destruct (map3_innermost_nk s K k1 k2 k3 Hr) as [_ ->].
    pose proof (sr_hist_wf sr2 m3gen_nk m3_cmd (λ _ _ _ _ E, E) m3gen_nk_new H Hok) as [HH HU].
    pose proof (sr_known_side sr2 m3gen_nk m3_cmd (λ _ _ _ _ E, E) m3gen_nk_new H Hok s K Hr) as HS.
    set (os := known_ops H K) in *.
    assert (mtagged sr2 os) as Hs by exact (mside_tagged sr2 _ _ HU os HS).
    set (p := mproj (mproj (mproj os k1) k2) k3).
    assert (∀ o, o ∈ p ↔ ∃ d, MUp d k1 (MUp d k2 (MUp d k3 o)) ∈ os) as Hpin
      by (intros o; by apply elem_of_mproj3).
    assert (∀ d ms, OAdd d ms ∈ p ↔ MUp d k1 (MUp d k2 (MUp d k3 (OAdd d ms))) ∈ os) as Hadd.
    { intros d ms. rewrite Hpin. split; [|by exists d]. intros [d0 Hin].
      destruct (Hs _ Hin) as [d1 Ht]. cbn in Ht. destruct Ht as (E1 & _ & _ & Hop). cbn in Hop. congruence. }
    assert (∀ d ms, OAdd d ms ∈ p → dcounter d ≠ 0) as Hpos.
    { intros d ms Hin%Hadd. assert (0 < dcounter d); [|lia].
      destruct HU as (_ & Hq & _). eapply Hq. by apply HS. }
    assert (ospec_entry p m ≠ ∅ ↔ ∃ d, d ∈ live_dots p m) as Hlive.
    { rewrite ospec_entry_empty_iff by done.
      destruct (live_dots p m) as [|x l]; split; try done.
      - by intros [? ?%elem_of_nil].
      - intros _. exists x. by left. }
    rewrite elem_of_dom, ospec_entries_lookup. cbn zeta.
    transitivity (∃ d, d ∈ live_dots p m).
    - rewrite <- Hlive, <- vis_empty_false. destruct (vis_empty (ospec_entry p m)); split; try done.
      by intros [? ?].
    - setoid_rewrite elem_of_live_dots. setoid_rewrite covered_false. split.
      + intros (d & (ms & Hin%Hadd & Hm) & Hn). exists d, ms. split_and!; [done..|].
        intros (d' & c & ms' & Ho' & Hm' & Hle). apply Hn. exists c, ms'. split_and!; [|done..].
        apply Hpin. by exists d'.
      + intros (d & ms & Ho%Hadd & Hm & Hn). exists d. split; [by exists ms|].
        intros (c & ms' & [d' Ho']%Hpin & Hm' & Hle). apply Hn. by exists d', c, ms'.
  Qed.
End member3.

(** * Non-vacuity: two actors.  Actor 1 adds member 10 under (7,3,1) (op 0); actor 2 sees it, removes
    10 under (7,3,1) (op 1, nested context {1:1}) and adds 20 under (8,4,2) (op 2); actor 1 adds 21
    under (7,4,1) (op 3).  Replica A receives op 1 BEFORE op 0 (the nested remove overtakes the add it
    observed: it is parked inside the innermost set under (7,3,1)), then op 2.  Replica B receives
    ops 0 and 3.  Their merge, in both orders, equals the specification of all four ops and the
    state of replica C that received the ops in order: 10 is gone. *)
Local Ltac n3_adm :=
  eexists; split; [done|]; intros [|[|[|[|j]]]] r' Hlt Hj Ha; cbn in Hj, Ha; simplify_eq; try lia; set_solver.
Local Ltac n3_own :=
  intros [|[|[|[|j]]]] r Hj Ha; cbn in Hj, Ha; simplify_eq; set_solver.

Section example.
  Let o0 : op3 := MUp (Dot 1 1) 7 (MUp (Dot 1 1) 3 (MUp (Dot 1 1) 1 (OAdd (Dot 1 1) [10]))).
  Let o1 : op3 := MUp (Dot 2 1) 7 (MUp (Dot 2 1) 3 (MUp (Dot 2 1) 1 (ORm {[1 := 1]} [10]))).
  Let o2 : op3 := MUp (Dot 2 2) 8 (MUp (Dot 2 2) 4 (MUp (Dot 2 2) 2 (OAdd (Dot 2 2) [20]))).
  Let o3 : op3 := MUp (Dot 1 2) 7 (MUp (Dot 1 2) 4 (MUp (Dot 1 2) 1 (OAdd (Dot 1 2) [21]))).
  Let r0 := OpRec 1 o0 ∅.
  Let r1 := OpRec 2 o1 (∅ ∪ {[0%nat]}).
  Let r2 := OpRec 2 o2 (∅ ∪ {[0%nat]} ∪ {[1%nat]}).
  Let r3 := OpRec 1 o3 (∅ ∪ {[0%nat]}).
  Let H : list (oprec op3) := [r0; r1; r2; r3].
  Let KA : gset nat := ∅ ∪ {[1%nat]} ∪ {[2%nat]}.
  Let KB : gset nat := ∅ ∪ {[0%nat]} ∪ {[3%nat]}.
  Let KC : gset nat := ∅ ∪ {[0%nat]} ∪ {[1%nat]} ∪ {[2%nat]} ∪ {[3%nat]}.
  Let sA1 := mapply vo3 mnew o1.
  Let sA := mapply vo3 sA1 o2.
  Let sB := mapply vo3 (mapply vo3 mnew o0) o3.
  Let sC := mapply vo3 (mapply vo3 (mapply vo3 (mapply vo3 mnew o0) o1) o2) o3.

  Example map3_nk_example :
    m3hist_ok_nk H ∧
    ¬ adm_causal H ∅ 1%nat ∧
    m3reach_nk H sA KA ∧
    m3_state_parked sA1 7 3 1 = Some {[ ({[1 := 1]} : gmap N N) := ({[10]} : gset N) ]} ∧
    m3_state_parked sA 7 3 1 = Some {[ ({[1 := 1]} : gmap N N) := ({[10]} : gset N) ]} ∧
    m3reach_nk H sB KB ∧
    m3_state_entries sB 7 3 1 = {[10 := {[1 := 1]}]} ∧
    m3reach_nk H (mmerge vo3 sA sB) (KA ∪ KB) ∧
    m3reach_nk H sC KC ∧ KC = KA ∪ KB ∧
    mmerge vo3 sA sB = sC ∧ mmerge vo3 sB sA = sC ∧
    mmerge vo3 sA sB = map3_spec_nk H (KA ∪ KB) ∧
    map3_nk_ok H (KA ∪ KB) (mmerge vo3 sA sB) = true ∧
    map3_nk_ok H KA sA = true ∧
    m3_state_entries sC 7 3 1 = ∅ ∧
    m3_state_parked sC 7 3 1 = Some ∅ ∧
    m3_state_entries sC 7 4 1 = {[21 := {[1 := 2]}]} ∧
    m3_state_entries sC 8 4 2 = {[20 := {[2 := 2]}]}.
  Proof.
    assert (m3hist_ok_nk H) as Hok.
    { change H with (((([] ++ [r0]) ++ [r1]) ++ [r2]) ++ [r3]).
      apply (hist_snoc _ _ _ _ _ _ _ (mapply vo3 mnew o0) _ 1 (M3Add 7 4 1 [21])).
      - apply (hist_snoc _ _ _ _ _ _ _ (mapply vo3 (mapply vo3 mnew o0) o1) _ 2 (M3Add 8 4 2 [20])).
        + apply (hist_snoc _ _ _ _ _ _ _ (mapply vo3 mnew o0) _ 2 (M3Rm 7 3 1 [10] None)).
          * apply (hist_snoc _ _ _ _ _ _ _ mnew _ 1 (M3Add 7 3 1 [10])); [constructor|constructor|n3_own|by vm_compute].
          * apply (reach_apply _ _ _ _ _ _ mnew ∅ 0%nat r0); [constructor|done|n3_adm].
          * n3_own.
          * by vm_compute.
        + apply (reach_apply _ _ _ _ _ _ _ _ 1%nat r1); [|done|n3_adm].
          apply (reach_apply _ _ _ _ _ _ mnew ∅ 0%nat r0); [constructor|done|n3_adm].
        + n3_own.
        + by vm_compute.
      - apply (reach_apply _ _ _ _ _ _ mnew ∅ 0%nat r0); [constructor|done|n3_adm].
      - n3_own.
      - by vm_compute. }
    assert (m3reach_nk H sA KA) as HA.
    { apply (reach_apply _ _ _ _ _ _ _ _ 2%nat r2); [|done|n3_adm].
      apply (reach_apply _ _ _ _ _ _ mnew ∅ 1%nat r1); [constructor|done|n3_adm]. }
    assert (m3reach_nk H sB KB) as HB.
    { apply (reach_apply _ _ _ _ _ _ _ _ 3%nat r3); [|done|n3_adm].
      apply (reach_apply _ _ _ _ _ _ mnew ∅ 0%nat r0); [constructor|done|n3_adm]. }
    assert (m3reach_nk H sC KC) as HC.
    { apply (reach_apply _ _ _ _ _ _ _ _ 3%nat r3); [|done|n3_adm].
      apply (reach_apply _ _ _ _ _ _ _ _ 2%nat r2); [|done|n3_adm].
      apply (reach_apply _ _ _ _ _ _ _ _ 1%nat r1); [|done|n3_adm].
      apply (reach_apply _ _ _ _ _ _ mnew ∅ 0%nat r0); [constructor|done|n3_adm]. }
    assert (KC = KA ∪ KB) as HK by (apply (bool_decide_unpack _); by vm_compute).
    assert (m3reach_nk H (mmerge vo3 sA sB) (KA ∪ KB)) as HM by (by apply reach_merge).
    split_and!.
    - exact Hok.
    - intros (r & Hr & Hd). cbn in Hr. injection Hr as <-. cbn in Hd.
      revert Hd. apply (bool_decide_unpack _). by vm_compute.
    - exact HA.
    - apply (bool_decide_unpack _). by vm_compute.
    - apply (bool_decide_unpack _). by vm_compute.
    - exact HB.
    - apply (bool_decide_unpack _). by vm_compute.
    - exact HM.
    - exact HC.
    - exact HK.
    - exact (map3_merge_is_union_nk H Hok sA KA sB KB sC KC HA HB HC HK).
    - apply (map3_merge_is_union_nk H Hok sB KB sA KA sC KC HB HA HC).
      apply (bool_decide_unpack _). by vm_compute.
    - by apply (map3_refine_nk H Hok).
    - by apply (map3_nk_ok_reach H Hok).
    - by apply (map3_nk_ok_reach H Hok).
    - apply (bool_decide_unpack _). by vm_compute.
    - apply (bool_decide_unpack _). by vm_compute.
    - apply (bool_decide_unpack _). by vm_compute.
    - apply (bool_decide_unpack _). by vm_compute.
  Qed.
End example.

(** closed restatement of the example (stated above with section-local abbreviations) *)
Lemma map3_nk_example_closed :
  ∃ (H : list (oprec (mop (mop (mop oop))))) (sA sB sC : cmap (cmap (cmap orswot))) (KA KB : gset nat),
    m3hist_ok_nk H ∧ length H = 4%nat ∧
    ¬ adm_causal H ∅ 1%nat ∧
    m3reach_nk H sA KA ∧
    m3_state_parked sA 7 3 1 = Some {[ ({[1 := 1]} : gmap N N) := ({[10]} : gset N) ]} ∧
    m3reach_nk H sB KB ∧
    m3_state_entries sB 7 3 1 = {[10 := {[1 := 1]}]} ∧
    m3reach_nk H sC (KA ∪ KB) ∧
    mmerge vo3 sA sB = sC ∧ mmerge vo3 sB sA = sC ∧
    mmerge vo3 sA sB = map3_spec_nk H (KA ∪ KB) ∧
    map3_nk_ok H (KA ∪ KB) (mmerge vo3 sA sB) = true ∧
    map3_nk_ok H KA sA = true ∧
    m3_state_entries sC 7 3 1 = ∅ ∧
    m3_state_parked sC 7 3 1 = Some ∅ ∧
    m3_state_entries sC 7 4 1 = {[21 := {[1 := 2]}]} ∧
    m3_state_entries sC 8 4 2 = {[20 := {[2 := 2]}]}.
Proof.
  pose proof map3_nk_example as P. cbv zeta in P.
  destruct P as (P1 & P2 & P3 & P4 & P5 & P6 & P7 & P8 & P9 & P10 & P11 & P12 & P13 & P14 & P15 & P16 & P17 & P18 & P19).
  rewrite P10 in P9.
  lazymatch type of P3 with reach _ _ _ _ _ ?H ?sA ?KA =>
    lazymatch type of P6 with reach _ _ _ _ _ _ ?sB ?KB =>
      lazymatch type of P9 with reach _ _ _ _ _ _ ?sC _ => exists H, sA, sB, sC, KA, KB end end end.
  split_and!; try assumption. reflexivity.
Qed.

Print Assumptions sr0.
Print Assumptions sr1.
Print Assumptions sr2.
Print Assumptions sr3.
Print Assumptions muniv_nk_univ.
Print Assumptions nk_univ_muniv.
Print Assumptions n2_univ_muniv.
Print Assumptions nk_apply_fresh'.
Print Assumptions nk_merge'.
Print Assumptions n2_apply_fresh'.
Print Assumptions n2_merge'.
Print Assumptions n3_apply_fresh.
Print Assumptions n3_merge.
Print Assumptions n3_reset_inert.
Print Assumptions mapor_refine_nk'.
Print Assumptions map2_refine_nk'.
Print Assumptions m3gen_nk_new.
Print Assumptions map3_refine_nk.
Print Assumptions map3_nk_ok_reach.
Print Assumptions map3_converge_nk.
Print Assumptions map3_merge_spec_nk.
Print Assumptions map3_merge_is_union_nk.
Print Assumptions map3_merge_comm_nk.
Print Assumptions map3_merge_assoc_nk.
Print Assumptions map3_merge_idem_nk.
Print Assumptions map3_dup_apply_nk.
Print Assumptions map3_stale_merge_nk.
Print Assumptions map3_components_nk.
Print Assumptions map3_refine_nk_any.
Print Assumptions map3_innermost_nk.
Print Assumptions map3_member_iff_nk.
Print Assumptions map3_nk_example.
Print Assumptions map3_nk_example_closed.
