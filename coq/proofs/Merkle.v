(** MerkleReg: the state is a function of the set of received nodes.
    Part 2: the theorems (apply, merge, reads, writes on heads), closed
    instances for the executable [enc_hash], non-vacuity examples. *)
From Crdt Require Import model.Merkle proofs.MerkleInv.
From stdpp Require Import gmap fin_maps fin_sets.

Section merkle_thms.
  Context (hash : mnode → N).
  Context (hash_inj : ∀ n1 n2, hash n1 = hash n2 → n1 = n2).
  Local Notation keyed := (keyed hash).
  Local Notation Inv := (Inv hash).
  Local Notation apply_all :=
    (foldl (λ acc n, acc ≫= λ s, mk_apply hash s n)).

  (** The received set of a list of nodes: the map [hash n ↦ n]. *)
  Definition R_of (ns : list mnode) : gmap N mnode :=
    list_to_map ((λ n, (hash n, n)) <$> ns).

  Lemma R_of_cons n ns : R_of (n :: ns) = <[hash n := n]> (R_of ns).
  Proof. done. Qed.

  Lemma lookup_R_of ns h n : R_of ns !! h = Some n ↔ n ∈ ns ∧ h = hash n.
  Proof.
    induction ns as [|a ns IH].
    - unfold R_of. cbn. rewrite lookup_empty, elem_of_nil. naive_solver.
    - rewrite R_of_cons, lookup_insert_Some, IH, elem_of_cons. split.
      + intros [[<- <-]|[? [? ->]]]; auto.
      + intros [[->|?] ->]; [auto|].
        destruct (decide (hash a = hash n)) as [Heq|]; [|auto].
        apply hash_inj in Heq as ->. auto.
  Qed.

  Lemma keyed_R_of ns : keyed (R_of ns).
  Proof. intros h n [_ ?]%lookup_R_of. done. Qed.

  Lemma R_of_ext ns ns' : (∀ n, n ∈ ns ↔ n ∈ ns') → R_of ns = R_of ns'.
  Proof.
    intros H. apply map_eq_Some. intros k m. rewrite !lookup_R_of, H. done.
  Qed.

  Lemma lookup_union_keyed R1 R2 h n :
    keyed R1 → keyed R2 →
    (R1 ∪ R2) !! h = Some n ↔ R1 !! h = Some n ∨ R2 !! h = Some n.
  Proof.
    intros H1 H2. rewrite lookup_union_Some_raw. split; [naive_solver|].
    intros [?|Hn]; [auto|]. destruct (R1 !! h) as [n'|] eqn:E; [|auto].
    left. f_equal. apply hash_inj. by rewrite <-(H1 _ _ E), <-(H2 _ _ Hn).
  Qed.

  Lemma keyed_union R1 R2 : keyed R1 → keyed R2 → keyed (R1 ∪ R2).
  Proof. intros H1 H2 h n [?|[_ ?]]%lookup_union_Some_raw; eauto. Qed.

  Lemma union_keyed_comm R1 R2 : keyed R1 → keyed R2 → R1 ∪ R2 = R2 ∪ R1.
  Proof.
    intros H1 H2. apply map_eq_Some. intros k m.
    rewrite !lookup_union_keyed by done. tauto.
  Qed.

  Lemma R_of_values R : keyed R → R_of (snd <$> map_to_list R) = R.
  Proof.
    intros HR. apply map_eq_Some. intros k m. rewrite lookup_R_of, elem_of_values. split.
    - intros [[k' Hk'] ->]. by rewrite <-(HR _ _ Hk').
    - intros Hk. split; [eauto|by apply HR].
  Qed.

  (** * T1: apply *)
  Lemma Inv_apply_all ns : ∀ s R,
    Inv s R → ∃ s', apply_all (Some s) ns = Some s' ∧ Inv s' (R ∪ R_of ns).
  Proof.
    induction ns as [|a ns IH]; intros s R HI.
    - exists s. split; [done|]. unfold R_of. cbn. by rewrite (right_id_L ∅ (∪)).
    - destruct (Inv_apply hash hash_inj s R a HI) as (s1 & Hs1 & HI1).
      destruct (IH _ _ HI1) as (s' & Hs' & HI'). exists s'. split.
      { cbn [foldl mbind option_bind]. by rewrite Hs1. }
      replace (R ∪ R_of (a :: ns)) with (<[hash a:=a]> R ∪ R_of ns); [done|].
      pose proof (gi_key _ _ _ _ HI) as HR.
      apply map_eq_Some. intros k m.
      rewrite !lookup_union_keyed by auto using keyed_R_of, insert_keyed.
      rewrite !lookup_R_of, lookup_insert_Some, elem_of_cons. split.
      + intros [[[<- <-]|[? ?]]|[? ->]]; auto.
      + intros [Hk|[[->|?] ->]]; auto.
        destruct (decide (hash a = k)) as [<-|]; [|auto].
        left. left. split; [done|]. apply hash_inj. by apply HR.
  Qed.

  (** The state reached from [mk_new] by applying any list of nodes is the
      specification state of its set of nodes: the fuel never runs out, and
      order and duplication are irrelevant. *)
  Theorem mk_apply_all_spec ns :
    foldl (λ acc n, acc ≫= λ s, mk_apply hash s n) (Some mk_new) ns
    = Some (spec_state (R_of ns)).
  Proof.
    destruct (Inv_apply_all ns mk_new ∅ (Inv_new hash)) as (s' & -> & HI).
    rewrite (left_id_L ∅ (∪)) in HI. f_equal. by eapply Inv_unique.
  Qed.

  Corollary mk_apply_all_order ns ns' :
    (∀ n, n ∈ ns ↔ n ∈ ns') →
    apply_all (Some mk_new) ns = apply_all (Some mk_new) ns'.
  Proof. intros H. by rewrite !mk_apply_all_spec, (R_of_ext _ _ H). Qed.

  Corollary Inv_apply_all_new ns :
    ∃ s, apply_all (Some mk_new) ns = Some s ∧ Inv s (R_of ns).
  Proof.
    destruct (Inv_apply_all ns mk_new ∅ (Inv_new hash)) as (s' & -> & HI).
    rewrite (left_id_L ∅ (∪)) in HI. eauto.
  Qed.

  (** One step, in specification form. *)
  Theorem mk_apply_spec s R n :
    Inv s R → mk_apply hash s n = Some (spec_state (<[hash n := n]> R)).
  Proof.
    intros HI. destruct (Inv_apply hash hash_inj s R n HI) as (s' & -> & HI').
    f_equal. by eapply Inv_unique.
  Qed.

  (** The invariant is exactly "being the specification state". *)
  Theorem Inv_spec_state R : keyed R → Inv (spec_state R) R.
  Proof.
    intros HR. destruct (Inv_apply_all_new (snd <$> map_to_list R)) as (s & _ & HI).
    rewrite (R_of_values _ HR) in HI.
    by rewrite <-(Inv_unique _ _ _ HI).
  Qed.

  Theorem Inv_iff s R : Inv s R ↔ keyed R ∧ s = spec_state R.
  Proof.
    split.
    - intros HI. split; [apply HI|by eapply Inv_unique].
    - intros [HR ->]. by apply Inv_spec_state.
  Qed.

  (** Projections of the invariant in the form given in the task. *)
  Lemma Inv_union s R : Inv s R → mk_dag s ∪ mk_orphans s = R.
  Proof.
    intros HI. apply map_eq_Some. intros k m.
    rewrite lookup_union_Some_raw, (gi_R _ _ _ _ HI). split.
    - intros [?|[_ ?]]; auto.
    - intros [?|[Ho|[[]%elem_of_nil _]]]; [auto|].
      destruct (mk_dag s !! k) eqn:E; [|auto].
      rewrite (gi_disj _ _ _ _ HI k) in Ho by eauto. done.
  Qed.

  Lemma Inv_disjoint s R : Inv s R → mk_dag s ##ₘ mk_orphans s.
  Proof.
    intros HI. apply map_disjoint_spec. intros k x y Hx Hy.
    rewrite (gi_disj _ _ _ _ HI k) in Hy by eauto. done.
  Qed.

  Lemma Inv_closed s R h n c :
    Inv s R → mk_dag s !! h = Some n → c ∈ nchildren n → is_Some (mk_dag s !! c).
  Proof. apply GInv_closed. Qed.

  (** * T2: merge *)
  Lemma Inv_nodes s R :
    Inv s R →
    R_of ((snd <$> map_to_list (mk_dag s)) ++ (snd <$> map_to_list (mk_orphans s))) = R.
  Proof.
    intros HI. pose proof (gi_key _ _ _ _ HI) as HR.
    apply map_eq_Some. intros k m.
    rewrite lookup_R_of, elem_of_app, !elem_of_values, (gi_R _ _ _ _ HI). split.
    - intros [[[k' Hk']|[k' Hk']] ->];
        assert (R !! k' = Some m) as Hm by (apply (gi_R _ _ _ _ HI); auto);
        rewrite <-(HR _ _ Hm); auto.
    - intros [Hk|[Hk|[[]%elem_of_nil _]]];
        (split; [eauto|]); apply HR, (gi_R _ _ _ _ HI); auto.
  Qed.

  Theorem Inv_merge s1 s2 R1 R2 :
    Inv s1 R1 → Inv s2 R2 →
    ∃ s', mk_merge hash s1 s2 = Some s' ∧ Inv s' (R1 ∪ R2).
  Proof.
    intros H1 H2. unfold mk_merge.
    destruct (Inv_apply_all ((snd <$> map_to_list (mk_dag s2)) ++
                             (snd <$> map_to_list (mk_orphans s2))) s1 R1 H1)
      as (s' & Hs' & HI').
    rewrite (Inv_nodes _ _ H2) in HI'. eauto.
  Qed.

  Theorem mk_merge_spec s1 s2 R1 R2 :
    Inv s1 R1 → Inv s2 R2 → mk_merge hash s1 s2 = Some (spec_state (R1 ∪ R2)).
  Proof.
    intros H1 H2. destruct (Inv_merge _ _ _ _ H1 H2) as (s' & -> & HI').
    f_equal. by eapply Inv_unique.
  Qed.

  Corollary mk_merge_comm s1 s2 R1 R2 :
    Inv s1 R1 → Inv s2 R2 → mk_merge hash s1 s2 = mk_merge hash s2 s1.
  Proof.
    intros H1 H2. rewrite (mk_merge_spec _ _ _ _ H1 H2), (mk_merge_spec _ _ _ _ H2 H1).
    by rewrite (union_keyed_comm R1 R2) by apply H1 || apply H2.
  Qed.

  Corollary mk_merge_assoc s1 s2 s3 R1 R2 R3 :
    Inv s1 R1 → Inv s2 R2 → Inv s3 R3 →
    (mk_merge hash s1 s2 ≫= λ s12, mk_merge hash s12 s3)
    = (mk_merge hash s2 s3 ≫= λ s23, mk_merge hash s1 s23).
  Proof.
    intros H1 H2 H3.
    destruct (Inv_merge _ _ _ _ H1 H2) as (s12 & -> & H12).
    destruct (Inv_merge _ _ _ _ H2 H3) as (s23 & -> & H23).
    cbn [mbind option_bind].
    rewrite (mk_merge_spec _ _ _ _ H12 H3), (mk_merge_spec _ _ _ _ H1 H23).
    by rewrite (assoc_L (∪)).
  Qed.

  Corollary mk_merge_idemp s R : Inv s R → mk_merge hash s s = Some s.
  Proof.
    intros HI. rewrite (mk_merge_spec _ _ _ _ HI HI), (idemp_L (∪)).
    f_equal. symmetry. by eapply Inv_unique.
  Qed.

  (** * T3: reads *)
  Lemma Inv_roots_dag s R h : Inv s R → h ∈ mk_roots s → is_Some (mk_dag s !! h).
  Proof. intros HI Hh. by apply (gi_roots _ _ _ _ HI) in Hh as [? _]. Qed.

  Lemma Inv_roots s R h :
    Inv s R →
    h ∈ mk_roots s ↔
    visible R h ∧ ∀ h' n', R !! h' = Some n' → visible R h' → h ∉ nchildren n'.
  Proof.
    intros HI. rewrite (gi_roots _ _ _ _ HI), (Inv_dag_visible _ _ _ _ HI).
    split; intros [Hv Hnp]; (split; [done|]); intros h' n'.
    - intros ? ?. eapply Hnp. by apply (Inv_dag_lookup _ _ _ _ _ HI).
    - intros [? ?]%(Inv_dag_lookup _ _ _ _ _ HI). by eapply Hnp.
  Qed.

  Theorem mk_read_lookup s R h n :
    Inv s R →
    mk_read s !! h = Some n ↔
    R !! h = Some n ∧ visible R h ∧
    ∀ h' n', R !! h' = Some n' → visible R h' → h ∉ nchildren n'.
  Proof.
    intros HI. unfold mk_read. rewrite map_filter_lookup_Some. cbn [fst].
    rewrite (Inv_dag_lookup _ _ _ _ _ HI), (Inv_roots _ _ _ HI). tauto.
  Qed.

  Theorem mk_read_dom s R : Inv s R → dom (mk_read s) = mk_roots s.
  Proof.
    intros HI. apply set_eq. intros h. rewrite elem_of_dom. unfold mk_read, is_Some.
    setoid_rewrite map_filter_lookup_Some. cbn [fst]. split.
    - intros (n & _ & ?). done.
    - intros Hh. destruct (Inv_roots_dag _ _ _ HI Hh) as [n Hn]. eauto.
  Qed.

  Theorem mk_read_heads s R : Inv s R → mk_roots s = heads (mk_dag s).
  Proof.
    intros HI. apply set_eq. intros h. rewrite elem_of_heads. apply (gi_roots _ _ _ _ HI).
  Qed.

  Lemma Inv_dom_dag s R : Inv s R → dom (mk_dag s) = vis_set R.
  Proof.
    intros HI. apply set_eq. intros h.
    by rewrite elem_of_dom, elem_of_vis_set, (Inv_dag_visible _ _ _ _ HI).
  Qed.

  Lemma Inv_dom_orphans s R : Inv s R → dom (mk_orphans s) = dom R ∖ vis_set R.
  Proof.
    intros HI. apply set_eq. intros h.
    rewrite elem_of_difference, !elem_of_dom, elem_of_vis_set. unfold is_Some.
    setoid_rewrite (Inv_orphans_lookup _ _ _ _ _ HI). naive_solver.
  Qed.

  Theorem mk_num_nodes_spec s R : Inv s R → mk_num_nodes s = size (vis_set R).
  Proof.
    intros HI. unfold mk_num_nodes. by rewrite <-(size_dom (D:=gset N)), (Inv_dom_dag _ _ HI).
  Qed.

  Theorem mk_num_nodes_orphans s R :
    Inv s R → (mk_num_nodes s + mk_num_orphans s = size R)%nat.
  Proof.
    intros HI. unfold mk_num_nodes, mk_num_orphans.
    rewrite <-!(size_dom (D:=gset N)), <-size_union.
    - f_equal. rewrite <-(Inv_union _ _ HI). by rewrite dom_union_L.
    - apply (map_disjoint_dom (D:=gset N)). by eapply Inv_disjoint.
  Qed.

  Theorem mk_num_orphans_spec s R :
    Inv s R → mk_num_orphans s = (size R - size (vis_set R))%nat.
  Proof.
    intros HI. pose proof (mk_num_nodes_orphans _ _ HI).
    rewrite <-(mk_num_nodes_spec _ _ HI). lia.
  Qed.

  Theorem mk_node_spec s R h : Inv s R → mk_node s h = R !! h.
  Proof.
    intros HI. unfold mk_node. destruct (mk_dag s !! h) as [n|] eqn:E.
    - symmetry. apply (gi_R _ _ _ _ HI). auto.
    - apply option_eq. intros m. rewrite (gi_R _ _ _ _ HI). split; [auto|].
      intros [?|[?|[[]%elem_of_nil _]]]; [congruence|done].
  Qed.

  Lemma visible_child R h n c :
    visible R h → R !! h = Some n → c ∈ nchildren n → visible R c.
  Proof. intros (n' & ? & Hc)%visible_unfold ? ?. simplify_eq. by apply Hc. Qed.

  Theorem mk_children_lookup s R h c m :
    Inv s R →
    mk_children s h !! c = Some m ↔
    ∃ n, R !! h = Some n ∧ visible R h ∧ c ∈ nchildren n ∧ R !! c = Some m.
  Proof.
    intros HI. unfold mk_children. destruct (mk_dag s !! h) as [n|] eqn:E.
    - apply (Inv_dag_lookup _ _ _ _ _ HI) in E as [Hn Hv].
      rewrite map_filter_lookup_Some, (Inv_dag_lookup _ _ _ _ _ HI). cbn [fst]. split.
      + intros [[? ?] ?]. eauto 6.
      + intros (n' & ? & _ & ? & ?). simplify_eq. eauto using visible_child.
    - rewrite lookup_empty. split; [done|]. intros (n & _ & Hv & _).
      apply (Inv_dag_visible _ _ _ _ HI) in Hv as [? ?]. congruence.
  Qed.

  Theorem mk_parents_lookup s R h p m :
    Inv s R →
    mk_parents s h !! p = Some m ↔ R !! p = Some m ∧ visible R p ∧ h ∈ nchildren m.
  Proof.
    intros HI. unfold mk_parents.
    rewrite map_filter_lookup_Some, (Inv_dag_lookup _ _ _ _ _ HI). cbn [snd]. tauto.
  Qed.

  Theorem elem_of_mk_missing s R n c :
    Inv s R → c ∈ mk_missing s n ↔ c ∈ nchildren n ∧ ¬ visible R c.
  Proof.
    intros HI. unfold mk_missing.
    rewrite elem_of_filter, <-(Inv_dag_visible _ _ _ _ HI), eq_None_not_Some. tauto.
  Qed.

  Theorem mk_missing_empty s R n :
    Inv s R → mk_missing s n = ∅ ↔ ∀ c, c ∈ nchildren n → visible R c.
  Proof.
    intros HI. split.
    - intros He c Hc. apply (Inv_dag_visible _ _ _ _ HI).
      destruct (mk_dag s !! c) eqn:E; [eauto|].
      assert (c ∈ mk_missing s n) as Hm by (by apply elem_of_filter).
      rewrite He in Hm. set_solver.
    - intros Hall. apply set_eq. intros c.
      rewrite (elem_of_mk_missing _ _ _ _ HI). split; [|set_solver].
      intros [? Hn]. destruct Hn. auto.
  Qed.

  (** * T4: gap closing and writes on heads *)
  (** Visibility after the arrival of [n] is the same least fixed point over
      the enlarged set: an orphan becomes visible exactly when its last
      missing ancestor arrives. *)
  Theorem vis_set_unfold R h :
    h ∈ vis_set R ↔
    ∃ m, R !! h = Some m ∧ ∀ c, c ∈ nchildren m → c ∈ vis_set R.
  Proof. rewrite elem_of_vis_set, visible_unfold. by setoid_rewrite elem_of_vis_set. Qed.

  Theorem gap_closing s R n s' h :
    Inv s R → mk_apply hash s n = Some s' →
    is_Some (mk_dag s' !! h) ↔
    ∃ m, <[hash n := n]> R !! h = Some m ∧
         ∀ c, c ∈ nchildren m → visible (<[hash n := n]> R) c.
  Proof.
    intros HI Hs'. destruct (Inv_apply hash hash_inj s R n HI) as (s'' & ? & HI'').
    simplify_eq. rewrite (Inv_dag_visible _ _ _ _ HI''). apply visible_unfold.
  Qed.

  Lemma visible_insert_mono R n h :
    R !! hash n = None → visible R h → visible (<[hash n := n]> R) h.
  Proof. intros. eapply visible_mono; [by apply insert_subseteq|done]. Qed.

  (** Nothing becomes visible unless the new node itself is visible, and
      then only nodes that have it among their ancestors do. *)
  Inductive ancestor (R : gmap N mnode) (a : N) : N → Prop :=
    | ancestor_refl : ancestor R a a
    | ancestor_step h m c :
        R !! h = Some m → c ∈ nchildren m → ancestor R a c → ancestor R a h.

  Theorem visible_insert_inv R n h :
    R !! hash n = None →
    visible (<[hash n := n]> R) h → ¬ visible R h →
    visible (<[hash n := n]> R) (hash n) ∧ ancestor (<[hash n := n]> R) (hash n) h.
  Proof.
    intros HR. induction 1 as [h m Hm Hc IH]. intros Hnv.
    destruct (decide (h = hash n)) as [->|Hne].
    { split; [by eapply visible_intro|constructor]. }
    rewrite lookup_insert_ne in Hm by done.
    assert (∃ c, c ∈ nchildren m ∧ ¬ visible R c) as (c & Hcm & Hcv).
    { destruct (decide (set_Forall (λ c, c ∈ vis_set R) (nchildren m))) as [Hall|Hex].
      - destruct Hnv. eapply visible_intro; [done|].
        intros c Hcm. by apply elem_of_vis_set, Hall.
      - apply not_set_Forall_Exists in Hex; [|apply _].
        destruct Hex as (c & ? & Hc'). exists c. cbn in Hc'. by rewrite <-elem_of_vis_set. }
    destruct (IH c Hcm Hcv) as [? ?]. split; [done|].
    eapply ancestor_step; [|done..]. by rewrite lookup_insert_ne.
  Qed.

  (** A node that nobody references yet and whose children are all visible
      goes straight into the dag; no orphan is released. *)
  Theorem mk_apply_unreferenced s R n :
    Inv s R → R !! hash n = None →
    (∀ h' m, R !! h' = Some m → hash n ∉ nchildren m) →
    (∀ c, c ∈ nchildren n → visible R c) →
    mk_apply hash s n =
    Some (Merkle ({[hash n]} ∪ (mk_roots s ∖ nchildren n))
                 (<[hash n := n]> (mk_dag s)) (mk_orphans s)).
  Proof.
    intros HI HR Hunref Hch. destruct (Inv_fresh _ _ _ _ HI HR) as [Hd Ho].
    unfold mk_apply. cbn [mk_apply_fuel].
    rewrite bool_decide_eq_false_2 by (intros [[? ?]|[? ?]]; congruence).
    rewrite (proj2 (all_seen_true _ _))
      by (intros c Hc; by apply (Inv_dag_visible _ _ _ _ HI), Hch).
    cbn zeta.
    assert (∀ k m, mk_orphans s !! k = Some m →
              all_seen (<[hash n:=n]> (mk_dag s)) (nchildren m) ≠ true) as Hnr.
    { intros k m Hm Hs. rewrite all_seen_true in Hs.
      apply (gi_orph _ _ _ _ HI _ _ Hm). intros c Hc.
      specialize (Hs c Hc). rewrite lookup_insert_ne in Hs; [done|].
      intros <-. eapply Hunref; [|exact Hc]. apply (gi_R _ _ _ _ HI). eauto. }
    assert (filter (λ p : N * mnode, all_seen (<[hash n:=n]> (mk_dag s)) (nchildren p.2) = true)
              (mk_orphans s) = ∅) as ->.
    { apply map_filter_empty_iff. intros k m Hm. cbn. by eapply Hnr. }
    assert (filter (λ p : N * mnode, all_seen (<[hash n:=n]> (mk_dag s)) (nchildren p.2) ≠ true)
              (mk_orphans s) = mk_orphans s) as ->.
    { apply map_filter_id. intros k m Hm. cbn. by eapply Hnr. }
    by rewrite map_to_list_empty.
  Qed.

  (** A write whose children are visible replaces exactly those of its
      children that were heads. *)
  Theorem write_replaces_heads s R n :
    Inv s R → R !! hash n = None →
    (∀ h' m, R !! h' = Some m → hash n ∉ nchildren m) →
    (∀ c, c ∈ nchildren n → visible R c) →
    ∃ s', mk_apply hash s n = Some s' ∧
          mk_roots s' = {[hash n]} ∪ (mk_roots s ∖ nchildren n) ∧
          mk_read s' = <[hash n := n]> (filter (λ p : N * mnode, p.1 ∉ nchildren n) (mk_read s)).
  Proof.
    intros HI HR Hunref Hch. eexists. split; [by eapply mk_apply_unreferenced|].
    split; [done|]. destruct (Inv_fresh _ _ _ _ HI HR) as [Hd Ho].
    apply map_eq_Some. intros k m. unfold mk_read. cbn [mk_roots mk_dag].
    rewrite lookup_insert_Some, !map_filter_lookup_Some, lookup_insert_Some. cbn [fst].
    rewrite elem_of_union, elem_of_singleton, elem_of_difference. split.
    - intros [[[<- <-]|[? ?]] [?|[? ?]]]; auto; congruence.
    - intros [[<- <-]|[? [[? ?] ?]]]; auto 6.
  Qed.

  (** [write(v, read().hashes())] followed by [apply]: the new node is the
      only head. *)
  Theorem write_on_heads s R v :
    let n := MNode (dom (mk_read s)) v in
    Inv s R → R !! hash n = None →
    (∀ h' m, R !! h' = Some m → hash n ∉ nchildren m) →
    ∃ s', mk_apply hash s n = Some s' ∧ mk_read s' = {[hash n := n]}.
  Proof.
    intros n HI HR Hunref.
    assert (nchildren n = mk_roots s) as Hn by (by apply mk_read_dom with R).
    destruct (write_replaces_heads s R n HI HR Hunref) as (s' & Hs' & Hr & Hread).
    { intros c Hc. rewrite Hn in Hc.
      by apply (Inv_dag_visible _ _ _ _ HI), (Inv_roots_dag _ _ _ HI). }
    exists s'. split; [done|]. rewrite Hread, Hn.
    rewrite (proj2 (map_filter_empty_iff _ _)); [done|].
    intros k m [_ Hk]%map_filter_lookup_Some Hnk. by apply Hnk.
  Qed.

  (** More generally, a write on a subset [C] of the heads. *)
  Corollary write_on_some_heads s R n :
    Inv s R → R !! hash n = None →
    (∀ h' m, R !! h' = Some m → hash n ∉ nchildren m) →
    nchildren n ⊆ mk_roots s →
    ∃ s', mk_apply hash s n = Some s' ∧
          mk_roots s' = {[hash n]} ∪ (mk_roots s ∖ nchildren n) ∧
          dom (mk_read s') = {[hash n]} ∪ (dom (mk_read s) ∖ nchildren n).
  Proof.
    intros HI HR Hunref HC.
    destruct (write_replaces_heads s R n HI HR Hunref) as (s' & Hs' & Hr & Hread).
    { intros c Hc. by apply (Inv_dag_visible _ _ _ _ HI), (Inv_roots_dag _ _ _ HI), HC. }
    exists s'. split; [done|]. split; [done|].
    destruct (Inv_apply hash hash_inj s R n HI) as (s'' & ? & HI''). simplify_eq.
    by rewrite (mk_read_dom _ _ HI''), (mk_read_dom _ _ HI).
  Qed.

  (** Merge of two reachable states, without mentioning the invariant. *)
  Theorem mk_merge_apply_all ns1 ns2 s1 s2 :
    apply_all (Some mk_new) ns1 = Some s1 →
    apply_all (Some mk_new) ns2 = Some s2 →
    mk_merge hash s1 s2 = apply_all (Some mk_new) (ns1 ++ ns2).
  Proof.
    intros E1 E2.
    destruct (Inv_apply_all_new ns1) as (? & ? & H1).
    destruct (Inv_apply_all_new ns2) as (? & ? & H2). simplify_eq.
    rewrite (mk_merge_spec _ _ _ _ H1 H2), mk_apply_all_spec. do 2 f_equal.
    apply map_eq_Some. intros k m.
    rewrite lookup_union_keyed by apply keyed_R_of.
    rewrite !lookup_R_of, elem_of_app. tauto.
  Qed.
End merkle_thms.

(** * Closed instances for the executable content address [enc_hash] *)
Lemma enc_hash_inj n1 n2 : enc_hash n1 = enc_hash n2 → n1 = n2.
Proof. unfold enc_hash. intros [= H]. by apply (inj encode). Qed.

Notation enc_apply_all := (foldl (λ acc n, acc ≫= λ s, mk_apply enc_hash s n)).

Theorem enc_apply_all_spec ns :
  foldl (λ acc n, acc ≫= λ s, mk_apply enc_hash s n) (Some mk_new) ns
  = Some (spec_state (R_of enc_hash ns)).
Proof. apply mk_apply_all_spec, enc_hash_inj. Qed.

Theorem enc_apply_all_order ns ns' :
  (∀ n, n ∈ ns ↔ n ∈ ns') →
  enc_apply_all (Some mk_new) ns = enc_apply_all (Some mk_new) ns'.
Proof. apply mk_apply_all_order, enc_hash_inj. Qed.

Theorem enc_apply_spec s R n :
  Inv enc_hash s R → mk_apply enc_hash s n = Some (spec_state (<[enc_hash n := n]> R)).
Proof. apply mk_apply_spec, enc_hash_inj. Qed.

Theorem enc_Inv_iff s R : Inv enc_hash s R ↔ keyed enc_hash R ∧ s = spec_state R.
Proof. apply Inv_iff, enc_hash_inj. Qed.

Theorem enc_merge_spec s1 s2 R1 R2 :
  Inv enc_hash s1 R1 → Inv enc_hash s2 R2 →
  mk_merge enc_hash s1 s2 = Some (spec_state (R1 ∪ R2)).
Proof. apply mk_merge_spec, enc_hash_inj. Qed.

Theorem enc_merge_apply_all ns1 ns2 s1 s2 :
  enc_apply_all (Some mk_new) ns1 = Some s1 →
  enc_apply_all (Some mk_new) ns2 = Some s2 →
  mk_merge enc_hash s1 s2 = enc_apply_all (Some mk_new) (ns1 ++ ns2).
Proof. apply mk_merge_apply_all, enc_hash_inj. Qed.

Theorem enc_merge_comm s1 s2 R1 R2 :
  Inv enc_hash s1 R1 → Inv enc_hash s2 R2 →
  mk_merge enc_hash s1 s2 = mk_merge enc_hash s2 s1.
Proof. apply mk_merge_comm, enc_hash_inj. Qed.

Theorem enc_merge_assoc s1 s2 s3 R1 R2 R3 :
  Inv enc_hash s1 R1 → Inv enc_hash s2 R2 → Inv enc_hash s3 R3 →
  (mk_merge enc_hash s1 s2 ≫= λ s12, mk_merge enc_hash s12 s3)
  = (mk_merge enc_hash s2 s3 ≫= λ s23, mk_merge enc_hash s1 s23).
Proof. apply mk_merge_assoc, enc_hash_inj. Qed.

Theorem enc_merge_idemp s R : Inv enc_hash s R → mk_merge enc_hash s s = Some s.
Proof. apply mk_merge_idemp, enc_hash_inj. Qed.

Theorem enc_write_on_heads s R v :
  let n := MNode (dom (mk_read s)) v in
  Inv enc_hash s R → R !! enc_hash n = None →
  (∀ h' m, R !! h' = Some m → enc_hash n ∉ nchildren m) →
  ∃ s', mk_apply enc_hash s n = Some s' ∧ mk_read s' = {[enc_hash n := n]}.
Proof. apply write_on_heads, enc_hash_inj. Qed.

(** * Non-vacuity *)
Module examples.
  Definition a := MNode ∅ 1.
  Definition b := MNode {[enc_hash a]} 2.
  Definition c := MNode {[enc_hash b]} 3.
  Definition d := MNode {[enc_hash a]} 4.
  Definition run := enc_apply_all (Some mk_new).
  (** gmaps carry (opaque) well-formedness proofs in this std++ version, so
      equalities are established through their deciders. *)
  Local Ltac by_compute :=
    match goal with
    | |- ?P => let d := constr:(_ : Decision P) in
               apply (@bool_decide_unpack P d); vm_compute; exact I
    end.

  (** [c] arrives first and is an orphan until [b] (its last missing
      ancestor) arrives. *)
  Example orphan_then_resolved :
    (run [c; a] = Some (Merkle {[enc_hash a]} {[enc_hash a := a]} {[enc_hash c := c]})) ∧
    (run [c; a; b] =
       Some (Merkle {[enc_hash c]}
               {[enc_hash a := a; enc_hash b := b; enc_hash c := c]} ∅)) ∧
    (mk_read <$> run [c; a; b; d] = Some {[enc_hash c := c; enc_hash d := d]}) ∧
    (run [c; a; b; d] = Some (spec_state (R_of enc_hash [c; a; b; d]))) ∧
    (run [c; a; b; d] = run [a; d; b; c; a]) ∧
    (vis_set (R_of enc_hash [c; a]) = {[enc_hash a]}).
  Proof. by_compute. Qed.

  Example merge_example :
    (run [c; a] ≫= λ s1, run [b; d] ≫= λ s2, mk_merge enc_hash s1 s2) = run [a; b; c; d] ∧
    (run [c; a] ≫= λ s1, run [b; d] ≫= λ s2, mk_merge enc_hash s2 s1) = run [a; b; c; d] ∧
    (mk_num_orphans <$> run [b; d]) = Some 2%nat.
  Proof. by_compute. Qed.

  (** A write on top of all heads leaves a single head. *)
  Example write_heads_example :
    (run [a; b; d] ≫= λ s,
       let n := MNode (dom (mk_read s)) 9 in mk_read <$> mk_apply enc_hash s n)
    = Some {[enc_hash (MNode {[enc_hash b; enc_hash d]} 9) := MNode {[enc_hash b; enc_hash d]} 9]}.
  Proof. by_compute. Qed.

  (** The hypothesis "nobody references the new node yet" of
      [write_on_heads] is necessary for an arbitrary injective [hash]:
      here [o] (an orphan waiting for [a]) was received before [a], and
      after the write [a] on top of the (empty) set of heads the only head
      is [o], not [a]. *)
  Definition o := MNode {[enc_hash a]} 7.
  Example write_on_heads_needs_unreferenced :
    let s := Merkle ∅ ∅ {[enc_hash o := o]} in
    run [o] = Some s ∧ Inv enc_hash s (R_of enc_hash [o]) ∧
    a = MNode (dom (mk_read s)) 1 ∧
    R_of enc_hash [o] !! enc_hash a = None ∧
    mk_read <$> mk_apply enc_hash s a = Some {[enc_hash o := o]} ∧
    ({[enc_hash o := o]} : gmap N mnode) ≠ {[enc_hash a := a]}.
  Proof.
    intros s. assert (run [o] = Some s) as Hrun by by_compute.
    split; [done|]. split.
    { destruct (Inv_apply_all_new enc_hash enc_hash_inj [o]) as (s' & Hs' & HI).
      fold run in Hs'. congruence. }
    by_compute.
  Qed.

  (** Why the invariant asks for the dag to be well-founded ([gi_vis]) and
      not merely closed under children: for an injective [hash] with a node
      that lists its own address, the state below satisfies "dag ∪ orphans =
      R, keys are hashes, dag closed under children, no ready orphan, roots =
      heads" and yet is not [spec_state R] (the node is never visible, and
      [mk_apply] indeed keeps it in the orphans). *)
  Definition n0 := MNode {[0%N]} 0%N.
  Definition hash0 (n : mnode) : N := if decide (n = n0) then 0%N else enc_hash n.
  Lemma hash0_inj n1 n2 : hash0 n1 = hash0 n2 → n1 = n2.
  Proof.
    unfold hash0. repeat case_decide; try congruence; try done.
    apply enc_hash_inj.
  Qed.
  Example closed_under_children_not_enough :
    let s := Merkle ∅ {[0%N := n0]} ∅ in
    let R : gmap N mnode := {[0%N := n0]} in
    mk_dag s ∪ mk_orphans s = R ∧ keyed hash0 R ∧
    (∀ h n c, mk_dag s !! h = Some n → c ∈ nchildren n → is_Some (mk_dag s !! c)) ∧
    mk_roots s = heads (mk_dag s) ∧
    s ≠ spec_state R ∧
    mk_apply hash0 mk_new n0 = Some (Merkle ∅ ∅ R) ∧ spec_state R = Merkle ∅ ∅ R.
  Proof.
    intros s R. split; [by_compute|]. split.
    { intros h n [<- <-]%lookup_singleton_Some. done. }
    split.
    { cbn. intros h n c [<- <-]%lookup_singleton_Some Hc. cbn in Hc. apply elem_of_singleton in Hc as ->. by eexists. }
    by_compute.
  Qed.
End examples.
