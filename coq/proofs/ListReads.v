(** The remaining read entry points of [List] and [GList] ([get], [position_entry],
    [first(_entry)], [last(_entry)], [iter_entries], [is_empty]) agree with the sequence
    that [read] returns. *)
From stdpp Require Import gmap.
From Crdt Require Import model.Identifier model.List proofs.ListIndex.
Local Open Scope N_scope.

Lemma l_iter_entries_read s : snd <$> l_iter_entries s = l_read s.
Proof. done. Qed.
Lemma l_is_empty_spec s : l_is_empty s = true ↔ l_read s = [].
Proof. unfold l_is_empty, l_read. destruct (lseq s); cbn; split; congruence. Qed.
Lemma l_first_spec s : l_first s = head (l_read s).
Proof. unfold l_first, l_first_entry, l_read. by destruct (lseq s). Qed.
Lemma l_last_spec s : l_last s = last (l_read s).
Proof. unfold l_last, l_last_entry, l_read. by rewrite fmap_last. Qed.

(** [position_entry] finds the (first) index holding the identifier; [get] and [position] agree there *)
Lemma l_position_entry_Some s id i : l_position_entry s id = Some i →
  ∃ v, lseq s !! i = Some (id, v) ∧ l_get s id = Some v ∧ l_position s i = Some v.
Proof.
  unfold l_position_entry, l_get, l_position, l_read.
  destruct (list_find _ (lseq s)) as [[j [id' v]]|] eqn:Hf; [|done]. cbn. intros [= ->].
  apply list_find_Some in Hf as (Hl & Hid & _). cbn in Hid. subst id'.
  exists v. split_and!; [done|done|]. by rewrite list_lookup_fmap, Hl.
Qed.
Lemma l_position_entry_None s id : l_position_entry s id = None ↔ id ∉ (lseq s).*1.
Proof.
  unfold l_position_entry. destruct (list_find _ (lseq s)) as [[j p]|] eqn:Hf; cbn.
  - apply list_find_Some in Hf as (Hl & Hid & _). split; [done|]. intros Hn. destruct Hn.
    apply elem_of_list_fmap. exists p. split; [done|]. by eapply elem_of_list_lookup_2.
  - split; [|done]. intros _ (p & -> & Hp)%elem_of_list_fmap.
    rewrite list_find_None in Hf. rewrite Forall_forall in Hf. by apply (Hf p Hp).
Qed.
Lemma l_get_Some s id v : l_get s id = Some v → (id, v) ∈ lseq s.
Proof.
  unfold l_get. destruct (list_find _ (lseq s)) as [[j [id' v']]|] eqn:Hf; [|done]. cbn. intros [= ->].
  apply list_find_Some in Hf as (Hl & Hid & _). cbn in Hid. subst id'. by eapply elem_of_list_lookup_2.
Qed.
Lemma l_get_None s id : l_get s id = None ↔ id ∉ (lseq s).*1.
Proof.
  rewrite <- l_position_entry_None. unfold l_get, l_position_entry.
  destruct (list_find _ (lseq s)); cbn; split; congruence.
Qed.
(** an element read at index [i] is found again through its identifier when identifiers are
    unique (strictly sorted sequences: every reachable state) *)
Lemma l_get_lookup s i id v : NoDup (lseq s).*1 → lseq s !! i = Some (id, v) →
  l_get s id = Some v ∧ l_position_entry s id = Some i.
Proof.
  intros Hnd Hl. unfold l_get, l_position_entry.
  destruct (list_find _ (lseq s)) as [[j [id' v']]|] eqn:Hf; cbn.
  - apply list_find_Some in Hf as (Hl' & Hid & _). cbn in Hid. subst id'.
    assert (j = i) as ->.
    { eapply NoDup_lookup; [exact Hnd| |]; rewrite list_lookup_fmap; [by rewrite Hl'|by rewrite Hl]. }
    rewrite Hl in Hl'. by injection Hl' as <-.
  - rewrite list_find_None, Forall_forall in Hf. destruct (Hf (id, v)); [by eapply elem_of_list_lookup_2|done].
Qed.

(** GList *)
Lemma gl_first_spec g : gl_first g = gl_get g 0.
Proof. by destruct g. Qed.
Lemma gl_last_spec g : gl_last g = gl_get g (pred (length g)).
Proof. unfold gl_last, gl_get. by rewrite last_lookup. Qed.
Lemma gl_is_empty_spec g : gl_is_empty g = true ↔ g = [].
Proof. destruct g; cbn; split; congruence. Qed.
