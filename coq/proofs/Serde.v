(** Property C19: the serde_json codec of model/Serde.v round-trips every
    state without a pending remove and every op; decoding does not depend on
    the order of object members / set elements; a state with a pending remove
    (finding K3) has no encoding. *)
From stdpp Require Import strings sorting.
From Coq Require Import ZifyBool ZifyN.
From Crdt Require Import model.Serde proofs.Identifier.

(** * Nested induction on JSON trees *)
Lemma json_ind' (P : json → Prop) :
  P JNull → (∀ b, P (JBool b)) → (∀ z, P (JNum z)) → (∀ s, P (JStr s)) →
  (∀ l, Forall P l → P (JArr l)) →
  (∀ l, Forall (λ p, P p.2) l → P (JObj l)) → ∀ j, P j.
Proof.
  intros Hn Hb Hz Hs Ha Ho. fix IH 1.
  intros [ |b|z|s|l|l]; [exact Hn|apply Hb|apply Hz|apply Hs|..].
  - apply Ha. revert l. fix go 1. intros [|x l]; constructor; [apply IH|apply go].
  - apply Ho. revert l. fix go 1. intros [|[k x] l]; constructor; [apply IH|apply go].
Qed.

(** * Round-trip predicate and the combinator lemmas *)
Definition codec_ok {V} (P : V → Prop) (c : codec V) : Prop :=
  ∀ v, P v → ∃ j, enc c v = Some j ∧ dec c j = Some v.
Notation codec_total c := (codec_ok (λ _, True) c).

Lemma codec_ok_weaken {V} (P Q : V → Prop) c :
  (∀ v, Q v → P v) → codec_ok P c → codec_ok Q c.
Proof. intros HPQ Hc v Hv. eauto. Qed.
Lemma codec_ok_is_Some {V} (P : V → Prop) c v : codec_ok P c → P v → is_Some (enc c v).
Proof. intros Hc Hv. destruct (Hc v Hv) as (j & -> & _). eauto. Qed.

Ltac vm_decide := apply (bool_decide_unpack _); vm_compute; exact I.

Ltac field_simpl :=
  unfold jfield, is_field; cbn [List.filter fst snd];
  rewrite ?String.eqb_refl;
  rewrite ?(proj2 (String.eqb_neq _ _)) by (done || by apply not_eq_sym);
  cbn [snd].

Section combinators.
  Context {A B C R : Type}.
  Implicit Types (ca : codec A) (cb : codec B) (cc : codec C).

  Lemma obj1_ok sa ca (mk : A → R) pa Pa :
    (∀ r, mk (pa r) = r) → codec_ok Pa ca →
    codec_ok (λ r, Pa (pa r)) (obj1_codec sa ca mk pa).
  Proof.
    intros Hmk Ha r Hpa. destruct (Ha _ Hpa) as (ja & Ea & Da).
    eexists; split; [cbn [obj1_codec enc]; rewrite Ea; reflexivity|].
    cbn [obj1_codec dec]. field_simpl. simpl. rewrite Da. simpl. by rewrite Hmk.
  Qed.

  Lemma obj2_ok sa sb ca cb (mk : A → B → R) pa pb Pa Pb :
    sa ≠ sb → (∀ r, mk (pa r) (pb r) = r) → codec_ok Pa ca → codec_ok Pb cb →
    codec_ok (λ r, Pa (pa r) ∧ Pb (pb r)) (obj2_codec sa sb ca cb mk pa pb).
  Proof.
    intros ? Hmk Ha Hb r (Hpa & Hpb).
    destruct (Ha _ Hpa) as (ja & Ea & Da), (Hb _ Hpb) as (jb & Eb & Db).
    eexists; split; [cbn [obj2_codec enc]; rewrite Ea, Eb; reflexivity|].
    cbn [obj2_codec dec]. field_simpl. simpl. rewrite Da. simpl. rewrite Db. simpl.
    by rewrite Hmk.
  Qed.

  Lemma obj3_ok sa sb sc ca cb cc (mk : A → B → C → R) pa pb pc Pa Pb Pc :
    sa ≠ sb → sa ≠ sc → sb ≠ sc → (∀ r, mk (pa r) (pb r) (pc r) = r) →
    codec_ok Pa ca → codec_ok Pb cb → codec_ok Pc cc →
    codec_ok (λ r, Pa (pa r) ∧ Pb (pb r) ∧ Pc (pc r))
             (obj3_codec sa sb sc ca cb cc mk pa pb pc).
  Proof.
    intros ??? Hmk Ha Hb Hc r (Hpa & Hpb & Hpc).
    destruct (Ha _ Hpa) as (ja & Ea & Da), (Hb _ Hpb) as (jb & Eb & Db),
             (Hc _ Hpc) as (jc & Ec & Dc).
    eexists; split; [cbn [obj3_codec enc]; rewrite Ea, Eb, Ec; reflexivity|].
    cbn [obj3_codec dec]. field_simpl. simpl. rewrite Da. simpl. rewrite Db. simpl.
    rewrite Dc. simpl. by rewrite Hmk.
  Qed.

  Lemma dec_obj3_explicit sa sb sc ca cb cc (mk : A → B → C → R) pa pb pc ja jb jc :
    sa ≠ sb → sa ≠ sc → sb ≠ sc →
    dec (obj3_codec sa sb sc ca cb cc mk pa pb pc)
        (JObj [(KField sa, ja); (KField sb, jb); (KField sc, jc)]) =
    a ← dec ca ja; b ← dec cb jb; c ← dec cc jc; Some (mk a b c).
  Proof. intros. cbn [obj3_codec dec]. by field_simpl. Qed.

  (** When does a struct encode at all. *)
  Lemma obj2_enc_is_Some sa sb ca cb (mk : A → B → R) pa pb r :
    is_Some (enc (obj2_codec sa sb ca cb mk pa pb) r) ↔
    is_Some (enc ca (pa r)) ∧ is_Some (enc cb (pb r)).
  Proof.
    cbn [obj2_codec enc]. destruct (enc ca (pa r)), (enc cb (pb r)); simpl;
      rewrite ?is_Some_alt; naive_solver.
  Qed.
  Lemma obj3_enc_is_Some sa sb sc ca cb cc (mk : A → B → C → R) pa pb pc r :
    is_Some (enc (obj3_codec sa sb sc ca cb cc mk pa pb pc) r) ↔
    is_Some (enc ca (pa r)) ∧ is_Some (enc cb (pb r)) ∧ is_Some (enc cc (pc r)).
  Proof.
    cbn [obj3_codec enc].
    destruct (enc ca (pa r)), (enc cb (pb r)), (enc cc (pc r)); simpl;
      rewrite ?is_Some_alt; naive_solver.
  Qed.

  Lemma tag1_ok ta ca Pa : codec_ok Pa ca → codec_ok Pa (tag1_codec ta ca).
  Proof.
    intros Ha a Hpa. destruct (Ha _ Hpa) as (ja & Ea & Da).
    eexists; split; [cbn [tag1_codec enc]; rewrite Ea; reflexivity|].
    cbn [tag1_codec dec]. simpl. by rewrite String.eqb_refl.
  Qed.

  Lemma tag2_ok ta tb ca cb (inj : A + B → R) prj Pa Pb :
    ta ≠ tb → (∀ r, inj (prj r) = r) → codec_ok Pa ca → codec_ok Pb cb →
    codec_ok (λ r, match prj r with inl a => Pa a | inr b => Pb b end)
             (tag2_codec ta tb ca cb inj prj).
  Proof.
    intros Hne Hinj Ha Hb r Hr. cbn [tag2_codec enc dec].
    destruct (prj r) as [a|b] eqn:Er.
    - destruct (Ha _ Hr) as (ja & -> & Da). eexists; split; [reflexivity|]. simpl.
      rewrite String.eqb_refl, Da. simpl. by rewrite <-Er, Hinj.
    - destruct (Hb _ Hr) as (jb & -> & Db). eexists; split; [reflexivity|]. simpl.
      rewrite (proj2 (String.eqb_neq _ _)) by (by apply not_eq_sym).
      rewrite String.eqb_refl, Db. simpl. by rewrite <-Er, Hinj.
  Qed.

  Lemma iso_ok (f : A → B) g ca (P : B → Prop) (Q : A → Prop) :
    (∀ b, P b → f (g b) = b) → (∀ b, P b → Q (g b)) → codec_ok Q ca →
    codec_ok P (iso_codec f g ca).
  Proof.
    intros Hfg HPQ Ha b Hb. destruct (Ha _ (HPQ _ Hb)) as (j & E & D).
    exists j. cbn [iso_codec enc dec]. rewrite E, D. simpl. by rewrite Hfg.
  Qed.

  Lemma pair_ok ca cb Pa Pb :
    codec_ok Pa ca → codec_ok Pb cb →
    codec_ok (λ p, Pa p.1 ∧ Pb p.2) (pair_codec ca cb).
  Proof.
    intros Ha Hb [a b] [Hpa Hpb].
    destruct (Ha _ Hpa) as (ja & Ea & Da), (Hb _ Hpb) as (jb & Eb & Db).
    cbn [fst snd] in *. eexists; split; [cbn [pair_codec enc fst snd]; rewrite Ea, Eb; reflexivity|].
    cbn [pair_codec dec]. rewrite Da. simpl. by rewrite Db.
  Qed.
End combinators.

Lemma mapM_rt {A J} (e : A → option J) (d : J → option A) l :
  Forall (λ x, ∃ j, e x = Some j ∧ d j = Some x) l →
  ∃ js, mapM e l = Some js ∧ mapM d js = Some l.
Proof.
  induction 1 as [|x l (j & E & D) _ (js & Es & Ds)]; [by exists []|].
  exists (j :: js). simpl. rewrite E, Es. simpl. by rewrite D, Ds.
Qed.

Lemma list_ok {V} (c : codec V) P : codec_ok P c → codec_ok (Forall P) (list_codec c).
Proof.
  intros Hc l Hl. destruct (mapM_rt (enc c) (dec c) l) as (js & E & D).
  { eapply Forall_impl; [done|]. intros x Hx. by apply Hc. }
  exists (JArr js). cbn [list_codec enc dec]. by rewrite E.
Qed.

Lemma n_ok : codec_total n_codec.
Proof.
  intros n _. eexists; split; [reflexivity|]. cbn [n_codec dec].
  destruct (Z.leb_spec 0 (Z.of_N n)); [by rewrite N2Z.id|lia].
Qed.

Lemma nset_ok : codec_total nset_codec.
Proof.
  apply (iso_ok _ _ _ _ (Forall (λ _, True))); [|by intros; apply Forall_true|apply list_ok, n_ok].
  intros s _. apply list_to_set_elements_L.
Qed.

Lemma list_to_map_reverse_to_list `{Countable K} {V} (m : gmap K V) :
  list_to_map (reverse (map_to_list m)) = m.
Proof.
  rewrite <-(list_to_map_to_list m) at 2. apply list_to_map_proper.
  - rewrite fmap_reverse, reverse_Permutation. apply NoDup_fst_map_to_list.
  - apply reverse_Permutation.
Qed.

Lemma nmap_ok {V} (c : codec V) P :
  codec_ok P c → codec_ok (map_Forall (λ _, P)) (nmap_codec c).
Proof.
  intros Hc m Hm. cbn [nmap_codec enc dec].
  edestruct (mapM_rt (λ p : N * V, pair (KNum p.1) <$> enc c p.2)
               (λ p : jkey * json, match p.1 with
                  | KNum n => pair n <$> dec c p.2 | KField _ => None end)
               (map_to_list m)) as (js & -> & D).
  { apply map_Forall_to_list in Hm. eapply Forall_impl; [exact Hm|].
    intros [k v] Hv. destruct (Hc v Hv) as (j & E & Dj).
    exists (KNum k, j). cbn [fst snd]. by rewrite E, Dj. }
  eexists; split; [reflexivity|]. simpl. rewrite D. simpl.
  by rewrite list_to_map_reverse_to_list.
Qed.

Lemma nmap_enc_is_Some {V} (c : codec V) m :
  is_Some (enc (nmap_codec c) m) ↔ map_Forall (λ _ v, is_Some (enc c v)) m.
Proof.
  cbn [nmap_codec enc]. rewrite fmap_is_Some, mapM_is_Some, map_Forall_to_list.
  apply Forall_proper; [|done]. intros [k v]. simpl. by rewrite fmap_is_Some.
Qed.

Lemma amap_ok {V} (c : codec V) P :
  codec_ok P c → codec_ok (map_Forall (λ _, P)) (amap_codec c).
Proof.
  intros Hc. eapply iso_ok; [| |apply list_ok, pair_ok; [apply n_ok|apply Hc]].
  - intros m _. apply list_to_map_reverse_to_list.
  - intros m Hm. apply map_Forall_to_list in Hm. eapply Forall_impl; [exact Hm|].
    by intros [k v].
Qed.

Lemma deferred_ok : codec_ok (λ d, d = ∅) deferred_codec.
Proof. intros d ->. by exists (JObj []). Qed.
Lemma deferred_enc_is_Some d : is_Some (enc deferred_codec d) ↔ d = ∅.
Proof.
  cbn [deferred_codec enc]. destruct (decide (d = ∅)); rewrite is_Some_alt; naive_solver.
Qed.

Lemma map_Forall_True `{Countable K} {V} (m : gmap K V) : map_Forall (λ _ _, True) m.
Proof. by intros ??. Qed.
Local Hint Resolve map_Forall_True Forall_true : core.

(** * Round trips, type by type.  [codec_total c]: every value round-trips. *)
Theorem vclock_rt : codec_total vclock_codec.
Proof. eapply codec_ok_weaken; [|apply nmap_ok, n_ok]. auto. Qed.
Theorem dot_rt : codec_total dot_codec.
Proof.
  eapply codec_ok_weaken; [|apply obj2_ok; [done|by intros []|apply n_ok..]]. done.
Qed.
Theorem gcounter_rt : codec_total gcounter_codec.
Proof. apply vclock_rt. Qed.
Theorem pncounter_rt : codec_total pncounter_codec.
Proof.
  eapply codec_ok_weaken; [|apply obj2_ok; [done|by intros []|apply vclock_rt..]]. done.
Qed.
Lemma dir_rt : codec_total dir_codec.
Proof. intros [] _; eexists; split; reflexivity. Qed.
Theorem pnop_rt : codec_total pnop_codec.
Proof.
  eapply codec_ok_weaken;
    [|apply obj2_ok; [done|by intros []|apply dot_rt|apply dir_rt]]. done.
Qed.
Theorem gset_rt : codec_total gset_codec.
Proof. apply nset_ok. Qed.
Theorem reg_rt : codec_total reg_codec.
Proof. apply (obj1_ok _ _ _ _ (λ _, True)); [done|apply n_ok]. Qed.
Theorem lww_rt : codec_total lww_codec.
Proof.
  eapply codec_ok_weaken; [|apply obj2_ok; [done|by intros []|apply n_ok..]]. done.
Qed.

(** ** Orswot *)
Theorem orswot_rt : codec_ok (λ s, odeferred s = ∅) orswot_codec.
Proof.
  eapply codec_ok_weaken;
    [|apply obj3_ok; [done..|by intros []|apply vclock_rt
                     |apply nmap_ok, vclock_rt|apply deferred_ok]].
  intros s Hs; cbn beta. auto.
Qed.
Theorem oop_rt : codec_total oop_codec.
Proof.
  eapply codec_ok_weaken;
    [|apply tag2_ok; [done|by intros []
       |apply obj2_ok; [done|by intros []|apply dot_rt|apply list_ok, n_ok]
       |apply obj2_ok; [done|by intros []|apply vclock_rt|apply list_ok, n_ok]]].
  intros [] _; cbn; auto.
Qed.

(** ** MVReg (literal list equality) *)
Theorem mvreg_rt : codec_total mvreg_codec.
Proof.
  eapply codec_ok_weaken; [|apply list_ok, pair_ok; [apply vclock_rt|apply n_ok]].
  intros l _. apply Forall_forall. done.
Qed.
Theorem mvop_rt : codec_total mvop_codec.
Proof.
  eapply codec_ok_weaken;
    [|apply tag1_ok, obj2_ok; [done|by intros []|apply vclock_rt|apply n_ok]]. done.
Qed.

(** ** Map, generic in the nested codec *)
Definition map_no_pending {V} (P : V → Prop) (m : cmap V) : Prop :=
  mdeferred m = ∅ ∧ map_Forall (λ _ e, P (eval e)) (mentries m).

Theorem map_codec_ok {V} (c : codec V) P :
  codec_ok P c → codec_ok (map_no_pending P) (cmap_codec c).
Proof.
  intros Hc. eapply codec_ok_weaken;
    [|apply obj3_ok; [done..|by intros []|apply vclock_rt| |apply deferred_ok]].
  2:{ apply nmap_ok, (obj2_ok _ _ _ _ _ _ _ (λ _, True) P);
        [done|by intros []|apply vclock_rt|apply Hc]. }
  intros m [Hd He]; cbn beta. split_and!; [done| |done].
  intros k e Hk. split; [done|]. by apply (He k e).
Qed.
Theorem mop_codec_ok {O} (oc : codec O) P :
  codec_ok P oc →
  codec_ok (λ o, match o with MRm _ _ => True | MUp _ _ op => P op end) (mop_codec oc).
Proof.
  intros Hc. eapply codec_ok_weaken;
    [|apply tag2_ok; [done|by intros []
       |apply obj2_ok; [done|by intros []|apply vclock_rt|apply nset_ok]
       |apply (obj3_ok _ _ _ _ _ _ _ _ _ _ (λ _, True) (λ _, True) P);
          [done..|by intros [[]]|apply dot_rt|apply n_ok|apply Hc]]].
  intros [] ?; cbn; auto.
Qed.

(** Instances: Map<MVReg>, Map<Orswot>, Map<Map<MVReg>>, Map<Map<Orswot>>. *)
Corollary map_mvreg_rt : codec_ok (λ m, mdeferred m = ∅) (cmap_codec mvreg_codec).
Proof.
  eapply codec_ok_weaken; [|apply map_codec_ok, mvreg_rt]. intros m ?; split; auto.
Qed.
Corollary map_orswot_rt :
  codec_ok (map_no_pending (λ s, odeferred s = ∅)) (cmap_codec orswot_codec).
Proof. apply map_codec_ok, orswot_rt. Qed.
Corollary map_map_mvreg_rt :
  codec_ok (map_no_pending (λ m, mdeferred m = ∅)) (cmap_codec (cmap_codec mvreg_codec)).
Proof. apply map_codec_ok, map_mvreg_rt. Qed.
Corollary map_map_orswot_rt :
  codec_ok (map_no_pending (map_no_pending (λ s, odeferred s = ∅)))
           (cmap_codec (cmap_codec orswot_codec)).
Proof. apply map_codec_ok, map_orswot_rt. Qed.
Corollary mop_mvop_rt : codec_total (mop_codec mvop_codec).
Proof. eapply codec_ok_weaken; [|apply mop_codec_ok, mvop_rt]. by intros []. Qed.
Corollary mop_oop_rt : codec_total (mop_codec oop_codec).
Proof. eapply codec_ok_weaken; [|apply mop_codec_ok, oop_rt]. by intros []. Qed.
Corollary mop_mop_mvop_rt : codec_total (mop_codec (mop_codec mvop_codec)).
Proof. eapply codec_ok_weaken; [|apply mop_codec_ok, mop_mvop_rt]. by intros []. Qed.
Corollary mop_mop_oop_rt : codec_total (mop_codec (mop_codec oop_codec)).
Proof. eapply codec_ok_weaken; [|apply mop_codec_ok, mop_oop_rt]. by intros []. Qed.

(** ** BigInt: base-2^32 digits *)
Lemma n_digits_rt f n : (n < 2 ^ N.of_nat f)%N → n_undigits (n_digits f n) = n.
Proof.
  revert n; induction f as [|f IH]; intros n Hn.
  - change (N.of_nat 0) with 0%N in Hn. rewrite N.pow_0_r in Hn.
    assert (n = 0%N) as -> by lia. done.
  - cbn [n_digits]. destruct (N.eqb_spec n 0) as [->|Hz]; [done|].
    cbn [n_undigits]. rewrite IH.
    + pose proof (N.div_mod' n B32). lia.
    + rewrite Nat2N.inj_succ, N.pow_succ_r' in Hn.
      apply N.div_lt_upper_bound; [done|]. unfold B32. lia.
Qed.
Lemma n_digits_bound f n : Forall (λ d, (d < B32)%N) (n_digits f n).
Proof.
  revert n; induction f as [|f IH]; intros n; cbn [n_digits]; [constructor|].
  destruct (n =? 0)%N; constructor; [by apply N.mod_lt|apply IH].
Qed.
Lemma n_size_bound n : (n < 2 ^ N.of_nat (S (N.to_nat (N.log2 n))))%N.
Proof.
  destruct (decide (n = 0%N)) as [->|]; [done|]. apply N.log2_lt_pow2; lia.
Qed.
Lemma u32_ok : codec_ok (λ d, (d < B32)%N) u32_codec.
Proof.
  intros d Hd. eexists; split; [reflexivity|]. cbn [u32_codec dec].
  destruct (_ && _) eqn:E; [by rewrite N2Z.id|lia].
Qed.
Lemma sign_ok : codec_ok (λ z, (-1 ≤ z ≤ 1)%Z) sign_codec.
Proof.
  intros z Hz. eexists; split; [reflexivity|]. cbn [sign_codec dec].
  destruct (_ && _) eqn:E; [done|lia].
Qed.
Theorem z_rt : codec_total z_codec.
Proof.
  eapply iso_ok; [| |apply pair_ok; [apply sign_ok|apply list_ok, u32_ok]].
  - intros z _. cbn [fst snd]. rewrite n_digits_rt by apply n_size_bound.
    rewrite N2Z.inj_abs_N. destruct z; simpl; lia.
  - intros z _. cbn [fst snd]. split; [destruct z; simpl; lia|apply n_digits_bound].
Qed.

(** ** Rationals, identifiers (generic in the BigInt codec), GList, List *)
Lemma Q2Qc_this (q : Qc) : Q2Qc (Qmake (Qnum q) (Qden q)) = q.
Proof. apply Qc_is_canon. destruct q as [[n d] Hq]. simpl. apply Qred_correct. Qed.

(** Adjacent elements are related (weaker than [StronglySorted]). *)
Fixpoint chain {X} (Rel : X → X → Prop) (l : list X) : Prop :=
  match l with
  | x :: l' => match l' with y :: _ => Rel x y | [] => True end ∧ chain Rel l'
  | [] => True
  end.
Lemma StronglySorted_chain {X} (Rel : X → X → Prop) l : StronglySorted Rel l → chain Rel l.
Proof.
  induction 1 as [|x l _ IH Hx]; [done|]. split; [|done].
  destruct l; [done|]. by inversion Hx.
Qed.
Lemma chain_fmap {X Y} (f : X → Y) (Rel : Y → Y → Prop) l :
  chain Rel (f <$> l) → chain (λ a b, Rel (f a) (f b)) l.
Proof. induction l as [|x [|y l] IH]; simpl; naive_solver. Qed.

Section ident.
  Context (zc : codec Z) (Hz : codec_total zc).

  Lemma q_rt : codec_total (q_codec zc).
  Proof.
    intros q _. destruct (pair_ok zc zc _ _ Hz Hz (Qnum q, Zpos (Qden q))) as (j & E & D);
      [done|]. exists j. cbn [q_codec enc dec]. rewrite E, D. simpl. by rewrite Q2Qc_this.
  Qed.
  Lemma ident_ok {T} (tc : codec T) : codec_total tc → codec_total (ident_codec zc tc).
  Proof.
    intros Ht. eapply codec_ok_weaken; [|apply list_ok, pair_ok; [apply q_rt|apply Ht]].
    intros l _. by apply Forall_forall.
  Qed.
  Lemma orddot_rt : codec_total orddot_codec.
  Proof.
    eapply codec_ok_weaken; [|apply obj2_ok; [done|by intros []|apply n_ok..]]. done.
  Qed.

  Lemma idset_resort {T} (tcmp : T → T → comparison) (l : list (list (Qc * T))) :
    chain (λ a b, idcmp tcmp a b = Lt) l → foldr (idset_insert tcmp) [] l = l.
  Proof.
    induction l as [|x l IH]; [done|]. intros [Hx Hl]. cbn [foldr]. rewrite IH by done.
    destruct l as [|y l]; [done|]. cbn [idset_insert]. by rewrite Hx.
  Qed.
  Lemma idmap_resort {T X} (tcmp : T → T → comparison) (l : list (list (Qc * T) * X)) :
    chain (λ a b, idcmp tcmp a.1 b.1 = Lt) l →
    foldr (λ p acc, idmap_insert tcmp p.1 p.2 acc) [] l = l.
  Proof.
    induction l as [|[i v] l IH]; [done|]. intros [Hx Hl]. cbn [foldr]. rewrite IH by done.
    destruct l as [|y l]; [done|]. cbn [idmap_insert fst snd] in *. by rewrite Hx.
  Qed.

  (** GList state: the identifiers are increasing ([BTreeSet] order). *)
  Theorem glist_rt :
    codec_ok (chain (λ a b, idcmp ncompare a b = Lt)) (glist_codec zc).
  Proof.
    eapply iso_ok; [| |apply list_ok, ident_ok, n_ok].
    - intros l Hl. by apply idset_resort.
    - intros l _. by apply Forall_forall.
  Qed.
  Theorem glop_rt : codec_total (glop_codec zc).
  Proof. apply tag1_ok, (obj1_ok _ _ _ _ (λ _, True)); [done|apply ident_ok, n_ok]. Qed.

  (** List state: the keys of [seq] are increasing ([BTreeMap] order). *)
  Definition lseq_sorted (l : list (list (Qc * (N * N)) * N)) : Prop :=
    chain (λ a b, idcmp odcmp a.1 b.1 = Lt) l.
  Lemma lseq_ok : codec_ok lseq_sorted (lseq_codec zc).
  Proof.
    eapply iso_ok; [| |apply list_ok, pair_ok; [apply ident_ok, orddot_rt|apply n_ok]].
    - intros l Hl. by apply idmap_resort.
    - intros l _. by apply Forall_forall.
  Qed.
  Theorem clist_rt : codec_ok (λ s, lseq_sorted (lseq s)) (clist_codec zc).
  Proof.
    eapply codec_ok_weaken;
      [|apply obj2_ok; [done|by intros []|apply lseq_ok|apply vclock_rt]]. done.
  Qed.
  Corollary clist_rt_sorted s :
    sorted_keys odcmp (lseq s) →
    ∃ j, enc (clist_codec zc) s = Some j ∧ dec (clist_codec zc) j = Some s.
  Proof.
    intros Hs. apply clist_rt. unfold lseq_sorted.
    apply (chain_fmap fst (λ a b, idcmp odcmp a b = Lt)), StronglySorted_chain, Hs.
  Qed.
  Corollary glist_rt_sorted g :
    sorted_ids ncompare g →
    ∃ j, enc (glist_codec zc) g = Some j ∧ dec (glist_codec zc) j = Some g.
  Proof. intros Hs. apply glist_rt, StronglySorted_chain, Hs. Qed.
  Theorem lop_rt : codec_total (lop_codec zc).
  Proof.
    eapply codec_ok_weaken;
      [|apply tag2_ok; [done|by intros []
         |apply obj2_ok; [done|by intros []|apply ident_ok, orddot_rt|apply n_ok]
         |apply obj2_ok; [done|by intros []|apply ident_ok, orddot_rt|apply dot_rt]]].
    intros [] _; cbn; auto.
  Qed.
End ident.

(** The same with the executable BigInt codec: nothing is parameterised. *)
Definition q_rt_z := q_rt z_codec z_rt.
Definition glist_rt_z := glist_rt z_codec z_rt.
Definition glop_rt_z := glop_rt z_codec z_rt.
Definition clist_rt_z := clist_rt z_codec z_rt.
Definition clist_rt_sorted_z := clist_rt_sorted z_codec z_rt.
Definition glist_rt_sorted_z := glist_rt_sorted z_codec z_rt.
Definition lop_rt_z := lop_rt z_codec z_rt.
Definition ident_rt_n_z := ident_ok z_codec z_rt n_codec n_ok.
Definition ident_rt_orddot_z := ident_ok z_codec z_rt orddot_codec orddot_rt.

(** ** MerkleReg *)
Theorem node_rt : codec_total mnode_codec.
Proof.
  eapply codec_ok_weaken;
    [|apply obj2_ok; [done|by intros []|apply nset_ok|apply n_ok]]. done.
Qed.
Theorem merkle_rt : codec_total merkle_codec.
Proof.
  eapply codec_ok_weaken;
    [|apply obj3_ok; [done|done|done|by intros []|apply nset_ok|apply amap_ok, node_rt|apply amap_ok, node_rt]].
  intros m _; cbn beta. auto.
Qed.

(** * Order insensitivity of decoding *)
Lemma filter_perm {X} (f : X → bool) l l' : l ≡ₚ l' → List.filter f l ≡ₚ List.filter f l'.
Proof.
  induction 1 as [|x l l' _ IH|x y l|l1 l2 l3 _ IH1 _ IH2]; simpl; [done| | |by etrans].
  - destruct (f x); by rewrite IH.
  - destruct (f x), (f y); try done. apply perm_swap.
Qed.
Lemma jfield_perm s l l' : l ≡ₚ l' → jfield s l = jfield s l'.
Proof.
  intros Hp%(filter_perm (is_field s)). unfold jfield.
  destruct (List.filter (is_field s) l) as [|p [|q k]].
  - by apply Permutation_nil_l in Hp as <-.
  - by apply Permutation_singleton_l in Hp as <-.
  - apply Permutation_length in Hp.
    by destruct (List.filter (is_field s) l') as [|? [|??]].
Qed.

(** Structs: any order of the members. *)
Lemma dec_obj1_perm {A R} sa (ca : codec A) (mk : A → R) pa l l' :
  l ≡ₚ l' → dec (obj1_codec sa ca mk pa) (JObj l) = dec (obj1_codec sa ca mk pa) (JObj l').
Proof. intros Hp. cbn [obj1_codec dec]. by rewrite (jfield_perm _ _ _ Hp). Qed.
Lemma dec_obj2_perm {A B R} sa sb (ca : codec A) (cb : codec B) (mk : A → B → R) pa pb l l' :
  l ≡ₚ l' →
  dec (obj2_codec sa sb ca cb mk pa pb) (JObj l) = dec (obj2_codec sa sb ca cb mk pa pb) (JObj l').
Proof. intros Hp. cbn [obj2_codec dec]. by rewrite !(jfield_perm _ _ _ Hp). Qed.
Lemma dec_obj3_perm {A B C R} sa sb sc (ca : codec A) (cb : codec B) (cc : codec C)
    (mk : A → B → C → R) pa pb pc l l' :
  l ≡ₚ l' →
  dec (obj3_codec sa sb sc ca cb cc mk pa pb pc) (JObj l) =
  dec (obj3_codec sa sb sc ca cb cc mk pa pb pc) (JObj l').
Proof. intros Hp. cbn [obj3_codec dec]. by rewrite !(jfield_perm _ _ _ Hp). Qed.

Lemma mapM_perm {X Y} (f : X → option Y) l l' :
  l ≡ₚ l' →
  match mapM f l, mapM f l' with
  | Some k, Some k' => k ≡ₚ k' | None, None => True | _, _ => False end.
Proof.
  induction 1 as [|x l l' _ IH|x y l|l1 l2 l3 _ IH1 _ IH2]; simpl.
  - done.
  - destruct (f x); simpl; [|done]. destruct (mapM f l), (mapM f l'); simpl; try done.
    by constructor.
  - destruct (f x), (f y), (mapM f l); simpl; try done. apply perm_swap.
  - destruct (mapM f l1), (mapM f l2), (mapM f l3); try done. by etrans.
Qed.

(** Sets as arrays: any order of the elements. *)
Theorem dec_nset_perm l l' : l ≡ₚ l' → dec nset_codec (JArr l) = dec nset_codec (JArr l').
Proof.
  intros Hp. cbn [nset_codec iso_codec list_codec dec].
  pose proof (mapM_perm (dec n_codec) _ _ Hp) as H.
  destruct (mapM (dec n_codec) l), (mapM (dec n_codec) l'); try done. simpl.
  f_equal. by apply list_to_set_perm_L.
Qed.

(** Maps as objects: any order of the members (distinct keys). *)
Lemma nmap_dec_keys {V} (c : codec V) l k :
  mapM (λ p : jkey * json, match p.1 with
          | KNum n => pair n <$> dec c p.2 | KField _ => None end) l = Some k →
  KNum <$> k.*1 = l.*1.
Proof.
  intros Ek%mapM_Some_1. induction Ek as [|[[s|n] j] [n' v] l k Hx _ IH]; [done|done|].
  simpl in Hx. destruct (dec c j); simplify_eq/=. by rewrite IH.
Qed.
Theorem dec_nmap_perm {V} (c : codec V) l l' :
  l ≡ₚ l' → NoDup l.*1 → dec (nmap_codec c) (JObj l) = dec (nmap_codec c) (JObj l').
Proof.
  intros Hp Hnd. cbn [nmap_codec dec].
  set (f := λ p : jkey * json, match p.1 with
              | KNum n => pair n <$> dec c p.2 | KField _ => None end).
  pose proof (mapM_perm f _ _ Hp) as H.
  destruct (mapM f l) as [k|] eqn:Ek, (mapM f l') as [k'|]; try done. simpl. f_equal.
  apply list_to_map_proper; [|by rewrite !reverse_Permutation].
  rewrite fmap_reverse, reverse_Permutation.
  rewrite <-(nmap_dec_keys c _ _ Ek) in Hnd. by apply NoDup_fmap in Hnd; [|intros ?? [=]].
Qed.

Corollary dec_vclock_perm l l' :
  l ≡ₚ l' → NoDup l.*1 → dec_vclock (JObj l) = dec_vclock (JObj l').
Proof. apply dec_nmap_perm. Qed.
Corollary dec_orswot_perm l l' : l ≡ₚ l' → dec_orswot (JObj l) = dec_orswot (JObj l').
Proof. apply dec_obj3_perm. Qed.
Corollary dec_orswot_entries_perm jc jd l l' :
  l ≡ₚ l' → NoDup l.*1 →
  dec_orswot (JObj [(KField "clock", jc); (KField "entries", JObj l); (KField "deferred", jd)]) =
  dec_orswot (JObj [(KField "clock", jc); (KField "entries", JObj l'); (KField "deferred", jd)]).
Proof.
  intros Hp Hnd. unfold orswot_codec. rewrite !dec_obj3_explicit by done.
  by rewrite (dec_nmap_perm vclock_codec _ _ Hp Hnd).
Qed.
Corollary dec_cmap_perm {V} (c : codec V) l l' :
  l ≡ₚ l' → dec (cmap_codec c) (JObj l) = dec (cmap_codec c) (JObj l').
Proof. apply dec_obj3_perm. Qed.
Corollary dec_merkle_perm l l' : l ≡ₚ l' → dec_merkle (JObj l) = dec_merkle (JObj l').
Proof. apply dec_obj3_perm. Qed.

(** * The refutation (finding K3): a pending remove has no encoding *)
Lemma vclock_enc_is_Some c : is_Some (enc vclock_codec c).
Proof. by eapply codec_ok_is_Some; [apply vclock_rt|]. Qed.

Theorem orswot_enc_is_Some s : is_Some (enc_orswot s) ↔ odeferred s = ∅.
Proof.
  unfold orswot_codec. rewrite obj3_enc_is_Some, deferred_enc_is_Some.
  split; [naive_solver|]. intros Hd. split_and!; [apply vclock_enc_is_Some| |done].
  by eapply codec_ok_is_Some; [apply (nmap_ok _ _ vclock_rt)|].
Qed.
Theorem orswot_enc_None s : enc_orswot s = None ↔ odeferred s ≠ ∅.
Proof. by rewrite eq_None_not_Some, orswot_enc_is_Some. Qed.

(** Map: generic in the nested codec's own failure set. *)
Theorem cmap_enc_is_Some {V} (c : codec V) m :
  is_Some (enc (cmap_codec c) m) ↔
  mdeferred m = ∅ ∧ map_Forall (λ _ e, is_Some (enc c (eval e))) (mentries m).
Proof.
  unfold cmap_codec. rewrite obj3_enc_is_Some, deferred_enc_is_Some, nmap_enc_is_Some.
  split.
  - intros (_ & He & Hd). split; [done|]. intros k e Hk.
    by apply (proj1 (obj2_enc_is_Some _ _ _ _ _ _ _ _) (He k e Hk)).
  - intros (Hd & He). split_and!; [apply vclock_enc_is_Some| |done]. intros k e Hk.
    apply (proj2 (obj2_enc_is_Some _ _ _ _ _ _ _ _)).
    split; [apply vclock_enc_is_Some|by apply (He k e)].
Qed.
Theorem cmap_enc_None {V} (c : codec V) m :
  enc (cmap_codec c) m = None ↔
  mdeferred m ≠ ∅ ∨ ∃ k e, mentries m !! k = Some e ∧ enc c (eval e) = None.
Proof.
  rewrite eq_None_not_Some, cmap_enc_is_Some. split.
  - intros Hn. destruct (decide (mdeferred m = ∅)) as [Hd|]; [right|by left].
    assert (¬ map_Forall (λ _ e, is_Some (enc c (eval e))) (mentries m)) as Hm by tauto.
    apply map_not_Forall in Hm; [|apply _]. destruct Hm as (k & e & Hk & He).
    exists k, e. by rewrite eq_None_not_Some.
  - intros [Hd|(k & e & Hk & He)] [Hd' Hm]; [done|].
    apply eq_None_not_Some in He. by apply He, (Hm k e).
Qed.
(** Two levels: a pending remove anywhere makes the whole state unencodable,
    and nothing else does. *)
Corollary map_orswot_enc_None m :
  enc (cmap_codec orswot_codec) m = None ↔
  mdeferred m ≠ ∅ ∨ ∃ k e, mentries m !! k = Some e ∧ odeferred (eval e) ≠ ∅.
Proof. rewrite cmap_enc_None. by setoid_rewrite orswot_enc_None. Qed.
Corollary map_mvreg_enc_None m : enc (cmap_codec mvreg_codec) m = None ↔ mdeferred m ≠ ∅.
Proof.
  rewrite cmap_enc_None. split; [|by left]. intros [?|(k & e & _ & He)]; [done|].
  apply eq_None_not_Some in He. destruct He. by eapply codec_ok_is_Some; [apply mvreg_rt|].
Qed.
Corollary map_map_orswot_enc_None m :
  enc (cmap_codec (cmap_codec orswot_codec)) m = None ↔
  mdeferred m ≠ ∅ ∨ ∃ k e, mentries m !! k = Some e ∧
    (mdeferred (eval e) ≠ ∅ ∨
     ∃ k' e', mentries (eval e) !! k' = Some e' ∧ odeferred (eval e') ≠ ∅).
Proof. rewrite cmap_enc_None. by setoid_rewrite map_orswot_enc_None. Qed.
Corollary map_map_mvreg_enc_None m :
  enc (cmap_codec (cmap_codec mvreg_codec)) m = None ↔
  mdeferred m ≠ ∅ ∨ ∃ k e, mentries m !! k = Some e ∧ mdeferred (eval e) ≠ ∅.
Proof. rewrite cmap_enc_None. by setoid_rewrite map_mvreg_enc_None. Qed.

(** The witness: actor 1 added member 5 at another replica and removed it; the
    remove (clock {1:1}) reaches a fresh replica first. *)
Definition C19_deferred_witness : orswot := oapply onew (ORm {[1%N := 1%N]} [5%N]).
Example C19_deferred_witness_pending :
  odeferred C19_deferred_witness = {[ {[1%N := 1%N]} := {[5%N]} ]}.
Proof. vm_decide. Qed.
Example C19_deferred_witness_fails : enc_orswot C19_deferred_witness = None.
Proof. by vm_compute. Qed.
Example C19_deferred_witness_nested_fails :
  enc (cmap_codec orswot_codec)
      (CMap {[2%N := 1%N]} {[7%N := MEntry {[2%N := 1%N]} C19_deferred_witness]} ∅) = None.
Proof. by vm_compute. Qed.

(** * The statements of C19 in explicit form *)
Lemma total_rt {V} (c : codec V) v : codec_total c → ∃ j, enc c v = Some j ∧ dec c j = Some v.
Proof. intros Hc. by apply Hc. Qed.
Corollary C19_orswot s :
  odeferred s = ∅ → ∃ j, enc_orswot s = Some j ∧ dec_orswot j = Some s.
Proof. apply orswot_rt. Qed.
Corollary C19_oop o : ∃ j, enc_oop o = Some j ∧ dec_oop j = Some o.
Proof. apply total_rt, oop_rt. Qed.
Corollary C19_mvreg r : ∃ j, enc_mvreg r = Some j ∧ dec_mvreg j = Some r.
Proof. apply total_rt, mvreg_rt. Qed.
Corollary C19_map {V} (c : codec V) (P : V → Prop) m :
  (∀ v, P v → ∃ j, enc c v = Some j ∧ dec c j = Some v) →
  mdeferred m = ∅ → (∀ k e, mentries m !! k = Some e → P (eval e)) →
  ∃ j, enc (cmap_codec c) m = Some j ∧ dec (cmap_codec c) j = Some m.
Proof. intros Hc Hd He. by apply (map_codec_ok c P Hc). Qed.
Corollary C19_merkle s : ∃ j, enc_merkle s = Some j ∧ dec_merkle j = Some s.
Proof. apply total_rt, merkle_rt. Qed.
Corollary C19_list s :
  sorted_keys odcmp (lseq s) →
  ∃ j, enc (clist_codec z_codec) s = Some j ∧ dec (clist_codec z_codec) j = Some s.
Proof. apply clist_rt_sorted_z. Qed.

(** The order hypothesis on GList/List states is needed: decoding rebuilds
    the [BTreeSet]/[BTreeMap], i.e. sorts.  (Rationals shown as [Q].) *)
Definition show_glist (g : list (list (Qc * N))) : list (list (Q * N)) :=
  (λ i : list (Qc * N), (λ p : Qc * N, (this p.1, p.2)) <$> i) <$> g.
Example glist_unsorted_resorted :
  show_glist <$> (enc (glist_codec z_codec) [[(Q2Qc 1, 7%N)]; [(Q2Qc 0, 8%N)]]
                  ≫= dec (glist_codec z_codec))
  = Some [[(0%Q, 8%N)]; [(1%Q, 7%N)]].
Proof. by vm_compute. Qed.
(** A non-reduced rational is accepted and canonicalised: 2/4, i.e.
    [[[1,[2]],[1,[4]]]], reads back as 1/2. *)
Example q_dec_reduces :
  this <$> dec (q_codec z_codec)
    (JArr [JArr [JNum 1; JArr [JNum 2]]; JArr [JNum 1; JArr [JNum 4]]]) = Some (1 # 2)%Q.
Proof. by vm_compute. Qed.

(** Struct decoding rejects a duplicated or missing field and skips unknown
    members; an enum needs exactly one known tag. *)
Example dec_dot_duplicate_field :
  dec_dot (JObj [(KField "actor", JNum 1); (KField "actor", JNum 2); (KField "counter", JNum 3)])
  = None.
Proof. by vm_compute. Qed.
Example dec_dot_missing_field : dec_dot (JObj [(KField "actor", JNum 1)]) = None.
Proof. by vm_compute. Qed.
Example dec_dot_unknown_field :
  dec_dot (JObj [(KField "extra", JNull); (KField "counter", JNum 3); (KField "actor", JNum 1)])
  = Some (Dot 1 3).
Proof. by vm_compute. Qed.
Example dec_oop_unknown_tag : dec_oop (JObj [(KField "Del", JObj [])]) = None.
Proof. by vm_compute. Qed.

(** * Test vectors (test/serialization/serde_json_test_vector.jsonl), with
    alice, bob, caleb, dan = 1, 2, 3, 4.  [enc] yields the fields in
    declaration order; the file lists them alphabetically (it is written
    through [serde_json::Value]); both decode to the same value. *)
Local Open Scope N_scope.

(** [{"actor":"bob","counter":21}] *)
Example tv_dot :
  enc_dot (Dot 2 21) = Some (JObj [(KField "actor", JNum 2); (KField "counter", JNum 21)]).
Proof. by vm_compute. Qed.

(** [{"alice":2,"bob":1,"caleb":3,"dan":1}] *)
Example tv_vclock :
  dec_vclock (JObj [(KNum 1, JNum 2); (KNum 2, JNum 1); (KNum 3, JNum 3); (KNum 4, JNum 1)])
  = Some {[1 := 2; 2 := 1; 3 := 3; 4 := 1]}.
Proof. vm_decide. Qed.

(** [{"clock":{"alice":1,"bob":1},"deferred":{},"entries":{"1":{"alice":1},"42":{"bob":1}}}] *)
Definition tv_orswot_val : orswot :=
  Orswot {[1 := 1; 2 := 1]} {[1 := {[1 := 1]}; 42 := {[2 := 1]}]} ∅.
Example tv_orswot_enc :
  enc_orswot tv_orswot_val = Some (JObj
    [(KField "clock", JObj [(KNum 1, JNum 1); (KNum 2, JNum 1)]);
     (KField "entries", JObj [(KNum 1, JObj [(KNum 1, JNum 1)]);
                              (KNum 42, JObj [(KNum 2, JNum 1)])]);
     (KField "deferred", JObj [])]).
Proof. by vm_compute. Qed.
Example tv_orswot_dec :
  dec_orswot (JObj
    [(KField "clock", JObj [(KNum 1, JNum 1); (KNum 2, JNum 1)]);
     (KField "deferred", JObj []);
     (KField "entries", JObj [(KNum 1, JObj [(KNum 1, JNum 1)]);
                              (KNum 42, JObj [(KNum 2, JNum 1)])])])
  = Some tv_orswot_val.
Proof. vm_decide. Qed.

(** [[[{"bob":1},12],[{"alice":1},21]]] *)
Example tv_mvreg :
  enc_mvreg [({[2 := 1]}, 12); ({[1 := 1]}, 21)] = Some (JArr
    [JArr [JObj [(KNum 2, JNum 1)]; JNum 12]; JArr [JObj [(KNum 1, JNum 1)]; JNum 21]]).
Proof. by vm_compute. Qed.

(** [{"n":{"bob":1,"caleb":3},"p":{"alice":2,"dan":1}}] *)
Example tv_pncounter :
  dec pncounter_codec (JObj
    [(KField "n", JObj [(KNum 2, JNum 1); (KNum 3, JNum 3)]);
     (KField "p", JObj [(KNum 1, JNum 2); (KNum 4, JNum 1)])])
  = Some (PN {[1 := 2; 4 := 1]} {[2 := 1; 3 := 3]}).
Proof. vm_decide. Qed.

(** The first two elements of the GList vector,
    [[[[[-1,[2]],[1,[1]]],"h"]],[[[[-1,[1]],[1,[1]]],"e"]], ...], 'h' = 104, 'e' = 101. *)
Example tv_glist :
  enc (glist_codec z_codec) [[(Q2Qc (Qmake (-2) 1), 104)]; [(Q2Qc (Qmake (-1) 1), 101)]]
  = Some (JArr
      [JArr [JArr [JArr [JArr [JNum (-1); JArr [JNum 2]]; JArr [JNum 1; JArr [JNum 1]]]; JNum 104]];
       JArr [JArr [JArr [JArr [JNum (-1); JArr [JNum 1]]; JArr [JNum 1; JArr [JNum 1]]]; JNum 101]]]).
Proof. by vm_compute. Qed.

(** The Map<String, MVReg> vector, keys "age" = 1, "height" = 2:
    [{"clock":{"alice":1,"bob":2},"deferred":{},"entries":{"age":{"clock":{"bob":1},
      "val":[[{"bob":1},34]]},"height":{"clock":{"alice":1,"bob":2},
      "val":[[{"bob":2},152],[{"alice":1},156]]}}}] *)
Example tv_map_mvreg :
  dec (cmap_codec mvreg_codec) (JObj
    [(KField "clock", JObj [(KNum 1, JNum 1); (KNum 2, JNum 2)]);
     (KField "deferred", JObj []);
     (KField "entries", JObj
        [(KNum 1, JObj [(KField "clock", JObj [(KNum 2, JNum 1)]);
                        (KField "val", JArr [JArr [JObj [(KNum 2, JNum 1)]; JNum 34]])]);
         (KNum 2, JObj [(KField "clock", JObj [(KNum 1, JNum 1); (KNum 2, JNum 2)]);
                        (KField "val", JArr [JArr [JObj [(KNum 2, JNum 2)]; JNum 152];
                                             JArr [JObj [(KNum 1, JNum 1)]; JNum 156]])])])])
  = Some (CMap {[1 := 1; 2 := 2]}
               {[1 := MEntry {[2 := 1]} [({[2 := 1]}, 34)];
                 2 := MEntry {[1 := 1; 2 := 2]} [({[2 := 2]}, 152); ({[1 := 1]}, 156)]]}
               ∅).
Proof. vm_decide. Qed.

(** The BigInt codec on a three-digit number. *)
Example tv_bigint :
  enc z_codec (-(2 ^ 70 + 5))%Z = Some (JArr [JNum (-1); JArr [JNum 5; JNum 0; JNum 64]])
  ∧ dec z_codec (JArr [JNum (-1); JArr [JNum 5; JNum 0; JNum 64]]) = Some (-(2 ^ 70 + 5))%Z.
Proof. split; by vm_compute. Qed.
