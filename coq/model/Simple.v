(** Models of src/gcounter.rs, pncounter.rs, gset.rs, lwwreg.rs, maxreg.rs,
    minreg.rs.  Definitions only. *)
From Crdt Require Export model.VClock.

(** GCounter = a VClock. *)
Definition gc_apply : vclock → dot → vclock := vapply.
Definition gc_merge : vclock → vclock → vclock := vmerge.
Definition gc_reset : vclock → vclock → vclock := vreset.
Definition gc_inc (c : vclock) (a : N) : dot := vinc c a.
Definition gc_inc_many (c : vclock) (a : N) (steps : N) : dot := Dot a (steps + vget c a).
Definition gc_read (c : vclock) : N := map_fold (λ _ n acc, n + acc) 0 c.

(** PNCounter. *)
Record pncounter := PN { pn_p : vclock; pn_n : vclock }.
Global Instance pncounter_eq_dec : EqDecision pncounter.
Proof. solve_decision. Defined.
Inductive dir := DPos | DNeg.
Record pnop := PNOp { pn_dot : dot; pn_dir : dir }.
Definition pn_new := PN ∅ ∅.
Definition pn_apply (s : pncounter) (o : pnop) : pncounter :=
  match pn_dir o with
  | DPos => PN (gc_apply (pn_p s) (pn_dot o)) (pn_n s)
  | DNeg => PN (pn_p s) (gc_apply (pn_n s) (pn_dot o))
  end.
Definition pn_merge (s o : pncounter) : pncounter :=
  PN (gc_merge (pn_p s) (pn_p o)) (gc_merge (pn_n s) (pn_n o)).
Definition pn_reset (s : pncounter) (c : vclock) : pncounter :=
  PN (gc_reset (pn_p s) c) (gc_reset (pn_n s) c).
Definition pn_inc (s : pncounter) (a : N) := PNOp (gc_inc (pn_p s) a) DPos.
Definition pn_dec (s : pncounter) (a : N) := PNOp (gc_inc (pn_n s) a) DNeg.
Definition pn_inc_many (s : pncounter) (a n : N) := PNOp (gc_inc_many (pn_p s) a n) DPos.
Definition pn_dec_many (s : pncounter) (a n : N) := PNOp (gc_inc_many (pn_n s) a n) DNeg.
Definition pn_read (s : pncounter) : Z := (Z.of_N (gc_read (pn_p s)) - Z.of_N (gc_read (pn_n s)))%Z.

(** GSet. *)
Definition gs_apply (s : gset N) (x : N) : gset N := {[x]} ∪ s.
Definition gs_merge (s o : gset N) : gset N := s ∪ o.
Definition gs_contains (s : gset N) (x : N) : bool := bool_decide (x ∈ s).

(** MaxReg / MinReg. *)
Definition max_update (s v : N) : N := if s <? v then v else s.
Definition min_update (s v : N) : N := if v <? s then v else s.

(** LWWReg (value, marker). *)
Record lww := LWW { lww_val : N; lww_marker : N }.
Global Instance lww_eq_dec : EqDecision lww.
Proof. solve_decision. Defined.
Definition lww_update (s : lww) (v m : N) : lww :=
  if lww_marker s <? m then LWW v m else s.
(** [validate_update]: [true] = [Err ConflictingMarker]. *)
Definition lww_conflict (s : lww) (v m : N) : bool :=
  (lww_marker s =? m) && negb (lww_val s =? v).
Definition lww_merge (s o : lww) : lww := lww_update s (lww_val o) (lww_marker o).
