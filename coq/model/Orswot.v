(** Model of src/orswot.rs.  Definitions only. *)
From Crdt Require Export model.VClock.

Notation deferred_tbl := (gmap (gmap N N) (gset N)) (only parsing).

Record orswot := Orswot {
  oclock : vclock;
  oentries : gmap N (gmap N N);
  odeferred : gmap (gmap N N) (gset N) }.

Global Instance orswot_eq_dec : EqDecision orswot.
Proof. solve_decision. Defined.

Inductive oop :=
| OAdd (d : dot) (ms : list N)
| ORm (c : vclock) (ms : list N).

Definition onew : orswot := Orswot ∅ ∅ ∅.

(** The member loop of [apply_rm]: each named member's witness clock loses
    what [c] covers; emptied ones are dropped.  The Rust loop touches each
    member of the [HashSet] once, independently: closed form. *)
Definition orm_entries (es : gmap N (gmap N N)) (ms : gset N) (c : vclock)
  : gmap N (gmap N N) :=
  map_imap (λ m mc, if bool_decide (m ∈ ms)
                    then let mc' := vreset mc c in
                         if vis_empty mc' then None else Some mc'
                    else Some mc) es.

(** [existing.extend(members)] or insert. *)
Definition odefer (df : gmap (gmap N N) (gset N)) (c : vclock) (ms : gset N)
  : gmap (gmap N N) (gset N) :=
  match df !! c with
  | Some old => <[c := old ∪ ms]> df
  | None => <[c := ms]> df
  end.

(** [Orswot::apply_rm]. *)
Definition oapply_rm (s : orswot) (ms : gset N) (c : vclock) : orswot :=
  let es := orm_entries (oentries s) ms c in
  match vcmp c (oclock s) with
  | None | Some Gt => Orswot (oclock s) es (odefer (odeferred s) c ms)
  | _ => Orswot (oclock s) es (odeferred s)
  end.

(** [Orswot::apply_deferred]: take the table, replay every pending remove. *)
Definition oapply_deferred (s : orswot) : orswot :=
  map_fold (λ c ms acc, oapply_rm acc ms c)
           (Orswot (oclock s) (oentries s) ∅) (odeferred s).

(** The member loop of [apply] for [Add]. *)
Definition oadd_entries (es : gmap N (gmap N N)) (ms : list N) (d : dot)
  : gmap N (gmap N N) :=
  foldl (λ acc m, <[m := vapply (default ∅ (acc !! m)) d]> acc) es ms.

(** [CmRDT::apply]. *)
Definition oapply (s : orswot) (o : oop) : orswot :=
  match o with
  | OAdd d ms =>
      if dcounter d <=? vget (oclock s) (dactor d) then s
      else oapply_deferred
             (Orswot (vapply (oclock s) d) (oadd_entries (oentries s) ms d)
                     (odeferred s))
  | ORm c ms => oapply_rm s (list_to_set ms) c
  end.

(** [CmRDT::validate_op]. *)
Definition ovalidate_op (s : orswot) (o : oop) : option (N * N * N) :=
  match o with
  | OAdd d _ => vvalidate_op (oclock s) d
  | ORm _ _ => None
  end.

(** Per-member step of [merge] (the two entry loops; each member is
    handled independently of the others and both clocks are fixed while
    the loops run). *)
Definition omerge_entry (sc oc : vclock) (ours theirs : option (gmap N N))
  : option (gmap N N) :=
  match ours, theirs with
  | Some c, None => if vge oc c then None else Some (vreset c oc)
  | Some our, Some their =>
      let common := vmerge (vmerge (vintersection their our)
                                   (vclone_without their sc))
                           (vclone_without our oc) in
      if vis_empty common then None else Some common
  | None, Some c => if vge sc c then None else Some (vreset c sc)
  | None, None => None
  end.

(** [CvRDT::merge]. *)
Definition omerge (s o : orswot) : orswot :=
  let es := merge (omerge_entry (oclock s) (oclock o)) (oentries s) (oentries o) in
  let s1 := map_fold (λ c ms acc, oapply_rm acc ms c)
                     (Orswot (oclock s) es (odeferred s)) (odeferred o) in
  oapply_deferred (Orswot (vmerge (oclock s1) (oclock o)) (oentries s1) (odeferred s1)).

(** [CvRDT::validate_merge]: some dot is the current witness of two
    different members.  The Rust code reports the first conflict in hash
    order; the model reports only whether one exists. *)
Definition ovalidate_merge (s o : orswot) : bool :=
  bool_decide (map_Forall (λ m c,
    map_Forall (λ m' c',
      map_Forall (λ a n, ¬ (m' ≠ m ∧ vget c' a = n)) c) (oentries o)) (oentries s)).

(** [ResetRemove::reset_remove].  [deferred] is rebuilt with [collect()]
    into a fresh [HashMap]: two keys that become equal collide.  The model
    (after the repair of finding F1) merges the member sets on collision. *)
Definition oreset_deferred (df : gmap (gmap N N) (gset N)) (c : vclock)
  : gmap (gmap N N) (gset N) :=
  map_fold (λ k ms acc, let k' := vreset k c in
                        if vis_empty k' then acc
                        else <[k' := default ∅ (acc !! k') ∪ ms]> acc) ∅ df.

Definition oreset (s : orswot) (c : vclock) : orswot :=
  Orswot (vreset (oclock s) c)
         (map_imap (λ _ mc, let mc' := vreset mc c in
                            if vis_empty mc' then None else Some mc') (oentries s))
         (oreset_deferred (odeferred s) c).

(** Reads.  A [ReadCtx] is (add_clock, rm_clock, val). *)
Record readctx (V : Type) := ReadCtx { add_clock : vclock; rm_clock : vclock; rval : V }.
Global Arguments ReadCtx {_} _ _ _.
Global Arguments add_clock {_} _.
Global Arguments rm_clock {_} _.
Global Arguments rval {_} _.

Definition oread (s : orswot) : readctx (gset N) :=
  ReadCtx (oclock s) (oclock s) (dom (oentries s)).
Definition oread_ctx (s : orswot) : readctx unit := ReadCtx (oclock s) (oclock s) tt.
Definition ocontains (s : orswot) (m : N) : readctx bool :=
  ReadCtx (oclock s) (default ∅ (oentries s !! m))
          (bool_decide (is_Some (oentries s !! m))).
(** [iter]: one [ReadCtx] per member, as an association list. *)
Definition oiter (s : orswot) : list (readctx N) :=
  (λ p, ReadCtx (oclock s) p.2 p.1) <$> map_to_list (oentries s).

(** [ReadCtx::derive_add_ctx], [derive_rm_ctx]. *)
Record addctx := AddCtx { ac_clock : vclock; ac_dot : dot }.
Definition derive_add_ctx {V} (r : readctx V) (a : N) : addctx :=
  let d := vinc (add_clock r) a in AddCtx (vapply (add_clock r) d) d.
Definition derive_rm_ctx {V} (r : readctx V) : vclock := rm_clock r.

(** Op constructors. *)
Definition oadd (m : N) (ctx : addctx) : oop := OAdd (ac_dot ctx) [m].
Definition oadd_all (ms : list N) (ctx : addctx) : oop := OAdd (ac_dot ctx) ms.
Definition orm (m : N) (ctx : vclock) : oop := ORm ctx [m].
Definition orm_all (ms : list N) (ctx : vclock) : oop := ORm ctx ms.
