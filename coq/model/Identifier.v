(** Model of src/identifier.rs.  Definitions only.  [BigRational] is [Qc]
    (canonical rationals, Leibniz equality = num's reduced-form [Eq]). *)
From Coq Require Export QArith Qcanon.
From Crdt Require Export model.VClock.

(** [rational_between] *)
Definition qtwo : Qc := (Q2Qc 1 + Q2Qc 1)%Qc.
Definition rational_between (low high : option Qc) : Qc :=
  match low, high with
  | None, None => Q2Qc 0
  | Some l, None => (l + Q2Qc 1)%Qc
  | None, Some h => (h - Q2Qc 1)%Qc
  | Some l, Some h => ((l + h) / qtwo)%Qc
  end.

Definition qcmp (a b : Qc) : comparison := (a ?= b)%Qc.

Section ident.
  (** The marker type [T: Ord]. *)
  Context {T : Type} (tcmp : T → T → comparison).

  Notation ident := (list (Qc * T)) (only parsing).

  (** derived [Ord] on the tuple [(BigRational, T)]: lexicographic. *)
  Definition nodecmp (x y : Qc * T) : comparison :=
    match qcmp x.1 y.1 with Eq => tcmp x.2 y.2 | o => o end.

  (** [Ord::cmp]: lexicographic on the path; a path that ends first is the
      GREATER one. *)
  Fixpoint idcmp (a b : list (Qc * T)) : comparison :=
    match a, b with
    | x :: a', y :: b' =>
        match nodecmp x y with Eq => idcmp a' b' | o => o end
    | [], _ :: _ => Gt
    | _ :: _, [] => Lt
    | [], [] => Eq
    end.

  Definition idlt (a b : list (Qc * T)) : bool :=
    match idcmp a b with Lt => true | _ => false end.

  (** The loop of [between] once [low < high] is established.  [low] is
      replaced by the empty path when the two paths have diverged. *)
  Fixpoint walk (low high : list (Qc * T)) (m : T) {struct high} : list (Qc * T) :=
    match low, high with
    | (lr, lm) :: low', (hr, hm) :: high' =>
        match qcmp lr hr with
        | Eq =>
            match tcmp lm m, tcmp m hm with
            | Lt, Lt => [(hr, m)]
            | _, _ =>
                match tcmp lm hm with
                | Eq => (hr, hm) :: walk low' high' m
                | _ => (hr, hm) :: walk [] high' m
                end
            end
        | _ => [(rational_between (Some lr) (Some hr), m)]
        end
    | _, _ => [(rational_between (fst <$> head low) (fst <$> head high), m)]
    end.

  (** [Identifier::between]. *)
  Definition between (low high : option (list (Qc * T))) (m : T) : list (Qc * T) :=
    match low, high with
    | Some l, Some h =>
        match idcmp l h with
        | Gt => walk h l m
        | Eq => h
        | Lt => walk l h m
        end
    | _, _ =>
        [(rational_between (low ≫= λ l, fst <$> head l) (high ≫= λ h, fst <$> head h), m)]
    end.

  (** [value()] : the last marker; [unwrap] on an empty path panics. *)
  Definition idvalue (i : list (Qc * T)) : option T := snd <$> last i.

  (** A [BTreeSet<Identifier>] / the key set of a [BTreeMap<Identifier,_>]:
      strictly sorted list. *)
  Fixpoint idset_insert (i : list (Qc * T)) (l : list (list (Qc * T))) : list (list (Qc * T)) :=
    match l with
    | [] => [i]
    | x :: l' =>
        match idcmp i x with
        | Lt => i :: l
        | Eq => l
        | Gt => x :: idset_insert i l'
        end
    end.

  (** [BTreeMap::entry(id).or_insert(val)] *)
  Fixpoint idmap_insert {X} (i : list (Qc * T)) (v : X) (l : list (list (Qc * T) * X))
    : list (list (Qc * T) * X) :=
    match l with
    | [] => [(i, v)]
    | x :: l' =>
        match idcmp i x.1 with
        | Lt => (i, v) :: l
        | Eq => l
        | Gt => x :: idmap_insert i v l'
        end
    end.
  (** [BTreeMap::remove] *)
  Fixpoint idmap_remove {X} (i : list (Qc * T)) (l : list (list (Qc * T) * X))
    : list (list (Qc * T) * X) :=
    match l with
    | [] => []
    | x :: l' =>
        match idcmp i x.1 with
        | Eq => l'
        | _ => x :: idmap_remove i l'
        end
    end.
End ident.

(** Marker instances: [u8]/[u64] elements (GList) and [OrdDot] (List),
    whose derived [Ord] is lexicographic (actor, counter). *)
Definition ncompare (x y : N) : comparison := (x ?= y)%N.
Definition odcmp (x y : N * N) : comparison :=
  match ncompare x.1 y.1 with Eq => ncompare x.2 y.2 | o => o end.
