(** Model of src/merkle_reg.rs.  Definitions only.  Hashes are [N]; the
    content-addressing function [hash] (SHA3-256 of children and value) is a
    parameter, assumed injective by the theorems that need it. *)
From Crdt Require Export Base.

Record mnode := MNode { nchildren : gset N; nvalue : N }.
Global Instance mnode_eq_dec : EqDecision mnode.
Proof. solve_decision. Defined.
Global Instance mnode_countable : Countable mnode.
Proof.
  refine (inj_countable' (λ n, (nchildren n, nvalue n)) (λ p, MNode p.1 p.2) _).
  by intros [].
Defined.

Record merkle := Merkle {
  mk_roots : gset N;
  mk_dag : gmap N mnode;
  mk_orphans : gmap N mnode }.
Global Instance merkle_eq_dec : EqDecision merkle.
Proof. solve_decision. Defined.

Definition mk_new := Merkle ∅ ∅ ∅.

(** [all_hashes_seen] *)
Definition all_seen (dag : gmap N mnode) (cs : gset N) : bool :=
  bool_decide (set_Forall (λ h, is_Some (dag !! h)) cs).

Section merkle.
  Context (hash : mnode → N).

  (** [CmRDT::apply].  The Rust function recurses on the orphans that
      became ready; the recursion is bounded by the number of orphans, made
      explicit as fuel ([None] = out of fuel, proved unreachable). *)
  Fixpoint mk_apply_fuel (fuel : nat) (s : merkle) (n : mnode) : option merkle :=
    match fuel with
    | O => None
    | S f =>
        let h := hash n in
        if bool_decide (is_Some (mk_dag s !! h) ∨ is_Some (mk_orphans s !! h)) then Some s
        else if all_seen (mk_dag s) (nchildren n) then
          let roots' := {[h]} ∪ (mk_roots s ∖ nchildren n) in
          let dag' := <[h := n]> (mk_dag s) in
          let ready := filter (λ p, all_seen dag' (nchildren p.2) = true) (mk_orphans s) in
          let orphans' := filter (λ p, all_seen dag' (nchildren p.2) ≠ true) (mk_orphans s) in
          foldl (λ acc nd, acc ≫= λ s', mk_apply_fuel f s' nd)
                (Some (Merkle roots' dag' orphans'))
                (snd <$> map_to_list ready)
        else Some (Merkle (mk_roots s) (mk_dag s) (<[h := n]> (mk_orphans s)))
    end.

  Definition mk_apply (s : merkle) (n : mnode) : option merkle :=
    mk_apply_fuel (S (size (mk_orphans s))) s n.

  (** [CvRDT::merge]: re-apply the other side's dag, then its orphans. *)
  Definition mk_merge (s o : merkle) : option merkle :=
    foldl (λ acc nd, acc ≫= λ s', mk_apply s' nd) (Some s)
          ((snd <$> map_to_list (mk_dag o)) ++ (snd <$> map_to_list (mk_orphans o))).

  (** [validate_op]: the set of children missing from the dag (the code
      reports the first in hash order). *)
  Definition mk_missing (s : merkle) (n : mnode) : gset N :=
    filter (λ h, mk_dag s !! h = None) (nchildren n).

  (** Reads. *)
  Definition mk_read (s : merkle) : gmap N mnode :=
    filter (λ p, p.1 ∈ mk_roots s) (mk_dag s).
  Definition mk_node (s : merkle) (h : N) : option mnode :=
    match mk_dag s !! h with Some n => Some n | None => mk_orphans s !! h end.
  Definition mk_children (s : merkle) (h : N) : gmap N mnode :=
    match mk_dag s !! h with
    | Some n => filter (λ p, p.1 ∈ nchildren n) (mk_dag s)
    | None => ∅
    end.
  Definition mk_parents (s : merkle) (h : N) : gmap N mnode :=
    filter (λ p, h ∈ nchildren p.2) (mk_dag s).
  Definition mk_num_nodes (s : merkle) : nat := size (mk_dag s).
  Definition mk_num_orphans (s : merkle) : nat := size (mk_orphans s).
End merkle.

(** An executable, provably injective content address. *)
Definition enc_hash (n : mnode) : N := Npos (encode n).
