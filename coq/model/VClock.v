(** Model of src/vclock.rs and src/dot.rs.  Definitions only (proofs live in
    proofs/VClock.v so that the model keeps running when a proof breaks). *)
From Crdt Require Export Base.

(** [VClock::get] : absent actors count as 0. *)
Definition vget (c : vclock) (a : N) : N := oget (c !! a).

(** [VClock::dot], [VClock::inc], [Dot::inc]. *)
Definition vdot (c : vclock) (a : N) : dot := Dot a (vget c a).
Definition dinc (d : dot) : dot := Dot (dactor d) (dcounter d + 1).
Definition vinc (c : vclock) (a : N) : dot := dinc (vdot c a).

(** [CmRDT::apply] for VClock: keep the max. *)
Definition vapply (c : vclock) (d : dot) : vclock :=
  if vget c (dactor d) <? dcounter d then <[dactor d := dcounter d]> c else c.

(** [CvRDT::merge]: apply every dot of [other] to [self]. *)
Definition vmerge (self other : vclock) : vclock :=
  map_fold (λ a n acc, vapply acc (Dot a n)) self other.

(** [ResetRemove::reset_remove]: for every dot of [other], forget the actor
    when [other]'s counter is at least ours. *)
Definition vreset (self other : vclock) : vclock :=
  map_fold (λ a n acc, if vget acc a <=? n then delete a acc else acc) self other.

(** [VClock::clone_without]. *)
Definition vclone_without (self base : vclock) : vclock := vreset self base.

(** [VClock::glb]: pointwise min over our own entries, zeros dropped. *)
Definition vglb (self other : vclock) : vclock :=
  map_imap (λ a n, let m := N.min n (vget other a) in
                    if m =? 0 then None else Some m) self.

(** [VClock::intersection]: the entries of [l] that [r] holds with the
    same counter. *)
Definition vintersection (l r : vclock) : vclock :=
  map_imap (λ a n, if vget r a =? n then Some n else None) l.

Definition vis_empty (c : vclock) : bool := bool_decide (c = ∅).

(** [all(|(w, c)| x.get(w) >= *c)] over the dots of [y]. *)
Definition vdominates (x y : vclock) : bool :=
  bool_decide (map_Forall (λ a n, n <= vget x a) y).

(** [PartialOrd::partial_cmp], literally: structural equality first, then
    the two dominance scans. *)
Definition vcmp (self other : vclock) : option ordering :=
  if bool_decide (self = other) then Some Eq
  else if vdominates self other then Some Gt
  else if vdominates other self then Some Lt
  else None.

Definition vconcurrent (a b : vclock) : bool :=
  match vcmp a b with None => true | _ => false end.
(** [a >= b], [a > b], [a <= b], [a < b] as derived by [PartialOrd]. *)
Definition vge (a b : vclock) : bool :=
  match vcmp a b with Some Gt | Some Eq => true | _ => false end.
Definition vgt (a b : vclock) : bool :=
  match vcmp a b with Some Gt => true | _ => false end.
Definition vle (a b : vclock) : bool :=
  match vcmp a b with Some Lt | Some Eq => true | _ => false end.
Definition vlt (a b : vclock) : bool :=
  match vcmp a b with Some Lt => true | _ => false end.

(** [CmRDT::validate_op]: [Err (DotRange actor next..counter)] when the
    dot skips a counter.  The range is returned as (actor, start, end). *)
Definition vvalidate_op (c : vclock) (d : dot) : option (N * N * N) :=
  let next := vget c (dactor d) + 1 in
  if next <? dcounter d then Some (dactor d, next, dcounter d) else None.

(** [From<Dot>], [FromIterator<Dot>]. *)
Definition vfrom_dot (d : dot) : vclock := vapply ∅ d.
Definition vfrom_iter (ds : list dot) : vclock := foldl vapply ∅ ds.

(** [Dot::partial_cmp]: comparable only for the same actor. *)
Definition ncmp (x y : N) : ordering :=
  if x <? y then Lt else if x =? y then Eq else Gt.
Definition dcmp (a b : dot) : option ordering :=
  if dactor a =? dactor b then Some (ncmp (dcounter a) (dcounter b)) else None.

(** Well-formedness: no stored zero counter. *)
Definition vwf (c : vclock) : Prop := map_Forall (λ _ n, n ≠ 0) c.
Definition vwfb (c : vclock) : bool := bool_decide (map_Forall (λ _ n, n ≠ 0) c).
