(** Model of the JSON codec that [#[derive(Serialize, Deserialize)]] plus
    [serde_json] produce for the state and op types of the crate (property
    C19).  Definitions only; the round-trip proofs are in proofs/Serde.v.

    Trusted abstractions:
    - object keys are either struct-field / variant names ([KField]) or the
      decimal rendering of an integer map key ([KNum]); serde_json renders
      integer keys as decimal strings and parses them back;
    - numbers are unbounded ([u64]/[u32]/[i8] ranges are only checked where
      the format depends on them: BigInt digits and signs);
    - actors, members, keys and values are [N] as everywhere in the model
      (so an actor is a [JNum]/[KNum], whatever the Rust instantiation);
    - a Merkle hash ([u8; 32], a 32-element array) is one opaque [JNum]. *)
From stdpp Require Import strings.
From Crdt Require Export model.Simple model.Map model.List model.Merkle.

Inductive jkey := KField (s : string) | KNum (n : N).
Inductive json :=
| JNull
| JBool (b : bool)
| JNum (z : Z)
| JStr (s : string)
| JArr (l : list json)
| JObj (l : list (jkey * json)).

(** [enc = None]: [serde_json::to_string] returns [Err];
    [dec = None]: [serde_json::from_str] returns [Err]. *)
Record codec (V : Type) := Codec { enc : V → option json; dec : json → option V }.
Global Arguments Codec {_} _ _.
Global Arguments enc {_} _ _.
Global Arguments dec {_} _ _.

(** * Combinators *)

(** Struct field lookup: the derived visitor rejects a duplicated field and
    a missing one, and skips unknown members. *)
Definition is_field (s : string) (p : jkey * json) : bool :=
  match p.1 with KField s' => String.eqb s s' | KNum _ => false end.
Definition jfield (s : string) (l : list (jkey * json)) : option json :=
  match List.filter (is_field s) l with [p] => Some p.2 | _ => None end.

(** Structs with one, two, three named fields ([mk] = constructor). *)
Definition obj1_codec {A R} (sa : string) (ca : codec A)
    (mk : A → R) (pa : R → A) : codec R :=
  Codec (λ r, a ← enc ca (pa r); Some (JObj [(KField sa, a)]))
        (λ j, match j with
              | JObj l => a ← jfield sa l ≫= dec ca; Some (mk a)
              | _ => None end).
Definition obj2_codec {A B R} (sa sb : string) (ca : codec A) (cb : codec B)
    (mk : A → B → R) (pa : R → A) (pb : R → B) : codec R :=
  Codec (λ r, a ← enc ca (pa r); b ← enc cb (pb r);
              Some (JObj [(KField sa, a); (KField sb, b)]))
        (λ j, match j with
              | JObj l => a ← jfield sa l ≫= dec ca; b ← jfield sb l ≫= dec cb;
                          Some (mk a b)
              | _ => None end).
Definition obj3_codec {A B C R} (sa sb sc : string)
    (ca : codec A) (cb : codec B) (cc : codec C)
    (mk : A → B → C → R) (pa : R → A) (pb : R → B) (pc : R → C) : codec R :=
  Codec (λ r, a ← enc ca (pa r); b ← enc cb (pb r); c ← enc cc (pc r);
              Some (JObj [(KField sa, a); (KField sb, b); (KField sc, c)]))
        (λ j, match j with
              | JObj l => a ← jfield sa l ≫= dec ca; b ← jfield sb l ≫= dec cb;
                          c ← jfield sc l ≫= dec cc; Some (mk a b c)
              | _ => None end).

(** Externally tagged enum variants: [{"Tag": body}], exactly one member. *)
Definition jtag (s : string) (body : json) : json := JObj [(KField s, body)].
Definition juntag (j : json) : option (string * json) :=
  match j with JObj [(KField s, b)] => Some (s, b) | _ => None end.
Definition tag1_codec {A} (ta : string) (ca : codec A) : codec A :=
  Codec (λ a, jtag ta <$> enc ca a)
        (λ j, p ← juntag j; if String.eqb p.1 ta then dec ca p.2 else None).
Definition tag2_codec {A B R} (ta tb : string) (ca : codec A) (cb : codec B)
    (inj : A + B → R) (prj : R → A + B) : codec R :=
  Codec (λ r, match prj r with
              | inl a => jtag ta <$> enc ca a
              | inr b => jtag tb <$> enc cb b end)
        (λ j, p ← juntag j;
              if String.eqb p.1 ta then inj ∘ inl <$> dec ca p.2
              else if String.eqb p.1 tb then inj ∘ inr <$> dec cb p.2
              else None).

(** Transparent wrappers / changes of representation. *)
Definition iso_codec {A B} (f : A → B) (g : B → A) (c : codec A) : codec B :=
  Codec (λ b, enc c (g b)) (λ j, f <$> dec c j).

(** Unsigned integers. *)
Definition n_codec : codec N :=
  Codec (λ n, Some (JNum (Z.of_N n)))
        (λ j, match j with
              | JNum z => if (0 <=? z)%Z then Some (Z.to_N z) else None
              | _ => None end).

(** [Vec<T>], tuples [(A, B)]. *)
Definition list_codec {V} (c : codec V) : codec (list V) :=
  Codec (λ l, JArr <$> mapM (enc c) l)
        (λ j, match j with JArr js => mapM (dec c) js | _ => None end).
Definition pair_codec {A B} (a : codec A) (b : codec B) : codec (A * B) :=
  Codec (λ p, x ← enc a p.1; y ← enc b p.2; Some (JArr [x; y]))
        (λ j, match j with
              | JArr [x; y] => u ← dec a x; v ← dec b y; Some (u, v)
              | _ => None end).

(** [BTreeSet<N>] / [HashSet<N>]: an array, any order, duplicates collapse. *)
Definition nset_codec : codec (gset N) :=
  iso_codec list_to_set elements (list_codec n_codec).

(** [BTreeMap<N, V>] / [HashMap<N, V>]: an object with numeric keys, any
    order; a repeated key overwrites (last wins). *)
Definition nmap_codec {V} (c : codec V) : codec (gmap N V) :=
  Codec (λ m, JObj <$> mapM (λ p, pair (KNum p.1) <$> enc c p.2) (map_to_list m))
        (λ j, match j with
              | JObj l =>
                  (λ kvs, list_to_map (reverse kvs) : gmap N V) <$>
                  mapM (λ p, match p.1 with
                             | KNum n => pair n <$> dec c p.2
                             | KField _ => None end) l
              | _ => None end).

(** [#[serde(with = "btreemap_as_vec")] BTreeMap<N, V>]: array of pairs,
    collected back into the map (last wins). *)
Definition amap_codec {V} (c : codec V) : codec (gmap N V) :=
  iso_codec (λ l, list_to_map (reverse l) : gmap N V) map_to_list
            (list_codec (pair_codec n_codec c)).

(** [HashMap<VClock, _>] (the pending-remove table): serde_json refuses a
    non-string key, so only the empty table encodes; and no member of a JSON
    object (a string key) deserialises as a [VClock]. *)
Definition deferred_codec : codec (gmap (gmap N N) (gset N)) :=
  Codec (λ d, if decide (d = ∅) then Some (JObj []) else None)
        (λ j, match j with JObj [] => Some ∅ | _ => None end).

(** * vclock.rs, dot.rs, gcounter.rs, pncounter.rs, gset.rs, *reg.rs *)
Definition vclock_codec : codec (gmap N N) := nmap_codec n_codec.
Definition dot_codec : codec dot :=
  obj2_codec "actor" "counter" n_codec n_codec Dot dactor dcounter.
Definition gcounter_codec : codec (gmap N N) := vclock_codec.
Definition pncounter_codec : codec pncounter :=
  obj2_codec "p" "n" gcounter_codec gcounter_codec PN pn_p pn_n.
(** Unit variants are strings. *)
Definition dir_codec : codec dir :=
  Codec (λ d, Some (JStr match d with DPos => "Pos" | DNeg => "Neg" end))
        (λ j, match j with
              | JStr s => if String.eqb s "Pos" then Some DPos
                          else if String.eqb s "Neg" then Some DNeg else None
              | _ => None end).
Definition pnop_codec : codec pnop :=
  obj2_codec "dot" "dir" dot_codec dir_codec PNOp pn_dot pn_dir.
Definition gset_codec : codec (gset N) := nset_codec.
(** [MaxReg]/[MinReg] are a bare [N] in the model. *)
Definition reg_codec : codec N := obj1_codec "val" n_codec id id.
Definition lww_codec : codec lww :=
  obj2_codec "val" "marker" n_codec n_codec LWW lww_val lww_marker.

(** * orswot.rs *)
Definition orswot_codec : codec orswot :=
  obj3_codec "clock" "entries" "deferred"
             vclock_codec (nmap_codec vclock_codec) deferred_codec
             Orswot oclock oentries odeferred.
Definition oop_codec : codec oop :=
  tag2_codec "Add" "Rm"
    (obj2_codec "dot" "members" dot_codec (list_codec n_codec) pair fst snd)
    (obj2_codec "clock" "members" vclock_codec (list_codec n_codec) pair fst snd)
    (λ x, match x with inl p => OAdd p.1 p.2 | inr p => ORm p.1 p.2 end)
    (λ o, match o with OAdd d ms => inl (d, ms) | ORm c ms => inr (c, ms) end).

(** * mvreg.rs *)
Definition mvreg_codec : codec (list (gmap N N * N)) :=
  list_codec (pair_codec vclock_codec n_codec).
Definition mvop_codec : codec mvop :=
  tag1_codec "Put"
    (obj2_codec "clock" "val" vclock_codec n_codec MVPut
                (λ o, match o with MVPut c _ => c end)
                (λ o, match o with MVPut _ v => v end)).

(** * map.rs, generic in the nested codecs *)
Definition mentry_codec {V} (c : codec V) : codec (mentry V) :=
  obj2_codec "clock" "val" vclock_codec c MEntry eclock eval.
Definition cmap_codec {V} (c : codec V) : codec (cmap V) :=
  obj3_codec "clock" "entries" "deferred"
             vclock_codec (nmap_codec (mentry_codec c)) deferred_codec
             CMap mclock mentries mdeferred.
Definition mop_codec {O} (oc : codec O) : codec (mop O) :=
  tag2_codec "Rm" "Up"
    (obj2_codec "clock" "keyset" vclock_codec nset_codec pair fst snd)
    (obj3_codec "dot" "key" "op" dot_codec n_codec oc
                (λ d k o, (d, k, o)) (λ t, t.1.1) (λ t, t.1.2) (λ t, t.2))
    (λ x, match x with inl p => MRm p.1 p.2 | inr t => MUp t.1.1 t.1.2 t.2 end)
    (λ o, match o with MRm c ks => inl (c, ks) | MUp d k op => inr (d, k, op) end).

(** * num-bigint / num-rational *)
(** [BigInt] = [(Sign, BigUint)] = [[sign, [u32 digits, little endian]]],
    sign -1/0/1, no most-significant zero digit, zero = [[0, []]].  Decoding
    is [BigInt::from_biguint]: sign 0 or magnitude 0 give zero. *)
Definition B32 : N := 4294967296.
Fixpoint n_digits (fuel : nat) (n : N) : list N :=
  match fuel with
  | O => []
  | S f => if (n =? 0)%N then [] else (n mod B32)%N :: n_digits f (n / B32)%N
  end.
Fixpoint n_undigits (l : list N) : N :=
  match l with [] => 0%N | d :: l' => (d + B32 * n_undigits l')%N end.
Definition u32_codec : codec N :=
  Codec (λ n, Some (JNum (Z.of_N n)))
        (λ j, match j with
              | JNum z => if ((0 <=? z) && (z <? Z.of_N B32))%Z
                          then Some (Z.to_N z) else None
              | _ => None end).
Definition sign_codec : codec Z :=
  Codec (λ z, Some (JNum z))
        (λ j, match j with
              | JNum z => if ((-1 <=? z) && (z <=? 1))%Z then Some z else None
              | _ => None end).
Definition z_codec : codec Z :=
  iso_codec (λ p, (p.1 * Z.of_N (n_undigits p.2))%Z)
            (λ z, (Z.sgn z, n_digits (S (N.to_nat (N.log2 (Z.abs_N z)))) (Z.abs_N z)))
            (pair_codec sign_codec (list_codec u32_codec)).

(** [Ratio<BigInt>] = [[numer, denom]]; a zero denominator is rejected; the
    model's [Qc] is canonical, so the decoder reduces ([Ratio::new_raw] does
    not, but [Ratio]'s [Eq]/[Ord]/[Hash] are insensitive to that). *)
Definition q_codec (zc : codec Z) : codec Qc :=
  Codec (λ q : Qc, enc (pair_codec zc zc) (Qnum q, Zpos (Qden q)))
        (λ j, p ← dec (pair_codec zc zc) j;
              match p.2 with
              | Z0 => None
              | Zpos d => Some (Q2Qc (Qmake p.1 d))
              | Zneg d => Some (Q2Qc (Qmake (- p.1) d))
              end).

(** * identifier.rs, glist.rs, list.rs *)
Definition ident_codec {T} (zc : codec Z) (tc : codec T) : codec (list (Qc * T)) :=
  list_codec (pair_codec (q_codec zc) tc).
(** [OrdDot] as the pair (actor, counter). *)
Definition orddot_codec : codec (N * N) :=
  obj2_codec "actor" "counter" n_codec n_codec pair fst snd.

(** [GList]: a [BTreeSet<Identifier>]; decoding re-inserts (sorts). *)
Definition glist_codec (zc : codec Z) : codec (list (list (Qc * N))) :=
  iso_codec (foldr (idset_insert ncompare) []) id
            (list_codec (ident_codec zc n_codec)).
(** glist [Op::Insert { id }]; the model's op is the identifier itself. *)
Definition glop_codec (zc : codec Z) : codec (list (Qc * N)) :=
  tag1_codec "Insert" (obj1_codec "id" (ident_codec zc n_codec) id id).

(** [List]: [seq] through [btreemap_as_vec], collected back (sorted by
    identifier, last wins). *)
Definition lseq_codec (zc : codec Z) : codec (list (list (Qc * (N * N)) * N)) :=
  iso_codec (foldr (λ p acc, idmap_insert odcmp p.1 p.2 acc) []) id
            (list_codec (pair_codec (ident_codec zc orddot_codec) n_codec)).
Definition clist_codec (zc : codec Z) : codec clist :=
  obj2_codec "seq" "clock" (lseq_codec zc) vclock_codec CList lseq lclock.
Definition lop_codec (zc : codec Z) : codec lop :=
  tag2_codec "Insert" "Delete"
    (obj2_codec "id" "val" (ident_codec zc orddot_codec) n_codec pair fst snd)
    (obj2_codec "id" "dot" (ident_codec zc orddot_codec) dot_codec pair fst snd)
    (λ x, match x with inl p => LInsert p.1 p.2 | inr p => LDelete p.1 p.2 end)
    (λ o, match o with LInsert i v => inl (i, v) | LDelete i d => inr (i, d) end).

(** * merkle_reg.rs *)
Definition mnode_codec : codec mnode :=
  obj2_codec "children" "value" nset_codec n_codec MNode nchildren nvalue.
Definition merkle_codec : codec merkle :=
  obj3_codec "roots" "dag" "orphans"
             nset_codec (amap_codec mnode_codec) (amap_codec mnode_codec)
             Merkle mk_roots mk_dag mk_orphans.

(** * The [enc_X]/[dec_X] names of the property statement *)
Notation enc_vclock := (enc vclock_codec).   Notation dec_vclock := (dec vclock_codec).
Notation enc_dot := (enc dot_codec).         Notation dec_dot := (dec dot_codec).
Notation enc_pnop := (enc pnop_codec).       Notation dec_pnop := (dec pnop_codec).
Notation enc_orswot := (enc orswot_codec).   Notation dec_orswot := (dec orswot_codec).
Notation enc_oop := (enc oop_codec).         Notation dec_oop := (dec oop_codec).
Notation enc_mvreg := (enc mvreg_codec).     Notation dec_mvreg := (dec mvreg_codec).
Notation enc_mvop := (enc mvop_codec).       Notation dec_mvop := (dec mvop_codec).
Notation enc_node := (enc mnode_codec).      Notation dec_node := (dec mnode_codec).
Notation enc_merkle := (enc merkle_codec).   Notation dec_merkle := (dec merkle_codec).
