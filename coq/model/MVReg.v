(** Model of src/mvreg.rs.  Definitions only. *)
From Crdt Require Export model.Orswot.

Notation mvreg := (list (gmap N N * N)) (only parsing).

Inductive mvop := MVPut (c : vclock) (v : N).

Definition mvnew : list (gmap N N * N) := [].

(** [CmRDT::apply]. *)
Definition mvapply (s : list (gmap N N * N)) (o : mvop) : list (gmap N N * N) :=
  match o with
  | MVPut c v =>
      if vis_empty c then s
      else
        let kept := List.filter (λ p, match vcmp p.1 c with
                                      | None | Some Gt => true | _ => false end) s in
        if forallb (λ p, negb (vgt p.1 c)) kept then kept ++ [(c, v)] else kept
  end.

(** [CvRDT::merge]. *)
Definition mvmerge (s o : list (gmap N N * N)) : list (gmap N N * N) :=
  let s1 := List.filter (λ p, forallb (λ q, negb (vlt p.1 q.1)) o) s in
  s1 ++ List.filter (λ p, forallb (λ q, negb (vlt p.1 q.1)) s1
                          && forallb (λ q, negb (bool_decide (p.1 = q.1))) s1) o.

(** [ResetRemove::reset_remove]. *)
Definition mvreset (s : list (gmap N N * N)) (c : vclock) : list (gmap N N * N) :=
  omap (λ p, let c' := vreset p.1 c in
             if vis_empty c' then None else Some (c', p.2)) s.

(** private [clock()]: fold of merges from the empty clock. *)
Definition mvclock (s : list (gmap N N * N)) : vclock :=
  foldl (λ acc p, vmerge acc p.1) ∅ s.

Definition mvread (s : list (gmap N N * N)) : readctx (list N) :=
  ReadCtx (mvclock s) (mvclock s) (snd <$> s).
Definition mvread_ctx (s : list (gmap N N * N)) : readctx unit :=
  ReadCtx (mvclock s) (mvclock s) tt.

Definition mvwrite (v : N) (ctx : addctx) : mvop := MVPut (ac_clock ctx) v.

(** The hand-written [PartialEq]: mutual inclusion (the [assert_eq!] on
    duplicates is a panic: [None]). *)
Definition count_occ_pair (p : gmap N N * N) (l : list (gmap N N * N)) : nat :=
  length (List.filter (λ q, bool_decide (q = p)) l).
Definition mveq (a b : list (gmap N N * N)) : option bool :=
  let scan x y :=
    foldl (λ acc p, match acc with
                    | Some true =>
                        match count_occ_pair p y with
                        | O => Some false | S O => Some true | _ => None end
                    | r => r end) (Some true) x in
  match scan a b with
  | Some true => scan b a
  | r => r
  end.
