(** Model of src/map.rs, generic in the nested value type.  Definitions only. *)
From Crdt Require Export model.MVReg.

(** The operations [Map] needs from its value type ([Val<A>] = Clone +
    Default + ResetRemove + CmRDT, plus CvRDT for merging). *)
Record valops (V O E : Type) := ValOps {
  v_default : V;
  v_apply : V → O → V;
  v_reset : V → vclock → V;
  v_merge : V → V → V;
  v_validate_op : V → O → option E;          (* [Some e] = [Err e] *)
  v_validate_merge : V → V → bool;           (* [true] = [Ok] *)
}.
Global Arguments ValOps {_ _ _} _ _ _ _ _ _.
Global Arguments v_default {_ _ _} _.
Global Arguments v_apply {_ _ _} _ _ _.
Global Arguments v_reset {_ _ _} _ _ _.
Global Arguments v_merge {_ _ _} _ _ _.
Global Arguments v_validate_op {_ _ _} _ _ _.
Global Arguments v_validate_merge {_ _ _} _ _ _.

Record mentry (V : Type) := MEntry { eclock : vclock; eval : V }.
Global Arguments MEntry {_} _ _.
Global Arguments eclock {_} _.
Global Arguments eval {_} _.

Record cmap (V : Type) := CMap {
  mclock : vclock;
  mentries : gmap N (mentry V);
  mdeferred : gmap (gmap N N) (gset N) }.
Global Arguments CMap {_} _ _ _.
Global Arguments mclock {_} _.
Global Arguments mentries {_} _.
Global Arguments mdeferred {_} _.

Global Instance mentry_eq_dec `{EqDecision V} : EqDecision (mentry V).
Proof. solve_decision. Defined.
Global Instance cmap_eq_dec `{EqDecision V} : EqDecision (cmap V).
Proof. solve_decision. Defined.

Inductive mop (O : Type) :=
| MRm (c : vclock) (ks : gset N)
| MUp (d : dot) (k : N) (o : O).
Global Arguments MRm {_} _ _.
Global Arguments MUp {_} _ _ _.

(** [CmRDTValidation]. *)
Inductive mverr (E : Type) :=
| SourceOrder (r : N * N * N)
| ValueErr (e : E).
Global Arguments SourceOrder {_} _.
Global Arguments ValueErr {_} _.

Section map.
  Context {V O E : Type} (vo : valops V O E).

  Definition mnew : cmap V := CMap ∅ ∅ ∅.

  (** The key loop of [apply_keyset_rm] (closed form, one key at a time). *)
  Definition mrm_entries (es : gmap N (mentry V)) (ks : gset N) (c : vclock)
    : gmap N (mentry V) :=
    map_imap (λ k e, if bool_decide (k ∈ ks)
                     then let ec := vreset (eclock e) c in
                          if vis_empty ec then None
                          else Some (MEntry ec (v_reset vo (eval e) c))
                     else Some e) es.

  (** [Map::apply_keyset_rm]. *)
  Definition mapply_rm (s : cmap V) (ks : gset N) (c : vclock) : cmap V :=
    let es := mrm_entries (mentries s) ks c in
    match vcmp (mclock s) c with
    | None | Some Lt =>
        CMap (mclock s) es
             (<[c := default ∅ (mdeferred s !! c) ∪ ks]> (mdeferred s))
    | _ => CMap (mclock s) es (mdeferred s)
    end.

  (** [Map::apply_deferred]. *)
  Definition mapply_deferred (s : cmap V) : cmap V :=
    map_fold (λ c ks acc, mapply_rm acc ks c)
             (CMap (mclock s) (mentries s) ∅) (mdeferred s).

  (** [CmRDT::apply]. *)
  Definition mapply (s : cmap V) (o : mop O) : cmap V :=
    match o with
    | MRm c ks => mapply_rm s ks c
    | MUp d k op =>
        if dcounter d <=? vget (mclock s) (dactor d) then s
        else
          let e := default (MEntry ∅ (v_default vo)) (mentries s !! k) in
          let e' := MEntry (vapply (eclock e) d) (v_apply vo (eval e) op) in
          mapply_deferred (CMap (vapply (mclock s) d) (<[k := e']> (mentries s))
                                (mdeferred s))
    end.

  (** [CmRDT::validate_op]. *)
  Definition mvalidate_op (s : cmap V) (o : mop O) : option (mverr E) :=
    match o with
    | MRm _ _ => None
    | MUp d k op =>
        match vvalidate_op (mclock s) d with
        | Some r => Some (SourceOrder r)
        | None =>
            let e := default (MEntry ∅ (v_default vo)) (mentries s !! k) in
            match vvalidate_op (eclock e) d with
            | Some r => Some (SourceOrder r)
            | None =>
                match v_validate_op vo (eval e) op with
                | Some err => Some (ValueErr err)
                | None => None
                end
            end
        end
    end.

  (** Per-key step of [merge]. *)
  Definition mmerge_entry (sc oc : vclock) (ours theirs : option (mentry V))
    : option (mentry V) :=
    match ours, theirs with
    | Some e, None =>
        if vge oc (eclock e) then None
        else let ec := vreset (eclock e) oc in
             let removed := vreset oc ec in
             Some (MEntry ec (v_reset vo (eval e) removed))
    | Some our, Some their =>
        let common := vmerge (vmerge (vintersection (eclock their) (eclock our))
                                     (vclone_without (eclock their) sc))
                             (vclone_without (eclock our) oc) in
        if vis_empty common then None
        else let v := v_merge vo (eval our) (eval their) in
             let deleted := vreset (vmerge (eclock their) (eclock our)) common in
             Some (MEntry common (v_reset vo v deleted))
    | None, Some e =>
        if vge sc (eclock e) then None
        else let ec := vreset (eclock e) sc in
             let deleted := vreset sc ec in
             Some (MEntry ec (v_reset vo (eval e) deleted))
    | None, None => None
    end.

  (** [CvRDT::merge]. *)
  Definition mmerge (s o : cmap V) : cmap V :=
    let es := merge (mmerge_entry (mclock s) (mclock o)) (mentries s) (mentries o) in
    let s1 := map_fold (λ c ks acc, mapply_rm acc ks c)
                       (CMap (mclock s) es (mdeferred s)) (mdeferred o) in
    mapply_deferred (CMap (vmerge (mclock s1) (mclock o)) (mentries s1) (mdeferred s1)).

  (** [CvRDT::validate_merge]: [true] = [Ok].  Which error is reported
      first depends on iteration order; the model only says whether any
      is. *)
  Definition mvalidate_merge (s o : cmap V) : bool :=
    bool_decide (map_Forall (λ k e,
      map_Forall (λ k' e',
        map_Forall (λ a n, ¬ (k' ≠ k ∧ vget (eclock e') a = n)) (eclock e)
        ∧ (k = k' → vconcurrent (eclock e) (eclock e') = true →
           v_validate_merge vo (eval e) (eval e') = true))
        (mentries o)) (mentries s)).

  (** [ResetRemove::reset_remove] (pending-remove table as repaired for
      finding F1: member sets are merged when two keys collide). *)
  Definition mreset (s : cmap V) (c : vclock) : cmap V :=
    CMap (vreset (mclock s) c)
         (map_imap (λ _ e, let ec := vreset (eclock e) c in
                           if vis_empty ec then None
                           else Some (MEntry ec (v_reset vo (eval e) c)))
                   (mentries s))
         (oreset_deferred (mdeferred s) c).

  (** Reads. *)
  Definition mis_empty (s : cmap V) : readctx bool :=
    ReadCtx (mclock s) (mclock s) (bool_decide (mentries s = ∅)).
  Definition mlen (s : cmap V) : readctx N :=
    ReadCtx (mclock s) (mclock s) (N.of_nat (size (mentries s))).
  Definition mget (s : cmap V) (k : N) : readctx (option V) :=
    ReadCtx (mclock s) (default ∅ (eclock <$> mentries s !! k))
            (eval <$> mentries s !! k).
  Definition mread_ctx (s : cmap V) : readctx unit :=
    ReadCtx (mclock s) (mclock s) tt.
  (** [keys]/[values]/[iter] as one association list of contexts. *)
  Definition miter (s : cmap V) : list (readctx (N * V)) :=
    (λ p, ReadCtx (mclock s) (eclock p.2) (p.1, eval p.2)) <$> map_to_list (mentries s).

  (** [Map::update]: the closure receives the current value (or the
      default) and the add context. *)
  Definition mupdate (s : cmap V) (k : N) (ctx : addctx) (f : V → addctx → O) : mop O :=
    MUp (ac_dot ctx) k
        (f (default (v_default vo) (eval <$> mentries s !! k)) ctx).
  Definition mrm (k : N) (ctx : vclock) : mop O := MRm ctx {[k]}.

  (** [Map] as a value type itself (nesting). *)
  Definition map_valops : valops (cmap V) (mop O) (mverr E) :=
    ValOps mnew mapply mreset mmerge mvalidate_op mvalidate_merge.
End map.

(** Leaf instances. *)
Definition mvreg_valops : valops (list (gmap N N * N)) mvop Empty_set :=
  ValOps mvnew mvapply mvreset mvmerge (λ _ _, None) (λ _ _, true).
Definition orswot_valops : valops orswot oop (N * N * N) :=
  ValOps onew oapply oreset omerge ovalidate_op ovalidate_merge.
