(** Models of src/glist.rs and src/list.rs.  Definitions only. *)
From Crdt Require Export model.Identifier.

(** * GList<T> with T = N: a strictly sorted list of identifiers; the
    element is the last marker of its identifier. *)
Notation gident := (list (Qc * N)) (only parsing).
Notation glist := (list (list (Qc * N))) (only parsing).

Definition gl_apply (g : list (list (Qc * N))) (id : list (Qc * N)) : list (list (Qc * N)) :=
  idset_insert ncompare id g.
Definition gl_merge (g o : list (list (Qc * N))) : list (list (Qc * N)) :=
  foldl gl_apply g o.
(** [read]: [value()] of every identifier ([None] = the [unwrap] panic). *)
Definition gl_read (g : list (list (Qc * N))) : option (list N) :=
  mapM idvalue g.
Definition gl_get (g : list (list (Qc * N))) (i : nat) : option (list (Qc * N)) := g !! i.

(** [insert_before]: the low neighbour is the greatest element strictly
    below [high]. *)
Definition gl_insert_before (g : list (list (Qc * N))) (high : option (list (Qc * N))) (x : N)
  : list (Qc * N) :=
  let low := high ≫= λ h, last (List.filter (λ i, idlt ncompare i h) g) in
  between ncompare low high x.
(** [insert_after]: the high neighbour is the smallest element strictly
    above [low]. *)
Definition gl_insert_after (g : list (list (Qc * N))) (low : option (list (Qc * N))) (x : N)
  : list (Qc * N) :=
  let high := low ≫= λ l, head (List.filter (λ i, idlt ncompare l i) g) in
  between ncompare low high x.
(** [insert(idx, elem)]; the [assert!(idx <= len)] is [None]. *)
Definition gl_insert (g : list (list (Qc * N))) (idx : nat) (x : N) : option (list (Qc * N)) :=
  if (length g <? idx)%nat then None
  else Some
    match (match idx with O => None | S i => g !! i end) with
    | Some prev => gl_insert_after g (Some prev) x
    | None => gl_insert_before g (g !! idx) x
    end.

(** * List<T, A> *)
Notation lident := (list (Qc * (N * N))) (only parsing).
Record clist := CList { lseq : list (list (Qc * (N * N)) * N); lclock : vclock }.
Inductive lop :=
| LInsert (id : list (Qc * (N * N))) (v : N)
| LDelete (id : list (Qc * (N * N))) (d : dot).

Definition l_new := CList [] ∅.

(** [Op::dot()]: the identifier's last marker for inserts ([None] = the
    [unwrap] panic on an empty identifier). *)
Definition lop_dot (o : lop) : option dot :=
  match o with
  | LInsert id _ => (λ p : N * N, Dot p.1 p.2) <$> idvalue id
  | LDelete _ d => Some d
  end.

Definition l_insert_index (s : clist) (ix : nat) (v : N) (a : N) : lop :=
  let ix := Nat.min ix (length (lseq s)) in
  let keys := fst <$> lseq s in
  let '(prev, next) := match ix with
                       | O => (None, keys !! O)
                       | S i => (keys !! i, keys !! (S i))
                       end in
  let d := vinc (lclock s) a in
  LInsert (between odcmp prev next (dactor d, dcounter d)) v.
Definition l_append (s : clist) (v a : N) : lop := l_insert_index s (length (lseq s)) v a.
Definition l_delete_index (s : clist) (ix : nat) (a : N) : option lop :=
  (λ id, LDelete id (vinc (lclock s) a)) <$> (fst <$> lseq s) !! ix.

(** [CmRDT::apply]; [None] = panic. *)
Definition l_apply (s : clist) (o : lop) : option clist :=
  match lop_dot o with
  | None => None
  | Some d =>
      if dcounter d <=? vget (lclock s) (dactor d) then Some s
      else Some match o with
           | LInsert id v => CList (idmap_insert odcmp id v (lseq s)) (vapply (lclock s) d)
           | LDelete id _ => CList (idmap_remove odcmp id (lseq s)) (vapply (lclock s) d)
           end
  end.
Definition l_validate_op (s : clist) (o : lop) : option (option (N * N * N)) :=
  vvalidate_op (lclock s) <$> lop_dot o.

Definition l_read (s : clist) : list N := snd <$> lseq s.
Definition l_len (s : clist) : nat := length (lseq s).
Definition l_position (s : clist) (ix : nat) : option N := l_read s !! ix.

(** Further read entry points of [List] ([is_empty], [iter], [iter_entries],
    [position_entry], [get], [first(_entry)], [last(_entry)]) and of [GList]
    ([is_empty], [iter], [first], [last], [read_into]). *)
Definition l_is_empty (s : clist) : bool := match lseq s with [] => true | _ => false end.
Definition l_iter_entries (s : clist) : list (list (Qc * (N * N)) * N) := lseq s.
Definition l_position_entry (s : clist) (id : list (Qc * (N * N))) : option nat :=
  fst <$> list_find (λ e, e.1 = id) (lseq s).
Definition l_get (s : clist) (id : list (Qc * (N * N))) : option N :=
  (λ p : nat * (list (Qc * (N * N)) * N), p.2.2) <$> list_find (λ e, e.1 = id) (lseq s).
Definition l_first_entry (s : clist) : option (list (Qc * (N * N)) * N) := head (lseq s).
Definition l_last_entry (s : clist) : option (list (Qc * (N * N)) * N) := last (lseq s).
Definition l_first (s : clist) : option N := snd <$> l_first_entry s.
Definition l_last (s : clist) : option N := snd <$> l_last_entry s.

Definition gl_is_empty (g : list (list (Qc * N))) : bool := match g with [] => true | _ => false end.
Definition gl_first (g : list (list (Qc * N))) : option (list (Qc * N)) := head g.
Definition gl_last (g : list (list (Qc * N))) : option (list (Qc * N)) := last g.
