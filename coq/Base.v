(** Base definitions shared by every model file: actors, dots, the [oget]
    default, arithmetic set-up.  Definitions only. *)
From stdpp Require Export gmap.
From Coq Require Export NArith Lia.
Global Open Scope N_scope.

Global Arguments N.add : simpl never.
Global Arguments N.sub : simpl never.
Global Arguments N.max : simpl never.
Global Arguments N.min : simpl never.
Global Arguments N.ltb : simpl never.
Global Arguments N.leb : simpl never.
Global Arguments N.eqb : simpl never.

(** Rust type parameters [A], [M], [K], [V] are all instantiated with [N]. *)
Notation actor := N (only parsing).
Notation vclock := (gmap N N) (only parsing).

Record dot := Dot { dactor : N; dcounter : N }.
Global Instance dot_eq_dec : EqDecision dot.
Proof. solve_decision. Defined.

(** [unwrap_or(0)] *)
Definition oget (o : option N) : N := match o with Some n => n | None => 0 end.

(** [core::cmp::Ordering] *)
Notation ordering := comparison (only parsing).
Global Instance ordering_eq_dec : EqDecision comparison.
Proof. solve_decision. Defined.
