(** Extraction of the executable model (ExtrOcamlBasic only; no Extract
    Constant / Extract Inductive directives of our own). *)
From Coq Require Extraction ExtrOcamlBasic.
From Crdt Require Import model.VClock model.Simple model.Orswot model.MVReg model.Map
  model.Identifier model.List model.Merkle model.Serde extract.Glue spec.VClockSpec spec.System spec.OrswotSpec spec.Specs spec.MVRegSystem spec.MapSpec spec.MapOrswotSpec spec.MapMapOrswotSpec spec.MapMapOrswotNKSpec spec.MapOrswotKM spec.MapOrswotKMN spec.MapMVRegSpec.

Extraction Language OCaml.
Extraction "model.ml"
  vget vdot dinc vinc vapply vmerge vreset vclone_without vglb vintersection vis_empty
  vcmp vconcurrent vge vgt vle vlt vvalidate_op vfrom_dot vfrom_iter dcmp vwfb
  gc_inc gc_inc_many gc_read pn_new pn_apply pn_merge pn_reset pn_inc pn_dec
  pn_inc_many pn_dec_many pn_read gs_apply gs_merge gs_contains max_update min_update
  lww_update lww_conflict lww_merge
  onew oapply omerge oreset ovalidate_op ovalidate_merge oread oread_ctx ocontains oiter
  derive_add_ctx derive_rm_ctx oadd oadd_all orm orm_all orswot_eq_dec
  mvnew mvapply mvmerge mvreset mvclock mvread mvread_ctx mvwrite mveq
  mnew mapply mmerge mreset mvalidate_op mvalidate_merge mis_empty mlen mget mread_ctx
  miter mupdate mrm map_valops mvreg_valops orswot_valops cmap_eq_dec
  idcmp between idvalue ncompare odcmp
  gl_apply gl_merge gl_read gl_get gl_insert gl_insert_before gl_insert_after
  l_is_empty l_iter_entries l_position_entry l_get l_first_entry l_last_entry l_first l_last gl_is_empty gl_first gl_last
  l_new l_insert_index l_append l_delete_index l_apply l_validate_op l_read l_len l_position
  mk_new mk_apply mk_merge mk_missing mk_read mk_node mk_children mk_parents
  mk_num_nodes mk_num_orphans enc_hash merkle_eq_dec
  vc_of_list vc_to_list nset_of_list nset_to_list nmap_of_list nmap_to_list
  cmap_of_list cmap_to_list vc_eqb nset_eqb nmap_eqb list_eqb option_eqb orswot_eqb mv_eqb
  mv_dec orswot_dec cmap_dec cmap_eqb pn_eqb lww_eqb merkle_eqb mnode_eqb nodemap_eqb
  spec_cmp spec_merge_ok spec_glb_ok spec_reset_ok spec_intersection_ok spec_apply_ok
  spec_validate_ok spec_inc_ok
  enc dec vclock_codec gcounter_codec pncounter_codec gset_codec reg_codec lww_codec orswot_codec mvreg_codec
  merkle_codec codec_mapmv codec_mapor codec_mapmm codec_mapmo codec_glist codec_list json_size
  deps_clock vec_insert_at vec_remove_at merkle_spec natset_of_list mk_oprec ospec c04_member mvspec gcspec pnspec gsspec maxspec minspec lwwspec glspec lspec
  mkeyspec_ok mspec_keys mspec_entry_clock mspec_clock movalspec_ok mo_entries mo_state_entries m2valspec_ok mapor_nk_ok map2_nk_ok mapor_km_ok mapor_kmn_ok mapmv_vals_ok
  mv_perm_eqb n_add n_mul z_add z_mul z_opp z_of_n mkqc n_to_nat n_of_nat.
