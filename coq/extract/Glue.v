(** Monomorphic helpers for the OCaml driver: conversions between plain lists
    and the finite maps / sets of the model, and decidable equalities.  Used
    only by the correspondence check; no theorem depends on this file. *)
From Crdt Require Import spec.System model.VClock model.Simple model.Orswot model.MVReg model.Map
  model.Identifier model.List model.Merkle proofs.MerkleInv proofs.Merkle proofs.ListIndex model.Serde.

Definition vc_of_list (l : list (N * N)) : gmap N N := list_to_map l.
Definition vc_to_list (c : gmap N N) : list (N * N) := map_to_list c.
Definition nset_of_list (l : list N) : gset N := list_to_set l.
Definition nset_to_list (s : gset N) : list N := elements s.
Definition nmap_of_list {A} (l : list (N * A)) : gmap N A := list_to_map l.
Definition nmap_to_list {A} (m : gmap N A) : list (N * A) := map_to_list m.
Definition cmap_of_list {A} (l : list (gmap N N * A)) : gmap (gmap N N) A := list_to_map l.
Definition cmap_to_list {A} (m : gmap (gmap N N) A) : list (gmap N N * A) := map_to_list m.

Definition vc_eqb (a b : gmap N N) : bool := bool_decide (a = b).
Definition nset_eqb (a b : gset N) : bool := bool_decide (a = b).
Definition nmap_eqb {A} (dec : EqDecision A) (a b : gmap N A) : bool := bool_decide (a = b).
Definition list_eqb {A} (dec : EqDecision A) (a b : list A) : bool := bool_decide (a = b).
Definition option_eqb {A} (dec : EqDecision A) (a b : option A) : bool := bool_decide (a = b).
Definition orswot_eqb (a b : orswot) : bool := bool_decide (a = b).
Definition mv_eqb (a b : list (gmap N N * N)) : bool := bool_decide (a = b).
Definition mv_dec : EqDecision (list (gmap N N * N)) := _.
Definition orswot_dec : EqDecision orswot := _.
Definition cmap_dec {V} (dec : EqDecision V) : EqDecision (cmap V) := _.
Definition cmap_eqb {V} (dec : EqDecision V) (a b : cmap V) : bool := bool_decide (a = b).
Definition pn_eqb (a b : pncounter) : bool := bool_decide (a = b).
Definition lww_eqb (a b : lww) : bool := bool_decide (a = b).
Definition merkle_eqb (a b : merkle) : bool := bool_decide (a = b).
Definition mnode_eqb (a b : mnode) : bool := bool_decide (a = b).
Definition nodemap_eqb (a b : gmap N mnode) : bool := bool_decide (a = b).

(** multiset equality of MVReg contents (diagnostics only) *)
Definition mv_perm_eqb (a b : list (gmap N N * N)) : bool :=
  bool_decide (a ≡ₚ b).

(** arithmetic the driver needs to build numbers *)
Definition n_add := N.add.
Definition n_mul := N.mul.
Definition z_add := Z.add.
Definition z_mul := Z.mul.
Definition z_opp := Z.opp.
Definition z_of_n := Z.of_N.
Definition mkqc (num : Z) (den : positive) : Qc := Q2Qc (Qmake num den).
Definition n_to_nat := N.to_nat.
Definition n_of_nat := N.of_nat.

Definition natset_of_list (l : list nat) : gset nat := list_to_set l.
Definition mk_oprec {Op} (a : N) (o : Op) (deps : list nat) : oprec Op := OpRec a o (list_to_set deps).

(** MerkleReg: the specified state of a received node set *)
Definition merkle_spec (hash : mnode → N) (ns : list mnode) : merkle := spec_state (R_of hash ns).

(** in-kernel cross-check of MerkleReg calls: the content-address function restricted to the nodes
    that occur in the call (the driver maps each real SHA3 hash to an id; the table lists id and node) *)
Definition mk_tbl (s : merkle) : list (N * mnode) := map_to_list (mk_dag s) ++ map_to_list (mk_orphans s).
Definition tbl_hash (t : list (N * mnode)) (n : mnode) : N :=
  match List.find (λ p, bool_decide (p.2 = n)) t with Some p => p.1 | None => 0 end.
(** in-kernel cross-check of the codec model: the real serde_json output decodes to the state, and the
    model's own encoding of the state decodes to it as well *)
Definition codec_case {V} (dec_eq : EqDecision V) (c : codec V) (j : json) (v : V) : bool :=
  bool_decide (dec c j = Some v) &&
  match enc c v with Some je => bool_decide (dec c je = Some v) | None => false end.
Definition glist_dec : EqDecision (list (list (Qc * N))) := _.
Definition merkle_dec : EqDecision merkle := _.
Definition vc_dec : EqDecision (gmap N N) := _.

Definition vec_insert_at (i : nat) (x : N) (l : list N) : list N := insert_at i x l.
Definition vec_remove_at (i : nat) (l : list N) : list N := remove_at i l.

(** serde codec model: instances used by the correspondence check *)
Definition codec_mapmv := cmap_codec mvreg_codec.
Definition codec_mapor := cmap_codec orswot_codec.
Definition codec_mapmm := cmap_codec (cmap_codec mvreg_codec).
Definition codec_mapmo := cmap_codec (cmap_codec orswot_codec).
Definition codec_glist := glist_codec z_codec.
Definition codec_list := clist_codec z_codec.
Fixpoint json_size (j : json) : nat :=
  match j with
  | JArr l => S (foldr (λ x acc, json_size x + acc)%nat O l)
  | JObj l => S (foldr (λ x acc, json_size x.2 + acc)%nat O l)
  | _ => 1%nat
  end.

(** decidable equalities used by the in-kernel cross-check of List calls *)
Global Instance lop_eq_dec : EqDecision lop.
Proof. solve_decision. Defined.
Global Instance clist_eq_dec : EqDecision clist.
Proof. solve_decision. Defined.
