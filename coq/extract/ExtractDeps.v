(** Imports exactly what extract/Extract.v imports, so that `make extract/ExtractDeps.vo`
    brings every file the extraction reads up to date (Extract.v itself is run by
    ocaml/build.sh outside the Makefile). *)
From Crdt Require Import model.VClock model.Simple model.Orswot model.MVReg model.Map
  model.Identifier model.List model.Merkle model.Serde extract.Glue spec.VClockSpec spec.System spec.OrswotSpec spec.Specs spec.MVRegSystem spec.MapSpec spec.MapOrswotSpec spec.MapMapOrswotSpec spec.MapMapOrswotNKSpec spec.MapOrswotKM spec.MapOrswotKMN spec.MapMVRegSpec.
