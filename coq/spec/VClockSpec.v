(** Executable specification (boolean deciders) of the C10 statements.  The
    monitors evaluate these on the implementation's inputs and outputs; the
    lemmas below show that the model always passes them, i.e. each decider is
    implied by the corresponding theorem of props/C10.v. *)
From Crdt Require Import model.VClock proofs.VClock.
From Coq Require Import ZifyBool ZifyN.
Local Open Scope N_scope.

(** all actors mentioned by either clock *)
Definition actors2 (a b : vclock) : list N := elements (dom a ∪ dom b : gset N).

Definition pw_le (a b : vclock) : bool := forallb (λ x, vget a x <=? vget b x) (actors2 a b).

(** the pointwise order, computed without [vcmp] *)
Definition spec_cmp (a b : vclock) : option comparison :=
  match pw_le a b, pw_le b a with
  | true, true => Some Eq
  | true, false => Some Lt
  | false, true => Some Gt
  | false, false => None
  end.

Definition pw_all (f : N → bool) (cs : list vclock) : bool :=
  forallb f (elements (⋃ (dom <$> cs) : gset N)).

(** result [r] of [merge a b] *)
Definition spec_merge_ok (a b r : vclock) : bool :=
  vwfb r && pw_all (λ x, vget r x =? N.max (vget a x) (vget b x)) [a; b; r].
Definition spec_glb_ok (a b r : vclock) : bool :=
  vwfb r && pw_all (λ x, vget r x =? N.min (vget a x) (vget b x)) [a; b; r].
Definition spec_reset_ok (a c r : vclock) : bool :=
  vwfb r && pw_all (λ x, vget r x =? (if vget a x <=? vget c x then 0 else vget a x)) [a; c; r].
Definition spec_intersection_ok (a b r : vclock) : bool :=
  vwfb r && pw_all (λ x, vget r x =? (if vget a x =? vget b x then vget a x else 0)) [a; b; r].
Definition spec_apply_ok (c : vclock) (d : dot) (r : vclock) : bool :=
  vwfb r && pw_all (λ x, vget r x =? (if decide (x = dactor d) then N.max (vget c x) (dcounter d) else vget c x))
                   [c; r; {[dactor d := 1]}].
Definition spec_validate_ok (c : vclock) (d : dot) (r : option (N * N * N)) : bool :=
  match r with
  | None => dcounter d <=? vget c (dactor d) + 1
  | Some (a, lo, hi) => (vget c (dactor d) + 1 <? dcounter d) && (a =? dactor d) && (lo =? vget c (dactor d) + 1) && (hi =? dcounter d)
  end.
Definition spec_inc_ok (c : vclock) (a : N) (d : dot) : bool :=
  (dactor d =? a) && (dcounter d =? vget c a + 1).

(** * the model passes every decider *)
Lemma elem_actors2_l a b x n : a !! x = Some n → x ∈ actors2 a b.
Proof. intros H. unfold actors2. rewrite elem_of_elements, elem_of_union, !elem_of_dom. left. by eexists. Qed.
Lemma elem_actors2_r a b x n : b !! x = Some n → x ∈ actors2 a b.
Proof. intros H. unfold actors2. rewrite elem_of_elements, elem_of_union, !elem_of_dom. right. by eexists. Qed.

Lemma pw_le_spec a b : pw_le a b = true ↔ vleq a b.
Proof.
  unfold pw_le. rewrite forallb_forall. split.
  - intros H x. destruct (a !! x) as [n|] eqn:E.
    + assert (In x (actors2 a b)) as Hin by (apply elem_of_list_In; by eapply elem_actors2_l).
      apply H in Hin. lia.
    + rewrite (vget_None _ _ E). lia.
  - intros H x _. specialize (H x). lia.
Qed.

Lemma spec_cmp_correct a b : vwf a → vwf b → vcmp a b = spec_cmp a b.
Proof.
  intros Ha Hb. unfold spec_cmp.
  destruct (pw_le a b) eqn:E1, (pw_le b a) eqn:E2.
  - apply pw_le_spec in E1, E2. apply vcmp_Eq. by apply vleq_antisym.
  - apply vcmp_Lt; [done..|]. split; [|by apply pw_le_spec].
    intros ->. congruence.
  - apply vcmp_Gt; [done..|]. split; [|by apply pw_le_spec].
    intros ->. congruence.
  - apply vcmp_None; [done..|]. rewrite <- !pw_le_spec. rewrite E1, E2. done.
Qed.

Lemma pw_all_intro f cs : (∀ x, f x = true) → pw_all f cs = true.
Proof. intros H. unfold pw_all. apply forallb_forall. intros x _. apply H. Qed.

Lemma spec_merge_model a b : vwf a → vwf b → spec_merge_ok a b (vmerge a b) = true.
Proof.
  intros Ha Hb. unfold spec_merge_ok. apply andb_true_intro. split.
  - apply vwfb_spec. by apply vmerge_wf.
  - apply pw_all_intro. intros x. rewrite vmerge_get. lia.
Qed.
Lemma spec_glb_model a b : spec_glb_ok a b (vglb a b) = true.
Proof.
  unfold spec_glb_ok. apply andb_true_intro. split.
  - apply vwfb_spec, vglb_wf.
  - apply pw_all_intro. intros x. rewrite vglb_get. lia.
Qed.
Lemma spec_reset_model a c : vwf a → spec_reset_ok a c (vreset a c) = true.
Proof.
  intros Ha. unfold spec_reset_ok. apply andb_true_intro. split.
  - apply vwfb_spec. by apply vreset_wf.
  - apply pw_all_intro. intros x. rewrite vreset_get. lia.
Qed.
Lemma spec_intersection_model a b : vwf a → spec_intersection_ok a b (vintersection a b) = true.
Proof.
  intros Ha. unfold spec_intersection_ok. apply andb_true_intro. split.
  - apply vwfb_spec. by apply vintersection_wf.
  - apply pw_all_intro. intros x. rewrite vintersection_get. lia.
Qed.
Lemma spec_apply_model c d : vwf c → spec_apply_ok c d (vapply c d) = true.
Proof.
  intros Hc. unfold spec_apply_ok. apply andb_true_intro. split.
  - apply vwfb_spec. by apply vapply_wf.
  - apply pw_all_intro. intros x. rewrite vapply_get. lia.
Qed.
Lemma spec_validate_model c d : spec_validate_ok c d (vvalidate_op c d) = true.
Proof.
  unfold spec_validate_ok. rewrite vvalidate_op_spec.
  destruct (vget c (dactor d) + 1 <? dcounter d) eqn:E; lia.
Qed.
Lemma spec_inc_model c a : spec_inc_ok c a (vinc c a) = true.
Proof. unfold spec_inc_ok. simpl. lia. Qed.
