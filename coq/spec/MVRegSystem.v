(** MVReg as an instance of the replicated-system framework.  Definitions only. *)
From Crdt Require Import model.MVReg spec.System spec.OrswotSpec spec.Specs.
Local Open Scope N_scope.

Inductive mvcmd := CWrite (v : N).

(** a write made with the context of a read of the replica *)
Definition mvgen (s : list (gmap N N * N)) (a : N) (c : mvcmd) : option mvop :=
  match c with CWrite v => Some (mvwrite v (derive_add_ctx (mvread_ctx s) a)) end.

Definition mvop_clock (o : mvop) : vclock := match o with MVPut c _ => c end.

(** join of the clocks of the ops with index in [K] *)
Definition deps_clock (H : list (oprec mvop)) (K : gset nat) : vclock :=
  foldl vmerge ∅ (mvop_clock <$> known_ops H K).

(** Structural well-formedness: every write's clock is the join of the clocks
    of the writes its author's replica had applied, plus the author's next dot;
    dependencies are earlier ops and include the author's own earlier writes. *)
Definition mvwfH (H : list (oprec mvop)) : Prop :=
  ∀ i r, H !! i = Some r →
    (∀ j, j ∈ op_deps r → (j < i)%nat) ∧
    (∀ j r', (j < i)%nat → H !! j = Some r' → op_author r' = op_author r → j ∈ op_deps r) ∧
    let J := deps_clock H (op_deps r) in
    mvop_clock (op_val r) = vapply J (vinc J (op_author r)).

(** any set of ops of the history (no delivery-order requirement at all) *)
Definition mvvalid (H : list (oprec mvop)) (K : gset nat) : Prop :=
  ∀ i, i ∈ K → is_Some (H !! i).

(** happened-before: [j] was (transitively) observed by [i] *)
Inductive mvhb (H : list (oprec mvop)) : nat → nat → Prop :=
| mvhb_dep i j r : H !! i = Some r → j ∈ op_deps r → mvhb H j i
| mvhb_trans i j k : mvhb H k j → mvhb H j i → mvhb H k i.
