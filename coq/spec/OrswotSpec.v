(** Declarative specification of the Orswot: the state of a replica as a
    function of the history and of the SET of ops the replica has learned.
    Computable (the monitors evaluate it on the implementation's observations).

    Every component is defined through a lookup function over a finite key set
    ([fn_map]), so that its lookup lemma is immediate. *)
From Crdt Require Import model.Orswot spec.System.
Local Open Scope N_scope.

Notation ohist := (list (oprec oop)) (only parsing).

(** the ops of [H] whose index is in [K] *)
Definition known_ops {Op} (H : list (oprec Op)) (K : gset nat) : list Op :=
  omap (λ p : nat * oprec Op, if bool_decide (p.1 ∈ K) then Some (op_val p.2) else None) (imap pair H).

(** a finite map given by a function on a finite key set *)
Definition fn_map `{Countable K} {V} (keys : gset K) (f : K → option V) : gmap K V :=
  map_imap (λ k _, f k) (gset_to_gmap () keys).

(** greatest counter of actor [a] among the dots [ds] (0 if none) *)
Definition max_ctr (ds : list dot) (a : N) : N :=
  foldr N.max 0 (omap (λ d, if decide (dactor d = a) then Some (dcounter d) else None) ds).

(** the clock holding, per actor, the greatest counter of [ds]; no stored zero *)
Definition dots_clock (ds : list dot) : vclock :=
  fn_map (list_to_set (dactor <$> ds)) (λ a, let n := max_ctr ds a in if n =? 0 then None else Some n).

Definition adds_of (os : list oop) : list (dot * list N) :=
  omap (λ o, match o with OAdd d ms => Some (d, ms) | _ => None end) os.
Definition rms_of (os : list oop) : list (gmap N N * list N) :=
  omap (λ o, match o with ORm c ms => Some (c, ms) | _ => None end) os.

(** dot [d] of member [m] is covered by an applied remove of [m] *)
Definition covered (rms : list (gmap N N * list N)) (m : N) (d : dot) : bool :=
  existsb (λ r : gmap N N * list N,
             bool_decide (m ∈ r.2) && (dcounter d <=? vget r.1 (dactor d))) rms.

(** the surviving add witnesses of [m] *)
Definition live_dots (os : list oop) (m : N) : list dot :=
  omap (λ a : dot * list N,
          if bool_decide (m ∈ a.2) && negb (covered (rms_of os) m a.1) then Some a.1 else None)
       (adds_of os).

Definition ospec_clock (os : list oop) : vclock := dots_clock (fst <$> adds_of os).

(** the witness clock of member [m]: per-actor greatest surviving add dot *)
Definition ospec_entry (os : list oop) (m : N) : vclock := dots_clock (live_dots os m).

Definition ospec_entries (os : list oop) : gmap N (gmap N N) :=
  fn_map (list_to_set (concat (snd <$> adds_of os)))
         (λ m, let c := ospec_entry os m in if vis_empty c then None else Some c).

(** members named by the applied removes with context [c] *)
Definition rm_members (os : list oop) (c : vclock) : gset N :=
  list_to_set (concat (omap (λ r : gmap N N * list N,
                              if bool_decide (r.1 = c) then Some r.2 else None) (rms_of os))).

(** pending removes: those whose context is not covered by the clock yet *)
Definition ospec_deferred (os : list oop) : gmap (gmap N N) (gset N) :=
  fn_map (list_to_set (fst <$> rms_of os))
         (λ c, if vle c (ospec_clock os) then None else Some (rm_members os c)).

Definition ospec_of (os : list oop) : orswot :=
  Orswot (ospec_clock os) (ospec_entries os) (ospec_deferred os).

Definition ospec (H : list (oprec oop)) (K : gset nat) : orswot := ospec_of (known_ops H K).

(** The sentence of property C04, as a decidable predicate on a replica's
    read: [m] is a member iff some applied add of [m] is not covered by the
    context of any applied remove of [m]. *)
Definition c04_member (H : list (oprec oop)) (K : gset nat) (m : N) : bool :=
  match live_dots (known_ops H K) m with [] => false | _ => true end.
