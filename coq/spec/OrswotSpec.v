(** Declarative specification of the Orswot: the state of a replica as a
    function of the history and of the SET of ops the replica has learned.
    Computable (the monitors evaluate it on the implementation's observations). *)
From Crdt Require Import model.Orswot spec.System.
Local Open Scope N_scope.

Notation ohist := (list (oprec oop)) (only parsing).

(** the ops of [H] whose index is in [K] *)
Definition known_ops {Op} (H : list (oprec Op)) (K : gset nat) : list Op :=
  omap (λ p : nat * oprec Op, if bool_decide (p.1 ∈ K) then Some (op_val p.2) else None) (imap pair H).

Definition adds_of (os : list oop) : list (dot * list N) :=
  omap (λ o, match o with OAdd d ms => Some (d, ms) | _ => None end) os.
Definition rms_of (os : list oop) : list (gmap N N * list N) :=
  omap (λ o, match o with ORm c ms => Some (c, ms) | _ => None end) os.

(** per-actor maximum of a list of dots *)
Definition dots_clock (ds : list dot) : vclock := foldl vapply ∅ ds.

(** dot [d] of member [m] is covered by an applied remove of [m] *)
Definition covered (rms : list (gmap N N * list N)) (m : N) (d : dot) : bool :=
  existsb (λ r : gmap N N * list N,
             bool_decide (m ∈ r.2) && (dcounter d <=? vget r.1 (dactor d))) rms.

(** the surviving add witnesses of [m] *)
Definition live_dots (adds : list (dot * list N)) (rms : list (gmap N N * list N)) (m : N) : list dot :=
  omap (λ a : dot * list N,
          if bool_decide (m ∈ a.2) && negb (covered rms m a.1) then Some a.1 else None) adds.

Definition ospec_clock (os : list oop) : vclock := dots_clock (fst <$> adds_of os).

Definition ospec_entries (os : list oop) : gmap N (gmap N N) :=
  let adds := adds_of os in
  let rms := rms_of os in
  let members : gset N := list_to_set (concat (snd <$> adds)) in
  set_fold (λ m acc, let c := dots_clock (live_dots adds rms m) in
                     if vis_empty c then acc else <[m := c]> acc) ∅ members.

(** pending removes: those whose context is not covered by the clock yet *)
Definition ospec_deferred (os : list oop) : gmap (gmap N N) (gset N) :=
  let clock := ospec_clock os in
  foldl (λ acc r, if vle r.1 clock then acc
                  else <[r.1 := default ∅ (acc !! r.1) ∪ list_to_set r.2]> acc)
        ∅ (rms_of os).

Definition ospec (H : list (oprec oop)) (K : gset nat) : orswot :=
  let os := known_ops H K in
  Orswot (ospec_clock os) (ospec_entries os) (ospec_deferred os).

(** The sentence of property C04, as a decidable predicate on a replica's
    read: [m] is a member iff some applied add of [m] is not covered by the
    context of any applied remove of [m]. *)
Definition c04_member (H : list (oprec oop)) (K : gset nat) (m : N) : bool :=
  let os := known_ops H K in
  match live_dots (adds_of os) (rms_of os) m with [] => false | _ => true end.
