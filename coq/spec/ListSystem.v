(** List as an instance of the replicated-system framework.  Definitions only. *)
From Crdt Require Import model.List spec.System spec.OrswotSpec spec.Specs.
Local Open Scope N_scope.

Inductive lcmd := CInsert (ix : nat) (v : N) | CAppend (v : N) | CDelete (ix : nat).

Definition lgen (s : clist) (a : N) (c : lcmd) : option lop :=
  match c with
  | CInsert ix v => Some (l_insert_index s ix v a)
  | CAppend v => Some (l_append s v a)
  | CDelete ix => l_delete_index s ix a
  end.

(** [apply] made total: the [unwrap] panic on an empty identifier leaves the
    state unchanged (API-generated ops never carry one: proved) *)
Definition l_apply' (s : clist) (o : lop) : clist := default s (l_apply s o).

Definition lop_id (o : lop) : list (Qc * (N * N)) :=
  match o with LInsert id _ => id | LDelete id _ => id end.

(** Structural well-formedness: the k-th op of an actor carries the dot
    (actor, k); an insert's identifier ends with its dot; a delete targets an
    identifier whose insert its author had applied; dependencies are earlier
    ops and include the author's own earlier ops. *)
Definition lwfH (H : list (oprec lop)) : Prop :=
  ∀ i r, H !! i = Some r →
    (∀ j, j ∈ op_deps r → (j < i)%nat) ∧
    (∀ j r', (j < i)%nat → H !! j = Some r' → op_author r' = op_author r → j ∈ op_deps r) ∧
    lop_dot (op_val r) =
      Some (Dot (op_author r)
                (N.of_nat (length (List.filter (λ r', bool_decide (op_author r' = op_author r)) (take i H))) + 1)) ∧
    match op_val r with
    | LInsert id _ => True
    | LDelete id _ => ∃ j r' v, j ∈ op_deps r ∧ H !! j = Some r' ∧ op_val r' = LInsert id v
    end.

(** a causally closed set of ops of the history *)
Definition lvalid (H : list (oprec lop)) (K : gset nat) : Prop :=
  (∀ i, i ∈ K → is_Some (H !! i)) ∧
  (∀ i r, i ∈ K → H !! i = Some r → op_deps r ⊆ K).
