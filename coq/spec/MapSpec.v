(** Declarative key-level specification of [Map] (observed-remove keys), generic in the
    nested op type.  Definitions only.

    An update op [MUp d k _] is a witness [d] of key [k]; a remove op [MRm c ks] covers
    the witnesses [d] of the keys [k ∈ ks] with [d ≤ c].  A key is live iff one of its
    applied witnesses is covered by no applied remove; the clock of a live key is the
    join of its surviving witnesses; the map clock is the join of all applied witnesses. *)
From stdpp Require Import gmap.
From Crdt Require Import model.VClock model.Map spec.System spec.OrswotSpec.
Local Open Scope N_scope.

Section mapspec.
  Context {O : Type}.

  Definition mcovered (os : list (mop O)) (k : N) (d : dot) : bool :=
    existsb (λ o, match o with
                  | MRm c ks => bool_decide (k ∈ ks) && (dcounter d <=? vget c (dactor d))
                  | MUp _ _ _ => false
                  end) os.

  (** surviving witnesses of key [k] *)
  Definition mlive_dots (os : list (mop O)) (k : N) : list dot :=
    omap (λ o, match o with
               | MUp d k' _ => if bool_decide (k' = k) && negb (mcovered os k d) then Some d else None
               | MRm _ _ => None
               end) os.

  Definition mall_dots (os : list (mop O)) : list dot :=
    omap (λ o, match o with MUp d _ _ => Some d | MRm _ _ => None end) os.

  Definition mkeys_mentioned (os : list (mop O)) : list N :=
    omap (λ o, match o with MUp _ k _ => Some k | MRm _ _ => None end) os.

  Definition mspec_clock (os : list (mop O)) : vclock := dots_clock (mall_dots os).
  Definition mspec_entry_clock (os : list (mop O)) (k : N) : vclock := dots_clock (mlive_dots os k).
  Definition mspec_keys (os : list (mop O)) : gset N :=
    list_to_set (List.filter (λ k, negb (vis_empty (mspec_entry_clock os k))) (mkeys_mentioned os)).

  (** the key-level view of a state *)
  Definition mkeys {V} (s : cmap V) : gset N := dom (mentries s).
  Definition mentry_clock {V} (s : cmap V) (k : N) : vclock :=
    match mentries s !! k with Some e => eclock e | None => ∅ end.

  (** does a state agree with the key-level specification of the ops it has learned? *)
  Definition mkeyspec_ok {V} (H : list (oprec (mop O))) (K : gset nat) (s : cmap V) : bool :=
    let os := known_ops H K in
    bool_decide (mclock s = mspec_clock os)
    && bool_decide (mkeys s = mspec_keys os)
    && forallb (λ k, bool_decide (mentry_clock s k = mspec_entry_clock os k)) (mkeys_mentioned os).
End mapspec.
