(** The replicated-system framework (DESIGN.md §4).

    A *history* is the list of all ops ever generated, in generation order; the
    index of an op is its identity.  Each op records its author (the actor, which
    is also the replica that generated it) and the set of ops its author's replica
    had applied when it generated the op ([op_deps]).

    A replica state is described by a pair (state, knowledge): [reach H s K] says
    that some replica can be in state [s] after learning exactly the ops [K] of
    history [H], through ANY interleaving of op deliveries admitted by [adm]
    (duplicates included) and merges with other reachable states.  The number of
    replicas is unbounded and implicit: every reachable pair is a possible replica
    (or a snapshot, a backup, a lagging peer).

    [hist_ok] says that every op of the history was produced by the public API
    ([gen]) at a reachable state whose knowledge contains all earlier ops of the
    same author ("every replica edits through its own actor and applies each op
    it generates before generating the next").

    Per type one provides a declarative [spec H K] and proves the two local
    refinement lemmas (L1 for apply, L2 for merge); the framework then gives
    "state = spec(history, knowledge)" for every reachable state, from which
    convergence, the merge laws, hybrid replication, idempotence and structural
    equality are corollaries. *)
From stdpp Require Import gmap.
From Coq Require Import NArith.

Record oprec (Op : Type) := OpRec { op_author : N; op_val : Op; op_deps : gset nat }.
Global Arguments OpRec {_} _ _ _.
Global Arguments op_author {_} _.
Global Arguments op_val {_} _.
Global Arguments op_deps {_} _.

(** admissibility of delivering op [i] to a replica that knows [K] *)
Definition adm_t (Op : Type) := list (oprec Op) → gset nat → nat → Prop.
(** causal: everything the author had applied is known *)
Definition adm_causal {Op} : adm_t Op := λ H K i,
  ∃ o, H !! i = Some o ∧ op_deps o ⊆ K.
(** per-actor: all earlier ops of the same author are known *)
Definition adm_per_actor {Op} : adm_t Op := λ H K i,
  ∃ o, H !! i = Some o ∧ ∀ j o', (j < i)%nat → H !! j = Some o' → op_author o' = op_author o → j ∈ K.
(** any order at all *)
Definition adm_any {Op} : adm_t Op := λ H K i, is_Some (H !! i).

(** all ops of actor [a] in [H] are in [K] *)
Definition own_known {Op} (H : list (oprec Op)) (a : N) (K : gset nat) : Prop :=
  ∀ j o, H !! j = Some o → op_author o = a → j ∈ K.

Section system.
  Context {St Op Cmd : Type}.
  Context (eqv : St → St → Prop) `{!Equivalence eqv}.
  Context (init : St) (apply : St → Op → St) (merge : St → St → St).
  Context (gen : St → N → Cmd → option Op).
  Context (adm : adm_t Op).
  (** whether the type has a state merge at all ([List] has none) *)
  Context (mergeable : Prop).

  Inductive reach (H : list (oprec Op)) : St → gset nat → Prop :=
  | reach_init : reach H init ∅
  | reach_apply s K i o :
      reach H s K → H !! i = Some o → adm H K i →
      reach H (apply s (op_val o)) (K ∪ {[i]})
  | reach_merge s1 K1 s2 K2 :
      mergeable → reach H s1 K1 → reach H s2 K2 → reach H (merge s1 s2) (K1 ∪ K2).

  Inductive hist_ok : list (oprec Op) → Prop :=
  | hist_nil : hist_ok []
  | hist_snoc H s K a cmd o :
      hist_ok H → reach H s K → own_known H a K → gen s a cmd = Some o →
      hist_ok (H ++ [OpRec a o K]).

  (** * what a type has to provide *)
  Context (spec : list (oprec Op) → gset nat → St).
  (** structural well-formedness of histories (unique dots, ...) *)
  Context (wfH : list (oprec Op) → Prop).
  (** validity of a knowledge set (within the history, closed as [adm] needs) *)
  Context (valid : list (oprec Op) → gset nat → Prop).

  Hypothesis apply_proper : ∀ s s' o, eqv s s' → eqv (apply s o) (apply s' o).
  Hypothesis merge_proper : ∀ s1 s1' s2 s2', eqv s1 s1' → eqv s2 s2' → eqv (merge s1 s2) (merge s1' s2').

  Hypothesis spec_init : ∀ H, eqv init (spec H ∅).
  Hypothesis valid_empty : ∀ H, valid H ∅.
  Hypothesis valid_step : ∀ H K i, wfH H → valid H K → adm H K i → valid H (K ∪ {[i]}).
  Hypothesis valid_union : ∀ H K1 K2, valid H K1 → valid H K2 → valid H (K1 ∪ K2).
  Hypothesis L1 : ∀ H K i o, wfH H → valid H K → adm H K i → H !! i = Some o →
    eqv (apply (spec H K) (op_val o)) (spec H (K ∪ {[i]})).
  Hypothesis L2 : ∀ H K1 K2, mergeable → wfH H → valid H K1 → valid H K2 →
    eqv (merge (spec H K1) (spec H K2)) (spec H (K1 ∪ K2)).

  (** * every reachable state is the specification of its knowledge *)
  Theorem reach_spec H s K : wfH H → reach H s K → eqv s (spec H K) ∧ valid H K.
  Proof.
    intros HH. induction 1 as [|s K i o Hr [IH1 IH2] Ho Ha|s1 K1 s2 K2 Hm Hr1 [IH1 IHv1] Hr2 [IH2 IHv2]].
    - split; [apply spec_init|apply valid_empty].
    - split; [|by apply valid_step].
      etrans; [by apply apply_proper|]. by apply L1.
    - split; [|by apply valid_union].
      etrans; [by apply merge_proper|]. by apply L2.
  Qed.

  (** C01 / C20: equal knowledge, equal state — at any two replicas, however
      the ops and merges were interleaved *)
  Corollary converge H s1 s2 K : wfH H → reach H s1 K → reach H s2 K → eqv s1 s2.
  Proof.
    intros HH H1 H2. destruct (reach_spec _ _ _ HH H1) as [E1 _], (reach_spec _ _ _ HH H2) as [E2 _].
    etrans; [exact E1|]. by symmetry.
  Qed.

  (** C03: merging two replicas = having learned the union of their ops *)
  Corollary merge_is_union H s1 K1 s2 K2 s K :
    mergeable → wfH H → reach H s1 K1 → reach H s2 K2 → reach H s K → K = K1 ∪ K2 → eqv (merge s1 s2) s.
  Proof.
    intros Hm HH H1 H2 H3 ->. eapply converge; [done| |exact H3]. by apply reach_merge.
  Qed.

  (** C02: merge is commutative, associative, idempotent on reachable states *)
  Corollary merge_comm H s1 K1 s2 K2 :
    mergeable → wfH H → reach H s1 K1 → reach H s2 K2 → eqv (merge s1 s2) (merge s2 s1).
  Proof.
    intros Hm HH H1 H2. eapply converge; [done|by apply reach_merge|].
    rewrite (comm_L (∪) K1 K2). by apply reach_merge.
  Qed.
  Corollary merge_assoc H s1 K1 s2 K2 s3 K3 :
    mergeable → wfH H → reach H s1 K1 → reach H s2 K2 → reach H s3 K3 →
    eqv (merge (merge s1 s2) s3) (merge s1 (merge s2 s3)).
  Proof.
    intros Hm HH H1 H2 H3. eapply converge; [done|by repeat apply reach_merge|].
    rewrite <- (assoc_L (∪) K1 K2 K3). by repeat apply reach_merge.
  Qed.
  Corollary merge_idem H s K : mergeable → wfH H → reach H s K → eqv (merge s s) s.
  Proof.
    intros Hm HH H1. eapply converge; [done| |exact H1].
    assert (reach H (merge s s) (K ∪ K)) as Hr by (by apply reach_merge).
    by rewrite (idemp_L (∪) K) in Hr.
  Qed.

  (** C09: re-applying a known op, or merging a state whose knowledge is
      already contained, changes nothing *)
  Corollary dup_apply H s K i o :
    wfH H → reach H s K → H !! i = Some o → adm H K i → i ∈ K → eqv (apply s (op_val o)) s.
  Proof.
    intros HH Hr Ho Ha Hi. eapply converge; [done| |exact Hr].
    assert (reach H (apply s (op_val o)) (K ∪ {[i]})) as Hm by (by eapply reach_apply).
    replace (K ∪ {[i]}) with K in Hm by set_solver. done.
  Qed.
  Corollary stale_merge H s1 K1 s2 K2 :
    mergeable → wfH H → reach H s1 K1 → reach H s2 K2 → K2 ⊆ K1 → eqv (merge s1 s2) s1.
  Proof.
    intros Hm HH H1 H2 Hsub. eapply converge; [done| |exact H1].
    assert (reach H (merge s1 s2) (K1 ∪ K2)) as Hr by (by apply reach_merge).
    replace (K1 ∪ K2) with K1 in Hr by set_solver. done.
  Qed.
End system.

(** [reach] is monotone in the history: states of different points in time of
    one run are comparable. *)
Section mono.
  Context {St Op : Type} (init : St) (apply : St → Op → St) (merge : St → St → St).
  Context (adm : adm_t Op) (mergeable : Prop).
  Hypothesis adm_mono : ∀ H H' K i, adm H K i → adm (H ++ H') K i.

  Lemma reach_mono H H' s K :
    reach init apply merge adm mergeable H s K → reach init apply merge adm mergeable (H ++ H') s K.
  Proof.
    induction 1 as [|s K i o Hr IH Ho Ha|s1 K1 s2 K2 Hm Hr1 IH1 Hr2 IH2].
    - constructor.
    - eapply reach_apply; [done| |by apply adm_mono]. by apply lookup_app_l_Some.
    - by apply reach_merge.
  Qed.
End mono.

Lemma adm_causal_mono {Op} (H H' : list (oprec Op)) K i : adm_causal H K i → adm_causal (H ++ H') K i.
Proof. intros (o & Ho & Hd). exists o. split; [by apply lookup_app_l_Some|done]. Qed.
Lemma adm_any_mono {Op} (H H' : list (oprec Op)) K i : adm_any H K i → adm_any (H ++ H') K i.
Proof. intros [o Ho]. exists o. by apply lookup_app_l_Some. Qed.
Lemma adm_per_actor_mono {Op} (H H' : list (oprec Op)) K i : adm_per_actor H K i → adm_per_actor (H ++ H') K i.
Proof.
  intros (o & Ho & Hd). exists o. split; [by apply lookup_app_l_Some|].
  intros j o' Hj Hl Ha. apply (Hd j o'); [done| |done].
  apply lookup_lt_Some in Ho. rewrite lookup_app_l in Hl by lia. done.
Qed.

(** a stronger delivery discipline reaches fewer states *)
Lemma reach_adm_mono {St Op} (init : St) (apply : St → Op → St) (merge : St → St → St)
    (adm1 adm2 : adm_t Op) (mergeable : Prop) H s K :
  (∀ K i, adm1 H K i → adm2 H K i) →
  reach init apply merge adm1 mergeable H s K → reach init apply merge adm2 mergeable H s K.
Proof.
  intros Hadm. induction 1 as [|s K i o Hr IH Ho Ha|s1 K1 s2 K2 Hm Hr1 IH1 Hr2 IH2].
  - constructor.
  - eapply reach_apply; [done..|by apply Hadm].
  - by apply reach_merge.
Qed.
