(** Value-level specification of [Map<K, MVReg<V>>] whose keys are never removed, for op-based
    replication under per-actor delivery (no state merges).  Definitions only.

    [Map::update(k, ctx, |reg, c| reg.write(v, c))] hands the nested write the add context of the
    WHOLE MAP (map clock plus the new dot).  A nested put addressed to key [k] is a write of the
    register stored under [k]; the register under [k] must hold exactly the causally maximal
    writes addressed to [k] ([mv_maximal] of spec/Specs.v over the projected puts): the sentence
    of C06 under every key. *)
From stdpp Require Import gmap.
From Crdt Require Import model.MVReg model.Map spec.System spec.OrswotSpec spec.OrswotSystem spec.Specs
  spec.MVRegSystem spec.MapSpec spec.MapSystem.
Local Open Scope N_scope.

(** the application writes value [v] under key [k]; the context comes from
    [read_ctx]/[len]/[is_empty] ([None]) or from [get k'] ([Some k']): both carry the map clock
    as ADD context ([add_clock (mget s k') = add_clock (mread_ctx s) = mclock s]), so the op
    generated does not depend on [src] ([mgen] derives the add context from [mread_ctx]) *)
Inductive mvcmd := MVWrite (k v : N) (src : option N).

Definition mv_cmd (c : mvcmd) : mcmd (list (gmap N N * N)) mvop :=
  match c with MVWrite k v _ => MCUp k (λ _ ctx, mvwrite v ctx) end.

Definition mvgen (s : cmap (list (gmap N N * N))) (a : N) (c : mvcmd) : option (mop mvop) :=
  mgen mvreg_valops s a (mv_cmd c).

(** the writes addressed to key [k] *)
Definition mv_proj (os : list (mop mvop)) (k : N) : list mvop :=
  omap (λ o, match o with MUp _ k' p => if bool_decide (k' = k) then Some p else None | MRm _ _ => None end) os.

(** the register the state holds under [k] (empty when the key is absent) *)
Definition mv_state_vals (s : cmap (list (gmap N N * N))) (k : N) : list (gmap N N * N) :=
  match mentries s !! k with Some e => eval e | None => [] end.

(** decider for the monitor: under every key ever updated the stored vector is a permutation of
    the causally maximal known writes of that key *)
Definition mapmv_vals_ok (H : list (oprec (mop mvop))) (K : gset nat) (s : cmap (list (gmap N N * N))) : bool :=
  forallb (λ k, bool_decide (mv_state_vals s k ≡ₚ mv_maximal (mv_writes (mv_proj (known_ops H K) k))))
          (mkeys_mentioned (known_ops H K)).

(** op-based replication, each actor's ops in issue order (otherwise arbitrary, duplicates
    allowed), no state merges *)
Notation mvreach_nk := (reach mnew (mapply mvreg_valops) (mmerge mvreg_valops) adm_per_actor False).
Notation mvhist_ok_nk := (hist_ok mnew (mapply mvreg_valops) (mmerge mvreg_valops) mvgen adm_per_actor False).
(** the same under causal delivery *)
Notation mvreach_nk_causal := (reach mnew (mapply mvreg_valops) (mmerge mvreg_valops) adm_causal False).
Notation mvhist_ok_nk_causal := (hist_ok mnew (mapply mvreg_valops) (mmerge mvreg_valops) mvgen adm_causal False).
