(** [Map<K1, Map<K2, Orswot<M>>>] (nesting depth 2) whose keys are never removed, at either level
    (commands [M2Add], [M2Rm] only): per-actor delivery AND state merges.  Definitions only.

    Without key removes the map stored under an outer key [k1] is itself a key-remove-free
    [Map<K2, Orswot<M>>] that evolves by the inner ops addressed to [k1] ([m2_proj]): its complete
    state is the depth-1 specification [mapor_spec_nk_of] of the projected ops.  The COMPLETE
    state at depth 2 is then a function of the knowledge ([map2_spec_nk]). *)
From stdpp Require Import gmap.
From Crdt Require Import model.Orswot model.Map spec.System spec.OrswotSpec spec.OrswotSystem spec.MapSpec spec.MapSystem
  spec.MapOrswotSpec spec.MapMapOrswotSpec.
Local Open Scope N_scope.

(** no key is ever removed, at either level: members are added and removed under (k1, k2) *)
Definition m2_nokrm (c : m2cmd) : bool := match c with M2Add _ _ _ | M2Rm _ _ _ _ => true | _ => false end.
Definition m2gen_nk (s : cmap (cmap orswot)) (a : N) (c : m2cmd) : option (mop (mop oop)) :=
  if m2_nokrm c then m2gen s a c else None.

(** the inner ops addressed to outer key [k1] *)
Definition m2_proj (os : list (mop (mop oop))) (k1 : N) : list (mop oop) :=
  omap (λ o, match o with MUp _ k' o' => if bool_decide (k' = k1) then Some o' else None | MRm _ _ => None end) os.

Definition map2_spec_nk_of (os : list (mop (mop oop))) : cmap (cmap orswot) :=
  CMap (mspec_clock os)
       (fn_map (list_to_set (mkeys_mentioned os))
               (λ k1, Some (MEntry (mspec_entry_clock os k1) (mapor_spec_nk_of (m2_proj os k1)))))
       ∅.
Definition map2_spec_nk (H : list (oprec (mop (mop oop)))) (K : gset nat) : cmap (cmap orswot) :=
  map2_spec_nk_of (known_ops H K).

(** decider for the monitor *)
Definition map2_nk_ok (H : list (oprec (mop (mop oop)))) (K : gset nat) (s : cmap (cmap orswot)) : bool :=
  bool_decide (s = map2_spec_nk H K).

Notation m2reach_nk := (reach mnew (mapply (map_valops orswot_valops)) (mmerge (map_valops orswot_valops)) adm_per_actor True).
Notation m2hist_ok_nk := (hist_ok mnew (mapply (map_valops orswot_valops)) (mmerge (map_valops orswot_valops)) m2gen_nk adm_per_actor True).
