(** [Map<K, Orswot<M>>] with key removes, nested removes AND state merges, for EVERY history outside
    the classes of the known findings T2 and T3 (the union of the fragments of
    spec/MapOrswotKM.v and of the no-key-remove fragment of spec/MapOrswotSpec.v).  Definitions only.

    The check classifies a history as T2 when some key named by a key remove has two updates by one
    actor, and as T3 when some key named by a key remove has an update whose nested op is a remove.
    Outside both classes: a key that some key remove of the history names ("named") receives only
    nested ADDS, at most one update per actor ([km_once], [kmn_addonly]); a key that no remove names
    may receive anything (adds and nested removes, any number per actor).  All commands of [mocmd]
    are allowed ([mogen]).  Delivery is per actor (overtaking allowed), duplicates allowed, state
    merges allowed; ops may be generated at states that are themselves results of merges. *)
From stdpp Require Import gmap.
From Crdt Require Import model.Orswot model.Map spec.System spec.OrswotSpec spec.OrswotSystem spec.MapSpec spec.MapSystem
  spec.MapOrswotSpec spec.MapOrswotKM.
Local Open Scope N_scope.

(** key [k] is named by some key remove of the op list *)
Definition kmn_named (os : list (mop oop)) (k : N) : bool :=
  existsb (λ o, match o with MRm _ ks => bool_decide (k ∈ ks) | MUp _ _ _ => false end) os.

(** no update of a key that some key remove of the history names carries a nested remove *)
Definition kmn_addonly (H : list (oprec (mop oop))) : Prop :=
  ∀ i r d k c ms, H !! i = Some r → op_val r = MUp d k (ORm c ms) → kmn_named (op_val <$> H) k = false.

Notation moreach_kmn := (reach mnew (mapply orswot_valops) (mmerge orswot_valops) adm_per_actor True).
Notation mohist_ok_kmn := (hist_ok mnew (mapply orswot_valops) (mmerge orswot_valops) mogen adm_per_actor True).

(** the COMPLETE state as a function of the known ops [os] (and of the set of keys the WHOLE history
    [all] names in a key remove): the key layer is that of spec/MapSpec.v; under a key that a remove
    of the whole history names, the form of [mapor_spec_km] (nested clock = entry clock, member table
    [mo_entries], nothing parked inside); under any other key the form of [mapor_spec_nk] (the Orswot
    specification of the nested ops addressed to the key, parked nested removes included) *)
Definition mapor_spec_kmn_of (all os : list (mop oop)) : cmap orswot :=
  CMap (mspec_clock os)
       (fn_map (mspec_keys os)
               (λ k, Some (MEntry (mspec_entry_clock os k)
                                  (if kmn_named all k then Orswot (mspec_entry_clock os k) (mo_entries os k) ∅
                                   else ospec_of (mo_proj os k)))))
       (ospec_deferred (oabs <$> os)).
Definition mapor_spec_kmn (H : list (oprec (mop oop))) (K : gset nat) : cmap orswot :=
  mapor_spec_kmn_of (op_val <$> H) (known_ops H K).

(** decider for the monitor *)
Definition mapor_kmn_ok (H : list (oprec (mop oop))) (K : gset nat) (s : cmap orswot) : bool :=
  bool_decide (s = mapor_spec_kmn H K).
