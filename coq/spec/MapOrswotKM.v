(** [Map<K, Orswot<M>>] WITH key removes AND state merges, in the fragment the known findings
    T2 and T3 leave.  Definitions only.

    Finding T2 needs one actor to update a key twice and the key to be removed; finding T3 needs
    an update that carries a nested remove.  The fragment: commands [MOAdd] and [MOKeyRm] only
    ([mogen_ao]), and every key that some key remove of the history names is updated at most once
    by each actor ([km_once]).  Delivery is per actor (overtaking allowed), duplicates allowed,
    state merges allowed; ops may be generated at states that are themselves results of merges. *)
From stdpp Require Import gmap.
From Crdt Require Import model.Orswot model.Map spec.System spec.OrswotSpec spec.OrswotSystem spec.MapSpec spec.MapSystem spec.MapOrswotSpec.
Local Open Scope N_scope.
(** every key that some key remove of the history names is updated at most once by each actor *)
Definition km_once (H : list (oprec (mop oop))) : Prop :=
  ∀ i j ri rj di dj k oi oj,
    H !! i = Some ri → H !! j = Some rj → op_val ri = MUp di k oi → op_val rj = MUp dj k oj →
    (∃ l rl c ks, H !! l = Some rl ∧ op_val rl = MRm c ks ∧ k ∈ ks) → dactor di = dactor dj → i = j.
Notation moreach_km := (reach mnew (mapply orswot_valops) (mmerge orswot_valops) adm_per_actor True).
Notation mohist_ok_km := (hist_ok mnew (mapply orswot_valops) (mmerge orswot_valops) mogen_ao adm_per_actor True).

(** the COMPLETE state as a function of the known ops: map clock, key set and entry clocks are the
    key-level specification of spec/MapSpec.v; under every live key the nested Orswot has the entry
    clock as its clock, the member table [mo_entries] and no pending nested remove; the pending
    table is the Orswot specification of the key layer (the known key removes whose context the map
    clock does not cover) *)
Definition mapor_spec_km_of (os : list (mop oop)) : cmap orswot :=
  CMap (mspec_clock os)
       (fn_map (mspec_keys os)
               (λ k, Some (MEntry (mspec_entry_clock os k)
                                  (Orswot (mspec_entry_clock os k) (mo_entries os k) ∅))))
       (ospec_deferred (oabs <$> os)).
Definition mapor_spec_km (H : list (oprec (mop oop))) (K : gset nat) : cmap orswot :=
  mapor_spec_km_of (known_ops H K).

(** decider for the monitor *)
Definition mapor_km_ok (H : list (oprec (mop oop))) (K : gset nat) (s : cmap orswot) : bool :=
  bool_decide (s = mapor_spec_km H K).
