(** Declarative specifications "state = f(history, knowledge)" for the other
    replicated types.  All computable. *)
From Crdt Require Import model.Simple model.MVReg model.List model.Merkle spec.System spec.OrswotSpec.
Local Open Scope N_scope.

(** * MVReg: the causally maximal writes *)
Definition mv_writes (os : list mvop) : list (gmap N N * N) :=
  remove_dups ((λ o, match o with MVPut c v => (c, v) end) <$> os).
Definition mv_maximal (ws : list (gmap N N * N)) : list (gmap N N * N) :=
  List.filter (λ p, negb (vis_empty p.1) && forallb (λ q, negb (vlt p.1 q.1)) ws) ws.
Definition mvspec (H : list (oprec mvop)) (K : gset nat) : list (gmap N N * N) :=
  mv_maximal (mv_writes (known_ops H K)).

(** * counters, GSet, registers: joins of the applied ops *)
Definition gcspec (H : list (oprec dot)) (K : gset nat) : vclock := dots_clock (known_ops H K).
Definition pnspec (H : list (oprec pnop)) (K : gset nat) : pncounter :=
  let os := known_ops H K in
  PN (dots_clock (omap (λ o, match pn_dir o with DPos => Some (pn_dot o) | DNeg => None end) os))
     (dots_clock (omap (λ o, match pn_dir o with DNeg => Some (pn_dot o) | DPos => None end) os)).
Definition gsspec (H : list (oprec N)) (K : gset nat) : gset N := list_to_set (known_ops H K).
Definition maxspec (init : N) (H : list (oprec N)) (K : gset nat) : N := foldl N.max init (known_ops H K).
Definition minspec (init : N) (H : list (oprec N)) (K : gset nat) : N := foldl N.min init (known_ops H K).
(** LWW: the applied (value, marker) pair with the greatest marker, the
    initial pair included *)
Definition lwwspec (init : lww) (H : list (oprec lww)) (K : gset nat) : lww :=
  foldl (λ acc o, if lww_marker acc <? lww_marker o then o else acc) init (known_ops H K).

(** * GList: the set of inserted identifiers, sorted *)
Definition glspec (H : list (oprec (list (Qc * N)))) (K : gset nat) : list (list (Qc * N)) :=
  foldl gl_apply [] (known_ops H K).

(** * List: inserted and not deleted, in identifier order *)
Definition lspec (H : list (oprec lop)) (K : gset nat) : clist :=
  let os := known_ops H K in
  let deleted := omap (λ o, match o with LDelete id _ => Some id | _ => None end) os in
  let ins := omap (λ o, match o with
                        | LInsert id v => if bool_decide (id ∈ deleted) then None else Some (id, v)
                        | _ => None end) os in
  CList (foldl (λ acc p, idmap_insert odcmp p.1 p.2 acc) [] ins)
        (dots_clock (omap lop_dot os)).
