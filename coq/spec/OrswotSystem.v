(** The Orswot as an instance of the replicated-system framework: API
    commands, op generation, structural well-formedness of histories and
    validity of knowledge sets.  Definitions only. *)
From Crdt Require Import model.Orswot spec.System spec.OrswotSpec.
Local Open Scope N_scope.

(** What the application may ask for.  Remove contexts come from a read of
    the replica: [read()]/[read_ctx()] (the whole clock, [None]) or
    [contains(m')] (that member's witnesses, [Some m']). *)
Inductive ocmd :=
| CAdd (ms : list N)                      (* add / add_all, context from any read *)
| CRm (ms : list N) (src : option N).     (* rm / rm_all with a context derived from a read *)

Definition ogen (s : orswot) (a : N) (c : ocmd) : option oop :=
  match c with
  | CAdd ms => Some (OAdd (ac_dot (derive_add_ctx (oread_ctx s) a)) ms)
  | CRm ms None => Some (ORm (derive_rm_ctx (oread_ctx s)) ms)
  | CRm ms (Some m') => Some (ORm (derive_rm_ctx (ocontains s m')) ms)
  end.

Definition is_add_by (a : N) (r : oprec oop) : bool :=
  match op_val r with OAdd _ _ => bool_decide (op_author r = a) | _ => false end.

(** Structural well-formedness: the k-th add of an actor carries the dot
    (actor, k); remove contexts store no zero. *)
Definition owfH (H : list (oprec oop)) : Prop :=
  ∀ i r, H !! i = Some r →
    match op_val r with
    | OAdd d _ => dactor d = op_author r ∧
                  dcounter d = N.of_nat (length (List.filter (is_add_by (op_author r)) (take i H))) + 1
    | ORm c _ => vwf c
    end.

(** A knowledge set: within the history and closed under each author's
    earlier ops. *)
Definition ovalid (H : list (oprec oop)) (K : gset nat) : Prop :=
  (∀ i, i ∈ K → is_Some (H !! i)) ∧
  (∀ i j ri rj, i ∈ K → (j < i)%nat → H !! i = Some ri → H !! j = Some rj →
                op_author rj = op_author ri → j ∈ K).
