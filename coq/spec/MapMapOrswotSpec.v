(** Value-level specification of [Map<K1, Map<K2, Orswot<M>>>] (nesting depth 2) for op-based
    replication under causal delivery.  Definitions only.

    An outer update of key [k1] carrying an inner update of key [k2] with dot [d] is a witness
    [d] of the inner key [(k1, k2)]; if the inner update carries a nested add [OAdd d ms] it is
    also a witness of every member [(k1, k2, m)], [m ∈ ms].  A witness of [(k1, k2)] is covered
    by an applied OUTER key remove naming [k1] and by an applied INNER key remove (an outer update
    of [k1] carrying [MRm c ks], [k2 ∈ ks]); a witness of a member is covered in addition by an
    applied nested member remove under [(k1, k2)] naming the member.  An inner key is present
    (with the clock of its surviving witnesses) iff a witness survives; a member is present iff
    one of its witnesses survives.  This is property C05 "at every nesting depth", depth 2. *)
From stdpp Require Import gmap.
From Crdt Require Import model.VClock model.Orswot model.Map spec.System spec.OrswotSpec
  spec.OrswotSystem spec.MapSpec spec.MapSystem spec.MapOrswotSpec.
Local Open Scope N_scope.

Definition le_dot (d : dot) (c : vclock) : bool := dcounter d <=? vget c (dactor d).

(** witness [d] of the inner key [(k1, k2)] is covered by an applied outer remove of [k1] or an
    applied inner remove of [k2] under [k1] *)
Definition m2_key_covered (os : list (mop (mop oop))) (k1 k2 : N) (d : dot) : bool :=
  existsb (λ o, match o with
                | MRm c ks => bool_decide (k1 ∈ ks) && le_dot d c
                | MUp _ k (MRm c ks) => bool_decide (k = k1) && bool_decide (k2 ∈ ks) && le_dot d c
                | MUp _ _ (MUp _ _ _) => false
                end) os.

(** surviving witnesses of the inner key [(k1, k2)] *)
Definition m2_inner_live (os : list (mop (mop oop))) (k1 k2 : N) : list dot :=
  omap (λ o, match o with
             | MUp _ k (MUp d k' _) =>
                 if bool_decide (k = k1) && bool_decide (k' = k2) && negb (m2_key_covered os k1 k2 d)
                 then Some d else None
             | _ => None
             end) os.

Definition m2_inner_keys_mentioned (os : list (mop (mop oop))) (k1 : N) : list N :=
  omap (λ o, match o with
             | MUp _ k (MUp _ k' _) => if bool_decide (k = k1) then Some k' else None
             | _ => None
             end) os.

(** the inner key table (inner key -> entry clock) the map stored under [k1] must hold *)
Definition m2_inner_clocks (os : list (mop (mop oop))) (k1 : N) : gmap N (gmap N N) :=
  fn_map (list_to_set (m2_inner_keys_mentioned os k1))
         (λ k2, let c := dots_clock (m2_inner_live os k1 k2) in if vis_empty c then None else Some c).

(** witness [d] of member [m] under [(k1, k2)] is covered *)
Definition m2_member_covered (os : list (mop (mop oop))) (k1 k2 m : N) (d : dot) : bool :=
  m2_key_covered os k1 k2 d ||
  existsb (λ o, match o with
                | MUp _ k (MUp _ k' (ORm c ms)) =>
                    bool_decide (k = k1) && bool_decide (k' = k2) && bool_decide (m ∈ ms) && le_dot d c
                | _ => false
                end) os.

Definition m2_live_dots (os : list (mop (mop oop))) (k1 k2 m : N) : list dot :=
  omap (λ o, match o with
             | MUp _ k (MUp _ k' (OAdd d ms)) =>
                 if bool_decide (k = k1) && bool_decide (k' = k2) && bool_decide (m ∈ ms)
                    && negb (m2_member_covered os k1 k2 m d)
                 then Some d else None
             | _ => None
             end) os.

Definition m2_members_mentioned (os : list (mop (mop oop))) (k1 k2 : N) : list N :=
  concat (omap (λ o, match o with
                     | MUp _ k (MUp _ k' (OAdd _ ms)) =>
                         if bool_decide (k = k1) && bool_decide (k' = k2) then Some ms else None
                     | _ => None
                     end) os).

(** the member table the Orswot stored under [(k1, k2)] must hold *)
Definition m2_entries (os : list (mop (mop oop))) (k1 k2 : N) : gmap N (gmap N N) :=
  fn_map (list_to_set (m2_members_mentioned os k1 k2))
         (λ m, let c := dots_clock (m2_live_dots os k1 k2 m) in if vis_empty c then None else Some c).

(** the views of a state *)
Definition m2_state_inner_clocks (s : cmap (cmap orswot)) (k1 : N) : gmap N (gmap N N) :=
  match mentries s !! k1 with Some e => eclock <$> mentries (eval e) | None => ∅ end.
Definition m2_state_entries (s : cmap (cmap orswot)) (k1 k2 : N) : gmap N (gmap N N) :=
  match mentries s !! k1 with Some e => mo_state_entries (eval e) k2 | None => ∅ end.

(** decider evaluated by the monitor on the implementation's states *)
Definition m2valspec_ok (H : list (oprec (mop (mop oop)))) (K : gset nat) (s : cmap (cmap orswot)) : bool :=
  let os := known_ops H K in
  forallb (λ k1, bool_decide (m2_state_inner_clocks s k1 = m2_inner_clocks os k1)
                 && forallb (λ k2, bool_decide (m2_state_entries s k1 k2 = m2_entries os k1 k2))
                            (m2_inner_keys_mentioned os k1))
          (mkeys_mentioned os).

(** What the application may ask a [Map<K1, Map<K2, Orswot<M>>>] for.  Every inner edit is made
    through [outer.update(k1, ctx, |inner, c| …)]: the inner map is the one the closure receives
    (the empty map when [k1] is absent) and the add context [c] is handed on unchanged, as in
    [inner.update(k2, c, |set, c2| set.add(m, c2))].  Remove contexts come from reads of the value
    the closure receives: the innermost set's [read_ctx]/[contains m'], the inner map's
    [read_ctx]/[get k2']; outer key removes take the context of the outer [read_ctx]/[get k1']. *)
Inductive m2cmd :=
| M2Add (k1 k2 : N) (ms : list N)
| M2Rm (k1 k2 : N) (ms : list N) (src : option N)
| M2InnerKeyRm (k1 : N) (ks : gset N) (src : option N)
| M2KeyRm (ks : gset N) (src : option N).

Definition m2_cmd (c : m2cmd) : mcmd (cmap orswot) (mop oop) :=
  match c with
  | M2Add k1 k2 ms =>
      MCUp k1 (λ inner ctx, mupdate orswot_valops inner k2 ctx (λ _ c2, oadd_all ms c2))
  | M2Rm k1 k2 ms None =>
      MCUp k1 (λ inner ctx, mupdate orswot_valops inner k2 ctx
                              (λ v _, orm_all ms (derive_rm_ctx (oread_ctx v))))
  | M2Rm k1 k2 ms (Some m') =>
      MCUp k1 (λ inner ctx, mupdate orswot_valops inner k2 ctx
                              (λ v _, orm_all ms (derive_rm_ctx (ocontains v m'))))
  | M2InnerKeyRm k1 ks None => MCUp k1 (λ inner _, MRm (derive_rm_ctx (mread_ctx inner)) ks)
  | M2InnerKeyRm k1 ks (Some k') => MCUp k1 (λ inner _, MRm (derive_rm_ctx (mget inner k')) ks)
  | M2KeyRm ks src => MCRm ks src
  end.

Notation vo2 := (map_valops orswot_valops) (only parsing).
Definition m2gen (s : cmap (cmap orswot)) (a : N) (c : m2cmd) : option (mop (mop oop)) :=
  mgen (map_valops orswot_valops) s a (m2_cmd c).

(** op-based replication under causal delivery (duplicates allowed), no state merges *)
Notation m2reach := (reach mnew (mapply (map_valops orswot_valops)) (mmerge (map_valops orswot_valops)) adm_causal False).
Notation m2hist_ok := (hist_ok mnew (mapply (map_valops orswot_valops)) (mmerge (map_valops orswot_valops)) m2gen adm_causal False).
