(** [Map] as an instance of the replicated-system framework, and its key-level
    abstraction to an [Orswot].  Definitions only.

    [kabs] forgets the nested values of a map state; what is left (map clock,
    key set with the entry clocks, pending-remove table) is an [Orswot] state.
    [oabs] forgets the nested op of an update: an update of key [k] with dot [d]
    is an add of [k] with witness [d]; a key-set remove is a remove. *)
From stdpp Require Import gmap.
From Crdt Require Import model.Orswot model.Map spec.System spec.OrswotSpec spec.OrswotSystem.
Local Open Scope N_scope.

Definition kabs {V} (s : cmap V) : orswot :=
  Orswot (mclock s) (eclock <$> mentries s) (mdeferred s).
Definition oabs {O} (o : mop O) : oop :=
  match o with MUp d k _ => OAdd d [k] | MRm c ks => ORm c (elements ks) end.

(** a history seen through an abstraction of its ops: authors, dependencies
    and indices are kept *)
Definition hmap {Op Op'} (aop : Op → Op') (H : list (oprec Op)) : list (oprec Op') :=
  (λ r, OpRec (op_author r) (aop (op_val r)) (op_deps r)) <$> H.
Definition habs {O} (H : list (oprec (mop O))) : list (oprec oop) := hmap oabs H.

(** What the application may ask a [Map] for.  [Map::update(k, ctx, f)] with
    the add context derived from any read for the replica's actor; [Map::rm]
    (generalised to a key set, as [apply_keyset_rm] takes one) with the context
    of [read_ctx]/[len]/[is_empty] ([None]) or of [get(k')] ([Some k']). *)
Inductive mcmd (V O : Type) :=
| MCUp (k : N) (f : V → addctx → O)
| MCRm (ks : gset N) (src : option N).
Global Arguments MCUp {_ _} _ _.
Global Arguments MCRm {_ _} _ _.

Definition mgen {V O E} (vo : valops V O E) (s : cmap V) (a : N) (c : mcmd V O) : option (mop O) :=
  match c with
  | MCUp k f => Some (mupdate vo s k (derive_add_ctx (mread_ctx s) a) f)
  | MCRm ks None => Some (MRm (derive_rm_ctx (mread_ctx s)) ks)
  | MCRm ks (Some k') => Some (MRm (derive_rm_ctx (mget s k')) ks)
  end.

(** the [Orswot] command a [Map] command is at key level *)
Definition cabs {V O} (c : mcmd V O) : ocmd :=
  match c with
  | MCUp k _ => CAdd [k]
  | MCRm ks src => CRm (elements ks) src
  end.
