(** Value-level specification of [Map<K, Orswot<M>>] (the VALUE half of property C05
    for an Orswot leaf), for op-based replication under causal delivery.  Definitions only.

    An update of key [k] carrying a nested add [OAdd d ms] is a witness [d] of every pair
    [(k, m)], [m ∈ ms].  The witness is covered
      - by an applied key remove [MRm c ks] with [k ∈ ks] and [d ≤ c], and
      - by an applied update of the same key carrying a nested remove [ORm c ms'] with
        [m ∈ ms'] and [d ≤ c].
    Member [m] is in the set stored under key [k] iff one of the applied witnesses of
    [(k, m)] is covered by nothing applied; the remove context handed out for it is the
    join of its surviving witnesses.  This is the literal sentence of C05: "the value under
    a key reflects exactly the nested updates that survive; after a key remove everything
    the remover had seen under that key is gone, updates it had not seen remain". *)
From stdpp Require Import gmap.
From Crdt Require Import model.VClock model.Orswot model.Map spec.System spec.OrswotSpec
  spec.OrswotSystem spec.MapSpec spec.MapSystem.
Local Open Scope N_scope.

(** witness [d] of member [m] under key [k] is covered by an applied key remove naming
    [k], or by an applied nested remove under [k] naming [m] *)
Definition mo_covered (os : list (mop oop)) (k m : N) (d : dot) : bool :=
  existsb (λ o, match o with
                | MRm c ks => bool_decide (k ∈ ks) && (dcounter d <=? vget c (dactor d))
                | MUp _ k' (ORm c ms) =>
                    bool_decide (k' = k) && bool_decide (m ∈ ms) && (dcounter d <=? vget c (dactor d))
                | MUp _ _ (OAdd _ _) => false
                end) os.

(** the surviving add witnesses of member [m] under key [k] *)
Definition mo_live_dots (os : list (mop oop)) (k m : N) : list dot :=
  omap (λ o, match o with
             | MUp _ k' (OAdd d ms) =>
                 if bool_decide (k' = k) && bool_decide (m ∈ ms) && negb (mo_covered os k m d)
                 then Some d else None
             | _ => None
             end) os.

(** members ever added under key [k] *)
Definition mo_members_mentioned (os : list (mop oop)) (k : N) : list N :=
  concat (omap (λ o, match o with
                     | MUp _ k' (OAdd _ ms) => if bool_decide (k' = k) then Some ms else None
                     | _ => None
                     end) os).

(** the witness clock of member [m] under key [k]: per-actor greatest surviving add dot *)
Definition mo_entry (os : list (mop oop)) (k m : N) : vclock := dots_clock (mo_live_dots os k m).

(** the member table the nested Orswot under key [k] must hold *)
Definition mo_entries (os : list (mop oop)) (k : N) : gmap N (gmap N N) :=
  fn_map (list_to_set (mo_members_mentioned os k))
         (λ m, let c := mo_entry os k m in if vis_empty c then None else Some c).

(** the member table a state holds under key [k] (empty when the key is absent) *)
Definition mo_state_entries (s : cmap orswot) (k : N) : gmap N (gmap N N) :=
  match mentries s !! k with Some e => oentries (eval e) | None => ∅ end.

(** decider evaluated by the monitor on the implementation's states: the member table of
    every key ever updated equals the specification of the replica's knowledge *)
Definition movalspec_ok (H : list (oprec (mop oop))) (K : gset nat) (s : cmap orswot) : bool :=
  let os := known_ops H K in
  forallb (λ k, bool_decide (mo_state_entries s k = mo_entries os k)) (mkeys_mentioned os)
  && bool_decide (dom (mentries s) ⊆ list_to_set (mkeys_mentioned os)).

(** What the application may ask a [Map<K, Orswot<M>>] for: add members under a key
    (the nested add takes the add context the map hands to the closure); remove members
    under a key, with the remove context of the nested value's [read()]/[read_ctx()]
    ([None]) or of its [contains(m')] ([Some m']) — the nested value is the one the closure
    receives (the default when the key is absent); remove keys with the context of
    [read_ctx]/[len]/[is_empty] ([None]) or of [get(k')] ([Some k']). *)
Inductive mocmd :=
| MOAdd (k : N) (ms : list N)
| MORm (k : N) (ms : list N) (src : option N)
| MOKeyRm (ks : gset N) (src : option N).

Definition mo_cmd (c : mocmd) : mcmd orswot oop :=
  match c with
  | MOAdd k ms => MCUp k (λ _ ctx, oadd_all ms ctx)
  | MORm k ms None => MCUp k (λ v _, orm_all ms (derive_rm_ctx (oread_ctx v)))
  | MORm k ms (Some m') => MCUp k (λ v _, orm_all ms (derive_rm_ctx (ocontains v m')))
  | MOKeyRm ks src => MCRm ks src
  end.

Definition mogen (s : cmap orswot) (a : N) (c : mocmd) : option (mop oop) :=
  mgen orswot_valops s a (mo_cmd c).

(** op-based replication under causal delivery (duplicates allowed), no state merges *)
Notation moreach := (reach mnew (mapply orswot_valops) (mmerge orswot_valops) adm_causal False).
Notation mohist_ok := (hist_ok mnew (mapply orswot_valops) (mmerge orswot_valops) mogen adm_causal False).

(** * Per-actor delivery (C08) for the fragment without nested removes.

    Known finding T3 shows that an update carrying a NESTED remove breaks the value layer once
    deliveries overtake (a key remove can drop an entry together with a parked nested remove).
    Without nested removes — members are added under keys, keys are removed — delivery only has
    to respect each actor's own issue order: the commands below exclude [MORm]; the specification
    [mo_entries] is the same (a witness is covered by every APPLIED key remove naming its key,
    whether that remove is still pending at key level or not). *)
Definition mo_addonly (c : mocmd) : bool := match c with MORm _ _ _ => false | _ => true end.
Definition mogen_ao (s : cmap orswot) (a : N) (c : mocmd) : option (mop oop) :=
  if mo_addonly c then mogen s a c else None.
Notation moreach_pa := (reach mnew (mapply orswot_valops) (mmerge orswot_valops) adm_per_actor False).
Notation mohist_ok_pa := (hist_ok mnew (mapply orswot_valops) (mmerge orswot_valops) mogen_ao adm_per_actor False).

(** * Maps whose keys are never removed (commands [MOAdd] and [MORm] only): per-actor delivery AND
    state merges.

    Findings T2 and T3 both need a key remove.  Without key removes a [Map<K, Orswot<M>>] is a family
    of independent Orswots, one per key, that share the map clock as the source of their dots: the
    value under key [k] is the Orswot specification of the nested ops addressed to [k]
    ([mo_proj]), its entry clock the join of the dots of the updates of [k].  The COMPLETE state is
    then a function of the knowledge ([mapor_spec_nk]), so the replicated-system framework applies
    with [mergeable := True]: convergence, the merge laws, hybrid replication, absorption. *)
Definition mo_nokrm (c : mocmd) : bool := match c with MOKeyRm _ _ => false | _ => true end.
Definition mogen_nk (s : cmap orswot) (a : N) (c : mocmd) : option (mop oop) :=
  if mo_nokrm c then mogen s a c else None.

(** the nested ops addressed to key [k] *)
Definition mo_proj (os : list (mop oop)) (k : N) : list oop :=
  omap (λ o, match o with MUp _ k' o' => if bool_decide (k' = k) then Some o' else None | MRm _ _ => None end) os.

Definition mapor_spec_nk_of (os : list (mop oop)) : cmap orswot :=
  CMap (mspec_clock os)
       (fn_map (list_to_set (mkeys_mentioned os))
               (λ k, Some (MEntry (mspec_entry_clock os k) (ospec_of (mo_proj os k)))))
       ∅.
Definition mapor_spec_nk (H : list (oprec (mop oop))) (K : gset nat) : cmap orswot :=
  mapor_spec_nk_of (known_ops H K).

(** decider for the monitor *)
Definition mapor_nk_ok (H : list (oprec (mop oop))) (K : gset nat) (s : cmap orswot) : bool :=
  bool_decide (s = mapor_spec_nk H K).

Notation moreach_nk := (reach mnew (mapply orswot_valops) (mmerge orswot_valops) adm_per_actor True).
Notation mohist_ok_nk := (hist_ok mnew (mapply orswot_valops) (mmerge orswot_valops) mogen_nk adm_per_actor True).
