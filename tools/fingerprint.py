#!/usr/bin/env python3
"""tools/fingerprint.py [--write]: SHA-256 of every /repo/src/*.rs the hand-written model was written against.
--write records them in coq/model/SOURCE.json (do this only after the model / proofs were brought up to date
with the source); without it, prints the files whose current text differs from the record."""
import hashlib, json, os, subprocess, sys
ROOT = os.path.dirname(os.path.dirname(os.path.abspath(__file__)))
REPO = os.environ.get("VERIF_REPO", "/repo")
REC = os.path.join(ROOT, "coq", "model", "SOURCE.json")


def current():
    d = os.path.join(REPO, "src")
    return {"src/" + f: hashlib.sha256(open(os.path.join(d, f), "rb").read()).hexdigest()
            for f in sorted(os.listdir(d)) if f.endswith(".rs")}


if __name__ == "__main__":
    cur = current()
    if "--write" in sys.argv:
        commit = subprocess.run(["git", "-C", REPO, "rev-parse", "HEAD"], capture_output=True, text=True).stdout.strip()
        dirty = subprocess.run(["git", "-C", REPO, "status", "--porcelain", "--", "src"], capture_output=True, text=True).stdout.strip()
        if dirty:
            raise SystemExit("refusing to record a dirty tree:\n" + dirty)
        json.dump({"commit": commit, "files": cur}, open(REC, "w"), indent=1)
        print("recorded", len(cur), "files at", commit)
    else:
        rec = json.load(open(REC))["files"]
        for f in sorted(set(cur) | set(rec)):
            if cur.get(f) != rec.get(f):
                print(f)
