#!/usr/bin/env python3
"""tools/seeded_keep.py <prop> <worktree> <patch-name> <demo-file-name> <change> <needs> [round]
stores a confirmed breaking change as seeded/<prop>-<n>/ (patch.diff, the demo, meta.json)"""
import json, os, shutil, sys
ROOT = os.path.dirname(os.path.dirname(os.path.abspath(__file__)))
prop, wt, patch, demo, change, needs = sys.argv[1:7]
rnd = sys.argv[7] if len(sys.argv) > 7 else "5"
n = 1
while os.path.exists(os.path.join(ROOT, "seeded", "%s-%d" % (prop, n))):
    n += 1
d = os.path.join(ROOT, "seeded", "%s-%d" % (prop, n))
os.makedirs(d)
shutil.copyfile(os.path.join(wt, patch), os.path.join(d, "patch.diff"))
shutil.copyfile(os.path.join(wt, "test", demo), os.path.join(d, demo))
mod = demo[:-3]
json.dump({
    "id": "%s-%d" % (prop, n), "breaks_property": prop, "change": change, "needs_to_manifest": needs,
    "demo": demo, "demo_registration": "add `mod %s;` to test/test.rs" % mod,
    "confirmed": "tools/seeded_try.sh in a scratch worktree: demo red with the patch, existing suite green (34+98+25 tests, "
                 "prop_op_reordering_converges skipped as in the baseline), demo green without the patch",
    "origin": "independent sub-agent (round %s) given only the property text and a scratch worktree, asked for less obvious sites" % rnd,
}, open(os.path.join(d, "meta.json"), "w"), indent=1)
print(d)
