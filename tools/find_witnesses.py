#!/usr/bin/env python3
"""Search for minimal witness scripts of the known findings, one per (finding, property).
usage: tools/find_witnesses.py <type> <finding> <seed-from> <seed-to> [cases]
Writes replays/corpus/known-<type>-<finding>-<prop>.txt for every pair found whose history
lies in that class only."""
import os, re, subprocess, sys
ROOT = os.path.dirname(os.path.dirname(os.path.abspath(__file__)))
H = os.path.join(ROOT, "harness/target/release/verif-harness")
D = os.path.join(ROOT, "ocaml/driver")
ENV = dict(os.environ, VERIF_KNOWN_ALL="1")

def run(script_text):
    p = "/tmp/fw_%d.txt" % os.getpid()
    open(p, "w").write(script_text)
    t = subprocess.run([H, "run", p], stdout=subprocess.PIPE, text=True).stdout
    return subprocess.run([D], input=t, stdout=subprocess.PIPE, text=True, env=ENV).stdout

def cases_of(script_text):
    out, cur = {}, []
    for ln in script_text.splitlines(True):
        if ln.startswith("case "):
            cur = [ln]; cid = ln.split()[1]
        else:
            cur.append(ln)
            if ln.strip() == "end":
                out[cid] = cur
    return out

def hits(out, finding, prop=None):
    res = []
    for ln in out.splitlines():
        m = re.match(r"KNOWN prop=(\S+) finding=(\S+) case=(\S+) cmd=(\S+) what=\[classes=([^\]]*)\]", ln)
        if m and (m.group(5) == finding or (finding.startswith('K') and m.group(2) == finding)) and (prop is None or m.group(1) == prop):
            res.append((m.group(1), m.group(3).split(":")[0]))
    return res

def shrink(lines, pred):
    head, body, tail = lines[0], lines[1:-1], lines[-1]
    n = 2
    while len(body) >= 2:
        chunk = max(1, len(body) // n); removed = False
        for i in range(0, len(body), chunk):
            cand = body[:i] + body[i + chunk:]
            if cand and pred("".join([head] + cand + [tail])):
                body = cand; n = max(n - 1, 2); removed = True; break
        if not removed:
            if chunk == 1: break
            n = min(len(body), n * 2)
    return [head] + body + [tail]

def main():
    ty, finding, s0, s1 = sys.argv[1], sys.argv[2], int(sys.argv[3]), int(sys.argv[4])
    ncases = sys.argv[5] if len(sys.argv) > 5 else "4000"
    found = set()
    for f in os.listdir(os.path.join(ROOT, "replays/corpus")):
        m = re.match(r"known-(\w+)-(\w+)-(\w+)\.txt", f)
        if m and m.group(2) == finding: found.add(m.group(3))
    for seed in range(s0, s1):
        script = subprocess.run([H, "gen", ty, str(seed), ncases, "16", "structured"], stdout=subprocess.PIPE, text=True).stdout
        out = run(script)
        cs = cases_of(script)
        for prop, cid in hits(out, finding):
            if prop in found: continue
            lines = cs[cid]
            pred = lambda txt: bool(hits(run(txt), finding, prop))
            if not pred("".join(lines)): continue
            small = shrink(lines, pred)
            small[0] = "case known-%s-%s %s %s\n" % (finding, prop, ty, small[0].split()[3])
            path = os.path.join(ROOT, "replays/corpus", "known-%s-%s-%s.txt" % (ty, finding, prop))
            open(path, "w").write("".join(small))
            found.add(prop)
            print("found", finding, prop, "in", ty, "seed", seed, "len", len(small) - 2, flush=True)
    print("pairs for", finding, sorted(found))
main()
