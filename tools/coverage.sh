#!/bin/bash
# usage: tools/coverage.sh  — line coverage of /repo/src under the harness, over the scripts the last quick runs left
# in work/ (run the 20 quick checks first).  Builds an instrumented copy of the harness with the nightly toolchain
# (-C instrument-coverage) under /tmp/cov, merges the profiles with nightly's llvm-profdata and prints the report plus
# every uncovered line that is not Display/Debug/Arbitrary code.  Used to find generator gaps; not part of any check.
# (LLVM_PROFILE_FILE is set during the build too: instrumented build scripts / proc macros would otherwise drop
# default_*.profraw files into the crate directories, /repo included.)
set -e
ROOT=$(cd "$(dirname "$0")/.." && pwd)
B=$HOME/.rustup/toolchains/nightly-x86_64-unknown-linux-gnu/lib/rustlib/x86_64-unknown-linux-gnu/bin
rm -rf /tmp/cov && mkdir -p /tmp/cov/prof && cp -r "$ROOT/harness" /tmp/cov/harness && rm -rf /tmp/cov/harness/target
(cd /tmp/cov/harness && LLVM_PROFILE_FILE=/tmp/cov/build-%p.profraw CARGO_NET_OFFLINE=true RUSTFLAGS="-C instrument-coverage --cfg rust_crdt_rust_crdt_verif" cargo +nightly build --release --offline 2>&1 | tail -1)
ls "$ROOT"/work/script_*.txt | xargs -P 8 -I{} sh -c 'LLVM_PROFILE_FILE=/tmp/cov/prof/%p-%m.profraw /tmp/cov/harness/target/release/verif-harness run {} > /dev/null 2>&1'
$B/llvm-profdata merge -sparse /tmp/cov/prof/*.profraw -o /tmp/cov/all.profdata
$B/llvm-cov report /tmp/cov/harness/target/release/verif-harness -instr-profile=/tmp/cov/all.profdata --sources /repo/src | awk '{print $1, $8, $9, $10}'
$B/llvm-cov show /tmp/cov/harness/target/release/verif-harness -instr-profile=/tmp/cov/all.profdata --sources /repo/src --show-line-counts 2>/dev/null \
  | awk '/^\/repo\/src/{f=$0} /^ *[0-9]+\| *0\|/{print f" "$0}' | sed 's/\/repo\/src\///' | grep -v "fmt\|write!\|rbitrary\|shrink\|Display\|Debug" | cut -c1-140
rm -rf /tmp/cov
