#!/usr/bin/env python3
"""Regenerates the table of DESIGN.md section 8 from seeded/*/meta.json and a log of
tools/seeded_all.sh (lines "<id> <prop> seed=<n> rc=<rc> VIOLATION ...").
usage: tools/seeded_table.py <seeded_all.log>"""
import json, os, re, sys
ROOT = os.path.dirname(os.path.dirname(os.path.abspath(__file__)))
res = {}
for ln in open(sys.argv[1]):
    m = re.match(r"(C\d\d-\d+) (C\d\d) seed=(\d+) rc=(\d+)(.*)", ln)
    if m:
        sid, prop, seed, rc, rest = m.groups()
        kind = "missed" if rc == "0" else ("detected, no failing input" if "no-failing-input-found" in rest else "failing input")
        res.setdefault(sid, []).append(kind)
rows = []
for sid in sorted(os.listdir(os.path.join(ROOT, "seeded"))):
    meta = json.load(open(os.path.join(ROOT, "seeded", sid, "meta.json")))
    r = res.get(sid, [])
    if not r:
        verdict = "not evaluated in this log"
    elif all(x == "failing input" for x in r):
        verdict = "failing input (%d/%d seeds)" % (len(r), len(r))
    else:
        verdict = "; ".join("%s ×%d" % (k, r.count(k)) for k in ("failing input", "detected, no failing input", "missed") if k in r)
    change = meta["change"].replace("|", "/")
    rows.append("| %s | %s | %s |" % (sid, change[:230], verdict))
table = "| id (target property) | change | `./check <property> --tier quick` |\n|---|---|---|\n" + "\n".join(rows) + "\n"
p = os.path.join(ROOT, "DESIGN.md")
s = open(p).read()
a, b = "<!-- seeded-table-begin -->\n", "<!-- seeded-table-end -->\n"
i, j = s.index(a) + len(a), s.index(b)
open(p, "w").write(s[:i] + table + s[j:])
print(len(rows), "rows")
