#!/bin/bash
# evaluates every seeded change against its target property (quick tier, two seeds)
# honours VERIF_REPO (the repository copy the patches are applied to)
cd "$(dirname "$0")/.."
REPO=${VERIF_REPO:-/repo}
./check --setup > /dev/null 2>&1 || { echo "setup failed"; exit 2; }
for d in seeded/*/; do
  id=$(basename $d); prop=$(python3 -c "import json;print(json.load(open('$d/meta.json'))['breaks_property'])")
  (cd $REPO && git checkout -q -- src && git apply $OLDPWD/$d/patch.diff) || { echo "$id patch does not apply"; continue; }
  for s in 1 7; do
    out=$(VERIF_SEED=$s ./check $prop --tier quick 2>&1); rc=$?
    echo "$id $prop seed=$s rc=$rc $(echo "$out" | grep -E '^VIOLATION' | head -1 | sed 's/replay=[^ ]*//')"
  done
  (cd $REPO && git checkout -q -- src)
done
