#!/bin/bash
# usage: tools/seeded_try.sh <worktree> <patch-file> <demo-filter> <prop> [<evaldir>]
# 1. confirms a candidate change (demo red with it, suite green with it, demo green without it)
# 2. runs ./check <prop> --tier quick (seeds 1 and 7) of <evaldir> (default: this checkout) with
#    VERIF_REPO=<worktree> while the patch is applied there; restores the worktree's src afterwards.
set -u
wt="$1"; patch="$2"; demo="$3"; prop="$4"; ev="${5:-$(cd "$(dirname "$0")/.." && pwd)}"
conf=$("$(dirname "$0")/seeded_confirm.sh" "$wt" "$patch" "$demo" 2>&1)
echo "$conf"
# one-line verdict of the confirmation: demo red with, suite green with, demo green without
red=$(echo "$conf" | sed -n '/demo WITH patch/,/suite WITH patch/p' | grep -c "^test result: FAILED")
green=$(echo "$conf" | sed -n '/suite WITH patch/,/demo WITHOUT patch/p' | grep -c "^test result: ok")
bad=$(echo "$conf" | sed -n '/suite WITH patch/,/demo WITHOUT patch/p' | grep -c "FAILED\|panicked")
wo=$(echo "$conf" | sed -n '/demo WITHOUT patch/,$p' | grep -c "^test result: ok")
wobad=$(echo "$conf" | sed -n '/demo WITHOUT patch/,$p' | grep -c "FAILED")
if [ "$red" -ge 1 ] && [ "$green" -ge 3 ] && [ "$bad" -eq 0 ] && [ "$wo" -ge 1 ] && [ "$wobad" -eq 0 ]; then echo "CONFIRM ok"; else echo "CONFIRM NOT-OK red=$red green=$green bad=$bad wo=$wo wobad=$wobad"; fi
cd "$wt" && git checkout -q -- src && git apply "$patch" || { echo "patch does not apply"; exit 2; }
cd "$ev"
for s in 1 7; do
  out=$(VERIF_REPO="$wt" VERIF_SEED=$s ./check "$prop" --tier quick 2>&1); rc=$?
  echo "$prop seed=$s rc=$rc $(echo "$out" | grep -E '^VIOLATION' | head -1)"
done
cd "$wt" && git checkout -q -- src
