#!/bin/bash
# usage: tools/seeded_par.sh <workers> <out-log> [ids...]
# evaluates seeded changes (all, or the given ids) against their target property (quick tier, seeds 1 and 7)
# in <workers> parallel scratch copies of this checkout (cp -a) and scratch worktrees of /repo under /tmp/sp_<i>;
# everything under /tmp/sp_* is removed at the end.
set -u
cd "$(dirname "$0")/.."
ROOT=$(pwd); W=$1; OUT=$2; shift 2
ids=("$@"); [ ${#ids[@]} -eq 0 ] && ids=($(ls seeded))
: > "$OUT"
for i in $(seq 0 $((W-1))); do
  (
    d=/tmp/sp_$i; rm -rf $d; mkdir -p $d
    cp -a "$ROOT" $d/verif; rm -f $d/verif/work/lock
    git -C /repo worktree add --detach $d/repo HEAD -q
    n=0
    for id in "${ids[@]}"; do
      if [ $((n % W)) -eq $i ]; then
        prop=$(python3 -c "import json;print(json.load(open('$ROOT/seeded/$id/meta.json'))['breaks_property'])")
        (cd $d/repo && git checkout -q -- src && git apply "$ROOT/seeded/$id/patch.diff") || { echo "$id patch does not apply" >> "$OUT"; n=$((n+1)); continue; }
        for s in 1 7; do
          out=$(cd $d/verif && VERIF_REPO=$d/repo VERIF_SEED=$s ./check $prop --tier quick 2>&1); rc=$?
          echo "$id $prop seed=$s rc=$rc $(echo "$out" | grep -E '^VIOLATION' | head -1 | sed 's/replay=[^ ]*//')" >> "$OUT"
        done
        (cd $d/repo && git checkout -q -- src)
      fi
      n=$((n+1))
    done
    git -C /repo worktree remove --force $d/repo; rm -rf $d
  ) &
done
wait
git -C /repo worktree prune
sort -o "$OUT" "$OUT"
echo "done: $(wc -l < "$OUT") lines in $OUT"
