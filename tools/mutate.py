#!/usr/bin/env python3
"""Systematic mutation sweep over /repo/src (classic operators), to find breaking changes the
existing test-suite lets through and ask whether our checks see them.

  tools/mutate.py gen                      -> work/mutants/<n>.json (file, line, old, new, op)
  tools/mutate.py survive <jobs> [files…]  -> runs the repo's suite on every mutant in <jobs> scratch
                                              worktrees under /tmp/mw_<i>; writes work/mutants/survivors.txt
  tools/mutate.py detect [ids…]            -> for every survivor: ./check of the properties mapped to its
                                              file (VERIF_REPO = a scratch worktree); writes work/mutants/detect.txt
Scratch worktrees are removed at the end of each phase."""
import json, os, re, subprocess, sys, shutil
from concurrent.futures import ThreadPoolExecutor
ROOT = os.path.dirname(os.path.dirname(os.path.abspath(__file__)))
REPO = "/repo"
OUT = os.path.join(ROOT, "work", "mutants")
FILES = ["vclock.rs", "dot.rs", "ctx.rs", "orswot.rs", "map.rs", "mvreg.rs", "lwwreg.rs", "gcounter.rs", "pncounter.rs",
         "gset.rs", "maxreg.rs", "minreg.rs", "glist.rs", "list.rs", "identifier.rs", "merkle_reg.rs"]
PROPS_OF = {
    "vclock.rs": ["C10", "C18", "C04", "C06"], "dot.rs": ["C10", "C11", "C04"], "ctx.rs": ["C07", "C04", "C05"],
    "orswot.rs": ["C04", "C02", "C03", "C08", "C09", "C07", "C16", "C17", "C18", "C20"],
    "map.rs": ["C05", "C01", "C02", "C03", "C08", "C09", "C07", "C16", "C17", "C18", "C20"],
    "mvreg.rs": ["C06", "C01", "C02", "C18", "C20", "C05"], "lwwreg.rs": ["C11", "C16", "C17", "C02"],
    "gcounter.rs": ["C11", "C02", "C18"], "pncounter.rs": ["C11", "C02", "C18"], "gset.rs": ["C11", "C02"],
    "maxreg.rs": ["C11", "C02"], "minreg.rs": ["C11", "C02"], "glist.rs": ["C13", "C12", "C14", "C02"],
    "list.rs": ["C12", "C13", "C16", "C01", "C09"], "identifier.rs": ["C14", "C13", "C12"],
    "merkle_reg.rs": ["C15", "C16", "C01", "C02", "C03"],
}
SUBS = [
    (r" <= ", " < ", "rel"), (r" < ", " <= ", "rel"), (r" >= ", " > ", "rel"), (r" > ", " >= ", "rel"),
    (r" == ", " != ", "rel"), (r" != ", " == ", "rel"), (r" && ", " || ", "logic"), (r" \|\| ", " && ", "logic"),
    (r" \+ 1", " + 2", "const"), (r" - 1", " - 0", "const"), (r" \+ ", " - ", "arith"),
    (r"Ordering::Less", "Ordering::Greater", "ord"), (r"Ordering::Greater", "Ordering::Less", "ord"),
    (r"None \| Some", "Some", "ord"),
    (r"\bcontinue;", "break;", "flow"), (r"\bbreak;", "continue;", "flow"), (r"\breturn;", "", "flow"),
    (r"\.min\(", ".max(", "minmax"), (r"\.max\(", ".min(", "minmax"), (r"cmp::max\(", "cmp::min(", "minmax"), (r"cmp::min\(", "cmp::max(", "minmax"),
    (r"\.first\(\)", ".last()", "ends"), (r"\.last\(\)", ".first()", "ends"), (r"next_back\(\)", "next()", "ends"),
    (r"\btrue\b", "false", "bool"), (r"\bfalse\b", "true", "bool"),
    (r"&self\.clock", "&other.clock", "swap"), (r"&other\.clock", "&self.clock", "swap"),
    (r"clone_without", "intersection", "api"), (r"\.is_empty\(\)", ".is_empty() == false", "neg"),
    (r"\.is_none\(\)", ".is_some()", "neg"), (r"\.is_some\(\)", ".is_none()", "neg"), (r"if !", "if ", "neg"),
    (r"\.all\(", ".any(", "quant"), (r"\.any\(", ".all(", "quant"),
]
DELETABLE = re.compile(r"^\s*(self\.apply_deferred\(\);|[a-z_\.]+\.reset_remove\(.*\);|self\.clock\.(apply|merge)\(.*\);|"
                       r"[a-z_\.]+\.merge\(.*\);|[a-z_\.]+\.apply\(.*\);|self\.[a-z_]+\.remove\(.*\);|[a-z_\.]+\.insert\(.*\);|"
                       r"[a-z_\.]+\.extend\(.*\);|[a-z_\.]+\.push\(.*\);)\s*$")


def gen():
    os.makedirs(OUT, exist_ok=True)
    for f in os.listdir(OUT):
        if f.endswith(".json"):
            os.remove(os.path.join(OUT, f))
    n = 0
    for fn in FILES:
        lines = open(os.path.join(REPO, "src", fn)).read().split("\n")
        end = len(lines)
        for i, l in enumerate(lines):
            if "#[cfg(test)]" in l or "impl<" in l and "Arbitrary" in l or "impl Arbitrary" in l:
                end = i
                break
        for i in range(end):
            l = lines[i]
            st = l.strip()
            if not st or st.startswith("//") or st.startswith("#[") or st.startswith("use ") or "assert" in st or st.startswith("///"):
                continue
            code = l.split("//")[0]
            for pat, rep, op in SUBS:
                for k, m in enumerate(re.finditer(pat, code)):
                    if op == "rel" and ("<" in pat or ">" in pat) and re.search(r"(impl|fn|struct|enum|type|where|->|::<)", code):
                        continue
                    if op == "arith" and re.search(r"(impl|fn |struct|enum|type |where|: [A-Z][A-Za-z]* \+|\+ [A-Z][a-z]+)", code):
                        continue
                    new = code[:m.start()] + rep + code[m.end():]
                    if new != code:
                        n += 1
                        json.dump(dict(id=n, file=fn, line=i + 1, old=l, new=new, op=op), open(os.path.join(OUT, "%04d.json" % n), "w"))
            if DELETABLE.match(code):
                n += 1
                json.dump(dict(id=n, file=fn, line=i + 1, old=l, new="", op="delete"), open(os.path.join(OUT, "%04d.json" % n), "w"))
    print(n, "mutants")


def sh(cmd, cwd=None, timeout=900, env=None):
    try:
        p = subprocess.run(cmd, shell=True, cwd=cwd, stdout=subprocess.PIPE, stderr=subprocess.STDOUT, text=True, timeout=timeout, env=env)
        return p.returncode, p.stdout
    except subprocess.TimeoutExpired:
        return 124, "timeout"


def apply_mut(wt, m):
    p = os.path.join(wt, "src", m["file"])
    lines = open(os.path.join(REPO, "src", m["file"])).read().split("\n")
    assert lines[m["line"] - 1] == m["old"]
    lines[m["line"] - 1] = m["new"]
    open(p, "w").write("\n".join(lines))


def restore(wt, m):
    shutil.copyfile(os.path.join(REPO, "src", m["file"]), os.path.join(wt, "src", m["file"]))


def worktree(i):
    wt = "/tmp/mw_%d" % i
    if not os.path.isdir(wt):
        sh("git -C %s worktree add --detach %s HEAD -q" % (REPO, wt))
    return wt


def cleanup(n):
    for i in range(n):
        sh("git -C %s worktree remove --force /tmp/mw_%d" % (REPO, i))
    sh("git -C %s worktree prune" % REPO)


def survive(jobs, files):
    muts = [json.load(open(os.path.join(OUT, f))) for f in sorted(os.listdir(OUT)) if f.endswith(".json")]
    if files:
        muts = [m for m in muts if m["file"] in files]
    env = dict(os.environ, CARGO_NET_OFFLINE="true")
    wts = [worktree(i) for i in range(jobs)]
    # warm the build caches
    with ThreadPoolExecutor(jobs) as ex:
        list(ex.map(lambda wt: sh("cargo test --offline --no-run", cwd=wt, timeout=1800, env=env), wts))
    res = {}
    import queue
    q = queue.Queue()
    for m in muts:
        q.put(m)

    def worker(wt):
        while True:
            try:
                m = q.get_nowait()
            except queue.Empty:
                return
            apply_mut(wt, m)
            rc, out = sh("cargo test --offline -- --skip prop_op_reordering_converges 2>&1 | grep -E '^test result|^error|FAILED|panicked' | head -8", cwd=wt, timeout=600, env=env)
            ok = out.count("test result: ok") >= 3 and "FAILED" not in out and "error" not in out
            res[m["id"]] = "survived" if ok else ("timeout" if rc == 124 else ("nocompile" if "error" in out and "test result" not in out else "killed"))
            restore(wt, m)
            print(m["id"], m["file"], m["line"], m["op"], res[m["id"]], flush=True)
    with ThreadPoolExecutor(jobs) as ex:
        list(ex.map(worker, wts))
    with open(os.path.join(OUT, "survivors.txt"), "a") as f:
        for k in sorted(res):
            if res[k] in ("survived", "timeout"):
                f.write("%d %s\n" % (k, res[k]))
    cleanup(jobs)
    print({v: list(res.values()).count(v) for v in set(res.values())})


def detect(ids):
    surv = [int(l.split()[0]) for l in open(os.path.join(OUT, "survivors.txt"))]
    if ids:
        surv = [s for s in surv if s in ids]
    wt = worktree(0)
    out_f = open(os.path.join(OUT, "detect.txt"), "a")
    for sid in sorted(set(surv)):
        m = json.load(open(os.path.join(OUT, "%04d.json" % sid)))
        apply_mut(wt, m)
        verdicts = []
        for p in PROPS_OF[m["file"]]:
            rc, out = sh("./check %s --tier quick" % p, cwd=ROOT, timeout=1500, env=dict(os.environ, VERIF_REPO=wt))
            v = [l for l in out.splitlines() if l.startswith("VIOLATION")]
            verdicts.append("%s:%s" % (p, "-" if rc == 0 else ("input" if v and "no-failing-input-found" not in v[0] else "noinput")))
            if rc != 0:
                break   # one detecting property is enough for the sweep
        restore(wt, m)
        line = "%d %s:%d [%s] %s | %s -> %s" % (sid, m["file"], m["line"], m["op"], " ".join(verdicts), m["old"].strip()[:70], m["new"].strip()[:70])
        print(line, flush=True)
        out_f.write(line + "\n")
        out_f.flush()
    cleanup(1)


if __name__ == "__main__":
    if sys.argv[1] == "gen":
        gen()
    elif sys.argv[1] == "survive":
        survive(int(sys.argv[2]), sys.argv[3:])
    elif sys.argv[1] == "detect":
        detect([int(x) for x in sys.argv[2:]])
