#!/bin/bash
# usage: tools/seeded_confirm.sh <worktree> <patch-file> <demo-test-filter>
# confirms: demo red with the patch, suite green with the patch, demo green without it.
set -u
wt="$1"; patch="$2"; demo="$3"
cd "$wt" || exit 2
git checkout -q -- src
git apply "$patch" || { echo "patch does not apply"; exit 2; }
export CARGO_NET_OFFLINE=true
echo "--- demo WITH patch (expect failures)"
cargo test --offline --test test "$demo" 2>&1 | grep -E "^test result|^test .*(FAILED|ok)$" | tail -6
echo "--- suite WITH patch (expect all ok)"
cargo test --offline -- --skip prop_op_reordering_converges --skip seeded_ 2>&1 | grep -E "^test result|FAILED|panicked" | head
git apply -R "$patch"
echo "--- demo WITHOUT patch (expect ok)"
cargo test --offline --test test "$demo" 2>&1 | grep -E "^test result|^test .*(FAILED|ok)$" | tail -6
git status --short -- src | head -3
