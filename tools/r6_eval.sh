#!/bin/bash
# usage: tools/r6_eval.sh <prop> [<worktree>]   — confirms and evaluates the candidate changes patch.diff / patch2.diff
# left by a sub-agent in <worktree> (default /tmp/r6_<prop>) against ./check <prop> --tier quick (seeds 1, 7)
# run from a scratch copy of this checkout; result lines go to /tmp/r6/result_<prop>.txt
set -u
cd "$(dirname "$0")/.."
ROOT=$(pwd); prop=$1; R=${ROUND:-r6}; wt=${2:-/tmp/${R}_$prop}; out=/tmp/$R/result_$prop.txt
: > "$out"
ev=/tmp/ev_${R}_$prop; rm -rf $ev; mkdir -p $ev; cp -a "$ROOT" $ev/verif; rm -f $ev/verif/work/lock
for n in 1 2; do
  if [ $n -eq 1 ]; then patch=patch.diff; demo="seeded_demo::"; else patch=patch2.diff; demo="seeded_demo2"; fi
  [ -f "$wt/$patch" ] || { echo "$prop/$n no $patch" >> "$out"; continue; }
  res=$("$ROOT/tools/seeded_try.sh" "$wt" "$wt/$patch" "$demo" "$prop" "$ev/verif" 2>&1)
  echo "$res" > /tmp/$R/log_${prop}_$n.txt
  echo "$prop/$n $(echo "$res" | grep -E '^CONFIRM' | head -1) | $(echo "$res" | grep -E "^$prop seed=" | tr '\n' ' ')" >> "$out"
done
rm -rf $ev
cat "$out"
