#!/bin/bash
# usage: tools/seeded_eval.sh <patch-file> <prop> [<prop> ...]
# applies the patch to /repo, runs ./check <prop> --tier quick for each property, restores /repo.
set -u
patch="$1"; shift
cd /repo || exit 2
if [ -n "$(git status --porcelain -- src)" ]; then echo "/repo not clean"; exit 2; fi
git apply "$patch" || { echo "patch does not apply"; exit 2; }
cd /verif
for p in "$@"; do
  out=$(./check "$p" --tier quick 2>&1); rc=$?
  echo "$p rc=$rc $(echo "$out" | grep -E '^VIOLATION' | head -2 | tr '\n' ' ')"
done
cd /repo && git checkout -- src && git status --porcelain -- src | head -3
