#!/bin/bash
# usage: tools/seeded_seeds.sh <patch> <prop> <seed>...   -> detection per seed
patch="$1"; prop="$2"; shift 2
cd /repo && git apply "$patch" || exit 2
cd /verif
for s in "$@"; do out=$(VERIF_SEED=$s ./check $prop --tier quick 2>&1); echo "$prop seed=$s rc=$? $(echo "$out" | grep -E '^VIOLATION' | head -1 | sed 's/replay=[^ ]*//')"; done
cd /repo && git checkout -- src
