#!/bin/bash
# false-alarm sweep on the unchanged tree: every property, several seeds
# usage: tools/seed_sweep.sh <seed-from> <seed-to>   (honours VERIF_REPO)
cd "$(dirname "$0")/.."
./check --setup > /dev/null 2>&1 || { echo "setup failed"; exit 2; }
for s in $(seq $1 $2); do
  for p in C01 C02 C03 C04 C05 C06 C07 C08 C09 C10 C11 C12 C13 C14 C15 C16 C17 C18 C19 C20; do
    out=$(VERIF_SEED=$s ./check $p --tier quick 2>&1); rc=$?
    if [ $rc -ne 0 ]; then echo "ALARM seed=$s $p rc=$rc"; echo "$out" | grep -E "VIOLATION" | head -3; cp replays/$p-$s-1.json /tmp/alarm_${p}_$s.json 2>/dev/null; fi
  done
  echo "seed $s done"
done
