"""Per-property configuration of ./check: which harness types are run, which calls
belong to the property's footprint (a model/implementation disagreement outside the
footprint is advisory only), case counts, and the trusted base / assumptions that
are written to the evidence file."""

ALLOWED_AXIOMS = set()  # no axiom is used by any property theorem

TB_COMMON = [
    "Coq 8.16.1 kernel (coqc); vm_compute in refutation witnesses and examples; no native_compute",
    "axioms: none (Print Assumptions = 'Closed under the global context' for every property theorem, audited on every run)",
    "hand-written Gallina model coq/model/*.v of the Rust modules; tied to /repo by the correspondence check only",
    "extraction: Coq Extraction with ExtrOcamlBasic only (no Extract Constant / Extract Inductive of our own); OCaml driver ocaml/driver.ml (parsing, printing, comparison)",
    "Rust harness harness/src (script generator, S-expression serializer over serde::Serialize, catch_unwind of panics)",
    "type parameters instantiated with u64; Ord/Eq/Hash of u64 trusted",
]
AS_COMMON = [
    "no u64 overflow of counters (model uses unbounded N)",
    "HashMap/BTreeMap/HashSet behave as finite maps/sets (iteration order abstracted)",
]

GEN = ["ctx.*"]
ALL_REPL = ["vclock", "gcounter", "pncounter", "gset", "maxreg", "minreg", "lww", "mvreg", "orswot",
            "mapmv", "mapor", "mapmm", "mapmo", "glist", "list", "merkle"]


API_GEN = ["ctx.*", "*.add", "*.add_all", "*.rm", "*.rm_all", "*.write", "*.update", "*.update.closure",
           "*.inc", "*.dec", "*.inc_many", "*.dec_many", "*.insert", "*.insert_after", "*.insert_before",
           "*.insert_index", "*.append", "*.delete_index"]
READS = ["*.read", "*.read_ctx", "*.contains", "*.iter", "*.get", "*.keys", "*.values", "*.len", "*.is_empty",
         "*.clock", "*.position", "*.num_nodes", "*.num_orphans", "*.node", "*.children", "*.parents"]


def P(types, footprint, quick=1000, thorough=20000, streams=("structured", "malformed"), all_inputs=False, extra_tb=(), extra_as=(), undischarged=(), exact=()):
    return dict(types=list(types), streams=list(streams), all_inputs=all_inputs, footprint=list(footprint), exact=list(exact),
                quick_cases=quick, thorough_cases=thorough, trusted_base=TB_COMMON + list(extra_tb),
                assumptions=AS_COMMON + list(extra_as), undischarged=list(undischarged))


CONV_FP = ["*.apply", "*.merge"] + READS + API_GEN + ["vclock.cmp", "vclock.ops", "vclock.from_dot", "vclock.from_iter"]   # the clock comparisons every apply / merge relies on
MAP_AS = ["Map (any nesting) violates this property at VALUE level on the unchanged tree: known findings T1, T2, T3 (KNOWN_FINDINGS.json); for Map values the check relies on the correspondence of the faithful model, the refutation witnesses and the monitors' known-finding classes; at KEY level (key set, contexts, pending removes) the property is proved (proofs/MapKeys.v)"]

PROPS = {
    "C01": P(ALL_REPL, CONV_FP + ["*.reset"], quick=1000, streams=("structured",),
             extra_as=["ops generated through the API, each replica editing through its own actor; causal delivery (duplicates allowed)"] + MAP_AS),
    "C02": P([t for t in ALL_REPL if t != "list"], CONV_FP + ["*.reset"], quick=1000, streams=("structured",),
             extra_as=["states reachable by replicas with distinct actors; LWWReg with unique markers"] + MAP_AS),
    "C03": P([t for t in ALL_REPL if t not in ("list", "vclock")], CONV_FP + ["*.reset"], quick=1000, streams=("structured",),
             extra_as=["knowledge sets closed under per-actor order"] + MAP_AS),
    "C07": P(["orswot", "mvreg", "mapmv", "mapor", "mapmm", "mapmo"], READS + ["ctx.*"] + ["*.apply", "*.merge"] + API_GEN + ["*.update.closure"], streams=("structured",),
             extra_as=["top-level replicas only; Map: structural facts for every state reachable by well-formed ops and merges, the 'exactly the surviving witnesses' clause is proved for top-level Map keys (C07_map_get_context_exact) and for Orswot members"]),
    "C08": P(["orswot", "mvreg", "mapmv", "mapor", "mapmm", "mapmo", "gcounter", "pncounter", "gset", "glist", "merkle", "list"], CONV_FP + ["*.reset"], quick=1000, streams=("structured",),
             extra_as=["each actor's ops delivered in issue order, otherwise arbitrary"] + MAP_AS),
    "C09": P(ALL_REPL, CONV_FP + ["*.reset"], quick=1000, streams=("structured",), extra_as=MAP_AS),
    "C16": P(["vclock", "orswot", "list", "merkle", "lww", "mapmv", "mapor", "mapmm", "mapmo", "gcounter", "pncounter", "gset", "maxreg", "minreg", "glist", "mvreg"], ["*.validate_op", "*.apply"] + API_GEN, quick=1000, streams=("structured", "malformed"), exact=["*.validate_op"],
             extra_as=["Map::validate_op violates this property on the unchanged tree: known finding K1"]),
    "C17": P(["orswot", "lww", "mapmv", "mapor", "mapmm", "mapmo", "vclock", "gcounter", "pncounter", "gset", "maxreg", "minreg", "glist", "mvreg", "merkle"], ["*.validate_merge", "*.apply", "*.merge"] + API_GEN, quick=1000, streams=("structured", "malformed"), exact=["*.validate_merge"],
             extra_as=["Orswot::validate_merge rejects correct use of add_all: known finding K2"]),
    "C19": P(ALL_REPL, ["serde", "serde.op"], quick=1000, streams=("structured",), exact=["serde", "serde.op"],
             extra_tb=["serde derive + serde_json modelled by coq/model/Serde.v (JSON tree; integer map keys abstracted as KNum; 32-byte hashes as one number); tied to the real crates by comparing real serde_json output with enc/dec on every sampled state"],
             extra_as=["REFUTED for states holding a pending remove (K3)", "u64 ranges not modelled"]),
    "C20": P(ALL_REPL, CONV_FP + ["*.reset", "mvreg.eq"], quick=1000, streams=("structured",), extra_as=MAP_AS),
    "C04": P(["orswot"], ["orswot.apply", "orswot.merge", "orswot.validate_op"] + ["orswot." + r[2:] for r in READS] + ["orswot.add", "orswot.add_all", "orswot.rm", "orswot.rm_all", "ctx.*"],
             exact=["orswot.read", "orswot.contains", "orswot.iter"],   # membership and remove contexts are functions of the state (C04 last sentence)
             extra_as=["each actor's adds are delivered in issue order (the documented contract); removes in any order",
                       "ops are generated through the public API from reads of the generating replica"]),
    "C05": P(["mapmv", "mapor", "mapmm", "mapmo"], ["map*.*", "orswot.reset", "mvreg.reset", "orswot.apply", "mvreg.apply", "orswot.merge", "mvreg.merge", "ctx.*", "orswot.add", "orswot.rm", "orswot.rm_all", "mvreg.write", "orswot.contains", "orswot.read"],
             extra_as=["the VALUE half of the property is REFUTED on the unchanged tree (T1, T2, T3): for it the check relies on the correspondence of the faithful model, the Coq refutation witnesses, and the monitors' known-finding classes",
                       "the KEY half (key set, entry clocks = surviving witnesses, contexts, pending-remove table) is PROVED for every nested value type (proofs/MapKeys.v: Map's key layer simulates an Orswot) and monitored by the extracted decider mkeyspec_ok, which no known finding can mask",
                       "histories of API-generated ops (update with a context from a read for the replica's own actor; rm with the context of get/read_ctx/len/is_empty), per-actor delivery order, duplicates, merges"],
             undischarged=["C05_map_value_claim: 'value of a present key = the surviving nested updates' outside T1/T2/T3 (monitored only; refuted inside)"]),
    "C06": P(["mvreg", "mapmv"], ["mvreg.apply", "mvreg.merge", "mvreg.read", "mvreg.read_ctx", "mvreg.write", "mvreg.reset", "mvreg.eq", "ctx.*",
                               "mapmv.apply", "mapmv.update", "mapmv.update.closure", "mapmv.get", "mapmv.values", "mapmv.iter"], exact=["mvreg.read"],
             extra_as=["writes are generated through the API with the context of a read; no delivery-order assumption"]),
    "C10": P(["vclock"], ["vclock.*", "dot.*"], quick=1000, all_inputs=True, exact=["vclock.*", "dot.*"],
             extra_as=["clocks are well-formed (no stored zero): proved to be preserved by every API call; a stored zero is only constructible through the public field"]),
    "C11": P(["gcounter", "pncounter", "gset", "maxreg", "minreg", "lww"],
             ["gcounter.apply", "gcounter.merge", "gcounter.inc", "gcounter.inc_many", "gcounter.read", "gcounter.bigread", "pncounter.bigread",
              "pncounter.apply", "pncounter.merge", "pncounter.inc", "pncounter.dec", "pncounter.inc_many", "pncounter.dec_many", "pncounter.read",
              "gset.*", "maxreg.*", "minreg.*", "lww.apply", "lww.merge", "lww.validate_op", "lww.validate_merge", "lww.new", "lww.default"],
             exact=["lww.validate_op", "lww.validate_merge",    # C11_lww_conflict fixes the verdict
                    "gcounter.read", "gcounter.bigread", "pncounter.read", "pncounter.bigread", "gset.read", "gset.contains", "maxreg.read", "minreg.read"],   # the read is the aggregate of the state
             extra_as=["LWWReg: markers are unique (the same marker is never written with two values) for the convergence clause"]),
    "C12": P(["list", "glist"], ["list.apply", "list.insert_index", "list.append", "list.delete_index", "list.read", "list.len", "list.position", "list.validate_op", "ident.*", "glist.apply", "glist.merge", "glist.read"],
             streams=("structured",),
             extra_as=["ops are delivered in causal order (the documented contract of List); duplicates allowed", "ops are generated through insert_index / append / delete_index"]),
    "C13": P(["list", "glist"], ["list.*", "glist.*", "ident.*"], all_inputs=True,
             extra_as=["states satisfy the representation invariant (strictly sorted, no empty identifier): proved for every state reachable by applying ops with non-empty identifiers; the API never produces an empty identifier"]),
    "C14": P(["glist"], ["ident.*"], all_inputs=True, quick=1500, exact=["ident.cmp", "ident.eq"],
             extra_tb=["BigRational modelled as Coq's Qc (canonical rationals); num-rational arithmetic trusted"],
             extra_as=["the marker type's Ord is a total order consistent with equality (proved for u64 and OrdDot)"]),
    "C15": P(["merkle"], ["merkle.*"], all_inputs=True, exact=["merkle.read", "merkle.content", "merkle.children", "merkle.parents", "merkle.node", "merkle.num_nodes", "merkle.num_orphans"],
             extra_tb=["SHA3-256 content addressing modelled as an arbitrary injective function (premise of the theorems, no axiom); the driver maps real hashes to fresh model hashes"],
             extra_as=["distinct nodes have distinct hashes (collision-freedom of SHA3)"]),
    "C18": P(["vclock", "gcounter", "pncounter", "mvreg", "orswot", "mapmv", "mapor", "mapmm", "mapmo"],
             ["*.reset", "vclock.clone_without"], all_inputs=False, exact=["*.reset", "vclock.clone_without"],
             extra_as=["states are well-formed (no stored zero, no stored empty witness clock, witness clocks below the top clock): proved for reachable Orswot states; assumed for Map states, where it is checked by the monitor on every sampled state"]),
}
