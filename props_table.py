"""Per-property configuration of ./check: which harness types are run, which calls
belong to the property's footprint (a model/implementation disagreement outside the
footprint is advisory only), case counts, and the trusted base / assumptions that
are written to the evidence file."""

ALLOWED_AXIOMS = set()  # no axiom is used by any property theorem

TB_COMMON = [
    "Coq 8.16.1 kernel (coqc); vm_compute in refutation witnesses and examples; no native_compute",
    "axioms: none (Print Assumptions = 'Closed under the global context' for every property theorem, audited on every run)",
    "hand-written Gallina model coq/model/*.v of the Rust modules; tied to /repo by the correspondence check only",
    "extraction: Coq Extraction with ExtrOcamlBasic only (no Extract Constant / Extract Inductive of our own); OCaml driver ocaml/driver.ml (parsing, printing, comparison)",
    "Rust harness harness/src (script generator, S-expression serializer over serde::Serialize, catch_unwind of panics)",
    "type parameters instantiated with u64; Ord/Eq/Hash of u64 trusted",
]
AS_COMMON = [
    "no u64 overflow of counters (model uses unbounded N)",
    "HashMap/BTreeMap/HashSet behave as finite maps/sets (iteration order abstracted)",
]

GEN = ["ctx.*"]
ALL_REPL = ["vclock", "gcounter", "pncounter", "gset", "maxreg", "minreg", "lww", "mvreg", "orswot",
            "mapmv", "mapor", "mapmm", "glist", "list", "merkle"]

PROPS = {
    "C10": dict(
        types=["vclock"], streams=["structured", "malformed"], all_inputs=True,
        footprint=["vclock.*", "dot.*"],
        quick_cases=600, thorough_cases=20000,
        trusted_base=TB_COMMON,
        assumptions=AS_COMMON + ["clocks are well-formed (no stored zero): proved to be preserved by every API call; a stored zero is only constructible through the public field"],
    ),
}
