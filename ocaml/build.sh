#!/bin/sh
# builds the driver from the extracted model; run from /verif/ocaml
set -e
cd "$(dirname "$0")"
mkdir -p gen _build
(cd gen && coqc -Q ../../coq Crdt ../../coq/extract/Extract.v >/dev/null 2>&1)
python3 - <<'PY'
import json
j=json.load(open("../KNOWN_FINDINGS.json"))
rows=["  (%s, [%s]);" % (json.dumps(f["id"]), "; ".join(json.dumps(p) for p in f["properties"])) for f in j["findings"]]
open("_build/known_table.ml","w").write("(* generated from KNOWN_FINDINGS.json by build.sh *)\nlet table = [\n" + "\n".join(rows) + "\n]\n")
PY
cp gen/model.ml gen/model.mli driver.ml known.ml monitors.ml main.ml _build/
cd _build
ocamlfind ocamlopt -O2 -w -a -o ../driver model.mli model.ml driver.ml known_table.ml known.ml monitors.ml main.ml 2>&1 || \
ocamlfind ocamlopt -w -a -o ../driver model.mli model.ml driver.ml known_table.ml known.ml monitors.ml main.ml
