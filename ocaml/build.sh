#!/bin/sh
# builds the driver from the extracted model; run from /verif/ocaml
set -e
cd "$(dirname "$0")"
mkdir -p gen _build
(cd gen && coqc -Q ../../coq Crdt ../../coq/extract/Extract.v >/dev/null 2>&1)
cp gen/model.ml gen/model.mli driver.ml known.ml monitors.ml main.ml _build/
cd _build
ocamlfind ocamlopt -O2 -w -a -o ../driver model.mli model.ml driver.ml known.ml monitors.ml main.ml 2>&1 || \
ocamlfind ocamlopt -w -a -o ../driver model.mli model.ml driver.ml known.ml monitors.ml main.ml
