(* Reads a harness trace on stdin; prints one line per disagreement and a summary. *)
open Driver
type string = Stdlib.String.t

let () =
  let calls = ref 0 and mism = ref 0 and cases = ref 0 and errors = ref 0 in
  let by_fn : (string, int) Hashtbl.t = Hashtbl.create 64 in
  let cur_case = ref "" and cur_cmd = ref "" in
  let limit = 40 in
  (* in-kernel cross-check: every k-th eligible call is printed as a Coq term *)
  let cases_out = (try Some (open_out (Sys.getenv "VERIF_CASES_OUT")) with Not_found -> None) in
  let cases_every = (try int_of_string (Sys.getenv "VERIF_CASES_EVERY") with Not_found -> 50) in
  let eligible = ref 0 and emitted = ref 0 in
  let spec_emitted = ref 0 in
  (match cases_out with
   | Some oc -> Driver.spec_case_hook := (fun t -> if !spec_emitted < 40 then (incr spec_emitted; Printf.fprintf oc "  (%s);\n" t))
   | None -> ());
  (try
     while true do
       let line = input_line stdin in
       if String.length line > 0 then begin
         match (try Ok (parse_sx line) with e -> Error (Printexc.to_string e)) with
         | Error e -> incr errors; Printf.printf "PARSE-ERROR %s %s\n" e line
         | Ok (L (A "case" :: A id :: A ty :: _)) ->
             incr cases; cur_case := id ^ ":" ^ ty; Hashtbl.reset hash_ids; Hashtbl.reset node_ids; next_hid := 0;
             Monitors.on_case id ty line
         | Ok (L (A "cmd" :: A ci :: _) as sx) -> cur_cmd := ci; Monitors.on_event !cur_case !cur_cmd sx
         | Ok (L (A "call" :: A f :: args)) ->
             incr calls;
             Monitors.on_call !cur_case !cur_cmd f args;
             Hashtbl.replace by_fn f (1 + (try Hashtbl.find by_fn f with Not_found -> 0));
             (match (try check_call f args with Bad m -> Some ("DRIVER-ERROR " ^ m) | Not_found -> Some "DRIVER-ERROR Not_found"
                                               | Failure m -> Some ("DRIVER-ERROR " ^ m)) with
              | None ->
                  (* agreed with the extracted model: a sample goes to the in-kernel cross-check *)
                  (match cases_out with
                   | Some oc when !emitted < 400 ->
                       (match coq_case f args with
                        | Some t -> incr eligible; if !eligible mod cases_every = 0 then (incr emitted; Printf.fprintf oc "  (%s);\n" t)
                        | None -> ())
                   | _ -> ())
              | Some d ->
                  (* only state transitions and op constructors count: probes of pure functions do not change what the
                     replicas of the case hold *)
                  (let is_step = List.exists (fun sfx -> let n = String.length sfx and m = String.length f in m >= n && String.sub f (m - n) n = sfx)
                                   [".apply"; ".merge"; ".update"; ".rm"; ".add"; ".add_all"; ".rm_all"; ".write"; ".insert_index"; ".append"; ".delete_index"; ".insert"; ".insert_after"; ".insert_before"; ".inc"; ".dec"; ".inc_many"; ".dec_many"; "ctx.derive_add"; "ctx.derive_rm"] in
                   if is_step then Monitors.deviated := true);
                  incr mism;
                  if !mism <= limit then
                    Printf.printf "MISMATCH case=%s cmd=%s fn=%s %s\n    line=%s\n" !cur_case !cur_cmd f d line)
         | Ok sx -> Monitors.on_event !cur_case !cur_cmd sx
       end
     done
   with End_of_file -> ());
  (match cases_out with Some oc -> close_out oc | None -> ());
  Monitors.finish ();
  let fns = Hashtbl.fold (fun k v acc -> (k, v) :: acc) by_fn [] |> List.sort compare in
  Printf.printf "SUMMARY cases=%d calls=%d mismatches=%d parse_errors=%d\n" !cases !calls !mism !errors;
  Printf.printf "BYFN %s\n" (String.concat " " (List.map (fun (k, v) -> Printf.sprintf "%s=%d" k v) fns))
