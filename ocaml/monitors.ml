(* History-level monitors (specifications evaluated on the implementation's
   observations).  Filled in per type. *)
open Driver
let on_case (_id : string) (_ty : string) (_line : string) = ()
let on_event (_case : string) (_cmd : string) (_sx : sx) = ()
let finish () = ()
