(* Property-level monitors: the extracted Coq specifications (boolean deciders,
   spec functions) evaluated on the IMPLEMENTATION's inputs and outputs.  A line
     MONITOR prop=<id> case=<case> cmd=<n> what=<text>
   is printed for every violation. *)
open Model
open Driver

let violations = ref 0
let checks : (string, int) Hashtbl.t = Hashtbl.create 16
let cur = ref ("", "")
let report prop what =
  incr violations;
  if !violations <= 60 then Printf.printf "MONITOR prop=%s case=%s cmd=%s what=%s\n" prop (fst !cur) (snd !cur) what
let count prop = Hashtbl.replace checks prop (1 + (try Hashtbl.find checks prop with Not_found -> 0))
let expect prop what b = count prop; if not b then report prop what

let on_case (_id : string) (_ty : string) (_line : string) = ()

(* ---- C10: vector clock laws on the implementation's own results *)
let c10_call fn a =
  let p = "C10" in
  match fn, a with
  | "cmp", [x; y; r] ->
      let x = vc_sx x and y = vc_sx y in
      if vwfb x && vwfb y then
        expect p (Printf.sprintf "partial_cmp(%s,%s) is %s but the pointwise order says %s" (show_vc x) (show_vc y) (atom r) (show_ord (spec_cmp x y)))
          (ord_sx r = spec_cmp x y)
  | "concurrent", [x; y; r] ->
      let x = vc_sx x and y = vc_sx y in
      if vwfb x && vwfb y then
        expect p (Printf.sprintf "concurrent(%s,%s)=%s" (show_vc x) (show_vc y) (atom r)) (bool_sx r = (spec_cmp x y = None))
  | "merge", [x; y; r] ->
      let x = vc_sx x and y = vc_sx y and r = vc_sx r in
      if vwfb x && vwfb y then
        expect p (Printf.sprintf "merge(%s,%s)=%s is not the pointwise max / stores a zero" (show_vc x) (show_vc y) (show_vc r)) (spec_merge_ok x y r)
  | "glb", [x; y; r] ->
      let x = vc_sx x and y = vc_sx y and r = vc_sx r in
      if vwfb x && vwfb y then
        expect p (Printf.sprintf "glb(%s,%s)=%s is not the pointwise min / stores a zero" (show_vc x) (show_vc y) (show_vc r)) (spec_glb_ok x y r)
  | ("reset" | "clone_without"), [x; y; r] ->
      let x = vc_sx x and y = vc_sx y and r = vc_sx r in
      if vwfb x then
        expect p (Printf.sprintf "reset_remove(%s,%s)=%s does not keep exactly the strictly newer entries" (show_vc x) (show_vc y) (show_vc r)) (spec_reset_ok x y r)
  | "intersection", [x; y; r] ->
      let x = vc_sx x and y = vc_sx y and r = vc_sx r in
      if vwfb x then
        expect p (Printf.sprintf "intersection(%s,%s)=%s does not keep exactly the equal entries" (show_vc x) (show_vc y) (show_vc r)) (spec_intersection_ok x y r)
  | "apply", [c; d; r] ->
      let c = vc_sx c and d = dot_sx d and r = vc_sx r in
      if vwfb c then
        expect p (Printf.sprintf "apply(%s,%s)=%s is not max on the dot's actor" (show_vc c) (show_dot d) (show_vc r)) (spec_apply_ok c d r)
  | "validate_op", [c; d; r] ->
      let c = vc_sx c and d = dot_sx d in
      expect p (Printf.sprintf "validate_op(%s,%s)=%s" (show_vc c) (show_dot d) (show_sx r)) (spec_validate_ok c d (range_sx r))
  | "inc", [c; x; d] ->
      let c = vc_sx c in
      expect p (Printf.sprintf "inc(%s,%s)=%s is not the next counter" (show_vc c) (atom x) (show_sx d)) (spec_inc_ok c (n_sx x) (dot_sx d))
  | _ -> ()

let on_call (case : string) (cmd : string) (f : string) (a : sx list) =
  cur := (case, cmd);
  let pre, fn = match String.index_opt f '.' with
    | Some i -> (String.sub f 0 i, String.sub f (i + 1) (String.length f - i - 1))
    | None -> (f, "") in
  try
    (match pre with
     | "vclock" -> c10_call fn a
     | _ -> ())
  with Bad m -> report "DRIVER" ("monitor error: " ^ m)

let on_event (case : string) (cmd : string) (_sx : sx) = cur := (case, cmd)

let finish () =
  let l = Hashtbl.fold (fun k v acc -> (k, v) :: acc) checks [] |> List.sort compare in
  Printf.printf "MONITORS violations=%d %s\n" !violations
    (String.concat " " (List.map (fun (k, v) -> Printf.sprintf "%s=%d" k v) l))
