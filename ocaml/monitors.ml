(* Property-level monitors: the extracted Coq specifications (boolean deciders,
   spec functions) evaluated on the IMPLEMENTATION's inputs and outputs.  Lines:
     MONITOR prop=<id> case=<case> cmd=<n> what=<text>      a violation
     KNOWN prop=<id> finding=<id> case=<case> cmd=<n> what=<text>   a violation inside a known-finding class *)
open Model
open Driver
type string = Stdlib.String.t

let violations = ref 0
let knowns = ref 0
let checks : (string, int) Hashtbl.t = Hashtbl.create 16
let cur = ref ("", "")
let count prop = Hashtbl.replace checks prop (1 + (try Hashtbl.find checks prop with Not_found -> 0))

(* ---- per-case state *)
let ty = ref ""
let disc = ref 0
let tainted = ref false
let merges_seen = ref false
(* the deliveries actually made in this case so far: all causal / all in per-actor order *)
let all_causal = ref true
let all_per_actor = ref true
let hist : (int * sx * int list) list ref = ref []   (* author, op, deps -- newest first *)
let pre : sx list ref = ref []
let stats : (string, int) Hashtbl.t = Hashtbl.create 16
let stat k = Hashtbl.replace stats k (1 + (try Hashtbl.find stats k with Not_found -> 0))
let case_nontrivial = ref false
(* known-finding classes the current history falls in, per property *)
let classes : (string * string) list ref = ref []   (* (finding id, description) *)
let know_of : (string, int list) Hashtbl.t = Hashtbl.create 8
let last_vm : (string * string * string) option ref = ref None
let cur_rep = ref ""

(* finding T3 changes READS only through one mechanism: a key remove (or a merge) drops a whole entry whose
   nested value holds a parked remove, so the parked remove is lost with it.  Whether that happened at some
   replica of the current case is tracked from the logged before/after states; without it T3 is residue
   only (C20) and a read-level violation (C05 C08) is not attributed to it *)
let t3_drop = ref false
(* set by the driver's main loop as soon as the implementation's result of a logged call of the current case differs from the
   model's: from then on the case is no longer an execution of the unchanged semantics, and a violation found in it is not
   attributed to a known finding (the known findings are behaviours of the unchanged crate, which the model reproduces) *)
let deviated = ref false
let mon_closures : sx list ref = ref []
let has_pending_ (s : sx) : bool =
  let rec go = function
    | L [A "deferred"; L (A "M" :: (_ :: _))] -> true
    | L l -> List.exists go l
    | A _ -> false in
  go s
let rec entry_dropped_with_pending (b : sx) (a : sx) : bool =
  try
    let be = pairs_of_map (field "entries" b) and ae = pairs_of_map (field "entries" a) in
    List.exists (fun (k, e) ->
      let v = field "val" e in
      match List.find_opt (fun (k', _) -> show_sx k' = show_sx k) ae with
      | None -> has_pending_ v
      | Some (_, e') -> entry_dropped_with_pending v (field "val" e')) be
  with Bad _ -> false

let report prop what =
  (* a violation inside a listed known-finding class is reported as KNOWN *)
  let kf = if !deviated then [] else
    List.filter (fun (fid, _) -> Known.applies fid prop && not (fid = "T3" && prop <> "C20" && not !t3_drop)) !classes in
  match kf with
  | (fid, _) :: _ ->
      incr knowns;
      if !knowns <= 2000 then Printf.printf "KNOWN prop=%s finding=%s case=%s cmd=%s what=[classes=%s] %s\n" prop fid (fst !cur) (snd !cur)
          (String.concat "+" (List.sort compare (List.map fst !classes))) what
  | [] ->
      incr violations;
      if !violations <= 60 then Printf.printf "MONITOR prop=%s case=%s cmd=%s what=%s\n" prop (fst !cur) (snd !cur) what
let expect prop what b = count prop; if not b then report prop (what ())
let expect_all props what b = List.iter (fun p -> expect p what b) props

let on_case (_id : string) (t : string) (line : string) =
  t3_drop := false; deviated := false; mon_closures := [];
  ty := t; tainted := false; merges_seen := false; all_causal := true; all_per_actor := true; hist := []; pre := []; case_nontrivial := false; classes := [];
  Hashtbl.reset know_of; last_vm := None;
  (match parse_sx line with
   | L [A "case"; _; _; A d] -> disc := int_of_string d
   | _ -> disc := 0);
  stat "cases"

(* ---- history in model form *)
let history_of (f : sx -> 'o) : 'o oprec list =
  List.rev_map (fun (a, o, deps) -> mk_oprec (n_of_int a) (f o) (List.map nat_of_int deps)) !hist
let kset l = natset_of_list (List.map nat_of_int l)

(* a sample of the specification evaluations is re-done inside Coq (vm_compute on the Gallina definitions):
   the extracted deciders and the conversion of the logged history are cross-checked in the kernel *)
let spec_cases_seen = ref 0
let emit_spec_case (mk : unit -> string) =
  incr spec_cases_seen;
  if !spec_cases_seen mod 41 = 0 then (try !Driver.spec_case_hook (mk ()) with Bad _ -> ())
let coq_hist (ty : string) (co : 'o -> string) (f : sx -> 'o) : string =
  "([" ^ String.concat "; " (List.rev_map (fun (a, o, deps) ->
      Printf.sprintf "mk_oprec %d %s [%s]" a (co (f o)) (String.concat "; " (List.map (fun d -> string_of_int d ^ "%nat") deps))) !hist)
  ^ "] : list (oprec " ^ ty ^ "))"
let coq_know know = "(natset_of_list [" ^ String.concat "; " (List.map (fun d -> string_of_int d ^ "%nat") know) ^ "])"

let glop_sx x = ident_sx n_sx (field "id" x)
let lww_sx x = { lww_val = n_sx (field "val" x); lww_marker = n_sx (field "marker" x) }
let pnop_sx x = { pn_dot = dot_sx (field "dot" x); pn_dir = (match variant (field "dir" x) with "Pos" -> DPos | _ -> DNeg) }
let pn_sx x = { pn_p = vc_sx (field "p" x); pn_n = vc_sx (field "n" x) }

(* state equality per type, on model values *)
let state_eq t (a : sx) (b : sx) : bool =
  match t with
  | "vclock" | "gcounter" -> vc_eqb (vc_sx a) (vc_sx b)
  | "pncounter" -> pn_eqb (pn_sx a) (pn_sx b)
  | "gset" -> nset_eqb (nset_sx a) (nset_sx b)
  | "maxreg" | "minreg" -> n_sx (field "val" a) = n_sx (field "val" b)
  | "lww" -> lww_eqb (lww_sx a) (lww_sx b)
  | "orswot" -> orswot_eqb (orswot_sx a) (orswot_sx b)
  | "mvreg" -> mv_perm_eqb (mv_sx a) (mv_sx b)
  | "mapmv" -> cmap_eqb mv_dec (cmap_sx mv_inst a) (cmap_sx mv_inst b)
           || (show_cmap mv_inst (cmap_sx mv_inst a) = show_cmap mv_inst (cmap_sx mv_inst b))
  | "mapor" -> cmap_eqb orswot_dec (cmap_sx or_inst a) (cmap_sx or_inst b)
  | "mapmm" -> let i = map_inst mv_inst in cmap_eqb i.v_dec (cmap_sx i a) (cmap_sx i b)
  | "mapmo" -> let i = map_inst or_inst in cmap_eqb i.v_dec (cmap_sx i a) (cmap_sx i b)
  | "glist" -> glist_sx a = glist_sx b
  | "list" -> clist_eqb (clist_sx a) (clist_sx b)
  | "merkle" -> merkle_eqb (merkle_sx a) (merkle_sx b)
  | _ -> show_sx a = show_sx b

let order_free t = List.mem t ["vclock"; "gcounter"; "pncounter"; "gset"; "maxreg"; "minreg"; "lww"; "glist"; "merkle"; "mvreg"]
let is_map t = List.mem t ["mapmv"; "mapor"; "mapmm"; "mapmo"]

(* which delivery disciplines a type promises to tolerate *)
let discipline_ok () =
  match !ty with
  | "list" -> !disc = 0
  | t when order_free t -> true
  | _ -> !disc <= 1

(* ---- C10: vector clock laws on the implementation's own results *)
let c10_call fn a =
  let p = "C10" in
  let e what b = expect p (fun () -> what) b in
  match fn, a with
  | "cmp", [x; y; r] ->
      let x = vc_sx x and y = vc_sx y in
      if vwfb x && vwfb y then
        e (Printf.sprintf "partial_cmp(%s,%s) is %s but the pointwise order says %s" (show_vc x) (show_vc y) (atom r) (show_ord (spec_cmp x y)))
          (ord_sx r = spec_cmp x y)
  | "concurrent", [x; y; r] ->
      let x = vc_sx x and y = vc_sx y in
      if vwfb x && vwfb y then
        e (Printf.sprintf "concurrent(%s,%s)=%s" (show_vc x) (show_vc y) (atom r)) (bool_sx r = (spec_cmp x y = None))
  | "merge", [x; y; r] ->
      let x = vc_sx x and y = vc_sx y and r = vc_sx r in
      if vwfb x && vwfb y then
        e (Printf.sprintf "merge(%s,%s)=%s is not the pointwise max / stores a zero" (show_vc x) (show_vc y) (show_vc r)) (spec_merge_ok x y r)
  | "from_iter", [ds; r] ->
      (* collecting dots: per-actor greatest counter, no stored zero *)
      let ds = List.map dot_sx (seq ds) and r = vc_sx r in
      let actors = List.sort_uniq compare (List.map (fun d -> int_of_n d.dactor) ds @ List.map (fun (a, _) -> int_of_n a) (vc_to_list r)) in
      let mx a = List.fold_left (fun m d -> if int_of_n d.dactor = a then max m (int_of_n d.dcounter) else m) 0 ds in
      e (Printf.sprintf "from_iter([%s])=%s stores a zero counter" (String.concat ";" (List.map show_dot ds)) (show_vc r)) (vwfb r);
      e (Printf.sprintf "from_iter([%s])=%s is not the per-actor maximum" (String.concat ";" (List.map show_dot ds)) (show_vc r))
        (List.for_all (fun a -> int_of_n (vget r (n_of_int a)) = mx a) actors)
  | "from_dot", [d; r] ->
      let d = dot_sx d and r = vc_sx r in
      e (Printf.sprintf "VClock::from(%s)=%s stores a zero counter" (show_dot d) (show_vc r)) (vwfb r);
      e (Printf.sprintf "VClock::from(%s)=%s is not the clock of that dot" (show_dot d) (show_vc r))
        (List.for_all (fun (a, n) -> a = d.dactor && n = d.dcounter) (vc_to_list r) && int_of_n (vget r d.dactor) = int_of_n d.dcounter)
  | "glb", [x; y; r] ->
      let x = vc_sx x and y = vc_sx y and r = vc_sx r in
      if vwfb x && vwfb y then
        e (Printf.sprintf "glb(%s,%s)=%s is not the pointwise min / stores a zero" (show_vc x) (show_vc y) (show_vc r)) (spec_glb_ok x y r)
  | ("reset" | "clone_without"), [x; y; r] ->
      let x = vc_sx x and y = vc_sx y and r = vc_sx r in
      if vwfb x then
        e (Printf.sprintf "reset_remove(%s,%s)=%s does not keep exactly the strictly newer entries" (show_vc x) (show_vc y) (show_vc r)) (spec_reset_ok x y r)
  | "intersection", [x; y; r] ->
      let x = vc_sx x and y = vc_sx y and r = vc_sx r in
      if vwfb x then
        e (Printf.sprintf "intersection(%s,%s)=%s does not keep exactly the equal entries" (show_vc x) (show_vc y) (show_vc r)) (spec_intersection_ok x y r)
  | "apply", [c; d; r] ->
      let c = vc_sx c and d = dot_sx d and r = vc_sx r in
      if vwfb c then
        e (Printf.sprintf "apply(%s,%s)=%s is not max on the dot's actor" (show_vc c) (show_dot d) (show_vc r)) (spec_apply_ok c d r)
  | "validate_op", [c; d; r] ->
      let c = vc_sx c and d = dot_sx d in
      e (Printf.sprintf "validate_op(%s,%s)=%s" (show_vc c) (show_dot d) (show_sx r)) (spec_validate_ok c d (range_sx r))
  | "inc", [c; x; d] ->
      let c = vc_sx c in
      e (Printf.sprintf "inc(%s,%s)=%s is not the next counter" (show_vc c) (atom x) (show_sx d)) (spec_inc_ok c (n_sx x) (dot_sx d))
  | _ -> ()

(* ---- C14: identifier order and density, on the implementation's results *)
let last_cmps : (string * string * comparison) list ref = ref []
let c14_call fn a =
  let p = "C14" in
  let lt x y = idcmp ncompare x y = Lt in
  match fn, a with
  | "cmp", [x; y; r] ->
      let r' = (match ord_sx r with Some c -> c | None -> bad "total order returned none") in
      let xs = show_sx x and ys = show_sx y in
      expect p (fun () -> "cmp(x,x) is not Equal for x=" ^ xs) (xs <> ys || r' = Eq);
      expect p (fun () -> "cmp says Equal for different identifiers " ^ xs ^ " " ^ ys) (r' <> Eq || ident_sx n_sx x = ident_sx n_sx y);
      (* antisymmetry / transitivity over the recent comparisons *)
      List.iter (fun (a', b', c) ->
        if a' = ys && b' = xs then
          expect p (fun () -> "cmp is not antisymmetric on " ^ xs ^ " " ^ ys) (c = (match r' with Lt -> Gt | Gt -> Lt | Eq -> Eq));
        if b' = xs && c = r' && r' <> Eq then
          List.iter (fun (a2, b2, c2) ->
            if a2 = a' && b2 = ys then
              expect p (fun () -> "cmp is not transitive on " ^ a' ^ " " ^ xs ^ " " ^ ys) (c2 = r')) !last_cmps) !last_cmps;
      last_cmps := (xs, ys, r') :: (match !last_cmps with a :: b :: c :: d :: _ -> [a; b; c; d] | l -> l)
  | "between", [lo; hi; m; r] ->
      let lo = opt_sx (ident_sx n_sx) lo and hi = opt_sx (ident_sx n_sx) hi and r = ident_sx n_sx r in
      let m = n_sx m in
      (match lo, hi with
       | Some l, Some h when l <> h ->
           let l, h = if lt l h then l, h else h, l in
           expect p (fun () -> Printf.sprintf "between(%s,%s,%s)=%s is not strictly between" (show_ident show_n l) (show_ident show_n h) (show_n m) (show_ident show_n r))
             (lt l r && lt r h);
           expect p (fun () -> "between does not end with the marker") (idvalue r = Some m)
       | Some l, None when l <> [] ->
           expect p (fun () -> Printf.sprintf "between(%s,None)=%s is not beyond the bound" (show_ident show_n l) (show_ident show_n r)) (lt l r)
       | None, Some h when h <> [] ->
           expect p (fun () -> Printf.sprintf "between(None,%s)=%s is not below the bound" (show_ident show_n h) (show_ident show_n r)) (lt r h)
       | _ -> ())
  | _ -> ()

(* ---- C16 / C17 / C19 / C07 on the implementation's verdicts and contexts *)
let carries_dot o = (try (match variant o with "Add" | "Up" | "Put" | "Insert" | "Delete" -> true | _ -> false) with Bad _ -> false)
let has_pending (s : sx) : bool =
  (* any non-empty "deferred" table at any depth *)
  let rec go = function
    | L [A "deferred"; L (A "M" :: (_ :: _))] -> true
    | L l -> List.exists go l
    | A _ -> false in
  go s

let generic_call pre_ fn a =
  let ordered_type = List.mem !ty ["orswot"; "list"; "mapmv"; "mapor"; "mapmm"; "mapmo"] in
  match fn, a with
  | "validate_op", (s :: o :: rest) when ordered_type && pre_ = !ty ->
      let verdict = (match List.rev rest with v :: _ -> v | [] -> A "ok") in
      let is_ok = (verdict = A "ok") in
      (match !pre with
       | [A "edit"; A r; A actor] when r = actor ->
           (* at its own origin the op must be accepted *)
           let k1 = is_map !ty && (match o with L (A "V" :: A "Up" :: _) -> true | _ -> false) in
           count "C16";
           if not is_ok then begin
             let saved = !classes in
             (* K1: Map rejects although the map-clock gate passes *)
             if k1 then begin
               let d = dot_sx (field "dot" o) in
               let gate = int_of_n d.dcounter <= int_of_n (vget (vc_sx (field "clock" s)) d.dactor) + 1 in
               if gate then classes := ("K1", "map validate_op entry/nested continuity") :: !classes
             end;
             report "C16" (Printf.sprintf "validate_op rejects an op at its own origin: %s -> %s" (String.sub (show_sx o) 0 (min 200 (String.length (show_sx o)))) (show_sx verdict));
             classes := saved
           end
       | [A ("deliver" | "probe"); A r; A i; _] when carries_dot o || !ty = "list" ->
           let i = int_of_string i in
           let know = (try Hashtbl.find know_of r with Not_found -> []) in
           let h = Array.of_list (List.rev !hist) in
           let (author, op_i, _) = h.(i) in
           let relevant (o' : sx) = if !ty = "list" then true else carries_dot o' in
           if relevant op_i then begin
             let missing = ref false in
             Array.iteri (fun j (a', o', _) -> if j < i && a' = author && relevant o' && not (List.mem j know) then missing := true) h;
             count "C16";
             let expected_ok = not !missing in
             if expected_ok && not is_ok then begin
               let saved = !classes in
               if is_map !ty then begin
                 let d = dot_sx (field "dot" o) in
                 let gate = int_of_n d.dcounter <= int_of_n (vget (vc_sx (field "clock" s)) d.dactor) + 1 in
                 if gate then classes := ("K1", "map validate_op entry/nested continuity") :: !classes
               end;
               report "C16" (Printf.sprintf "validate_op rejects op %d although every earlier op of its actor is applied: %s" i (show_sx verdict));
               classes := saved
             end
             else if (not expected_ok) && is_ok then
               report "C16" (Printf.sprintf "validate_op accepts op %d although an earlier op of its actor is missing" i)
           end
       | _ -> ())
  | "validate_merge", [s; o; v] when not !tainted ->
      count "C17";
      if v <> A "ok" then report "C17" ("validate_merge rejects a pair of states produced by correct use");
      let key = (show_sx s, show_sx o, atom v) in
      (match !last_vm with
       | Some (s', o', v') when s' = show_sx o && o' = show_sx s ->
           count "C17";
           if v' <> atom v then report "C17" "validate_merge gives different verdicts in the two directions"
       | _ -> ());
      last_vm := Some key
  | _ -> ()

let serde_call a =
  match a with
  | A _name :: s :: A "err" :: _ ->
      count "C19";
      let saved = !classes in
      if has_pending s then classes := ("K3", "pending remove not serialisable") :: !classes;
      report "C19" "serde_json cannot serialise this state";
      classes := saved
  | A _name :: _ :: A "ok" :: _json :: _back :: [A flag] ->
      count "C19";
      if flag <> "eq" then report "C19" ("the deserialised value is not == to the original (" ^ flag ^ ")")
  | A _name :: _ :: A "deerr" :: _ -> count "C19"; report "C19" "serde_json cannot deserialise its own output"
  | _ -> ()

(* C07: contexts handed out by reads *)
let ctx_call pre_ fn a =
  let check_ctx r =
    (try
       let add = vc_sx (field "add_clock" r) and rm = vc_sx (field "rm_clock" r) in
       count "C07";
       if not (vwfb add && vwfb rm) then report "C07" "a read context stores a zero counter";
       if not (List.for_all (fun (x, n) -> int_of_n n <= int_of_n (vget add x)) (vc_to_list rm)) then
         report "C07" (Printf.sprintf "rm_clock %s exceeds add_clock %s" (show_vc rm) (show_vc add))
     with Bad _ -> ()) in
  (* the add context of every read of a set / map is the replica clock: it covers all applied updates *)
  let check_add a r =
    if pre_ <> "mvreg" then
      (try
         (match a with
          | st :: _ ->
              let clock = vc_sx (field "clock" st) and add = vc_sx (field "add_clock" r) in
              count "C07";
              if not (vc_eqb clock add) then
                List.iter (fun p -> report p (Printf.sprintf "%s hands out add_clock %s but the replica clock is %s" fn (show_vc add) (show_vc clock)))
                  (if pre_ = "orswot" then ["C07"; "C04"] else if is_map pre_ then ["C07"; "C05"] else ["C07"])
          | [] -> ())
       with Bad _ -> ()) in
  (* C07 for Orswot: the remove context of a member is exactly the clock of the member's
     surviving witnesses, as the specification of the replica's knowledge defines them *)
  (if pre_ = "orswot" && !ty = "orswot" then
     (try
        let know = (try Hashtbl.find know_of !cur_rep with Not_found -> []) in
        let spec = lazy (ospec (history_of oop_sx) (kset know)) in
        let witness m = (match List.assoc_opt (int_of_n m) (List.map (fun (k, c) -> (int_of_n k, c)) (nmap_to_list (Lazy.force spec).oentries)) with
                         | Some c -> c | None -> vc_of_list []) in
        let one m r =
          let rm = vc_sx (field "rm_clock" r) in
          count "C07";
          if not (vc_eqb rm (witness m)) then
            report "C07" (Printf.sprintf "%s: remove context %s of member %s is not the clock of its surviving witnesses %s" fn (show_vc rm) (show_n m) (show_vc (witness m))) in
        (match fn, a with
         | "contains", [_; m; r] -> one (n_sx m) r
         | "iter", [_; L (A "L" :: rs)] -> List.iter (fun r -> one (n_sx (field "val" r)) r) rs
         | _ -> ())
      with Bad _ -> ()));
  (* C07 for Map (top level): the remove context [get]/[keys]/[iter] hand out for a key is exactly
     the clock of the key's surviving witnesses (theorem C07_map_get_context_exact); like the
     key-level C05 check it is never attributed to a (value-level) known finding *)
  (if is_map pre_ && pre_ = !ty then
     (try
        let know = (try Hashtbl.find know_of !cur_rep with Not_found -> []) in
        let witness k = (match !ty with
          | "mapmv" -> mspec_entry_clock (known_ops (history_of (mop_sx mv_inst)) (kset know)) k
          | "mapor" -> mspec_entry_clock (known_ops (history_of (mop_sx or_inst)) (kset know)) k
          | _ -> mspec_entry_clock (known_ops (history_of (mop_sx (map_inst mv_inst))) (kset know)) k) in
        let one k r =
          let rm = vc_sx (field "rm_clock" r) in
          count "C07";
          if not (vc_eqb rm (witness k)) then begin
            let saved = !classes in
            classes := [];
            report "C07" (Printf.sprintf "%s: remove context %s of key %s is not the clock of its surviving witnesses %s" fn (show_vc rm) (show_n k) (show_vc (witness k)));
            classes := saved
          end in
        (match fn, a with
         | "get", [_; k; r] -> one (n_sx k) r
         | "keys", [_; L (A "L" :: rs)] -> List.iter (fun r -> one (n_sx (field "val" r)) r) rs
         | "iter", [_; L (A "L" :: rs)] ->
             List.iter (fun r -> match field "val" r with L [A "L"; k; _] -> one (n_sx k) r | _ -> ()) rs
         | _ -> ())
      with Bad _ -> ()));
  (match fn, a with
   | ("read" | "read_ctx"), [_; r] when pre_ = "mvreg" && !ty = "mvreg" ->
       check_ctx r;
       (* C06/C07: the read context of a register is the join of the clocks of all applied writes *)
       let know = (try Hashtbl.find know_of !cur_rep with Not_found -> []) in
       let expect_clock = deps_clock (history_of mvop_sx) (kset know) in
       let got = vc_sx (field "add_clock" r) in
       List.iter (fun p ->
         count p;
         if not (vc_eqb expect_clock got) then
           report p (Printf.sprintf "read context %s is not the join of the applied write clocks %s" (show_vc got) (show_vc expect_clock))) ["C06"; "C07"]
   | ("read" | "read_ctx" | "contains" | "get" | "len" | "is_empty"), _ when List.mem pre_ ["orswot"; "mvreg"; "mapmv"; "mapor"; "mapmm"; "mapmo"] && pre_ = !ty ->
       (match List.rev a with r :: _ -> check_ctx r; check_add a r | [] -> ())
   | ("iter" | "keys" | "values"), _ when pre_ = !ty ->
       (match List.rev a with L (A "L" :: rs) :: _ -> List.iter (fun r -> check_ctx r; check_add a r) rs | _ -> ())
   | "derive_add", [r_; A actor; c] when pre_ = "ctx" ->
       (* the derived add context covers everything the read's add context covers, plus the derived dot *)
       (try
          let add = vc_sx (field "add_clock" r_) and got = vc_sx (field "clock" c) and d = dot_sx (field "dot" c) in
          count "C07";
          if not (List.for_all (fun (x, n) -> int_of_n n <= int_of_n (vget got x)) (vc_to_list add)) then
            report "C07" (Printf.sprintf "derive_add_ctx: the derived context %s does not cover the add context %s of the read it was derived from" (show_vc got) (show_vc add));
          if int_of_n (vget got d.dactor) < int_of_n d.dcounter then
            report "C07" (Printf.sprintf "derive_add_ctx: the derived context %s does not cover its own dot %s" (show_vc got) (show_dot d))
        with Bad _ -> ());
       (match !pre with
        | [A "edit"; A r; A act] when r = act && act = actor && not !tainted ->
            (* freshness: the derived dot is the actor's next unused one *)
            let mine = List.length (List.filter (fun (a', o, _) -> string_of_int a' = actor && carries_dot o) !hist) in
            let d = dot_sx (field "dot" c) in
            count "C07";
            if int_of_n d.dcounter <> mine + 1 || show_n d.dactor <> actor then
              report "C07" (Printf.sprintf "derive_add_ctx hands out dot %s but actor %s has issued %d dots" (show_dot d) actor mine)
        | _ -> ())
   | _ -> ())

(* Op constructors build the op from the context they are given, whatever handle they are called on:
   the write carries the whole read context (C06: "a write made with the context of a read replaces
   everything that read returned"), an add carries the derived dot (C07/C04), a remove exactly the
   context that was read (C04/C05: "a remove deletes only the adds its author had read" - and all of them) *)
let opctor_call pre_ fn a =
  let vleq_ a b = List.for_all (fun (x, n) -> int_of_n n <= int_of_n (vget b x)) (vc_to_list a) in
  (match pre_, fn, a with
   (* Map::update hands its closure the add context it was given: it covers every update the replica has applied (C07),
      so a nested write made with it supersedes what the replica holds under the key (C05) *)
   | _, "update.closure", [_; c] when is_map pre_ -> mon_closures := c :: !mon_closures
   | _, "update", [_; _; ctx; _] when is_map pre_ ->
       (match !mon_closures with
        | c :: tl ->
            mon_closures := tl;
            let given = vc_sx (field "clock" ctx) and got = vc_sx (field "clock" c) in
            List.iter (fun p ->
              count p;
              if not (vleq_ given got) then
                report p (Printf.sprintf "Map::update was given the add context %s but hands its closure %s, which does not cover it" (show_vc given) (show_vc got)))
              ["C07"; "C05"]
        | [] -> ())
   | "mvreg", "write", [v; ctx; op] ->
       (match mvop_sx op with
        | MVPut (c, v') ->
            let rc = vc_sx (field "clock" ctx) in
            count "C06";
            if not (vleq_ rc c) then
              report "C06" (Printf.sprintf "write made with the read context %s carries clock %s: a value that read returned is not replaced" (show_vc rc) (show_vc c));
            if v' <> n_sx v then report "C06" "write carries another value than the one written")
   | "orswot", ("add" | "add_all"), [m; ctx; op] ->
       (match oop_sx op with
        | OAdd (d, ms) ->
            let cd = dot_sx (field "dot" ctx) in
            let want = (if fn = "add" then [n_sx m] else List.map n_sx (seq m)) in
            List.iter (fun p ->
              count p;
              if not (d.dactor = cd.dactor && d.dcounter = cd.dcounter) then
                report p (Printf.sprintf "add built from a context with dot %s carries dot %s" (show_dot cd) (show_dot d));
              if List.sort compare (List.map int_of_n ms) <> List.sort compare (List.map int_of_n want) then
                report p "add carries other members than the ones given") ["C04"; "C07"]
        | ORm _ -> report "C04" "add returns a remove op")
   | "orswot", ("rm" | "rm_all"), [m; ctx; op] ->
       (match oop_sx op with
        | ORm (c, ms) ->
            let rc = vc_sx (field "clock" ctx) in
            let want = (if fn = "rm" then [n_sx m] else List.map n_sx (seq m)) in
            count "C04";
            if not (vc_eqb rc c) then
              report "C04" (Printf.sprintf "remove built from the read context %s carries context %s" (show_vc rc) (show_vc c));
            if List.sort compare (List.map int_of_n ms) <> List.sort compare (List.map int_of_n want) then
              report "C04" "remove names other members than the ones given"
        | OAdd _ -> report "C04" "rm returns an add op")
   | _, "rm", [k; ctx; op] when is_map pre_ ->
       (match (try variant op with Bad _ -> "") with
        | "Rm" ->
            let rc = vc_sx (field "clock" ctx) and c = vc_sx (field "clock" op) in
            let ks = List.map n_sx (seq (field "keyset" op)) in
            count "C05";
            if not (vc_eqb rc c) then
              report "C05" (Printf.sprintf "key remove built from the read context %s carries context %s" (show_vc rc) (show_vc c));
            if List.map int_of_n ks <> [int_of_n (n_sx k)] then report "C05" "key remove names other keys than the one given"
        | _ -> report "C05" "Map::rm does not return a remove op")
   | _ -> ())

(* C11: an increment / decrement of n steps raises the actor's running total by exactly n
   ("no increment is lost or counted twice") *)
let c11_call pre_ fn a =
  let chk what total steps d =
    count "C11";
    if int_of_n d.dcounter <> total + steps then
      report "C11" (Printf.sprintf "%s.%s of %d step(s) on a running total of %d yields the total %d" pre_ what steps total (int_of_n d.dcounter)) in
  match pre_, fn, a with
  | "gcounter", "inc", [s; x; d] -> chk fn (int_of_n (vget (vc_sx s) (n_sx x))) 1 (dot_sx d)
  | "gcounter", "inc_many", [s; x; st; d] -> chk fn (int_of_n (vget (vc_sx s) (n_sx x))) (int_sx st) (dot_sx d)
  | "pncounter", ("inc" | "dec" | "inc_many" | "dec_many"), [s; x; st; o] ->
      let pos = (fn = "inc" || fn = "inc_many") in
      let side = vc_sx (field (if pos then "p" else "n") s) in
      let steps = if fn = "inc" || fn = "dec" then 1 else int_sx st in
      let dirok = (variant (field "dir" o) = (if pos then "Pos" else "Neg")) in
      count "C11";
      if not dirok then report "C11" (Printf.sprintf "pncounter.%s produces an op of the wrong direction" fn);
      chk fn (int_of_n (vget side (n_sx x))) steps (dot_sx (field "dot" o))
  | _ -> ()

(* C13 / C12: the consuming reads and the element accessors agree with the sequence: the value of an identifier is the
   marker of its LAST path node, and read_into returns, in order, the value of every identifier of the list *)
let c13_reads_call pre_ fn a =
  let last_marker id = (match List.rev id with (_, m) :: _ -> Some m | [] -> None) in
  (match pre_, fn, a with
   | "ident", "value", [x; r] ->
       let id = ident_sx n_sx x in
       count "C13";
       if last_marker id <> opt_sx n_sx r then
         report "C13" (Printf.sprintf "the value of identifier %s is not the element it was created for" (show_ident show_n id))
   | "glist", "read_into", [g; r] when r <> A "panic" ->
       let want = List.filter_map last_marker (glist_sx g) in
       count "C13";
       if List.map int_of_n want <> List.map int_of_n (nlist_sx r) then
         report "C13" (Printf.sprintf "read_into returns [%s], the list holds [%s]"
                         (String.concat "," (List.map show_n (nlist_sx r))) (String.concat "," (List.map show_n want)))
   | _ -> ())

let on_call (case : string) (cmd : string) (f : string) (a : sx list) =
  cur := (case, cmd);
  let pre_, fn = match String.index_opt f '.' with
    | Some i -> (String.sub f 0 i, String.sub f (i + 1) (String.length f - i - 1))
    | None -> (f, "") in
  try
    (match pre_ with
     | "vclock" -> c10_call fn a
     | "ident" -> c14_call fn a
     | "serde" when fn = "op" ->
         (match a with
          | [_; o; r] -> count "C19"; if r <> A "ok" then report "C19" ("op does not survive the serde_json round trip (" ^ atom r ^ "): " ^ String.sub (show_sx o) 0 (min 200 (String.length (show_sx o))))
          | _ -> ())
     | "serde" -> if not !tainted then serde_call a
     | _ -> ());
    if not !tainted then (try c11_call pre_ fn a with Bad _ -> ());
    (if is_map pre_ && pre_ = !ty && (fn = "apply" || fn = "merge") then
       match a, !pre with
       | _, A "law" :: _ -> ()          (* a merge computed for a law probe is not a replica's step *)
       | [b; _; r], _ -> if entry_dropped_with_pending b r then t3_drop := true
       | _ -> ());
    if not !tainted then (try opctor_call pre_ fn a with Bad _ -> ());
    (try c13_reads_call pre_ fn a with Bad _ -> ());
    if not !tainted && discipline_ok () then begin generic_call pre_ fn a; ctx_call pre_ fn a end
  with Bad m -> report "DRIVER" ("monitor error: " ^ m)

let canon_props () =
  (* C08 also speaks about pending removes travelling inside merged states *)
  (if !merges_seen then ["C03"] @ (if !all_per_actor && not !all_causal then ["C08"] else [])
   else (if !all_causal then ["C01"] else []) @ (if !all_per_actor && (!disc <> 0 || not !all_causal) then ["C08"] else []))
  @ (if is_map !ty then ["C05"] else [])

(* ---- spec comparison at every observation *)
let spec_check (know : int list) (s : sx) =
  let k = kset know in
  let cmp prop show eq spec obs =
    expect prop (fun () -> Printf.sprintf "state differs from the specification of its knowledge: spec=%s state=%s" (show spec) (show obs)) (eq spec obs) in
  match !ty with
  | "orswot" ->
      let h = history_of oop_sx in
      let st = orswot_sx s in
      cmp "C04" show_orswot orswot_eqb (ospec h k) st;
      emit_spec_case (fun () -> "orswot_eqb (ospec " ^ coq_hist "oop" coq_oop oop_sx ^ " " ^ coq_know know ^ ") " ^ coq_orswot (ospec h k));
      (* C09: an element whose known adds are all covered by applied removes stays absent *)
      let spec_entries = List.map (fun (m, _) -> int_of_n m) (nmap_to_list (ospec h k).oentries) in
      List.iter (fun (m, _) ->
        let added = List.exists (fun o -> match o with OAdd (_, ms) -> List.mem m ms | _ -> false) (known_ops h k) in
        count "C09";
        if added && not (List.mem (int_of_n m) spec_entries) then
          report "C09" (Printf.sprintf "member %s is present although every add of it the replica has applied is covered by a remove it has applied" (show_n m)))
        (nmap_to_list st.oentries);
      (* the literal sentence of C04 on the read *)
      List.iter (fun m ->
        let m = n_of_int m in
        expect "C04" (fun () -> Printf.sprintf "member %s: read says %b, surviving-add rule says %b" (show_n m)
                                  (List.mem m (nset_to_list (oread st).rval)) (c04_member h k m))
          (List.mem m (nset_to_list (oread st).rval) = c04_member h k m)) [0; 1; 2]
  | "mvreg" ->
      cmp "C06" show_mv mv_perm_eqb (mvspec (history_of mvop_sx) k) (mv_sx s);
      emit_spec_case (fun () -> "mv_perm_eqb (mvspec " ^ coq_hist "mvop" coq_mvop mvop_sx ^ " " ^ coq_know know ^ ") " ^ coq_mv (mvspec (history_of mvop_sx) k))
  | "mapmv" | "mapor" | "mapmm" | "mapmo" ->
      (* key-level specification of Map (spec/MapSpec.v): map clock, key set, entry clocks *)
      let ok = (match !ty with
        | "mapmv" -> mkeyspec_ok (history_of (mop_sx mv_inst)) k (cmap_sx mv_inst s)
        | "mapor" -> mkeyspec_ok (history_of (mop_sx or_inst)) k (cmap_sx or_inst s)
        | "mapmo" -> mkeyspec_ok (history_of (mop_sx (map_inst or_inst))) k (cmap_sx (map_inst or_inst) s)
        | _ -> mkeyspec_ok (history_of (mop_sx (map_inst mv_inst))) k (cmap_sx (map_inst mv_inst) s)) in
      (match !ty with
       | "mapor" ->
           emit_spec_case (fun () -> "Bool.eqb (mkeyspec_ok " ^ coq_hist "(mop oop)" (coq_mop coq_oop) (mop_sx or_inst) ^ " " ^ coq_know know ^ " " ^ "(" ^ coq_cmap coq_orswot (cmap_sx or_inst s) ^ " : cmap orswot)) " ^ string_of_bool ok);
           emit_spec_case (fun () -> "Bool.eqb (movalspec_ok " ^ coq_hist "(mop oop)" (coq_mop coq_oop) (mop_sx or_inst) ^ " " ^ coq_know know ^ " " ^ "(" ^ coq_cmap coq_orswot (cmap_sx or_inst s) ^ " : cmap orswot)) "
                                     ^ string_of_bool (movalspec_ok (history_of (mop_sx or_inst)) k (cmap_sx or_inst s)));
           emit_spec_case (fun () -> "Bool.eqb (mapor_nk_ok " ^ coq_hist "(mop oop)" (coq_mop coq_oop) (mop_sx or_inst) ^ " " ^ coq_know know ^ " " ^ "(" ^ coq_cmap coq_orswot (cmap_sx or_inst s) ^ " : cmap orswot)) "
                                     ^ string_of_bool (mapor_nk_ok (history_of (mop_sx or_inst)) k (cmap_sx or_inst s)))
       | "mapmv" ->
           emit_spec_case (fun () -> "Bool.eqb (mkeyspec_ok " ^ coq_hist "(mop mvop)" (coq_mop coq_mvop) (mop_sx mv_inst) ^ " " ^ coq_know know ^ " " ^ "(" ^ coq_cmap coq_mv (cmap_sx mv_inst s) ^ " : cmap (list (gmap N N * N)))) " ^ string_of_bool ok)
       | "mapmo" ->
           let i = map_inst or_inst in
           emit_spec_case (fun () -> "Bool.eqb (m2valspec_ok " ^ coq_hist "(mop (mop oop))" (coq_mop (coq_mop coq_oop)) (mop_sx i) ^ " " ^ coq_know know ^ " " ^ "(" ^ coq_cmap (coq_cmap coq_orswot) (cmap_sx i s) ^ " : cmap (cmap orswot))) "
                                     ^ string_of_bool (m2valspec_ok (history_of (mop_sx i)) k (cmap_sx i s)))
       | _ -> ());
      (* C09: a key whose every applied update is covered by an applied remove stays absent
         (theorem C09_map_removed_key_stays_absent) *)
      (let absent_ok = (match !ty with
         | "mapmv" -> let os = known_ops (history_of (mop_sx mv_inst)) k and st = cmap_sx mv_inst s in
                      List.for_all (fun (key, _) -> not (vis_empty (mspec_entry_clock os key))) (nmap_to_list st.mentries)
         | "mapor" -> let os = known_ops (history_of (mop_sx or_inst)) k and st = cmap_sx or_inst s in
                      List.for_all (fun (key, _) -> not (vis_empty (mspec_entry_clock os key))) (nmap_to_list st.mentries)
         | "mapmo" -> let os = known_ops (history_of (mop_sx (map_inst or_inst))) k and st = cmap_sx (map_inst or_inst) s in
                      List.for_all (fun (key, _) -> not (vis_empty (mspec_entry_clock os key))) (nmap_to_list st.mentries)
         | _ -> let os = known_ops (history_of (mop_sx (map_inst mv_inst))) k and st = cmap_sx (map_inst mv_inst) s in
                List.for_all (fun (key, _) -> not (vis_empty (mspec_entry_clock os key))) (nmap_to_list st.mentries)) in
       let saved = !classes in
       classes := [];
       expect "C09" (fun () -> "a key is present although every update of it the replica has applied is covered by a remove it has applied") absent_ok;
       classes := saved);
      (* value level, Map<K, Orswot>: op-based causal delivery without state transfer -- the member table under
         every key is the specification of the knowledge (theorems C05_mapor_values_refine / C01_mapor_converge of
         proofs/MapOrswot.v; T2 needs a merge, T3 leaves member tables alone: never attributed to a known finding) *)
      (* Map<K, MVReg> without key removes, op-based (no merges), per-actor delivery: the register under every key holds the
         causally maximal writes addressed to that key (C05_mapmv_values_refine_nk, C05_mapmv_vals_ok, C06_mapmv_stored_iff,
         C01_mapmv_converge_nk, C08_mapmv_per_actor_equals_causal; proofs/MapMVRegNK.v); theorem-backed, never attributed to a
         known finding (T1 needs a merge or a key remove) *)
      if !ty = "mapmv" && not !merges_seen && !all_per_actor
         && not (List.exists (fun (_, o, _) -> Known.is_rm o) !hist) then begin
        let okv = mapmv_vals_ok (history_of (mop_sx mv_inst)) k (cmap_sx mv_inst s) in
        stat ("mapmvnk_" ^ (if okv then "ok" else "bad") ^ (if !all_causal then "" else "_pa"));
        let saved = !classes in
        classes := [];
        expect_all (["C05"; "C06"] @ (if !all_causal then ["C01"] else ["C08"]))
          (fun () -> "Map<K,MVReg> without key removes and merges: the register under some key does not hold exactly the causally maximal writes addressed to that key") okv;
        classes := saved;
        emit_spec_case (fun () -> "Bool.eqb (mapmv_vals_ok " ^ coq_hist "(mop mvop)" (coq_mop coq_mvop) (mop_sx mv_inst) ^ " " ^ coq_know know ^ " (" ^ coq_cmap coq_mv (cmap_sx mv_inst s) ^ " : cmap (list (gmap N N * N)))) " ^ string_of_bool okv)
      end;
      (* Map<K, Orswot>, EVERY history outside the static classes of T2 (a key named by a key remove with two updates of one
         actor) and T3 (a key named by a key remove with an update carrying a nested remove): the complete state is
         [mapor_spec_kmn] of the knowledge under per-actor delivery, duplicates and merges (C01_mapor_kmn_refine,
         C03_mapor_kmn_merge_spec, C08_mapor_kmn_any_discipline, C20_mapor_kmn_state_eq, C05_mapor_kmn_ok;
         proofs/MapOrswotKMN.v, which subsumes MapOrswotNK.v and MapOrswotKM.v); theorem-backed, never attributed to a known finding *)
      if !ty = "mapor" && !all_per_actor then begin
        let ops = List.rev_map (fun (_, o, _) -> o) !hist in
        let rmk = List.sort_uniq compare (List.concat_map (Known.rm_keys 0) ops) and ups = List.concat_map (Known.updates 0) ops in
        let once = List.for_all (fun (lv, kk) ->
          let actors = List.filter_map (fun (l, k', a, _) -> if l = lv && k' = kk then Some a else None) ups in
          List.length actors = List.length (List.sort_uniq compare actors)) rmk in
        let addonly = List.for_all (fun (lv, kk) ->
          not (List.exists (fun (l, k', _, op) -> l = lv && k' = kk && Known.contains_remove op) ups)) rmk in
        if once && addonly then begin
          let okv = mapor_kmn_ok (history_of (mop_sx or_inst)) k (cmap_sx or_inst s) in
          stat ("mapkmn_" ^ (if okv then "ok" else "bad") ^ (if rmk = [] then "_nokrm" else "") ^ (if !merges_seen then "_merge" else ""));
          let saved = !classes in
          classes := [];
          expect_all (["C05"; "C20"] @ (if !merges_seen then ["C03"] else if !all_causal then ["C01"] else ["C08"]))
            (fun () -> "Map<K,Orswot>, history outside the classes of T2 and T3: the complete state (map clock, keys, entry clocks, nested sets with witness clocks and parked removes, pending key removes) differs from the specification of the replica's knowledge") okv;
          classes := saved;
          emit_spec_case (fun () -> "Bool.eqb (mapor_kmn_ok " ^ coq_hist "(mop oop)" (coq_mop coq_oop) (mop_sx or_inst) ^ " " ^ coq_know know ^ " (" ^ coq_cmap coq_orswot (cmap_sx or_inst s) ^ " : cmap orswot)) " ^ string_of_bool okv)
        end
      end;
      (* value level, Map<K, Orswot>, per-actor (overtaking) op-based delivery, no update carrying a nested remove:
         theorems C08_mapor_values_per_actor / C05_mapor_values_refine_per_actor (proofs/MapOrswotPA.v);
         histories with a nested remove are finding T3 territory and are left to the canonical comparison *)
      if !ty = "mapor" && not !merges_seen && !all_per_actor && not !all_causal
         && not (List.exists (fun (_, o, _) -> Known.is_up o && Known.contains_remove (field "op" o)) !hist) then begin
        let okv = movalspec_ok (history_of (mop_sx or_inst)) k (cmap_sx or_inst s) in
        stat ("mapval_pa_" ^ (if okv then "ok" else "bad"));
        let saved = !classes in
        classes := [];
        expect_all ["C05"; "C08"] (fun () -> "Map<K,Orswot>, per-actor delivery without nested removes: the members (with their witness clocks) stored under some key differ from the value-level specification of the replica's knowledge") okv;
        classes := saved
      end;
      if !ty = "mapor" && not !merges_seen && !all_causal then begin
        let okv = movalspec_ok (history_of (mop_sx or_inst)) k (cmap_sx or_inst s) in
        stat ("mapval_" ^ (if okv then "ok" else "bad"));
        let saved = !classes in
        classes := [];
        expect_all ["C01"; "C05"] (fun () -> "Map<K,Orswot>: the members (with their witness clocks) stored under some key differ from the value-level specification of the replica's knowledge (a member is present iff one of its applied adds is covered neither by an applied remove of the key nor by an applied nested remove of the member)") okv;
        classes := saved
      end;
      let cat = (if !merges_seen then "merge" else if !all_causal then "causal" else if !all_per_actor then "peractor" else "any") in
      stat ("mapkey_" ^ (if ok then "ok_" else "bad_") ^ cat);
      (* the known findings T1-T3 are about nested VALUES; none of them explains a key-level
         disagreement, so this check is never attributed to a known finding *)
      let saved = !classes in
      classes := [];
      (* theorem-backed for every property with a key-level corollary (Cxx_map_keys_* of proofs/MapKeys.v):
         C05 always; C01 on causal op-only cases; C03 once states were merged; C08 when a delivery
         overtook (per-actor order) -- the same attribution as the canonical comparison *)
      expect_all (List.sort_uniq compare ("C05" :: canon_props ()))
        (fun () -> "the map clock / key set / entry clocks differ from the key-level specification of the replica's knowledge (a key is present iff one of its applied updates is covered by no applied remove naming it)") ok;
      classes := saved
  | "gcounter" | "vclock" -> cmp "C11" show_vc vc_eqb (gcspec (history_of dot_sx) k) (vc_sx s)
  | "pncounter" ->
      cmp "C11" (fun p -> show_vc p.pn_p ^ "/" ^ show_vc p.pn_n) pn_eqb (pnspec (history_of pnop_sx) k) (pn_sx s)
  | "gset" -> cmp "C11" show_nset nset_eqb (gsspec (history_of n_sx) k) (nset_sx s)
  | "maxreg" -> cmp "C11" show_n (=) (maxspec (n_of_int 10) (history_of n_sx) k) (n_sx (field "val" s))
  | "minreg" -> cmp "C11" show_n (=) (minspec (n_of_int 10) (history_of n_sx) k) (n_sx (field "val" s))
  | "lww" ->
      cmp "C11" (fun l -> show_n l.lww_val ^ "@" ^ show_n l.lww_marker) lww_eqb
        (lwwspec { lww_val = N0; lww_marker = N0 } (history_of lww_sx) k) (lww_sx s)
  | "glist" -> cmp "C12" show_glist (=) (glspec (history_of glop_sx) k) (glist_sx s)
  | "list" ->
      cmp "C12" show_clist clist_eqb (lspec (history_of lop_sx) k) (clist_sx s);
      (* the literal sentence of C12: the sequence holds exactly the elements the replica has seen
         inserted and not deleted (identifiers of insert ops minus identifiers of delete ops), once each *)
      let ops = known_ops (history_of lop_sx) k in
      let ins = List.filter_map (function LInsert (i, v) -> Some (i, v) | _ -> None) ops
      and del = List.filter_map (function LDelete (i, _) -> Some i | _ -> None) ops in
      let expected = List.sort_uniq compare (List.filter (fun (i, _) -> not (List.mem i del)) ins) in
      let got = List.sort compare (clist_sx s).lseq in
      expect "C12" (fun () -> Printf.sprintf "the sequence does not hold exactly the elements seen inserted and not deleted: %d expected, %d present" (List.length expected) (List.length got))
        (expected = got)
  | "merkle" ->
      (* the received node set of this replica: the nodes of the ops it knows *)
      let node_of o = match o with
        | L [A "N"; nd; h] -> let n = mnode_sx nd in register_node h n; n
        | x -> bad "merkle op %s" (show_sx x) in
      let nodes = List.filter_map (fun (i, (_, o, _)) -> if List.mem i know then Some (node_of o) else None)
                    (List.mapi (fun i x -> (i, x)) (List.rev !hist)) in
      cmp "C15" show_merkle merkle_eqb (merkle_spec model_hash nodes) (merkle_sx s)
  | _ -> ()

let on_event (case : string) (cmd : string) (x : sx) =
  cur := (case, cmd);
  try
    match x with
    | L [A "taint"; _] -> tainted := true; stat "tainted_cases_events"
    | L [A "panic"] ->
        (* the implementation panicked outside the calls whose panics are part of the model *)
        stat "panics";
        if not !tainted then report "DRIVER" "the implementation panicked on a script of correct API use"
    | L (A "pre" :: rest) -> pre := rest
    | L [A "cmd"; _; _; A r] -> cur_rep := r
    | L [A "op"; A _idx; A author; o; L (A "deps" :: deps)] ->
        hist := (int_of_string author, o, List.map int_sx deps) :: !hist;
        stat "edits";
        classes := List.filter (fun (f, _) -> f <> "T2" || !merges_seen)
                     (Known.classify !ty (List.rev_map (fun (_, o, _) -> o) !hist))
    | L [A "ev"; A "deliver"; A r; A i] ->
        stat "deliveries"; case_nontrivial := true;
        (* was this delivery causal / in per-actor order, given what the replica knew before? *)
        let know = (try Hashtbl.find know_of r with Not_found -> []) in
        let h = Array.of_list (List.rev !hist) in
        let i = int_of_string i in
        if i < Array.length h then begin
          let (author, _, deps) = h.(i) in
          if not (List.for_all (fun d -> List.mem d know) deps) then all_causal := false;
          Array.iteri (fun j (a', _, _) -> if j < i && a' = author && not (List.mem j know) then all_per_actor := false) h
        end
    | L [A "ev"; A "merge"; _; _] ->
        stat "merges"; merges_seen := true; case_nontrivial := true;
        classes := Known.classify !ty (List.rev_map (fun (_, o, _) -> o) !hist)
    | L [A "ev"; A "spawn"; A idx; A from] ->
        stat "spawns";
        (* a snapshot copy carries state like a merge does; a fresh replica (from = its own index) does not *)
        if int_of_string from < int_of_string idx then begin
          merges_seen := true;
          classes := Known.classify !ty (List.rev_map (fun (_, o, _) -> o) !hist)
        end
    | L [A "obs"; A r; L (A "know" :: know); s] ->
        Hashtbl.replace know_of r (List.map int_sx know);
        if not !tainted && discipline_ok () then spec_check (List.map int_sx know) s
    | L [A "canon"; _; A same; A reads; c] ->
        if not !tainted && discipline_ok () then begin
          let short = String.sub (show_sx c) 0 (min 300 (String.length (show_sx c))) in
          (* reads (values and contexts of every read entry point) decide C01/C03/C08/C05 *)
          expect_all (canon_props ())
            (fun () -> "reads differ from those of a replica that received the same ops in causal order (canonical state=" ^ short ^ ")")
            (reads = "true");
          (* C20 is about == on the complete state *)
          expect "C20"
            (fun () -> "state is not == to the state of a replica that received the same ops in causal order (canonical state=" ^ short ^ ")")
            (same = "true")
        end
    | L [A "law"; A prop; A kind; A same; A reads; a; b] ->
        if not !tainted && discipline_ok () then begin
          (* a law line is itself about merged states: the merge-dependent class T2 applies *)
          let saved = !classes in
          classes := Known.classify !ty (List.rev_map (fun (_, o, _) -> o) !hist);
          (* the known finding T2 (resurrection through entry-clock compression) is a failure of merge GROUPING
             (associativity, hybrid, stale states): argument order and repetition are not affected by it, so a
             commutativity / idempotence failure is a different violation and is never attributed to T2.
             (T1 does break idempotence: a register whose value clocks were trimmed by a partial key remove may
             hold ordered clocks, and merging it with itself drops the dominated value.) *)
          if prop = "C02" && (kind = "comm" || kind = "idem") then classes := List.filter (fun (f, _) -> f <> "T2") !classes;
          stat ("law_" ^ kind);
          let cut x = String.sub (show_sx x) 0 (min 400 (String.length (show_sx x))) in
          expect prop (fun () -> Printf.sprintf "%s law fails on reads: %s vs %s" kind (cut a) (cut b)) (reads = "true");
          (* structural equality of the two results belongs to C20 (C18 laws are about == themselves) *)
          if prop = "C18" then
            expect "C18" (fun () -> Printf.sprintf "reset_remove %s law fails (==): %s vs %s" kind (cut a) (cut b)) (same = "true" || state_eq !ty a b)
          else
          expect "C20" (fun () -> Printf.sprintf "%s: equal knowledge but the states are not ==: %s vs %s" kind (cut a) (cut b))
            (same = "true" || state_eq !ty a b);
          classes := saved
        end
    | L [A "idx"; A kind; before; ix; x; after] ->
        (* C13: local edits land at the requested index (Vec model) *)
        if before <> A "panic" && after <> A "panic" then begin
          let b = nlist_sx before and a = nlist_sx after in
          let i = int_sx ix in
          let expected = match kind with
            | "insert" -> vec_insert_at (nat_of_int (min i (List.length b))) (n_sx x) b
            | "delete" -> vec_remove_at (nat_of_int i) b
            | _ -> b in
          let show l = String.concat "," (List.map show_n l) in
          expect "C13" (fun () -> Printf.sprintf "%s at index %d of [%s] gave [%s], the sequential model gives [%s]" kind i (show b) (show a) (show expected))
            (expected = a);
          if kind = "delete_none" then
            expect "C13" (fun () -> "delete_index returned None for an index inside the list") (i >= List.length b)
        end
    | L [A "endcase"] -> if !case_nontrivial then stat "nontrivial_cases"
    | _ -> ()
  with Bad m -> report "DRIVER" ("monitor error: " ^ m)

let finish () =
  let l = Hashtbl.fold (fun k v acc -> (k, v) :: acc) checks [] |> List.sort compare in
  Printf.printf "MONITORS violations=%d known=%d %s\n" !violations !knowns
    (String.concat " " (List.map (fun (k, v) -> Printf.sprintf "%s=%d" k v) l));
  let s = Hashtbl.fold (fun k v acc -> (k, v) :: acc) stats [] |> List.sort compare in
  Printf.printf "STATS %s\n" (String.concat " " (List.map (fun (k, v) -> Printf.sprintf "%s=%d" k v) s))
