(* Executable class predicates of the known findings (KNOWN_FINDINGS.json).
   A monitor violation is reported as KNOWN only when the history of the case
   lies inside a class listed for that property. *)
open Driver
type string = Stdlib.String.t

let props_of fid = try List.assoc fid Known_table.table with Not_found -> []
let search_mode = (try Sys.getenv "VERIF_KNOWN_ALL" = "1" with Not_found -> false)
let applies fid prop = if search_mode then true else List.mem prop (props_of fid)

let is_up o = (try variant o = "Up" with Bad _ -> false)
let is_rm o = (try variant o = "Rm" with Bad _ -> false)

(* all (level, key) pairs named by a key-remove, at any nesting level *)
let rec rm_keys level o : (int * string) list =
  if is_rm o && (try ignore (field "keyset" o); true with Bad _ -> false) then
    List.map (fun k -> (level, show_sx k)) (seq (field "keyset" o))
  else if is_up o then rm_keys (level + 1) (field "op" o)
  else []

(* (level, key, actor, nested op) of every update, at any nesting level *)
let rec updates level o : (int * string * string * sx) list =
  if is_up o then
    let d = field "dot" o in
    (level, show_sx (field "key" o), show_sx (field "actor" d), field "op" o) :: updates (level + 1) (field "op" o)
  else []

let rec contains_remove o =
  if is_rm o then true
  else if is_up o then contains_remove (field "op" o)
  else false

(* the innermost Put of an update, with the dot of the enclosing top-level update *)
let rec inner_put o = if is_up o then inner_put (field "op" o) else (try if variant o = "Put" then Some o else None with Bad _ -> None)

let classify (ty : string) (ops : sx list) : (string * string) list =
  let res = ref [] in
  let add f d = if not (List.mem_assoc f !res) then res := (f, d) :: !res in
  (match ty with
   | "mapmv" | "mapor" | "mapmm" | "mapmo" ->
       let rmk = List.concat_map (rm_keys 0) ops in
       let ups = List.concat_map (updates 0) ops in
       (* T1: MVReg leaves whose Put clock is not the singleton of the update's dot *)
       if ty <> "mapor" && ty <> "mapmo" then
         List.iter (fun o ->
           if is_up o then
             match inner_put o with
             | Some p ->
                 let d = field "dot" o in
                 let c = pairs_of_map (field "clock" p) in
                 (match c with
                  | [(a, n)] when show_sx a = show_sx (field "actor" d) && show_sx n = show_sx (field "counter" d) -> ()
                  | _ -> add "T1" "a nested Put carries a clock that is not the singleton of its own dot")
             | None -> ()) ops;
       (* T2: a key named by a key-remove has two updates by one actor *)
       List.iter (fun (lv, k) ->
         let mine = List.filter (fun (l, k', _, _) -> l = lv && k' = k) ups in
         let actors = List.map (fun (_, _, a, _) -> a) mine in
         if List.length actors <> List.length (List.sort_uniq compare actors) then
           add "T2" "a key named by a key-remove has two updates by one actor";
         (* T3: ... has an update whose nested op is or contains a remove *)
         if List.exists (fun (_, _, _, op) -> contains_remove op) mine then
           add "T3" "a key named by a key-remove has an update carrying a nested remove") rmk
   | _ -> ());
  (* K2: add_all with two or more distinct members (also nested in a map) *)
  (match ty with
   | "orswot" | "mapor" ->
       let rec adds o =
         if is_up o then adds (field "op" o)
         else (try if variant o = "Add" then [List.length (List.sort_uniq compare (List.map show_sx (seq (field "members" o))))] else [] with Bad _ -> []) in
       if List.exists (fun o -> List.exists (fun n -> n >= 2) (adds o)) ops then
         add "K2" "the history contains an add_all of two or more members"
   | _ -> ());
  !res
