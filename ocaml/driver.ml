(* Correspondence driver: reads the trace printed by the Rust harness, replays every
   logged call on the extracted Coq model and reports where the results differ.
   History events are handed to the monitors (monitors.ml). *)
open Model
type string = Stdlib.String.t

(* ------------------------------------------------------------------ s-expressions *)
type sx = A of string | L of sx list

let parse_sx (s : string) : sx =
  let n = String.length s in
  let pos = ref 0 in
  let rec skip () = if !pos < n && (s.[!pos] = ' ' || s.[!pos] = '\n') then (incr pos; skip ()) in
  let rec item () =
    skip ();
    if !pos >= n then failwith "sexp: eof"
    else if s.[!pos] = '(' then begin
      incr pos;
      let items = ref [] in
      let rec loop () =
        skip ();
        if !pos >= n then failwith "sexp: eof in list"
        else if s.[!pos] = ')' then incr pos
        else begin items := item () :: !items; loop () end in
      loop ();
      L (List.rev !items)
    end else begin
      let st = !pos in
      while !pos < n && s.[!pos] <> ' ' && s.[!pos] <> '(' && s.[!pos] <> ')' do incr pos done;
      A (String.sub s st (!pos - st))
    end in
  item ()

let rec show_sx = function
  | A s -> s
  | L l -> "(" ^ String.concat " " (List.map show_sx l) ^ ")"

exception Bad of string
let bad fmt = Printf.ksprintf (fun s -> raise (Bad s)) fmt

(* ------------------------------------------------------------------ numbers *)
let rec pos_of_int (i : int) : positive =
  if i <= 1 then XH else if i land 1 = 0 then XO (pos_of_int (i lsr 1)) else XI (pos_of_int (i lsr 1))
let n_of_int (i : int) : n = if i <= 0 then N0 else Npos (pos_of_int i)
let z_of_int (i : int) : z = if i = 0 then Z0 else if i > 0 then Zpos (pos_of_int i) else Zneg (pos_of_int (-i))
let rec int_of_pos = function XH -> 1 | XO p -> 2 * int_of_pos p | XI p -> 2 * int_of_pos p + 1
let int_of_n = function N0 -> 0 | Npos p -> int_of_pos p
let int_of_z = function Z0 -> 0 | Zpos p -> int_of_pos p | Zneg p -> - (int_of_pos p)
let nat_of_int i = n_to_nat (n_of_int i)
let rec int_of_nat = function O -> 0 | S k -> 1 + int_of_nat k

let atom = function A s -> s | L _ as x -> bad "atom expected: %s" (show_sx x)
let int_sx x = try int_of_string (atom x) with Failure _ -> bad "int expected: %s" (show_sx x)
(* numbers beyond OCaml's int (u64 counters near 2^64, BigUint sums): decimal digits folded with the model's own N arithmetic *)
let n_of_decimal (str : string) : n =
  String.fold_left (fun acc c ->
    if c < '0' || c > '9' then bad "decimal expected: %s" str
    else n_add (n_mul acc (n_of_int 10)) (n_of_int (Char.code c - 48))) N0 str
let n_sx x = (match x with
  | A str when String.length str > 17 -> n_of_decimal str
  | _ -> n_of_int (int_sx x))
let bool_sx x = match atom x with "true" -> true | "false" -> false | s -> bad "bool: %s" s

let tagged tag = function
  | L (A t :: rest) when t = tag -> rest
  | x -> bad "expected (%s ...): %s" tag (show_sx x)
let field name = function
  | L (A ("R" | "V") :: rest) as x ->
      (let rec find = function
        | L [A f; v] :: _ when f = name -> v
        | _ :: tl -> find tl
        | [] -> bad "no field %s in %s" name (show_sx x) in
      find rest)
  | x -> bad "record expected for field %s: %s" name (show_sx x)
let variant = function
  | L (A "V" :: A name :: _) -> name
  | x -> bad "variant expected: %s" (show_sx x)
let variant_payload = function
  | L (A "V" :: A _ :: rest) -> rest
  | x -> bad "variant expected: %s" (show_sx x)
let pairs_of_map x = List.map (function L [k; v] -> (k, v) | y -> bad "map entry: %s" (show_sx y)) (tagged "M" x)
let seq x = tagged "L" x
let opt_sx f = function
  | L [A "none"] -> None
  | L [A "some"; v] -> Some (f v)
  | x -> bad "option: %s" (show_sx x)

(* ------------------------------------------------------------------ model values *)
let vc_sx x = vc_of_list (List.map (fun (k, v) -> (n_sx k, n_sx v)) (pairs_of_map x))
let dot_sx x = { dactor = n_sx (field "actor" x); dcounter = n_sx (field "counter" x) }
let nlist_sx x = List.map n_sx (seq x)
let nset_sx x = nset_of_list (nlist_sx x)

let rec pos_bits_ = function XH -> 1 | XO p | XI p -> 1 + pos_bits_ p
let show_n x = (match x with Npos p when pos_bits_ p > 61 -> "<" ^ string_of_int (pos_bits_ p) ^ "-bit number>" | _ -> string_of_int (int_of_n x))
let show_vc c =
  let l = List.sort compare (List.map (fun (a, b) -> (int_of_n a, int_of_n b)) (vc_to_list c)) in
  "{" ^ String.concat "," (List.map (fun (a, b) -> Printf.sprintf "%d:%d" a b) l) ^ "}"
let show_nset s = "[" ^ String.concat "," (List.map string_of_int (List.sort compare (List.map int_of_n (nset_to_list s)))) ^ "]"
let show_dot d = Printf.sprintf "%d.%d" (int_of_n d.dactor) (int_of_n d.dcounter)
let show_deferred d =
  String.concat ";" (List.sort compare (List.map (fun (c, ks) -> show_vc c ^ "->" ^ show_nset ks) (cmap_to_list d)))

let orswot_sx x =
  { oclock = vc_sx (field "clock" x);
    oentries = nmap_of_list (List.map (fun (k, v) -> (n_sx k, vc_sx v)) (pairs_of_map (field "entries" x)));
    odeferred = cmap_of_list (List.map (fun (k, v) -> (vc_sx k, nset_sx v)) (pairs_of_map (field "deferred" x))) }
let show_orswot s =
  Printf.sprintf "orswot{clock=%s entries=%s deferred=%s}" (show_vc s.oclock)
    (String.concat ";" (List.sort compare (List.map (fun (m, c) -> show_n m ^ "@" ^ show_vc c) (nmap_to_list s.oentries))))
    (show_deferred s.odeferred)
let oop_sx x =
  match variant x with
  | "Add" -> OAdd (dot_sx (field "dot" x), nlist_sx (field "members" x))
  | "Rm" -> ORm (vc_sx (field "clock" x), nlist_sx (field "members" x))
  | v -> bad "orswot op %s" v
let show_oop = function
  | OAdd (d, ms) -> Printf.sprintf "Add(%s,[%s])" (show_dot d) (String.concat "," (List.map show_n ms))
  | ORm (c, ms) -> Printf.sprintf "Rm(%s,[%s])" (show_vc c) (String.concat "," (List.map show_n ms))
let oop_eqb a b =
  match a, b with
  | OAdd (d, ms), OAdd (d', ms') -> d = d' && ms = ms'
  | ORm (c, ms), ORm (c', ms') -> vc_eqb c c' && ms = ms'
  | _ -> false

let mv_sx x = List.map (function L [A "L"; c; v] -> (vc_sx c, n_sx v) | y -> bad "mvreg entry %s" (show_sx y)) (seq x)
let show_mv s = "mv[" ^ String.concat ";" (List.map (fun (c, v) -> show_n v ^ "@" ^ show_vc c) s) ^ "]"
let mvop_sx x = MVPut (vc_sx (field "clock" x), n_sx (field "val" x))
let show_mvop (MVPut (c, v)) = Printf.sprintf "Put(%s,%s)" (show_vc c) (show_n v)
let mvop_eqb (MVPut (c, v)) (MVPut (c', v')) = vc_eqb c c' && v = v'

let readctx_sx fv x = { add_clock = vc_sx (field "add_clock" x); rm_clock = vc_sx (field "rm_clock" x); rval = fv (field "val" x) }
let readctx_eqb feq a b = vc_eqb a.add_clock b.add_clock && vc_eqb a.rm_clock b.rm_clock && feq a.rval b.rval
let show_readctx fs r = Printf.sprintf "ctx{add=%s rm=%s val=%s}" (show_vc r.add_clock) (show_vc r.rm_clock) (fs r.rval)
let addctx_sx x = { ac_clock = vc_sx (field "clock" x); ac_dot = dot_sx (field "dot" x) }
let addctx_eqb a b = vc_eqb a.ac_clock b.ac_clock && a.ac_dot = b.ac_dot
let show_addctx a = Printf.sprintf "addctx{%s %s}" (show_vc a.ac_clock) (show_dot a.ac_dot)
let rmctx_sx x = vc_sx (field "clock" x)
let unit_sx _ = ()

(* generic Map instantiation *)
type ('v, 'o, 'e) inst = {
  vo : ('v, 'o, 'e) valops;
  v_sx : sx -> 'v;
  o_sx : sx -> 'o;
  v_dec : 'v -> 'v -> bool;
  o_eqb : 'o -> 'o -> bool;
  v_show : 'v -> string;
  o_show : 'o -> string;
}
let mv_inst = { vo = mvreg_valops; v_sx = mv_sx; o_sx = mvop_sx; v_dec = mv_dec; o_eqb = mvop_eqb; v_show = show_mv; o_show = show_mvop }
let or_inst = { vo = orswot_valops; v_sx = orswot_sx; o_sx = oop_sx; v_dec = orswot_dec; o_eqb = oop_eqb; v_show = show_orswot; o_show = show_oop }

let cmap_sx i x =
  { mclock = vc_sx (field "clock" x);
    mentries = nmap_of_list (List.map (fun (k, e) -> (n_sx k, { eclock = vc_sx (field "clock" e); eval = i.v_sx (field "val" e) }))
                               (pairs_of_map (field "entries" x)));
    mdeferred = cmap_of_list (List.map (fun (k, v) -> (vc_sx k, nset_sx v)) (pairs_of_map (field "deferred" x))) }
let show_cmap i s =
  Printf.sprintf "map{clock=%s entries=%s deferred=%s}" (show_vc s.mclock)
    (String.concat ";" (List.sort compare (List.map (fun (k, e) -> show_n k ^ "@" ^ show_vc e.eclock ^ "=" ^ i.v_show e.eval) (nmap_to_list s.mentries))))
    (show_deferred s.mdeferred)
let mop_sx i x =
  match variant x with
  | "Rm" -> MRm (vc_sx (field "clock" x), nset_sx (field "keyset" x))
  | "Up" -> MUp (dot_sx (field "dot" x), n_sx (field "key" x), i.o_sx (field "op" x))
  | v -> bad "map op %s" v
let show_mop i = function
  | MRm (c, ks) -> Printf.sprintf "Rm(%s,%s)" (show_vc c) (show_nset ks)
  | MUp (d, k, o) -> Printf.sprintf "Up(%s,%s,%s)" (show_dot d) (show_n k) (i.o_show o)
let mop_eqb i a b =
  match a, b with
  | MRm (c, ks), MRm (c', ks') -> vc_eqb c c' && nset_eqb ks ks'
  | MUp (d, k, o), MUp (d', k', o') -> d = d' && k = k' && i.o_eqb o o'
  | _ -> false
let map_inst i =
  { vo = map_valops i.vo; v_sx = cmap_sx i; o_sx = mop_sx i; v_dec = cmap_dec i.v_dec; o_eqb = mop_eqb i;
    v_show = show_cmap i; o_show = show_mop i }

(* rationals / identifiers *)
let bigint_sx x =
  match seq x with
  | [sign; digits] ->
      let base = z_of_int 4294967296 in
      let mag = List.fold_right (fun d acc -> z_add (z_mul acc base) (z_of_int (int_sx d))) (seq digits) Z0 in
      if int_sx sign < 0 then z_opp mag else mag
  | _ -> bad "bigint %s" (show_sx x)
let rat_sx x =
  match seq x with
  | [nu; de] ->
      (match bigint_sx de with
       | Zpos p -> mkqc (bigint_sx nu) p
       | _ -> bad "rational with non-positive denominator")
  | _ -> bad "rational %s" (show_sx x)
let ident_sx fm x = List.map (fun nd -> match seq nd with [r; m] -> (rat_sx r, fm m) | _ -> bad "ident node") (seq x)
let orddot_sx x = (n_sx (field "actor" x), n_sx (field "counter" x))
let show_q (q : qc) = Printf.sprintf "%d/%d" (int_of_z q.qnum) (int_of_pos q.qden)
let show_ident fm i = "<" ^ String.concat " " (List.map (fun (r, m) -> show_q r ^ ":" ^ fm m) i) ^ ">"
let show_od (a, c) = show_n a ^ "." ^ show_n c

let glist_sx x = List.map (ident_sx n_sx) (seq x)
let show_glist g = "[" ^ String.concat ", " (List.map (show_ident show_n) g) ^ "]"
let clist_sx x =
  { lseq = List.map (fun p -> match seq p with [i; v] -> (ident_sx orddot_sx i, n_sx v) | _ -> bad "list entry") (seq (field "seq" x));
    lclock = vc_sx (field "clock" x) }
let show_clist l =
  Printf.sprintf "list{seq=[%s] clock=%s}" (String.concat ", " (List.map (fun (i, v) -> show_ident show_od i ^ "=" ^ show_n v) l.lseq)) (show_vc l.lclock)
let clist_eqb a b = a.lseq = b.lseq && vc_eqb a.lclock b.lclock
let lop_sx x =
  match variant x with
  | "Insert" -> LInsert (ident_sx orddot_sx (field "id" x), n_sx (field "val" x))
  | "Delete" -> LDelete (ident_sx orddot_sx (field "id" x), dot_sx (field "dot" x))
  | v -> bad "list op %s" v

(* merkle: real hashes <-> model hashes *)
let hash_ids : (string, n) Hashtbl.t = Hashtbl.create 64
let node_ids : (int list * int, n) Hashtbl.t = Hashtbl.create 64
let next_hid = ref 0
let hid x =
  let key = show_sx x in
  match Hashtbl.find_opt hash_ids key with
  | Some i -> i
  | None -> incr next_hid; let i = n_of_int !next_hid in Hashtbl.add hash_ids key i; i
let bytes_n x = List.fold_right (fun b acc -> n_add (n_mul acc (n_of_int 256)) (n_sx b)) (seq x) N0
let node_key (nd : mnode) = (List.sort compare (List.map int_of_n (nset_to_list nd.nchildren)), int_of_n nd.nvalue)
let mnode_sx x = { nchildren = nset_of_list (List.map hid (seq (field "children" x))); nvalue = bytes_n (field "value" x) }
let register_node hx nd =
  let h = hid hx in
  (match Hashtbl.find_opt node_ids (node_key nd) with
   | Some h' when h' <> h -> bad "two hashes for one node"
   | _ -> Hashtbl.replace node_ids (node_key nd) h)
let model_hash (nd : mnode) : n =
  match Hashtbl.find_opt node_ids (node_key nd) with
  | Some h -> h
  | None -> bad "model hash of unregistered node"
let nodemap_sx x =
  nmap_of_list (List.map (fun p -> match seq p with
    | [h; nd] -> let node = mnode_sx nd in register_node h node; (hid h, node)
    | _ -> bad "dag entry") (seq x))
let merkle_sx x =
  { mk_roots = nset_of_list (List.map hid (seq (field "roots" x)));
    mk_dag = nodemap_sx (field "dag" x);
    mk_orphans = nodemap_sx (field "orphans" x) }
let show_nodemap m =
  String.concat ";" (List.sort compare (List.map (fun (h, nd) -> Printf.sprintf "%s:(%s,%s)" (show_n h) (show_nset nd.nchildren) (show_n nd.nvalue)) (nmap_to_list m)))
let show_merkle s = Printf.sprintf "merkle{roots=%s dag=%s orphans=%s}" (show_nset s.mk_roots) (show_nodemap s.mk_dag) (show_nodemap s.mk_orphans)

(* ------------------------------------------------------------------ results *)
let ord_sx x = match atom x with
  | "none" -> None | "lt" -> Some Lt | "eq" -> Some Eq | "gt" -> Some Gt | s -> bad "ordering %s" s
let show_ord = function None -> "none" | Some Lt -> "lt" | Some Eq -> "eq" | Some Gt -> "gt"
let range_sx = function
  | A "ok" -> None
  | L [A "err"; a; lo; hi] -> Some ((n_sx a, n_sx lo), n_sx hi)
  | L [A "source"; a; lo; hi] -> Some ((n_sx a, n_sx lo), n_sx hi)
  | x -> bad "range %s" (show_sx x)
let show_range = function None -> "ok" | Some ((a, lo), hi) -> Printf.sprintf "(err %s %s %s)" (show_n a) (show_n lo) (show_n hi)
let okerr x = match atom x with "ok" -> true | "err" -> false | s -> bad "ok/err %s" s

(* a check returns None when model and implementation agree, Some description otherwise *)
let cmp eq show model impl = if eq model impl then None else Some (Printf.sprintf "model=%s impl=%s" (show model) (show impl))
let cmpb = cmp (=) string_of_bool
let cmpvc = cmp vc_eqb show_vc

(* ------------------------------------------------------------------ Map calls, generic in the instance *)
(* the (value, context) pairs the closures of Map::update received since the last "update" call line (a stack: the update of a nested map
   runs inside the outer closure) *)
let closure_args : (sx * sx) list ref = ref []
let pre_is_this_map (_ : sx) = true
let map_call i (f : string) (a : sx list) : string option =
  let mi = map_inst i in
  let st = cmap_sx i in
  let show = show_cmap i in
  let eq = cmap_eqb i.v_dec in
  match f, a with
  | "apply", [s; o; s'] -> cmp eq show (mapply i.vo (st s) (mop_sx i o)) (st s')
  | "merge", [s; o; s'] -> cmp eq show (mmerge i.vo (st s) (st o)) (st s')
  | "reset", [s; c; s'] -> cmp eq show (mreset i.vo (st s) (vc_sx c)) (st s')
  | "validate_merge", [s; o; r] -> cmpb (mvalidate_merge i.vo (st s) (st o)) (okerr r)
  | "validate_op", [s; o; r] ->
      let m = mvalidate_op i.vo (st s) (mop_sx i o) in
      let ms = match m with None -> "ok" | Some (SourceOrder r) -> "source" ^ show_range (Some r) | Some (ValueErr _) -> "value" in
      let is = match r with A "ok" -> "ok" | A "value" -> "value" | x -> "source" ^ show_range (range_sx x) in
      cmp (=) (fun x -> x) ms is
  | "get", [s; k; r] ->
      cmp (readctx_eqb (option_eqb i.v_dec)) (show_readctx (function None -> "none" | Some v -> i.v_show v))
        (mget (st s) (n_sx k)) (readctx_sx (opt_sx i.v_sx) r)
  | "len", [s; r] -> cmp (readctx_eqb (=)) (show_readctx show_n) (mlen (st s)) (readctx_sx n_sx r)
  | "is_empty", [s; r] -> cmp (readctx_eqb (=)) (show_readctx string_of_bool) (mis_empty (st s)) (readctx_sx bool_sx r)
  | "read_ctx", [s; r] -> cmp (readctx_eqb (=)) (show_readctx (fun () -> "()")) (mread_ctx (st s)) (readctx_sx unit_sx r)
  | ("iter" | "keys" | "values"), [s; r] ->
      let model = miter (st s) in
      let key (c : _ readctx) = (show_vc c.add_clock, show_vc c.rm_clock, c.rval) in
      let proj (c : (n * 'v) readctx) = match f with
        | "keys" -> (show_vc c.add_clock, show_vc c.rm_clock, show_n (fst c.rval))
        | "values" -> (show_vc c.add_clock, show_vc c.rm_clock, i.v_show (snd c.rval))
        | _ -> (show_vc c.add_clock, show_vc c.rm_clock, show_n (fst c.rval) ^ "=" ^ i.v_show (snd c.rval)) in
      let impl = List.map (fun x ->
        let c = readctx_sx (fun v -> v) x in
        let vs = match f with
          | "keys" -> show_n (n_sx c.rval)
          | "values" -> i.v_show (i.v_sx c.rval)
          | _ -> (match seq c.rval with [k; v] -> show_n (n_sx k) ^ "=" ^ i.v_show (i.v_sx v) | _ -> bad "iter item") in
        key { c with rval = vs }) (seq r) in
      cmp (=) (fun l -> String.concat "|" (List.map (fun (a, b, c) -> a ^ b ^ c) l))
        (List.sort compare (List.map proj model)) (List.sort compare impl)
  | "update.closure", [v; c] -> closure_args := (v, c) :: !closure_args; None
  | "update", [s; k; ctx; o] ->
      (* the op the closure produced is taken from the implementation's op; the model
         must agree on the dot, the key and, through the closure call lines, the nested op *)
      let impl = mop_sx i o in
      let nested = match impl with MUp (_, _, op) -> op | _ -> bad "update produced Rm" in
      (* closure calls nest (an update of a nested map runs inside the outer closure): the most recent one is ours *)
      let seen = !closure_args in
      closure_args := (match seen with _ :: tl -> tl | [] -> []);
      (match cmp (mop_eqb i) (show_mop i) (mupdate i.vo (st s) (n_sx k) (addctx_sx ctx) (fun _ _ -> nested)) impl with
       | Some m -> Some m
       | None ->
           (* Map::update hands its closure the value stored under the key (the default when absent) and the add
              context it was given, unchanged (model: [mupdate vo s k ctx f = MUp (ac_dot ctx) k (f v ctx)]) *)
           (match seen with
            | (v, c) :: _ when pre_is_this_map s ->
                let want_v = (match List.assoc_opt (int_of_n (n_sx k)) (List.map (fun (k', e) -> (int_of_n k', e)) (nmap_to_list (st s).mentries)) with
                              | Some e -> e.eval | None -> i.vo.v_default) in
                if not (i.v_dec want_v (i.v_sx v)) then Some ("update: the closure received " ^ i.v_show (i.v_sx v) ^ ", the value under the key is " ^ i.v_show want_v)
                else
                  let a1 = addctx_sx ctx and a2 = addctx_sx c in
                  if not (vc_eqb a1.ac_clock a2.ac_clock && a1.ac_dot = a2.ac_dot) then
                    Some ("update: the closure received the context " ^ show_vc a2.ac_clock ^ ", update was given " ^ show_vc a1.ac_clock)
                  else None
            | _ -> None))
  | "rm", [k; ctx; o] -> cmp (mop_eqb i) (show_mop i) (mrm (n_sx k) (rmctx_sx ctx)) (mop_sx i o)
  | _ -> ignore mi; bad "unknown map call %s/%d" f (List.length a)

(* ------------------------------------------------------------------ dispatch *)
let serde_hook : (string -> sx list -> string option) ref = ref (fun _ _ -> None)

let check_call (f : string) (a : sx list) : string option =
  let pre, fn = match String.index_opt f '.' with
    | Some i -> (String.sub f 0 i, String.sub f (i + 1) (String.length f - i - 1))
    | None -> (f, "") in
  match pre, fn, a with
  (* ---- order-free types: validate_op / validate_merge accept everything; Default; constructors *)
  | ("gcounter" | "pncounter" | "gset" | "maxreg" | "minreg" | "glist" | "mvreg"), ("validate_op" | "validate_merge"), [_; _; r] -> cmpb true (okerr r)
  | ("vclock" | "merkle"), "validate_merge", [_; _; r] -> cmpb true (okerr r)
  | "gset", "default", [s] -> cmp nset_eqb show_nset (nset_of_list []) (nset_sx s)
  | ("maxreg" | "minreg"), "default", [s] -> cmp (=) show_n (n_of_int 0) (n_sx (field "val" s))
  | ("maxreg" | "minreg"), "new", [v; s] -> cmp (=) show_n (n_sx v) (n_sx (field "val" s))
  | "lww", "default", [s] -> cmp (=) (fun (a, b) -> show_n a ^ "@" ^ show_n b) (n_of_int 0, n_of_int 0) (n_sx (field "val" s), n_sx (field "marker" s))
  | "lww", "new", [v; m; s] -> cmp (=) (fun (a, b) -> show_n a ^ "@" ^ show_n b) (n_sx v, n_sx m) (n_sx (field "val" s), n_sx (field "marker" s))
  | "dot", "eq", [d; e; r; twin] ->
      let x = dot_sx d and y = dot_sx e in
      (match cmpb (x.dactor = y.dactor && x.dcounter = y.dcounter) (bool_sx r) with
       | Some m -> Some m
       | None -> cmpb true (bool_sx twin))
  | "list", "op_id", [o; i; d] ->
      (match lop_sx o with
       | LInsert (id, _) ->
           (match cmp (=) (show_ident (fun (a, c) -> show_n a ^ "." ^ show_n c)) id (ident_sx orddot_sx i) with
            | Some m -> Some m
            | None ->
                (* the op's dot is the marker of the last path node of a freshly built identifier *)
                (match List.rev id with
                 | (_, (a, c)) :: _ -> cmp (=) show_dot { dactor = a; dcounter = c } (dot_sx d)
                 | [] -> Some "empty identifier"))
       | LDelete (id, dd) ->
           (match cmp (=) (show_ident (fun (a, c) -> show_n a ^ "." ^ show_n c)) id (ident_sx orddot_sx i) with
            | Some m -> Some m
            | None -> cmp (=) show_dot dd (dot_sx d)))
  | "ident", "from", [k; v; r] ->
      let z = int_sx k in
      let q = mkqc (if z >= 0 then z_of_n (n_of_int z) else z_opp (z_of_n (n_of_int (- z)))) XH in
      cmp (=) (show_ident show_n) [(q, n_sx v)] (ident_sx n_sx r)
  (* ---- vclock *)
  | ("vclock" | "gcounter"), "get", [c; x; r] -> cmp (=) show_n (vget (vc_sx c) (n_sx x)) (n_sx r)
  | "vclock", "is_empty", [c; r] -> cmpb (vis_empty (vc_sx c)) (bool_sx r)
  | ("vclock" | "gcounter"), "inc", [c; x; d] -> cmp (=) show_dot (vinc (vc_sx c) (n_sx x)) (dot_sx d)
  | ("vclock" | "gcounter"), "apply", [c; d; r] -> cmpvc (vapply (vc_sx c) (dot_sx d)) (vc_sx r)
  | ("vclock" | "gcounter"), "merge", [c; o; r] -> cmpvc (vmerge (vc_sx c) (vc_sx o)) (vc_sx r)
  | ("vclock" | "gcounter"), "reset", [c; o; r] -> cmpvc (vreset (vc_sx c) (vc_sx o)) (vc_sx r)
  | "vclock", "clone_without", [c; o; r] -> cmpvc (vclone_without (vc_sx c) (vc_sx o)) (vc_sx r)
  | "vclock", "glb", [c; o; r] -> cmpvc (vglb (vc_sx c) (vc_sx o)) (vc_sx r)
  | "vclock", "intersection", [c; o; r] -> cmpvc (vintersection (vc_sx c) (vc_sx o)) (vc_sx r)
  | "vclock", "cmp", [c; o; r] -> cmp (=) show_ord (vcmp (vc_sx c) (vc_sx o)) (ord_sx r)
  | "vclock", "concurrent", [c; o; r] -> cmpb (vconcurrent (vc_sx c) (vc_sx o)) (bool_sx r)
  | "vclock", "ops", [c; o; lt; le; gt; ge; eq] ->
      let x = vc_sx c and y = vc_sx o in
      cmp (=) (fun (a, b, c', d, e) -> Printf.sprintf "lt=%b le=%b gt=%b ge=%b eq=%b" a b c' d e)
        (vlt x y, vle x y, vgt x y, vge x y, vc_eqb x y) (bool_sx lt, bool_sx le, bool_sx gt, bool_sx ge, bool_sx eq)
  | "vclock", "validate_op", [c; d; r] -> cmp (=) show_range (vvalidate_op (vc_sx c) (dot_sx d)) (range_sx r)
  | "vclock", "from_dot", [d; r] -> cmpvc (vfrom_dot (dot_sx d)) (vc_sx r)
  | "vclock", "dot", [c; x; d] -> cmp (=) show_dot (vdot (vc_sx c) (n_sx x)) (dot_sx d)
  | "dot", "inc", [d; r] -> cmp (=) show_dot (dinc (dot_sx d)) (dot_sx r)
  | "vclock", "iter", [c; ds] ->
      (* iter / into_iter yield exactly the stored (actor, counter) pairs, in actor order *)
      let want = List.sort compare (List.map (fun (a, n) -> (int_of_n a, int_of_n n)) (vc_to_list (vc_sx c))) in
      let got = List.map (fun d -> let d = dot_sx d in (int_of_n d.dactor, int_of_n d.dcounter)) (seq ds) in
      cmp (=) (fun l -> String.concat "," (List.map (fun (a, n) -> Printf.sprintf "%d:%d" a n) l)) want got
  | "dot", "conv", [d; od; back; tup] ->
      (* Dot <-> OrdDot <-> (actor, counter) conversions keep both fields *)
      let d = dot_sx d in
      cmp (=) (fun l -> String.concat " " (List.map show_dot l)) [d; d; d]
        [{ dactor = n_sx (field "actor" od); dcounter = n_sx (field "counter" od) }; dot_sx back; dot_sx tup]
  | "vclock", "from_iter", [ds; r] -> cmpvc (vfrom_iter (List.map dot_sx (seq ds))) (vc_sx r)
  | "dot", "cmp", [d; e; r] -> cmp (=) show_ord (dcmp (dot_sx d) (dot_sx e)) (ord_sx r)
  (* ---- counters *)
  | "gcounter", "inc_many", [c; x; st; d] -> cmp (=) show_dot (gc_inc_many (vc_sx c) (n_sx x) (n_sx st)) (dot_sx d)
  | "gcounter", "read", [c; r] -> cmp (=) show_n (gc_read (vc_sx c)) (n_sx r)
  | "gcounter", "bigread", [c; r] -> cmp (=) show_n (gc_read (vc_sx c)) (n_sx r)
  | "pncounter", "bigread", [st; r] ->
      (* read = P - N as a signed number: compared as P = N + read (or N = P + |read|) in N arithmetic *)
      let ps = gc_read (vc_sx (field "p" st)) and ns = gc_read (vc_sx (field "n" st)) in
      (match r with
       | A str when String.length str > 0 && str.[0] = '-' -> cmp (=) show_n ns (n_add ps (n_of_decimal (String.sub str 1 (String.length str - 1))))
       | A str -> cmp (=) show_n ps (n_add ns (n_of_decimal str))
       | _ -> bad "bigread")
  | "pncounter", _, _ ->
      let pn x = { pn_p = vc_sx (field "p" x); pn_n = vc_sx (field "n" x) } in
      let show p = Printf.sprintf "pn{%s %s}" (show_vc p.pn_p) (show_vc p.pn_n) in
      let op x = { pn_dot = dot_sx (field "dot" x); pn_dir = (match variant (field "dir" x) with "Pos" -> DPos | _ -> DNeg) } in
      let show_op o = show_dot o.pn_dot ^ (match o.pn_dir with DPos -> "+" | DNeg -> "-") in
      (match fn, a with
       | "apply", [s; o; r] -> cmp pn_eqb show (pn_apply (pn s) (op o)) (pn r)
       | "merge", [s; o; r] -> cmp pn_eqb show (pn_merge (pn s) (pn o)) (pn r)
       | "reset", [s; c; r] -> cmp pn_eqb show (pn_reset (pn s) (vc_sx c)) (pn r)
       | "inc", [s; x; _; o] -> cmp (=) show_op (pn_inc (pn s) (n_sx x)) (op o)
       | "dec", [s; x; _; o] -> cmp (=) show_op (pn_dec (pn s) (n_sx x)) (op o)
       | "inc_many", [s; x; st; o] -> cmp (=) show_op (pn_inc_many (pn s) (n_sx x) (n_sx st)) (op o)
       | "dec_many", [s; x; st; o] -> cmp (=) show_op (pn_dec_many (pn s) (n_sx x) (n_sx st)) (op o)
       | "read", [s; r] -> cmp (=) string_of_int (int_of_z (pn_read (pn s))) (int_sx r)
       | _ -> bad "unknown call %s" f)
  (* ---- gset, registers *)
  | "gset", "apply", [s; x; r] -> cmp nset_eqb show_nset (gs_apply (nset_sx s) (n_sx x)) (nset_sx r)
  | "gset", "merge", [s; o; r] -> cmp nset_eqb show_nset (gs_merge (nset_sx s) (nset_sx o)) (nset_sx r)
  | "gset", "read", [s; r] -> cmp nset_eqb show_nset (nset_sx s) (nset_sx r)
  | "gset", "contains", [s; x; r] -> cmpb (gs_contains (nset_sx s) (n_sx x)) (bool_sx r)
  | "maxreg", "apply", [s; x; r] -> cmp (=) show_n (max_update (n_sx (field "val" s)) (n_sx x)) (n_sx (field "val" r))
  | "maxreg", "merge", [s; o; r] -> cmp (=) show_n (max_update (n_sx (field "val" s)) (n_sx (field "val" o))) (n_sx (field "val" r))
  | "minreg", "apply", [s; x; r] -> cmp (=) show_n (min_update (n_sx (field "val" s)) (n_sx x)) (n_sx (field "val" r))
  | "minreg", "merge", [s; o; r] -> cmp (=) show_n (min_update (n_sx (field "val" s)) (n_sx (field "val" o))) (n_sx (field "val" r))
  | ("maxreg" | "minreg"), "read", [s; r] -> cmp (=) show_n (n_sx (field "val" s)) (n_sx r)
  | "lww", _, _ ->
      let lw x = { lww_val = n_sx (field "val" x); lww_marker = n_sx (field "marker" x) } in
      let show l = Printf.sprintf "lww{%s@%s}" (show_n l.lww_val) (show_n l.lww_marker) in
      (match fn, a with
       | ("apply" | "merge"), [s; o; r] -> cmp lww_eqb show (lww_merge (lw s) (lw o)) (lw r)
       | ("validate_op" | "validate_merge"), [s; o; r] ->
           let o = lw o in cmpb (not (lww_conflict (lw s) o.lww_val o.lww_marker)) (okerr r)
       | _ -> bad "unknown call %s" f)
  (* ---- contexts *)
  | "ctx", "derive_add", [r; x; c] ->
      cmp addctx_eqb show_addctx (derive_add_ctx (readctx_sx unit_sx r) (n_sx x)) (addctx_sx c)
  | "ctx", "split", [r; v; bare] ->
      let a = readctx_sx unit_sx (L [A "R"; L [A "add_clock"; field "add_clock" r]; L [A "rm_clock"; field "rm_clock" r]; L [A "val"; L []]])
      and b = readctx_sx unit_sx bare in
      if not (vc_eqb a.add_clock b.add_clock && vc_eqb a.rm_clock b.rm_clock) then Some "split changes the clocks"
      else if show_sx (field "val" r) <> show_sx v then Some "split changes the value" else None
  | "ctx", "derive_rm", [r; c] -> cmpvc (derive_rm_ctx (readctx_sx unit_sx r)) (rmctx_sx c)
  (* ---- orswot *)
  | "orswot", "apply", [s; o; r] -> cmp orswot_eqb show_orswot (oapply (orswot_sx s) (oop_sx o)) (orswot_sx r)
  | "orswot", "merge", [s; o; r] -> cmp orswot_eqb show_orswot (omerge (orswot_sx s) (orswot_sx o)) (orswot_sx r)
  | "orswot", "reset", [s; c; r] -> cmp orswot_eqb show_orswot (oreset (orswot_sx s) (vc_sx c)) (orswot_sx r)
  | "orswot", "validate_op", [s; o; r] -> cmp (=) show_range (ovalidate_op (orswot_sx s) (oop_sx o)) (range_sx r)
  | "orswot", "validate_merge", [s; o; r] -> cmpb (ovalidate_merge (orswot_sx s) (orswot_sx o)) (okerr r)
  | "orswot", "read", [s; r] -> cmp (readctx_eqb nset_eqb) (show_readctx show_nset) (oread (orswot_sx s)) (readctx_sx nset_sx r)
  | "orswot", "read_ctx", [s; r] -> cmp (readctx_eqb (=)) (show_readctx (fun () -> "()")) (oread_ctx (orswot_sx s)) (readctx_sx unit_sx r)
  | "orswot", "contains", [s; m; r] -> cmp (readctx_eqb (=)) (show_readctx string_of_bool) (ocontains (orswot_sx s) (n_sx m)) (readctx_sx bool_sx r)
  | "orswot", "clock", [s; r] -> cmpvc (orswot_sx s).oclock (vc_sx r)
  | "orswot", "iter", [s; r] ->
      let norm l = List.sort compare (List.map (fun (c : n readctx) -> (show_vc c.add_clock, show_vc c.rm_clock, int_of_n c.rval)) l) in
      cmp (=) (fun l -> String.concat "|" (List.map (fun (a, b, m) -> Printf.sprintf "%d:%s%s" m a b) l))
        (norm (oiter (orswot_sx s))) (norm (List.map (readctx_sx n_sx) (seq r)))
  | "orswot", "add", [m; c; o] -> cmp oop_eqb show_oop (oadd (n_sx m) (addctx_sx c)) (oop_sx o)
  | "orswot", "add_all", [ms; c; o] -> cmp oop_eqb show_oop (oadd_all (nlist_sx ms) (addctx_sx c)) (oop_sx o)
  | "orswot", "rm", [m; c; o] -> cmp oop_eqb show_oop (orm (n_sx m) (rmctx_sx c)) (oop_sx o)
  | "orswot", "rm_all", [ms; c; o] -> cmp oop_eqb show_oop (orm_all (nlist_sx ms) (rmctx_sx c)) (oop_sx o)
  (* ---- mvreg *)
  (* states are compared up to the order of the value vector: the order is not observable through
     the properties (reads are multisets, == is order-insensitive) and every model function is
     proved proper for permutation (proofs/MVReg.v) *)
  | "mvreg", "apply", [s; o; r] -> cmp mv_perm_eqb show_mv (mvapply (mv_sx s) (mvop_sx o)) (mv_sx r)
  | "mvreg", "merge", [s; o; r] -> cmp mv_perm_eqb show_mv (mvmerge (mv_sx s) (mv_sx o)) (mv_sx r)
  | "mvreg", "reset", [s; c; r] -> cmp mv_perm_eqb show_mv (mvreset (mv_sx s) (vc_sx c)) (mv_sx r)
  | "mvreg", "read", [s; r] ->
      cmp (readctx_eqb (=)) (show_readctx (fun l -> String.concat "," (List.map show_n l))) (mvread (mv_sx s)) (readctx_sx nlist_sx r)
  | "mvreg", "read_ctx", [s; r] -> cmp (readctx_eqb (=)) (show_readctx (fun () -> "()")) (mvread_ctx (mv_sx s)) (readctx_sx unit_sx r)
  | "mvreg", "write", [v; c; o] -> cmp mvop_eqb show_mvop (mvwrite (n_sx v) (addctx_sx c)) (mvop_sx o)
  | "mvreg", "eq", [s; o; r] ->
      let m = match mveq (mv_sx s) (mv_sx o) with Some true -> "true" | Some false -> "false" | None -> "panic" in
      cmp (=) (fun x -> x) m (atom r)
  (* ---- maps *)
  | "mapmv", _, _ -> map_call mv_inst fn a
  | "mapor", _, _ -> map_call or_inst fn a
  | "mapmm", _, _ -> map_call (map_inst mv_inst) fn a
  | "mapmo", _, _ -> map_call (map_inst or_inst) fn a
  (* ---- identifiers, glist, list *)
  | "ident", "cmp", [x; y; r] -> cmp (=) show_ord (Some (idcmp ncompare (ident_sx n_sx x) (ident_sx n_sx y))) (ord_sx r)
  | "ident", "eq", [x; y; r] -> cmpb (ident_sx n_sx x = ident_sx n_sx y) (bool_sx r)
  | "ident", "between", [lo; hi; m; r] ->
      cmp (=) (show_ident show_n) (between ncompare (opt_sx (ident_sx n_sx) lo) (opt_sx (ident_sx n_sx) hi) (n_sx m)) (ident_sx n_sx r)
  | "glist", "apply", [g; o; r] -> cmp (=) show_glist (gl_apply (glist_sx g) (ident_sx n_sx (field "id" o))) (glist_sx r)
  | "glist", "merge", [g; o; r] -> cmp (=) show_glist (gl_merge (glist_sx g) (glist_sx o)) (glist_sx r)
  | "glist", "read", [g; r] ->
      let m = gl_read (glist_sx g) in
      let i = (match r with A "panic" -> None | _ -> Some (nlist_sx r)) in
      cmp (=) (function None -> "panic" | Some l -> String.concat "," (List.map show_n l)) m i
  | "glist", "get", [g; ix; r] -> cmp (=) (function None -> "none" | Some i -> show_ident show_n i) (gl_get (glist_sx g) (nat_of_int (int_sx ix))) (opt_sx (ident_sx n_sx) r)
  | "glist", "is_empty", [g; r] -> cmpb (gl_is_empty (glist_sx g)) (bool_sx r)
  | "glist", ("first" | "last"), [g; r] ->
      cmp (=) (function None -> "none" | Some i -> show_ident show_n i) ((if fn = "first" then gl_first else gl_last) (glist_sx g)) (opt_sx (ident_sx n_sx) r)
  | "glist", "iter", [g; r] -> cmp (=) show_glist (glist_sx g) (glist_sx r)
  | "glist", "read_into", [g; r] ->
      cmp (=) (function None -> "panic" | Some l -> String.concat "," (List.map show_n l)) (gl_read (glist_sx g)) (match r with A "panic" -> None | _ -> Some (nlist_sx r))
  | "ident", "value", [x; r] -> cmp (=) (function None -> "none" | Some m -> show_n m) (idvalue (ident_sx n_sx x)) (opt_sx n_sx r)
  | "glist", "len", [g; r] -> cmp (=) string_of_int (List.length (glist_sx g)) (int_sx r)
  | "glist", "insert", [g; ix; x; r] ->
      let m = gl_insert (glist_sx g) (nat_of_int (int_sx ix)) (n_sx x) in
      let i = (match r with A "panic" -> None | _ -> Some (ident_sx n_sx (field "id" r))) in
      cmp (=) (function None -> "panic" | Some i -> show_ident show_n i) m i
  | "glist", "insert_after", [g; id; x; r] ->
      cmp (=) (show_ident show_n) (gl_insert_after (glist_sx g) (opt_sx (ident_sx n_sx) id) (n_sx x)) (ident_sx n_sx (field "id" r))
  | "glist", "insert_before", [g; id; x; r] ->
      cmp (=) (show_ident show_n) (gl_insert_before (glist_sx g) (opt_sx (ident_sx n_sx) id) (n_sx x)) (ident_sx n_sx (field "id" r))
  | "list", _, _ ->
      let show_lop = function
        | LInsert (i, v) -> Printf.sprintf "Insert(%s,%s)" (show_ident show_od i) (show_n v)
        | LDelete (i, d) -> Printf.sprintf "Delete(%s,%s)" (show_ident show_od i) (show_dot d) in
      let sopt f = function None -> "panic/none" | Some x -> f x in
      (match fn, a with
       | "apply", [s; o; r] ->
           let i = (match r with A "panic" -> None | _ -> Some (clist_sx r)) in
           cmp (fun a b -> match a, b with None, None -> true | Some a, Some b -> clist_eqb a b | _ -> false)
             (sopt show_clist) (l_apply (clist_sx s) (lop_sx o)) i
       | "validate_op", [s; o; r] ->
           let i = (match r with A "panic" -> None | _ -> Some (range_sx r)) in
           cmp (=) (sopt show_range) (l_validate_op (clist_sx s) (lop_sx o)) i
       | "insert_index", [s; ix; v; act; o] ->
           cmp (=) show_lop (l_insert_index (clist_sx s) (nat_of_int (int_sx ix)) (n_sx v) (n_sx act)) (lop_sx o)
       | "append", [s; v; act; o] -> cmp (=) show_lop (l_append (clist_sx s) (n_sx v) (n_sx act)) (lop_sx o)
       | "delete_index", [s; ix; act; o] ->
           cmp (=) (sopt show_lop) (l_delete_index (clist_sx s) (nat_of_int (int_sx ix)) (n_sx act)) (opt_sx lop_sx o)
       | "read", [s; r] -> cmp (=) (fun l -> String.concat "," (List.map show_n l)) (l_read (clist_sx s)) (nlist_sx r)
       | "len", [s; r] -> cmp (=) string_of_int (int_of_nat (l_len (clist_sx s))) (int_sx r)
       | "position", [s; ix; r] -> cmp (=) (sopt show_n) (l_position (clist_sx s) (nat_of_int (int_sx ix))) (opt_sx n_sx r)
       | "is_empty", [s; r] -> cmpb (l_is_empty (clist_sx s)) (bool_sx r)
       | ("iter" | "read_into"), [s; r] -> cmp (=) (fun l -> String.concat "," (List.map show_n l)) (l_read (clist_sx s)) (nlist_sx r)
       | "iter_entries", [s; r] ->
           let ent p = (match seq p with [i; v] -> (ident_sx orddot_sx i, n_sx v) | _ -> bad "list entry") in
           cmp (=) (fun l -> String.concat ", " (List.map (fun (i, v) -> show_ident show_od i ^ "=" ^ show_n v) l))
             (l_iter_entries (clist_sx s)) (List.map ent (seq r))
       | ("first" | "last"), [s; r] ->
           cmp (=) (sopt show_n) ((if fn = "first" then l_first else l_last) (clist_sx s)) (opt_sx n_sx r)
       | ("first_entry" | "last_entry"), [s; r] ->
           let ent p = (match seq p with [i; v] -> (ident_sx orddot_sx i, n_sx v) | _ -> bad "list entry") in
           cmp (=) (sopt (fun (i, v) -> show_ident show_od i ^ "=" ^ show_n v))
             ((if fn = "first_entry" then l_first_entry else l_last_entry) (clist_sx s)) (opt_sx ent r)
       | "position_entry", [s; id; r] ->
           cmp (=) (sopt string_of_int) (Option.map int_of_nat (l_position_entry (clist_sx s) (ident_sx orddot_sx id))) (opt_sx int_sx r)
       | "get", [s; id; r] -> cmp (=) (sopt show_n) (l_get (clist_sx s) (ident_sx orddot_sx id)) (opt_sx n_sx r)
       | _ -> bad "unknown call %s" f)
  (* ---- merkle *)
  | "merkle", "write", [_; _; nd; h] -> register_node h (mnode_sx nd); None
  | "merkle", "apply", [s; nd; h; r] ->
      let node = mnode_sx nd in
      register_node h node;
      let st = merkle_sx s in
      let r = merkle_sx r in
      (match mk_apply model_hash st node with
       | None -> Some "model=out-of-fuel"
       | Some m -> cmp merkle_eqb show_merkle m r)
  | "merkle", "merge", [s; o; r] ->
      let st = merkle_sx s in
      let ot = merkle_sx o in
      let r = merkle_sx r in
      (match mk_merge model_hash st ot with
       | None -> Some "model=out-of-fuel"
       | Some m -> cmp merkle_eqb show_merkle m r)
  | "merkle", "validate_op", [s; nd; h; r] ->
      let node = mnode_sx nd in
      register_node h node;
      let missing = mk_missing (merkle_sx s) node in
      (match r with
       | A "ok" -> cmp (=) string_of_int (List.length (nset_to_list missing)) 0
       | L [A "missing"; hx] -> cmpb (List.mem (hid hx) (nset_to_list missing)) true
       | x -> bad "merkle validate %s" (show_sx x))
  | "merkle", "read", [s; hs; _] ->
      let st = merkle_sx s in
      cmp nset_eqb show_nset (nset_of_list (List.map fst (nmap_to_list (mk_read st)))) (nset_of_list (List.map hid (seq hs)))
  | "merkle", "content", [s; hn; ns; vs; emp] ->
      (* hashes_and_nodes / nodes / values / is_empty of read(): the heads with their nodes *)
      let st = merkle_sx s in
      let m = List.sort compare (List.map (fun (h, nd) -> (int_of_n h, node_key nd)) (nmap_to_list (mk_read st))) in
      let i_hn = List.sort compare (List.map (fun p -> match seq p with [h; nd] -> (int_of_n (hid h), node_key (mnode_sx nd)) | _ -> bad "content entry") (seq hn)) in
      let i_ns = List.sort compare (List.map (fun nd -> node_key (mnode_sx nd)) (seq ns)) in
      let i_vs = List.sort compare (List.map (fun v -> int_of_n (bytes_n v)) (seq vs)) in
      let show l = String.concat ";" (List.map (fun (h, (cs, v)) -> Printf.sprintf "%d:([%s],%d)" h (String.concat "," (List.map string_of_int cs)) v) l) in
      if i_hn <> m then Some (Printf.sprintf "model=%s impl(hashes_and_nodes)=%s" (show m) (show i_hn))
      else if i_ns <> List.sort compare (List.map snd m) then Some "nodes() differs from the nodes of the heads"
      else if i_vs <> List.sort compare (List.map (fun (_, (_, v)) -> v) m) then Some "values() differs from the values of the heads"
      else if bool_sx emp <> (m = []) then Some "Content::is_empty differs"
      else None
  | "merkle", "num_nodes", [s; r] -> cmp (=) string_of_int (int_of_nat (mk_num_nodes (merkle_sx s))) (int_sx r)
  | "merkle", "num_orphans", [s; r] -> cmp (=) string_of_int (int_of_nat (mk_num_orphans (merkle_sx s))) (int_sx r)
  | "merkle", "node", [s; h; r] ->
      cmp (fun a b -> match a, b with None, None -> true | Some a, Some b -> mnode_eqb a b | _ -> false)
        (function None -> "none" | Some nd -> show_nset nd.nchildren ^ "/" ^ show_n nd.nvalue)
        (mk_node (merkle_sx s) (hid h)) (opt_sx mnode_sx r)
  | "merkle", "children", [s; h; r] ->
      cmp nset_eqb show_nset (nset_of_list (List.map fst (nmap_to_list (mk_children (merkle_sx s) (hid h))))) (nset_of_list (List.map hid (seq r)))
  | "merkle", "parents", [s; h; r] ->
      cmp nset_eqb show_nset (nset_of_list (List.map fst (nmap_to_list (mk_parents (merkle_sx s) (hid h))))) (nset_of_list (List.map hid (seq r)))
  | "serde", "op", [_; _; r] -> if r = A "ok" then None else Some ("an op does not survive the serde_json round trip: " ^ atom r)
  | "serde", _, _ -> !serde_hook f a
  | _ -> bad "unknown call %s/%d" f (List.length a)

(* ------------------------------------------------------------------ serde: real JSON vs the codec model *)
let coq_string_of (str : string) : Model.string =
  let ascii_of c =
    let b i = (Char.code c lsr i) land 1 = 1 in
    Ascii (b 0, b 1, b 2, b 3, b 4, b 5, b 6, b 7) in
  let rec go i = if i >= String.length str then EmptyString else String (ascii_of str.[i], go (i + 1)) in
  go 0
let ostring_of_bytes x = String.concat "" (List.map (fun b -> String.make 1 (Char.chr (int_sx b))) (tagged "str" x))
let is_digits str = str <> "" && String.for_all (fun c -> c >= '0' && c <= '9') str
(* generic conversion of serde_json::Value (rendered by the harness) to the model's json *)
let rec json_sx (x : sx) : json =
  match x with
  | L [] -> JNull
  | A "true" -> JBool true
  | A "false" -> JBool false
  | A str when String.length str > 17 && str.[0] <> '-' -> JNum (z_of_n (n_of_decimal str))
  | A _ -> JNum (z_of_int (int_sx x))
  | L (A "str" :: _) -> JStr (coq_string_of (ostring_of_bytes x))
  | L (A "L" :: l) -> JArr (List.map json_sx l)
  | L (A "M" :: l) ->
      JObj (List.map (function
        | L [k; v] ->
            let ks = ostring_of_bytes k in
            ((if is_digits ks then KNum (n_of_int (int_of_string ks)) else KField (coq_string_of ks)), json_sx v)
        | y -> bad "json object member %s" (show_sx y)) l)
  | _ -> bad "json %s" (show_sx x)
(* MerkleReg: 32-byte hashes and byte-vector values become single numbers *)
let merkle_json_sx (x : sx) : json =
  let jh h = JNum (z_of_n (hid h)) in
  let node nd = JObj [ (KField (coq_string_of "children"), JArr (List.map jh (seq (snd (List.find (fun (k, _) -> ostring_of_bytes k = "children") (pairs_of_map nd))))));
                       (KField (coq_string_of "value"), JNum (z_of_n (bytes_n (snd (List.find (fun (k, _) -> ostring_of_bytes k = "value") (pairs_of_map nd)))))) ] in
  let get name = snd (List.find (fun (k, _) -> ostring_of_bytes k = name) (pairs_of_map x)) in
  let pairs v = JArr (List.map (fun p -> match seq p with [h; nd] -> JArr [jh h; node nd] | _ -> bad "dag pair") (seq v)) in
  JObj [ (KField (coq_string_of "roots"), JArr (List.map jh (seq (get "roots"))));
         (KField (coq_string_of "dag"), pairs (get "dag"));
         (KField (coq_string_of "orphans"), pairs (get "orphans")) ]

type any_codec = AC : 'v codec * (sx -> 'v) * ('v -> 'v -> bool) -> any_codec
let codec_of (name : string) : any_codec option =
  let lw x = { lww_val = n_sx (field "val" x); lww_marker = n_sx (field "marker" x) } in
  let pn x = { pn_p = vc_sx (field "p" x); pn_n = vc_sx (field "n" x) } in
  match name with
  | "vclock" -> Some (AC (vclock_codec, vc_sx, vc_eqb))
  | "gcounter" -> Some (AC (gcounter_codec, vc_sx, vc_eqb))
  | "pncounter" -> Some (AC (pncounter_codec, pn, pn_eqb))
  | "gset" -> Some (AC (gset_codec, nset_sx, nset_eqb))
  | "maxreg" | "minreg" -> Some (AC (reg_codec, (fun x -> n_sx (field "val" x)), (=)))
  | "lww" -> Some (AC (lww_codec, lw, lww_eqb))
  | "orswot" -> Some (AC (orswot_codec, orswot_sx, orswot_eqb))
  | "mvreg" -> Some (AC (mvreg_codec, mv_sx, mv_eqb))
  | "mapmv" -> Some (AC (codec_mapmv, cmap_sx mv_inst, cmap_eqb mv_dec))
  | "mapor" -> Some (AC (codec_mapor, cmap_sx or_inst, cmap_eqb orswot_dec))
  | "mapmm" -> let i = map_inst mv_inst in Some (AC (codec_mapmm, cmap_sx i, cmap_eqb i.v_dec))
  | "mapmo" -> let i = map_inst or_inst in Some (AC (codec_mapmo, cmap_sx i, cmap_eqb i.v_dec))
  | "glist" -> Some (AC (codec_glist, glist_sx, (=)))
  | "list" -> Some (AC (codec_list, clist_sx, clist_eqb))
  | "merkle" -> Some (AC (merkle_codec, merkle_sx, merkle_eqb))
  | _ -> None

let () = serde_hook := (fun _ a ->
  match a with
  | A name :: s :: rest ->
      (match codec_of name with
       | None -> None
       | Some (AC (c, parse, eqb)) ->
           let v = parse s in
           let e = enc c v in
           (match rest with
            | [A "err"] ->
                if e = None then None else Some "model=serialisable impl=error"
            | A "ok" :: j :: back :: _ ->
                let real = if name = "merkle" then merkle_json_sx j else json_sx j in
                (match e with
                 | None -> Some "model=not-serialisable impl=ok"
                 | Some je ->
                     (match dec c real with
                      | None -> Some "the model decoder rejects the real serde_json output"
                      | Some v' when not (eqb v v') -> Some "the model decoder reads the real serde_json output as a different value"
                      | Some _ ->
                          if int_of_nat (json_size je) <> int_of_nat (json_size real) then
                            Some (Printf.sprintf "model encoding has %d JSON nodes, the real output %d" (int_of_nat (json_size je)) (int_of_nat (json_size real)))
                          else if not (eqb v (parse back)) then Some "the value restored by the implementation differs from the original (as model values)"
                          else None))
            | A "deerr" :: _ -> Some "impl cannot deserialise its own output"
            | _ -> None))
  | _ -> None)

(* ------------------------------------------------------------------ in-kernel cross-check (cases.v)
   A sample of the replayed calls is also printed as Coq terms; `coqc` evaluates the same
   model functions with vm_compute inside the kernel, cross-checking the extraction. *)
let coq_n x = string_of_int (int_of_n x)
let coq_vc c = "(vc_of_list [" ^ String.concat "; " (List.map (fun (a, n) -> "(" ^ coq_n a ^ ", " ^ coq_n n ^ ")") (vc_to_list c)) ^ "])"
let coq_nlist l = "[" ^ String.concat "; " (List.map coq_n l) ^ "]"
let coq_dot d = "(Dot " ^ coq_n d.dactor ^ " " ^ coq_n d.dcounter ^ ")"
let coq_orswot s =
  "(Orswot " ^ coq_vc s.oclock ^ " (nmap_of_list [" ^
  String.concat "; " (List.map (fun (m, c) -> "(" ^ coq_n m ^ ", " ^ coq_vc c ^ ")") (nmap_to_list s.oentries)) ^ "]) (cmap_of_list [" ^
  String.concat "; " (List.map (fun (c, ms) -> "(" ^ coq_vc c ^ ", nset_of_list " ^ coq_nlist (nset_to_list ms) ^ ")") (cmap_to_list s.odeferred)) ^ "]))"
let coq_oop = function
  | OAdd (d, ms) -> "(OAdd " ^ coq_dot d ^ " " ^ coq_nlist ms ^ ")"
  | ORm (c, ms) -> "(ORm " ^ coq_vc c ^ " " ^ coq_nlist ms ^ ")"
let coq_mv s = "[" ^ String.concat "; " (List.map (fun (c, v) -> "(" ^ coq_vc c ^ ", " ^ coq_n v ^ ")") s) ^ "]"
let coq_cmap (cv : 'v -> string) (s : 'v cmap) =
  "(CMap " ^ coq_vc s.mclock ^ " (nmap_of_list [" ^
  String.concat "; " (List.map (fun (k, e) -> "(" ^ coq_n k ^ ", MEntry " ^ coq_vc e.eclock ^ " " ^ cv e.eval ^ ")") (nmap_to_list s.mentries)) ^ "]) (cmap_of_list [" ^
  String.concat "; " (List.map (fun (c, ks) -> "(" ^ coq_vc c ^ ", nset_of_list " ^ coq_nlist (nset_to_list ks) ^ ")") (cmap_to_list s.mdeferred)) ^ "]))"
let coq_mop (co : 'o -> string) = function
  | MUp (d, k, o) -> "(MUp " ^ coq_dot d ^ " " ^ coq_n k ^ " " ^ co o ^ ")"
  | MRm (c, ks) -> "(MRm " ^ coq_vc c ^ " (nset_of_list " ^ coq_nlist (nset_to_list ks) ^ "))"
let coq_mvop = function MVPut (c, v) -> "(MVPut " ^ coq_vc c ^ " " ^ coq_n v ^ ")"
(* rationals as Coq terms; a numerator / denominator beyond 60 bits is not sampled *)
let rec pos_bits = function XH -> 1 | XO p | XI p -> 1 + pos_bits p
let coq_pos p = if pos_bits p > 60 then bad "big" else string_of_int (int_of_pos p)
let coq_z = function Z0 -> "0" | Zpos p -> coq_pos p | Zneg p -> "(-" ^ coq_pos p ^ ")"
let coq_qc (q : qc) = "(mkqc (" ^ coq_z q.qnum ^ ")%Z (" ^ coq_pos q.qden ^ ")%positive)"
let coq_ident (cm : 'm -> string) i = "[" ^ String.concat "; " (List.map (fun (r, m) -> "(" ^ coq_qc r ^ ", " ^ cm m ^ ")") i) ^ "]"
let coq_gident i = "(" ^ coq_ident coq_n i ^ " : list (Qc * N))"
let coq_od (a, c) = "(" ^ coq_n a ^ ", " ^ coq_n c ^ ")"
let coq_lident i = "(" ^ coq_ident coq_od i ^ " : list (Qc * (N * N)))"
let coq_opt f = function None -> "None" | Some x -> "(Some " ^ f x ^ ")"
let coq_glist g = "([" ^ String.concat "; " (List.map coq_gident g) ^ "] : list (list (Qc * N)))"
let coq_clist (l : clist) =
  "(CList [" ^ String.concat "; " (List.map (fun (i, v) -> "(" ^ coq_lident i ^ ", " ^ coq_n v ^ ")") l.lseq) ^ "] " ^ coq_vc l.lclock ^ ")"
let coq_lop = function
  | LInsert (i, v) -> "(LInsert " ^ coq_lident i ^ " " ^ coq_n v ^ ")"
  | LDelete (i, d) -> "(LDelete " ^ coq_lident i ^ " " ^ coq_dot d ^ ")"
(* MerkleReg and codec values as Coq terms *)
let coq_nset s = "(nset_of_list " ^ coq_nlist (nset_to_list s) ^ ")"
let coq_mnode nd = "(MNode " ^ coq_nset nd.nchildren ^ " " ^ coq_n nd.nvalue ^ ")"
let coq_nodemap m = "(nmap_of_list [" ^ String.concat "; " (List.map (fun (h, nd) -> "(" ^ coq_n h ^ ", " ^ coq_mnode nd ^ ")") (nmap_to_list m)) ^ "])"
let coq_merkle s = "(Merkle " ^ coq_nset s.mk_roots ^ " " ^ coq_nodemap s.mk_dag ^ " " ^ coq_nodemap s.mk_orphans ^ ")"
let ocaml_string_of (s : Model.string) : string =
  let b = Buffer.create 16 in
  let rec go = function
    | EmptyString -> ()
    | String (Ascii (b0, b1, b2, b3, b4, b5, b6, b7), r) ->
        let bit x i = if x then 1 lsl i else 0 in
        Buffer.add_char b (Char.chr (bit b0 0 + bit b1 1 + bit b2 2 + bit b3 3 + bit b4 4 + bit b5 5 + bit b6 6 + bit b7 7)); go r in
  go s; Buffer.contents b
let coq_str s =
  let o = ocaml_string_of s in
  String.iter (fun c -> if not ((c >= 'a' && c <= 'z') || (c >= 'A' && c <= 'Z') || (c >= '0' && c <= '9') || c = '_' || c = '-' || c = ' ') then bad "string") o;
  "\"" ^ o ^ "\"%string"
let rec coq_json = function
  | JNull -> "JNull"
  | JBool b -> "(JBool " ^ string_of_bool b ^ ")"
  | JNum z -> "(JNum (" ^ coq_z z ^ ")%Z)"
  | JStr s -> "(JStr " ^ coq_str s ^ ")"
  | JArr l -> "(JArr [" ^ String.concat "; " (List.map coq_json l) ^ "])"
  | JObj l -> "(JObj [" ^ String.concat "; " (List.map (fun (k, j) ->
      "(" ^ (match k with KField s -> "KField " ^ coq_str s | KNum n -> "KNum " ^ coq_n n) ^ ", " ^ coq_json j ^ ")") l) ^ "])"
let coq_ord = function None -> "None" | Some Lt -> "(Some Lt)" | Some Eq -> "(Some Eq)" | Some Gt -> "(Some Gt)"
(* evaluations of the extracted SPECIFICATIONS by the monitors, sampled for the in-kernel cross-check *)
let spec_case_hook : (string -> unit) ref = ref (fun _ -> ())

let coq_case (f : string) (a : sx list) : string option =
  try
    (match f, a with
     | "ident.cmp", [x; y; r] ->
         Some ("bool_decide (Some (idcmp ncompare " ^ coq_gident (ident_sx n_sx x) ^ " " ^ coq_gident (ident_sx n_sx y) ^ ") = " ^ coq_ord (ord_sx r) ^ ")")
     | "ident.between", [lo; hi; m; r] ->
         Some ("bool_decide (between ncompare " ^ coq_opt coq_gident (opt_sx (ident_sx n_sx) lo) ^ " " ^ coq_opt coq_gident (opt_sx (ident_sx n_sx) hi) ^ " " ^ coq_n (n_sx m) ^ " = " ^ coq_gident (ident_sx n_sx r) ^ ")")
     | "glist.apply", [g; o; r] ->
         Some ("bool_decide (gl_apply " ^ coq_glist (glist_sx g) ^ " " ^ coq_gident (ident_sx n_sx (field "id" o)) ^ " = " ^ coq_glist (glist_sx r) ^ ")")
     | "glist.merge", [g; o; r] ->
         Some ("bool_decide (gl_merge " ^ coq_glist (glist_sx g) ^ " " ^ coq_glist (glist_sx o) ^ " = " ^ coq_glist (glist_sx r) ^ ")")
     | "glist.insert", [g; ix; x; r] when r <> A "panic" ->
         Some ("bool_decide (gl_insert " ^ coq_glist (glist_sx g) ^ " " ^ string_of_int (int_sx ix) ^ "%nat " ^ coq_n (n_sx x) ^ " = Some " ^ coq_gident (ident_sx n_sx (field "id" r)) ^ ")")
     | "list.apply", [s; o; r] when r <> A "panic" ->
         Some ("bool_decide (l_apply " ^ coq_clist (clist_sx s) ^ " " ^ coq_lop (lop_sx o) ^ " = Some " ^ coq_clist (clist_sx r) ^ ")")
     | "list.insert_index", [s; ix; v; act; o] ->
         Some ("bool_decide (l_insert_index " ^ coq_clist (clist_sx s) ^ " " ^ string_of_int (int_sx ix) ^ "%nat " ^ coq_n (n_sx v) ^ " " ^ coq_n (n_sx act) ^ " = " ^ coq_lop (lop_sx o) ^ ")")
     | "merkle.apply", [s; nd; h; r] ->
         let node = mnode_sx nd in
         Some ("bool_decide (mk_apply (tbl_hash (mk_tbl " ^ coq_merkle (merkle_sx s) ^ " ++ [(" ^ coq_n (hid h) ^ ", " ^ coq_mnode node ^ ")])) " ^ coq_merkle (merkle_sx s) ^ " " ^ coq_mnode node ^ " = Some " ^ coq_merkle (merkle_sx r) ^ ")")
     | "merkle.merge", [s; o; r] ->
         Some ("bool_decide (mk_merge (tbl_hash (mk_tbl " ^ coq_merkle (merkle_sx s) ^ " ++ mk_tbl " ^ coq_merkle (merkle_sx o) ^ ")) " ^ coq_merkle (merkle_sx s) ^ " " ^ coq_merkle (merkle_sx o) ^ " = Some " ^ coq_merkle (merkle_sx r) ^ ")")
     | "serde", (A name :: s :: A "ok" :: j :: _) ->
         let case dec codec v real = Some ("codec_case " ^ dec ^ " " ^ codec ^ " " ^ coq_json real ^ " " ^ v) in
         (match name with
          | "vclock" | "gcounter" -> case "vc_dec" "vclock_codec" (coq_vc (vc_sx s)) (json_sx j)
          | "orswot" -> case "orswot_dec" "orswot_codec" (coq_orswot (orswot_sx s)) (json_sx j)
          | "mvreg" -> case "mv_dec" "mvreg_codec" (coq_mv (mv_sx s)) (json_sx j)
          | "mapmv" -> case "(cmap_dec mv_dec)" "codec_mapmv" (coq_cmap coq_mv (cmap_sx mv_inst s)) (json_sx j)
          | "mapor" -> case "(cmap_dec orswot_dec)" "codec_mapor" (coq_cmap coq_orswot (cmap_sx or_inst s)) (json_sx j)
          | "glist" -> case "glist_dec" "codec_glist" (coq_glist (glist_sx s)) (json_sx j)
          | "list" -> case "clist_eq_dec" "codec_list" (coq_clist (clist_sx s)) (json_sx j)
          | "merkle" -> case "merkle_dec" "merkle_codec" (coq_merkle (merkle_sx s)) (merkle_json_sx j)
          | _ -> None)
     | "vclock.merge", [c; o; r] -> Some ("vc_eqb (vmerge " ^ coq_vc (vc_sx c) ^ " " ^ coq_vc (vc_sx o) ^ ") " ^ coq_vc (vc_sx r))
     | "vclock.reset", [c; o; r] -> Some ("vc_eqb (vreset " ^ coq_vc (vc_sx c) ^ " " ^ coq_vc (vc_sx o) ^ ") " ^ coq_vc (vc_sx r))
     | "vclock.glb", [c; o; r] -> Some ("vc_eqb (vglb " ^ coq_vc (vc_sx c) ^ " " ^ coq_vc (vc_sx o) ^ ") " ^ coq_vc (vc_sx r))
     | "vclock.intersection", [c; o; r] -> Some ("vc_eqb (vintersection " ^ coq_vc (vc_sx c) ^ " " ^ coq_vc (vc_sx o) ^ ") " ^ coq_vc (vc_sx r))
     | "vclock.apply", [c; d; r] -> Some ("vc_eqb (vapply " ^ coq_vc (vc_sx c) ^ " " ^ coq_dot (dot_sx d) ^ ") " ^ coq_vc (vc_sx r))
     | "gcounter.merge", [c; o; r] -> Some ("vc_eqb (vmerge " ^ coq_vc (vc_sx c) ^ " " ^ coq_vc (vc_sx o) ^ ") " ^ coq_vc (vc_sx r))
     | "gcounter.apply", [c; d; r] -> Some ("vc_eqb (vapply " ^ coq_vc (vc_sx c) ^ " " ^ coq_dot (dot_sx d) ^ ") " ^ coq_vc (vc_sx r))
     | "vclock.clone_without", [c; o; r] -> Some ("vc_eqb (vclone_without " ^ coq_vc (vc_sx c) ^ " " ^ coq_vc (vc_sx o) ^ ") " ^ coq_vc (vc_sx r))
     | "vclock.cmp", [c; o; r] ->
         let rs = (match ord_sx r with None -> "None" | Some Lt -> "(Some Lt)" | Some Eq -> "(Some Eq)" | Some Gt -> "(Some Gt)") in
         Some ("bool_decide (vcmp " ^ coq_vc (vc_sx c) ^ " " ^ coq_vc (vc_sx o) ^ " = " ^ rs ^ ")")
     | "vclock.concurrent", [c; o; r] -> Some ("Bool.eqb (vconcurrent " ^ coq_vc (vc_sx c) ^ " " ^ coq_vc (vc_sx o) ^ ") " ^ string_of_bool (bool_sx r))
     | "gset.apply", [s; x; r] -> Some ("nset_eqb (gs_apply (nset_of_list " ^ coq_nlist (nset_to_list (nset_sx s)) ^ ") " ^ coq_n (n_sx x) ^ ") (nset_of_list " ^ coq_nlist (nset_to_list (nset_sx r)) ^ ")")
     | "gset.merge", [s; o; r] -> Some ("nset_eqb (gs_merge (nset_of_list " ^ coq_nlist (nset_to_list (nset_sx s)) ^ ") (nset_of_list " ^ coq_nlist (nset_to_list (nset_sx o)) ^ ")) (nset_of_list " ^ coq_nlist (nset_to_list (nset_sx r)) ^ ")")
     | "orswot.validate_merge", [s; o; r] -> Some ("Bool.eqb (ovalidate_merge " ^ coq_orswot (orswot_sx s) ^ " " ^ coq_orswot (orswot_sx o) ^ ") " ^ string_of_bool (okerr r))
     | "mvreg.reset", [s; c; r] -> Some ("mv_perm_eqb (mvreset " ^ coq_mv (mv_sx s) ^ " " ^ coq_vc (vc_sx c) ^ ") " ^ coq_mv (mv_sx r))
     | "mapmv.apply", [s; o; r] ->
         Some ("cmap_eqb mv_dec (mapply mvreg_valops " ^ coq_cmap coq_mv (cmap_sx mv_inst s) ^ " " ^ coq_mop coq_mvop (mop_sx mv_inst o) ^ ") " ^ coq_cmap coq_mv (cmap_sx mv_inst r))
     | "mapmv.merge", [s; o; r] ->
         Some ("cmap_eqb mv_dec (mmerge mvreg_valops " ^ coq_cmap coq_mv (cmap_sx mv_inst s) ^ " " ^ coq_cmap coq_mv (cmap_sx mv_inst o) ^ ") " ^ coq_cmap coq_mv (cmap_sx mv_inst r))
     | "mapor.apply", [s; o; r] ->
         Some ("cmap_eqb orswot_dec (mapply orswot_valops " ^ coq_cmap coq_orswot (cmap_sx or_inst s) ^ " " ^ coq_mop coq_oop (mop_sx or_inst o) ^ ") " ^ coq_cmap coq_orswot (cmap_sx or_inst r))
     | "mapor.merge", [s; o; r] ->
         Some ("cmap_eqb orswot_dec (mmerge orswot_valops " ^ coq_cmap coq_orswot (cmap_sx or_inst s) ^ " " ^ coq_cmap coq_orswot (cmap_sx or_inst o) ^ ") " ^ coq_cmap coq_orswot (cmap_sx or_inst r))
     | "mapor.reset", [s; c; r] ->
         Some ("cmap_eqb orswot_dec (mreset orswot_valops " ^ coq_cmap coq_orswot (cmap_sx or_inst s) ^ " " ^ coq_vc (vc_sx c) ^ ") " ^ coq_cmap coq_orswot (cmap_sx or_inst r))
     | "orswot.apply", [s; o; r] -> Some ("orswot_eqb (oapply " ^ coq_orswot (orswot_sx s) ^ " " ^ coq_oop (oop_sx o) ^ ") " ^ coq_orswot (orswot_sx r))
     | "orswot.merge", [s; o; r] -> Some ("orswot_eqb (omerge " ^ coq_orswot (orswot_sx s) ^ " " ^ coq_orswot (orswot_sx o) ^ ") " ^ coq_orswot (orswot_sx r))
     | "orswot.reset", [s; c; r] -> Some ("orswot_eqb (oreset " ^ coq_orswot (orswot_sx s) ^ " " ^ coq_vc (vc_sx c) ^ ") " ^ coq_orswot (orswot_sx r))
     | "mvreg.apply", [s; o; r] -> (match mvop_sx o with MVPut (c, v) -> Some ("mv_perm_eqb (mvapply " ^ coq_mv (mv_sx s) ^ " (MVPut " ^ coq_vc c ^ " " ^ coq_n v ^ ")) " ^ coq_mv (mv_sx r)))
     | "mvreg.merge", [s; o; r] -> Some ("mv_perm_eqb (mvmerge " ^ coq_mv (mv_sx s) ^ " " ^ coq_mv (mv_sx o) ^ ") " ^ coq_mv (mv_sx r))
     | _ -> None)
  with Bad _ -> None
